//! C07: joiners.  Directed + randomised scenarios around joining: Welcome with tree in the extension or out of
//! band, several joiners, external commit (tree in the GroupInfo or out of band, with removal of the old self, with an
//! external PSK), key package consumed on first write, the mismatch matrix Welcome / tree / key package, re-joining after
//! removal with the same storage.  Every joiner exchanges messages with the old members and commits right after joining.
use crate::c15::{new_client, Mk};
use crate::util::{Opts, Rng};
use crate::world::*;
use mls_rs::client_builder::MlsConfig;
use mls_rs::group::{CommitEffect, ExportedTree, ReceivedMessage};
use mls_rs::{Group, MlsMessage};
use std::collections::BTreeSet;
use std::panic::{catch_unwind, AssertUnwindSafe};

struct Out {
    fails: Vec<String>,
    cases: u64,
    cover: BTreeSet<String>,
    samples: Vec<String>,
}

fn same_state<C: MlsConfig>(a: &Group<C>, b: &Group<C>) -> Result<(), String> {
    use mls_rs::mls_rs_codec::MlsEncode;
    if a.context().mls_encode_to_vec().unwrap() != b.context().mls_encode_to_vec().unwrap() {
        return Err("group context differs".into());
    }
    if a.export_tree().to_bytes().unwrap() != b.export_tree().to_bytes().unwrap() {
        return Err("ratchet tree differs".into());
    }
    if a.epoch_authenticator().map(|s| s.as_bytes().to_vec()).ok() != b.epoch_authenticator().map(|s| s.as_bytes().to_vec()).ok() {
        return Err("epoch authenticator differs".into());
    }
    if a.export_secret(b"l", b"c", 32).map(|s| s.as_bytes().to_vec()).ok() != b.export_secret(b"l", b"c", 32).map(|s| s.as_bytes().to_vec()).ok() {
        return Err("exported secret differs".into());
    }
    Ok(())
}

fn process_all<C: MlsConfig>(w: &mut World<C>, m: &MlsMessage, skip: usize) -> Result<(), String> {
    for i in 0..w.members.len() {
        if i == skip || w.members[i].group.is_none() {
            continue;
        }
        let mm = m.clone();
        let (r, o) = w.with_group(i, |g| g.process_incoming_message(mm));
        if !r.ok() {
            return Err(format!("member {} rejects: {}", w.members[i].setup.name, r.s()));
        }
        if let Some(ReceivedMessage::Commit(d)) = o {
            if matches!(d.effect, CommitEffect::Removed { .. }) {
                let g = w.members[i].group.take().unwrap();
                w.members[i].ghosts.push(g);
            }
        }
    }
    Ok(())
}

/// every member must refuse `m` and keep its state (context, tree, authenticator)
fn reject_all<C: MlsConfig>(w: &mut World<C>, m: &MlsMessage, skip: usize, what: &str, out: &mut Out) {
    for i in 0..w.members.len() {
        if i == skip || w.members[i].group.is_none() {
            continue;
        }
        let before = w.group(i).clone();
        let mm = m.clone();
        let (r, _) = w.with_group(i, |g| g.process_incoming_message(mm));
        let name = w.members[i].setup.name.clone();
        match r {
            Res::Ok => out.fails.push(format!("member {name} accepted {what}")),
            Res::Panic(p) => out.fails.push(format!("member {name} panics on {what}: {p}")),
            Res::Err(e) => {
                out.cover.insert(format!("{what}:rejected:{e}"));
                if let Err(x) = same_state(w.group(i), &before) {
                    out.fails.push(format!("member {name} rejected {what} but its state changed: {x}"));
                }
            }
        }
    }
}

/// `who` builds an empty commit, applies it, everybody else must accept it and then agree with `who`
fn commit_round<C: MlsConfig>(w: &mut World<C>, who: usize, what: &str, out: &mut Out) -> bool {
    let (r, o) = w.with_group(who, |g| g.commit(vec![]));
    let Some(o) = o else {
        out.fails.push(format!("{what}: cannot commit: {}", r.s()));
        return false;
    };
    let (r, _) = w.with_group(who, |g| g.apply_pending_commit());
    if !r.ok() {
        out.fails.push(format!("{what}: cannot apply its own commit: {}", r.s()));
        return false;
    }
    if let Err(x) = process_all(w, &o.commit_message, who) {
        out.fails.push(format!("{what}: {x}"));
        return false;
    }
    for i in 0..w.members.len() {
        if i != who && w.members[i].group.is_some() {
            if let Err(x) = same_state(w.group(i), w.group(who)) {
                out.fails.push(format!("{what}: member {} after the commit: {x}", w.members[i].setup.name));
                return false;
            }
        }
    }
    true
}

fn kp_ids<C: MlsConfig>(w: &World<C>, j: usize) -> BTreeSet<Vec<u8>> {
    w.members[j].h.kp.inner.key_packages().into_iter().map(|(id, _)| id).collect()
}

/// every Welcome of `wms` with `tree` must be refused by member `j`, whose key packages all stay
fn expect_join_err<C: MlsConfig>(w: &World<C>, j: usize, tree: Option<&Vec<u8>>, wms: &[MlsMessage], what: &str, out: &mut Out) {
    out.cases += 1;
    let before = kp_ids(w, j);
    for wm in wms {
        let t = tree.map(|t| tree_of(t));
        match catch_unwind(AssertUnwindSafe(|| w.members[j].client.join_group(t, wm, None))) {
            Err(_) => out.fails.push(format!("mismatch {what}: join_group panics")),
            Ok(Ok(_)) => out.fails.push(format!("mismatch {what}: {} joined", w.members[j].setup.name)),
            Ok(Err(e)) => {
                out.cover.insert(format!("mismatch:{what}:{}", err_class(&e)));
            }
        }
    }
    if kp_ids(w, j) != before {
        out.fails.push(format!("mismatch {what}: a refused join changed the key-package store of {}", w.members[j].setup.name));
    }
}

/// the exported tree with one bit changed inside one occupied node (still decodable, re-encoded)
fn mutate_tree(rng: &mut Rng, tree: &[u8]) -> Option<Vec<u8>> {
    use mls_rs::mls_rs_codec::MlsEncode;
    let t = ExportedTree::from_bytes(tree).ok()?;
    let mut lens = vec![];
    for n in t.nodes() {
        lens.push(n.mls_encode_to_vec().ok()?.len());
    }
    let total: usize = lens.iter().sum();
    if total > tree.len() {
        return None;
    }
    let header = tree.len() - total;
    let occupied: Vec<usize> = (0..lens.len()).filter(|&i| t.nodes()[i].is_some() && lens[i] > 1).collect();
    if occupied.is_empty() {
        return None;
    }
    for _ in 0..40 {
        let k = *rng.pick(&occupied);
        let start = header + lens[..k].iter().sum::<usize>();
        let off = 1 + rng.below(lens[k] as u64 - 1) as usize; // not the presence byte
        let mut b = tree.to_vec();
        b[start + off] ^= 1 << rng.below(8);
        if let Ok(Ok(t2)) = catch_unwind(|| ExportedTree::from_bytes(&b)) {
            if let Ok(re) = t2.to_bytes() {
                if re != tree {
                    return Some(re);
                }
            }
        }
    }
    None
}

/// a new client `name` whose credential carries `ident`
fn fresh<C: MlsConfig>(w: &mut World<C>, mk: Mk<C>, rng: &mut Rng, name: &str, ident: &str, tree_ext: bool) -> usize {
    let idx = new_client(w, mk, name, rng.chance(1, 4), 3);
    // rebuild with the chosen tree-extension option
    let mut s = w.members[idx].setup.clone();
    s.tree_ext = tree_ext;
    s.single_welcome = rng.chance(1, 2);
    let (id, sk) = make_identity(ident, s.suite);
    let h = w.members[idx].h.clone();
    w.members[idx].client = mk(&s, &h, id, sk);
    w.members[idx].setup = s;
    w.members[idx].identity = ident.as_bytes().to_vec();
    idx
}

/// The external joiner `e` holds `g` built together with the commit `cm`: every member accepts `cm`, `e` holds the state of the
/// old member `a`, can talk to it and commits at once.
fn after_external<C: MlsConfig>(w: &mut World<C>, e: usize, g: Group<C>, cm: &MlsMessage, a: usize, what: &str, out: &mut Out) -> bool {
    w.members[e].group = Some(g);
    if let Err(x) = process_all(w, cm, e) {
        out.fails.push(format!("{what}: {x}"));
        w.members[e].group = None;
        return false;
    }
    if let Err(x) = same_state(w.group(e), w.group(a)) {
        out.fails.push(format!("{what}: joiner against an old member: {x}"));
        return false;
    }
    if !talk(w, a, &[e], what, out) {
        return false;
    }
    commit_round(w, e, &format!("{what}: commit of the external joiner"), out)
}

/// `old` sends an application message that every one of `new` must read, and each of `new` answers
fn talk<C: MlsConfig>(w: &mut World<C>, old: usize, new: &[usize], what: &str, out: &mut Out) -> bool {
    let (r, m) = w.with_group(old, |g| g.encrypt_application_message(b"to the newcomers", vec![]));
    let Some(m) = m else {
        out.fails.push(format!("{what}: an old member cannot send: {}", r.s()));
        return false;
    };
    for &j in new {
        let mm = m.clone();
        let (r, got) = w.with_group(j, |g| g.process_incoming_message(mm));
        match got {
            Some(ReceivedMessage::ApplicationMessage(d)) if d.data() == b"to the newcomers" => {}
            _ => {
                out.fails.push(format!("{what}: fresh joiner {} cannot read the message of an old member: {}", w.members[j].setup.name, r.s()));
                return false;
            }
        }
        let (r, m2) = w.with_group(j, |g| g.encrypt_application_message(b"hi", vec![]));
        let Some(m2) = m2 else {
            out.fails.push(format!("{what}: fresh joiner {} cannot send: {}", w.members[j].setup.name, r.s()));
            return false;
        };
        let (r2, got) = w.with_group(old, |g| g.process_incoming_message(m2));
        if !matches!(got, Some(ReceivedMessage::ApplicationMessage(_))) {
            out.fails.push(format!("{what}: message of fresh joiner {} refused: {}", w.members[j].setup.name, r2.s()));
            return false;
        }
    }
    true
}

fn scenario<C: MlsConfig>(rng: &mut Rng, mk: Mk<C>, out: &mut Out) {
    let mut w: World<C> = new_world(Default::default(), &crate::util::scratch("c07"));
    let tree_ext = rng.chance(1, 2);
    let n0 = rng.range(1, 5) as usize;
    for i in 0..n0 + 3 {
        fresh(&mut w, mk, rng, &format!("m{i}"), &format!("m{i}"), tree_ext);
    }
    let g = w.members[0].client.create_group(Default::default(), Default::default(), None).unwrap();
    w.members[0].group = Some(g);
    out.cover.insert(format!("tree_ext={}", tree_ext as u8));
    // the stranger owns a key package of its own, which no Welcome of this scenario addresses
    let stranger = n0 + 2;
    w.members[stranger].client.generate_key_package_message(Default::default(), Default::default(), None).unwrap();
    // grow to n0 members, one commit per joiner or several at once
    let mut next = 1usize;
    while next < n0 {
        let batch = rng.range(1, 2).min((n0 - next) as u64) as usize;
        let joiners: Vec<usize> = (next..next + batch).collect();
        next += batch;
        // some joiners hold an older key package next to the one that is going to be added
        let mut decoys: Vec<Option<BTreeSet<Vec<u8>>>> = vec![];
        // the older key package itself (the Welcome will be re-addressed to it further down)
        let mut decoy_kps: Vec<Option<MlsMessage>> = vec![];
        for &j in &joiners {
            if rng.chance(1, 2) {
                let d = w.members[j].client.generate_key_package_message(Default::default(), Default::default(), None).unwrap();
                decoys.push(Some(kp_ids(&w, j)));
                decoy_kps.push(Some(d));
            } else {
                decoys.push(None);
                decoy_kps.push(None);
            }
        }
        let kps: Vec<MlsMessage> = joiners.iter().map(|&j| w.members[j].client.generate_key_package_message(Default::default(), Default::default(), None).unwrap()).collect();
        let kps_kept = kps.clone();
        let stranger_kp = w.members[stranger].client.generate_key_package_message(Default::default(), Default::default(), None).unwrap();
        let committer = *rng.pick(&(0..joiners[0]).filter(|&i| w.members[i].group.is_some()).collect::<Vec<_>>());
        let tree_prev = w.group(committer).export_tree().to_bytes().unwrap();
        let (r, o) = w.with_group(committer, |g| {
            let mut b = g.commit_builder();
            for kp in kps {
                b = b.add_member(kp)?;
            }
            b.build()
        });
        let Some(o) = o else {
            out.fails.push(format!("setup commit: {}", r.s()));
            return;
        };
        w.with_group(committer, |g| g.apply_pending_commit());
        if let Err(e) = process_all(&mut w, &o.commit_message, committer) {
            out.fails.push(format!("setup: {e}"));
            return;
        }
        let tree = w.group(committer).export_tree().to_bytes().unwrap();
        // a tree of the epoch after this one (one of its possible successors), made on a copy of the committer
        let tree_next = {
            let mut gc = w.group(committer).clone();
            match catch_unwind(AssertUnwindSafe(|| gc.commit(vec![]).and_then(|_| gc.apply_pending_commit()))) {
                Ok(Ok(_)) => Some(gc.export_tree().to_bytes().unwrap()),
                _ => None,
            }
        };
        for (jn, &j) in joiners.iter().enumerate() {
            // ---- the mismatch matrix: each combination is refused and leaves the key package in place --------------------
            // a Welcome RE-ADDRESSED by somebody who knows its group secrets (hook verif_retarget_welcome): sealed to ANOTHER key
            // package of the same client, or to a key package of a stranger, while GroupInfo and tree still hold the leaf of the
            // key package that was added: the addressed key package has no leaf in the tree, nobody may obtain a group from it
            {
                let good_tree = if tree_ext { None } else { Some(&tree) };
                for wm in &o.welcome_messages {
                    if let Some(d) = &decoy_kps[jn] {
                        if let Ok(x) = w.members[j].client.verif_retarget_welcome(wm, &kps_kept[jn], d) {
                            expect_join_err(&w, j, good_tree, &[x], "welcome-readdressed-to-other-key-package-of-the-joiner", out);
                        }
                    }
                    if let Ok(x) = w.members[j].client.verif_retarget_welcome(wm, &kps_kept[jn], &stranger_kp) {
                        expect_join_err(&w, stranger, good_tree, &[x], "welcome-readdressed-to-a-stranger", out);
                    }
                }
            }
            if !tree_ext {
                expect_join_err(&w, j, Some(&tree_prev), &o.welcome_messages, "tree-of-previous-epoch", out);
                match &tree_next {
                    Some(t) if *t != tree => expect_join_err(&w, j, Some(t), &o.welcome_messages, "tree-of-next-epoch", out),
                    _ => out.fails.push("setup: no tree of the next epoch".into()),
                }
                expect_join_err(&w, j, None, &o.welcome_messages, "no-tree", out);
                match mutate_tree(rng, &tree) {
                    Some(t) => expect_join_err(&w, j, Some(&t), &o.welcome_messages, "tree-one-node-changed", out),
                    None => {
                        out.cover.insert("mismatch:tree-one-node-changed:skipped".into());
                    }
                }
            } else if jn == 0 {
                // the tree in the extension wins over whatever comes out of band: a wrong out-of-band tree then changes nothing
                out.cases += 1;
                let mut ok = false;
                for wm in &o.welcome_messages {
                    if let Ok(Ok((g, _))) = catch_unwind(AssertUnwindSafe(|| w.members[j].client.join_group(Some(tree_of(&tree_prev)), wm, None))) {
                        ok = true;
                        if let Err(e) = same_state(&g, w.group(committer)) {
                            out.fails.push(format!("joiner m{j}, tree in the extension and an older tree out of band: {e}"));
                        }
                        break;
                    }
                }
                out.cover.insert(format!("ext-tree-wins-over-oob-tree={}", ok as u8));
            }
            // ---- the genuine join -----------------------------------------------------------------------------------------
            out.cases += 1;
            let mut joined = false;
            let mut errs = vec![];
            for wm in &o.welcome_messages {
                let t = if tree_ext { None } else { Some(tree_of(&tree)) };
                match w.members[j].client.join_group(t, wm, None) {
                    Ok((g, _)) => {
                        w.members[j].group = Some(g);
                        joined = true;
                        break;
                    }
                    Err(e) => errs.push(err_class(&e)),
                }
            }
            if !joined {
                out.fails.push(format!("joiner m{j} cannot join (after the refused mismatched attempts): {errs:?}"));
                return;
            }
            if let Err(e) = same_state(w.group(j), w.group(committer)) {
                out.fails.push(format!("joiner m{j} after Welcome: {e}"));
            }
            // key package consumed on the first write; a second join with the same Welcome then fails
            let before = w.members[j].h.kp.inner.key_packages().len();
            // every other joiner's key-package store fails the first delete: the write fails, the retry must delete it
            let flaky = (j + out.cases as usize) % 2 == 0;
            if flaky {
                w.members[j].h.fault.lock().unwrap().counted_prefixes = vec!["kp.delete".to_string()];
                w.fault_arm(j, vec![1]);
                let (r0, _) = w.with_group(j, |g| g.write_to_storage());
                let mid = w.members[j].h.kp.inner.key_packages().len();
                if r0.ok() || mid != before {
                    out.fails.push(format!("joiner m{j}: a failing key-package delete did not fail the write ({}), or the package vanished anyway ({before} -> {mid})", r0.s()));
                }
                w.members[j].h.fault.lock().unwrap().counted_prefixes.clear();
                w.fault_arm(j, vec![]);
                out.cover.insert("flaky-kp-delete".into());
            }
            let (r, _) = w.with_group(j, |g| g.write_to_storage());
            let after = w.members[j].h.kp.inner.key_packages().len();
            if !r.ok() || after + 1 != before {
                out.fails.push(format!("key package of joiner m{j} not deleted by the first write ({before} -> {after}, write {})", r.s()));
            }
            // of two key packages exactly the addressed (second) one is gone
            if let Some(keep) = &decoys[jn] {
                out.cases += 1;
                if kp_ids(&w, j) != *keep {
                    out.fails.push(format!("joiner m{j} held two key packages: the first write did not delete exactly the one the Welcome addressed"));
                }
                out.cover.insert("two-key-packages".into());
            }
            w.members[j].wrote = true;
            let again = o.welcome_messages.iter().any(|wm| w.members[j].client.join_group(if tree_ext { None } else { Some(tree_of(&tree)) }, wm, None).is_ok());
            if again {
                out.fails.push(format!("joiner m{j} could use its Welcome again after the key package was deleted"));
            }
        }
        // a Welcome for another key package never produces a group, whether the receiver holds a key package of its own or
        // not, and its store stays as it is
        expect_join_err(&w, stranger, if tree_ext { None } else { Some(&tree) }, &o.welcome_messages, "stranger-with-own-key-package", out);
        expect_join_err(&w, n0 + 1, if tree_ext { None } else { Some(&tree) }, &o.welcome_messages, "stranger-without-key-package", out);
        // the joiners hear from an old member (message, commit), then every joiner commits
        if !talk(&mut w, committer, &joiners, "after Welcome", out) {
            return;
        }
        let old = *rng.pick(&(0..joiners[0]).filter(|&i| w.members[i].group.is_some()).collect::<Vec<_>>());
        if !commit_round(&mut w, old, "commit of an old member right after the joiners joined", out) {
            return;
        }
        for &j in &joiners {
            if !commit_round(&mut w, j, &format!("commit of the fresh Welcome joiner m{j}"), out) {
                return;
            }
        }
        out.cover.insert("welcome-joiner-receives-and-commits".into());
    }
    let members: Vec<usize> = (0..n0).filter(|&i| w.members[i].group.is_some()).collect();
    let Some(&a) = members.first() else { return };
    // ---- external commit by an outsider, tree in the GroupInfo ----------------------------------------------------------
    {
        let e = n0; // outsider
        let gi = w.group(a).group_info_message_allowing_ext_commit(true).unwrap();
        out.cases += 1;
        match catch_unwind(AssertUnwindSafe(|| w.members[e].client.commit_external(gi))) {
            Ok(Ok((g, cm))) => {
                if !after_external(&mut w, e, g, &cm, a, "external commit", out) {
                    return;
                }
                out.cover.insert("external-commit".into());
            }
            Ok(Err(e2)) => out.fails.push(format!("commit_external fails: {}", err_class(&e2))),
            Err(_) => out.fails.push("commit_external panics".into()),
        }
    }
    // ---- external commit, tree delivered out of band ----------------------------------------------------------------------
    if rng.chance(2, 3) {
        let e = fresh(&mut w, mk, rng, "x-oob", "x-oob", tree_ext);
        let gi = w.group(a).group_info_message_allowing_ext_commit(false).unwrap();
        let tree = w.group(a).export_tree().to_bytes().unwrap();
        // no tree, the tree of an older epoch (the one-member group the scenario started with is never current here), a changed tree
        out.cases += 1;
        let mut wrong: Vec<(&str, Option<Vec<u8>>)> = vec![("no-tree", None)];
        if let Some(t) = mutate_tree(rng, &tree) {
            wrong.push(("tree-one-node-changed", Some(t)));
        }
        for (what, t) in wrong {
            let r = catch_unwind(AssertUnwindSafe(|| {
                let b = w.members[e].client.external_commit_builder()?;
                match &t {
                    Some(t) => b.with_tree_data(tree_of(t)).build(gi.clone()),
                    None => b.build(gi.clone()),
                }
            }));
            match r {
                Err(_) => out.fails.push(format!("external commit builder panics ({what})")),
                Ok(Ok(_)) => out.fails.push(format!("an external commit was built from a GroupInfo without tree and {what}")),
                Ok(Err(x)) => {
                    out.cover.insert(format!("external-commit-oob:{what}:{}", err_class(&x)));
                }
            }
        }
        out.cases += 1;
        match catch_unwind(AssertUnwindSafe(|| w.members[e].client.external_commit_builder().and_then(|b| b.with_tree_data(tree_of(&tree)).build(gi.clone())))) {
            Ok(Ok((g, cm))) => {
                if !after_external(&mut w, e, g, &cm, a, "external commit with the tree out of band", out) {
                    return;
                }
                out.cover.insert("external-commit-oob-tree".into());
            }
            Ok(Err(x)) => out.fails.push(format!("external commit with the tree out of band fails: {}", err_class(&x))),
            Err(_) => out.fails.push("external commit with the tree out of band panics".into()),
        }
    }
    // ---- external commit with an external PSK ---------------------------------------------------------------------------------
    if rng.chance(2, 3) {
        let pid = rng.bytes(8);
        let val = rng.bytes(32);
        w.psks.insert(pid.clone(), val.clone());
        for m in &w.members {
            m.h.psk.inner.lock().unwrap().insert(ext_psk_id(&pid), psk_value(&val));
        }
        // a joiner that holds another value under this id: nobody follows it
        {
            let bad = fresh(&mut w, mk, rng, "x-psk-bad", "x-psk-bad", tree_ext);
            w.members[bad].h.psk.inner.lock().unwrap().insert(ext_psk_id(&pid), psk_value(&rng.bytes(32)));
            let gi = w.group(a).group_info_message_allowing_ext_commit(true).unwrap();
            out.cases += 1;
            match catch_unwind(AssertUnwindSafe(|| w.members[bad].client.external_commit_builder().and_then(|b| b.with_external_psk(ext_psk_id(&pid)).build(gi)))) {
                Ok(Ok((_, cm))) => reject_all(&mut w, &cm, bad, "external-commit-with-wrong-psk-value", out),
                Ok(Err(x)) => out.fails.push(format!("external commit with an external PSK fails: {}", err_class(&x))),
                Err(_) => out.fails.push("external commit with an external PSK panics".into()),
            }
        }
        let e = fresh(&mut w, mk, rng, "x-psk", "x-psk", tree_ext);
        let gi = w.group(a).group_info_message_allowing_ext_commit(true).unwrap();
        out.cases += 1;
        match catch_unwind(AssertUnwindSafe(|| w.members[e].client.external_commit_builder().and_then(|b| b.with_external_psk(ext_psk_id(&pid)).build(gi)))) {
            Ok(Ok((g, cm))) => {
                if !after_external(&mut w, e, g, &cm, a, "external commit with an external PSK", out) {
                    return;
                }
                out.cover.insert("external-commit-psk".into());
            }
            Ok(Err(x)) => out.fails.push(format!("external commit with an external PSK fails: {}", err_class(&x))),
            Err(_) => out.fails.push("external commit with an external PSK panics".into()),
        }
    }
    // ---- a member that lost its state re-joins by an external commit that removes its previous leaf -----------------------
    if members.len() >= 2 && rng.chance(2, 3) {
        let x = *rng.pick(&members[1..]);
        let xl = w.group(x).current_member_index();
        let ident = String::from_utf8_lossy(&w.members[x].identity).to_string();
        let size = w.group(a).roster().members().len();
        let oob = rng.chance(1, 2);
        let e = fresh(&mut w, mk, rng, &format!("{ident}-again"), &ident, tree_ext);
        let gi = w.group(a).group_info_message_allowing_ext_commit(!oob).unwrap();
        let tree = w.group(a).export_tree().to_bytes().unwrap();
        // without the removal the identity would be in the group twice: nobody follows
        {
            out.cases += 1;
            let gi2 = gi.clone();
            let r = catch_unwind(AssertUnwindSafe(|| {
                let b = w.members[e].client.external_commit_builder()?;
                let b = if oob { b.with_tree_data(tree_of(&tree)) } else { b };
                b.build(gi2)
            }));
            match r {
                Err(_) => out.fails.push("external commit of a present identity panics".into()),
                Ok(Ok((_, cm))) => reject_all(&mut w, &cm, e, "external-commit-of-a-present-identity-without-removal", out),
                Ok(Err(x)) => {
                    out.cover.insert(format!("external-commit-duplicate-identity:refused-by-builder:{}", err_class(&x)));
                }
            }
        }
        out.cases += 1;
        let r = catch_unwind(AssertUnwindSafe(|| {
            let b = w.members[e].client.external_commit_builder()?.with_removal(xl);
            let b = if oob { b.with_tree_data(tree_of(&tree)) } else { b };
            b.build(gi)
        }));
        match r {
            Ok(Ok((g, cm))) => {
                if !after_external(&mut w, e, g, &cm, a, "external commit removing the joiner's previous leaf", out) {
                    return;
                }
                if w.members[x].group.is_some() {
                    out.fails.push("the previous self of an external joiner still considers itself a member".into());
                    w.members[x].group = None;
                }
                let now = w.group(a).roster().members().len();
                let twice = w.group(a).roster().members().iter().filter(|m| m.signing_identity.credential.as_basic().map(|b| b.identifier.clone()) == Some(ident.as_bytes().to_vec())).count();
                if now != size || twice != 1 {
                    out.fails.push(format!("external commit with removal: {size} -> {now} members, identity {ident} present {twice} times"));
                }
                out.cover.insert(format!("external-commit-removal:oob={}", oob as u8));
            }
            Ok(Err(x)) => out.fails.push(format!("external commit with removal of the previous leaf fails: {}", err_class(&x))),
            Err(_) => out.fails.push("external commit with removal of the previous leaf panics".into()),
        }
    }
    let members: Vec<usize> = (0..n0).filter(|&i| w.members[i].group.is_some()).collect();
    // ---- a stale GroupInfo (of the previous epoch) never produces a group the members accept ------------------------------------
    {
        let stale = w.group(a).group_info_message_allowing_ext_commit(true).unwrap();
        if !commit_round(&mut w, a, "commit that makes the GroupInfo stale", out) {
            return;
        }
        out.cases += 1;
        let late = n0 + 1;
        match catch_unwind(AssertUnwindSafe(|| w.members[late].client.commit_external(stale))) {
            Ok(Ok((_, cm))) => reject_all(&mut w, &cm, late, "external-commit-from-stale-groupinfo", out),
            Ok(Err(x)) => {
                // the outsider cannot know; a refusal is a refusal all the same
                out.cover.insert(format!("stale-groupinfo:refused-by-builder:{}", err_class(&x)));
            }
            Err(_) => out.fails.push("commit_external panics on a stale GroupInfo".into()),
        }
        out.cover.insert("stale-groupinfo".into());
        // the group goes on
        if !commit_round(&mut w, a, "commit after the refused stale external commit", out) {
            return;
        }
    }
    // ---- remove a member that has persisted the group, add it again (same client, same storage) -----------------------
    if members.len() >= 2 {
        let x = members[members.len() - 1];
        // x lives through one more epoch and persists it, so that its storage holds a prior-epoch record
        if !commit_round(&mut w, a, "commit before the removal", out) {
            return;
        }
        let (r, _) = w.with_group(x, |g| g.write_to_storage());
        if !r.ok() {
            out.fails.push(format!("member cannot persist: {}", r.s()));
        }
        let xl = w.group(x).current_member_index();
        let (r, o) = w.with_group(a, |g| g.commit_builder().remove_member(xl)?.build());
        let Some(o) = o else {
            out.fails.push(format!("cannot remove a member: {}", r.s()));
            return;
        };
        w.with_group(a, |g| g.apply_pending_commit());
        if let Err(e) = process_all(&mut w, &o.commit_message, a) {
            out.fails.push(format!("removal: {e}"));
            return;
        }
        if w.members[x].group.is_some() {
            out.fails.push("a removed member still considers itself a member".into());
            return;
        }
        let kp = w.members[x].client.generate_key_package_message(Default::default(), Default::default(), None).unwrap();
        let (r, o2) = w.with_group(a, |g| g.commit_builder().add_member(kp)?.build());
        let Some(o2) = o2 else {
            out.fails.push(format!("cannot add the removed member again: {}", r.s()));
            return;
        };
        w.with_group(a, |g| g.apply_pending_commit());
        if let Err(e) = process_all(&mut w, &o2.commit_message, a) {
            out.fails.push(format!("adding the removed member again: {e}"));
            return;
        }
        let tree = w.group(a).export_tree().to_bytes().unwrap();
        let mut g2 = None;
        for wm in &o2.welcome_messages {
            if let Ok((g, _)) = w.members[x].client.join_group(if tree_ext { None } else { Some(tree_of(&tree)) }, wm, None) {
                g2 = Some(g);
                break;
            }
        }
        out.cases += 1;
        match g2 {
            None => out.fails.push("a removed member cannot re-join with the same storage".into()),
            Some(g) => {
                w.members[x].group = Some(g);
                if let Err(e) = same_state(w.group(x), w.group(a)) {
                    out.fails.push(format!("re-joined member: {e}"));
                }
                // it must be able to follow the group: process the next commit and commit itself
                let (_, o3) = w.with_group(a, |g| g.commit(vec![]));
                if let Some(o3) = o3 {
                    w.with_group(a, |g| g.apply_pending_commit());
                    let m = o3.commit_message.clone();
                    let (r, _) = w.with_group(x, |g| g.process_incoming_message(m));
                    let followed = r.ok();
                    if !followed {
                        out.fails.push(format!("[F14] member re-joined with the storage of its earlier membership cannot process the next commit: {}", r.s()));
                    }
                    for i in 0..w.members.len() {
                        if i != a && i != x && w.members[i].group.is_some() {
                            let m = o3.commit_message.clone();
                            let (r, _) = w.with_group(i, |g| g.process_incoming_message(m));
                            if !r.ok() {
                                out.fails.push(format!("member {} rejects the commit after the re-join: {}", w.members[i].setup.name, r.s()));
                            }
                        }
                    }
                    if followed {
                        commit_round(&mut w, x, "commit of the member re-joined with the same storage", out);
                    }
                } else {
                    out.fails.push("cannot commit after the re-join".into());
                }
                out.cover.insert("rejoin-same-storage".into());
            }
        }
    }
    if out.samples.len() < 4 {
        out.samples.push(format!("members={n0} tree_ext={} cases={}", tree_ext as u8, out.cases));
    }
    for m in &w.members {
        if let Some(p) = &m.h.sqlite_path {
            let _ = std::fs::remove_file(p);
        }
    }
}

pub fn run(o: &Opts) -> i32 {
    crate::util::quiet_panics();
    let dir = o.str("out", "/verif/work/c07");
    std::fs::create_dir_all(&dir).ok();
    let mut rng = Rng::new(o.seed());
    let n = o.u64("scenarios", if o.thorough() { 1500 } else { 100 });
    let mut out = Out { fails: vec![], cases: 0, cover: Default::default(), samples: vec![] };
    let mk = |s: &Setup, hd: &Handles, id, sk| mk_client(s, hd, id, sk);
    for _ in 0..n {
        let mut r = rng.fork();
        scenario(&mut r, &mk, &mut out);
    }
    println!("cases {}", out.cases);
    println!("cover {}", out.cover.iter().cloned().collect::<Vec<_>>().join(";"));
    println!("oracle_failures {}", out.fails.len());
    std::fs::write(format!("{dir}/c07.failures"), out.fails.iter().cloned().collect::<Vec<_>>().join("\n")).unwrap();
    std::fs::write(format!("{dir}/c07.samples"), out.samples.join("\n")).unwrap();
    let _ = std::fs::remove_dir_all(&crate::util::scratch("c07"));
    0
}
