//! C14: the shipped crypto providers (RustCrypto, OpenSSL, AWS-LC) are interchangeable.
//!
//! (1) every primitive of `CipherSuiteProvider`, every common suite, all providers side by side on the same inputs
//!     (lengths incl. empty and block boundaries, wrong key / nonce / tag / length, malformed keys): identical bytes for the
//!     deterministic ones, identical accept / reject, cross-verification / cross-opening for the randomised ones;
//!     hash / MAC / KDF rows are also recomputed by the Lean reference (`mlsmodel c14`);
//! (2) the generic HPKE construction (mls-rs-crypto-hpke) driven with a scripted KEM / DH and a recording AEAD over each
//!     provider's KDF: key schedule, nonce sequence, exporter, DHKEM shared secret and key derivation as rows for the Lean
//!     HPKE model;
//! (3) generated certificate chains (valid, expired, not yet valid, wrong issuer signature, missing / reordered
//!     intermediate, non-CA issuer, unknown root) at validation times around the validity boundaries through the three
//!     X.509 validators: same verdict, and the verdict of the Lean model (`x509` rows).
//! Mixed-provider group histories are run by `hist --providers mixed`.
use crate::anyprov::*;
use crate::util::{hex, Opts, Rng, QA};
use mls_rs::crypto::{HpkeCiphertext, HpkePublicKey, HpkeSecretKey, SignaturePublicKey, SignatureSecretKey};
use mls_rs::{CipherSuite, CipherSuiteProvider, CryptoProvider};
use mls_rs_core::crypto::{HpkeContextR, HpkeContextS, HpkePsk};
use mls_rs_core::time::MlsTime;
use mls_rs_crypto_hpke::dhkem::DhKem;
use mls_rs_crypto_hpke::hpke::Hpke;
use mls_rs_crypto_traits::{AeadType, DhType, KdfType, KemResult, KemType, SamplingMethod};
use mls_rs_identity_x509::{CertificateChain, DerCertificate, X509CredentialValidator};
use std::collections::BTreeMap;
use std::sync::{Arc, Mutex};

pub struct St {
    pub fails: Vec<String>,
    /// divergences by class: "<op>/<input class>/<who accepts>" -> (count, first example)
    pub classes: BTreeMap<String, (u64, String)>,
    pub cases: u64,
    pub kinds: BTreeMap<String, u64>,
    pub outcomes: BTreeMap<String, u64>,
}

impl St {
    fn fail(&mut self, s: String) {
        // `[class] detail`: one line per class, with the number of occurrences
        let class = s.split(']').next().unwrap_or("").trim_start_matches('[').to_string();
        let e = self.classes.entry(class).or_insert((0, s.clone()));
        e.0 += 1;
        if self.fails.len() < 2000 {
            self.fails.push(s);
        }
    }
    fn kind(&mut self, k: &str) {
        self.cases += 1;
        *self.kinds.entry(k.to_string()).or_default() += 1;
    }
}

fn providers(suite: u16) -> Vec<(&'static str, AnyCs)> {
    (0..3u8)
        .filter_map(|i| {
            let p = AnyProvider::by_index(i);
            p.cipher_suite_provider(CipherSuite::from(suite)).map(|c| (p.name(), c))
        })
        .collect()
}

/// canonical form of a primitive's result: bytes or `err`
fn canon<E>(r: Result<Vec<u8>, E>) -> String {
    match r {
        Ok(b) => format!("ok:{}", hex(&b)),
        Err(_) => "err".into(),
    }
}

/// all providers must give the same canonical answer; returns it (of the first provider)
fn agree(st: &mut St, what: &str, suite: u16, answers: &[(&'static str, String)]) -> String {
    // `what` = "<op> <details>" or "<op>|<input class> <details>"
    let head = what.split(' ').next().unwrap_or(what);
    let op = head.split('|').next().unwrap_or(head);
    st.kind(op);
    let first = &answers[0].1;
    if answers.iter().any(|(_, a)| a != first) {
        let detail: Vec<String> = answers.iter().map(|(n, a)| format!("{n}={}", if a.len() > 70 { format!("{}…", &a[..70]) } else { a.clone() })).collect();
        // who accepts: bytes differ (all ok but different) is its own pattern
        let mut oks: Vec<&str> = answers.iter().filter(|(_, a)| a.starts_with("ok")).map(|(n, _)| *n).collect();
        let all_ok = oks.len() == answers.len();
        oks.sort();
        oks.dedup();
        let pattern = if all_ok { "different-bytes".to_string() } else { format!("accepted-by:{}", oks.join("+")) };
        st.fail(format!("[{}/{pattern}] suite {suite}: {}: {}", head.replace('|', "/"), what.split_once(' ').map(|x| x.1).unwrap_or(""), detail.join(" ")));
    }
    *st.outcomes.entry(format!("{op}:{}", if first.starts_with("ok") { "ok" } else { "err" })).or_default() += 1;
    first.clone()
}

const LENS: [usize; 22] = [0, 1, 15, 16, 17, 31, 32, 33, 55, 56, 63, 64, 65, 111, 112, 119, 127, 128, 129, 255, 256, 1000];

fn row(qa: &mut QA, q: String, ans: &str) {
    // rows only for answers inside the domain of the RFC formulas (provider guards are compared between providers only)
    let a = match ans.strip_prefix("ok:") {
        Some(h) => h.to_string(),
        None => "err".to_string(),
    };
    qa.put(&q, &a);
}

fn prims(rng: &mut Rng, qa: &mut QA, st: &mut St, thorough: bool) {
    for suite in 1u16..=7 {
        let ps = providers(suite);
        if ps.len() < 2 {
            continue;
        }
        let names: Vec<&str> = ps.iter().map(|p| p.0).collect();
        *st.outcomes.entry(format!("suite{suite}:{}", names.join("+"))).or_default() += 1;
        let nh = ps[0].1.kdf_extract_size();
        let nk = ps[0].1.aead_key_size();
        let nn = ps[0].1.aead_nonce_size();
        for (n, c) in &ps {
            if c.kdf_extract_size() != nh || c.aead_key_size() != nk || c.aead_nonce_size() != nn {
                st.fail(format!("[params] suite {suite}: {n} reports other sizes"));
            }
        }
        // ---- hash, mac ------------------------------------------------------------------------------------------------
        for &l in &LENS {
            let d = rng.bytes(l);
            let a = agree(st, &format!("hash|- len={l}"), suite, &ps.iter().map(|(n, c)| (*n, canon(c.hash(&d)))).collect::<Vec<_>>());
            row(qa, format!("hash {suite} {}", hex(&d)), &a);
            for kl in [1usize, nh, 64, 65, 128, 129, 200] {
                let k = rng.bytes(kl);
                let a = agree(st, &format!("mac|data{} key={kl} len={l}", if l == 0 { "=0" } else { ">0" }), suite, &ps.iter().map(|(n, c)| (*n, canon(c.mac(&k, &d)))).collect::<Vec<_>>());
                row(qa, format!("mac {suite} {} {}", hex(&k), hex(&d)), &a);
                if !thorough && l > 130 {
                    break;
                }
            }
        }
        let d = rng.bytes(20);
        agree(st, "mac|empty-key -", suite, &ps.iter().map(|(n, c)| (*n, canon(c.mac(&[], &d)))).collect::<Vec<_>>());
        // ---- kdf ------------------------------------------------------------------------------------------------------
        for sl in [0usize, 7, nh, 200] {
            for il in [0usize, 1, nh, 100] {
                let (s, i) = (rng.bytes(sl), rng.bytes(il));
                let a = agree(
                    st,
                    &format!("kdf_extract|{} salt={sl} ikm={il}", if il == 0 { "empty-ikm" } else { "ikm" }),
                    suite,
                    &ps.iter().map(|(n, c)| (*n, canon(c.kdf_extract(&s, &i).map(|z| z.to_vec())))).collect::<Vec<_>>(),
                );
                if a.starts_with("ok") {
                    row(qa, format!("kdf.extract {suite} {} {}", hex(&s), hex(&i)), &a);
                }
            }
        }
        for pl in [nh, nh - 1, 0, 2 * nh] {
            for il in [0usize, 10, 300] {
                for len in [0usize, 1, nh - 1, nh, nh + 1, 2 * nh + 3, 255 * nh, 255 * nh + 1] {
                    let (p, i) = (rng.bytes(pl), rng.bytes(il));
                    let a = agree(
                        st,
                        &format!(
                            "kdf_expand|prk{}:info{}:len{} prk={pl} info={il} len={len}",
                            if pl < nh { "<Nh" } else { ">=Nh" },
                            if il > 255 { ">255" } else { "<=255" },
                            if len == 0 { "=0" } else if len > 255 * nh { ">255Nh" } else { "ok" }
                        ),
                        suite,
                        &ps.iter().map(|(n, c)| (*n, canon(c.kdf_expand(&p, &i, len).map(|z| z.to_vec())))).collect::<Vec<_>>(),
                    );
                    if a.starts_with("ok") || (len > 255 * nh && pl >= nh) {
                        row(qa, format!("kdf.expand {suite} {} {} {len}", hex(&p), hex(&i)), &a);
                    }
                }
            }
        }
        // ---- aead -----------------------------------------------------------------------------------------------------
        for &l in &LENS {
            for (kl, nl) in [(nk, nn), (nk, nn), (nk - 1, nn), (nk + 1, nn), (0, nn), (nk, nn - 1), (nk, nn + 1), (nk, 0)] {
                let (k, nonce, pt) = (rng.bytes(kl), rng.bytes(nl), rng.bytes(l));
                let aad_v = rng.bytes(13);
                let aad: Option<&[u8]> = match rng.below(3) {
                    0 => None,
                    1 => Some(&[]),
                    _ => Some(&aad_v),
                };
                let ct = agree(
                    st,
                    &format!(
                        "aead_seal|key{}:nonce{}:pt{} key={kl} nonce={nl} len={l} aad={}",
                        if kl == nk { "=Nk" } else if kl == 0 { "=0" } else { "!=Nk" },
                        if nl == nn { "=Nn" } else if nl == 0 { "=0" } else { "!=Nn" },
                        if l == 0 { "=0" } else { ">0" },
                        aad.map(|a| a.len() as i64).unwrap_or(-1)
                    ),
                    suite,
                    &ps.iter().map(|(n, c)| (*n, canon(c.aead_seal(&k, &pt, aad, &nonce)))).collect::<Vec<_>>(),
                );
                let all_sealed = ps.iter().all(|(_, c)| c.aead_seal(&k, &pt, aad, &nonce).is_ok());
                if let (Some(h), true) = (ct.strip_prefix("ok:"), all_sealed) {
                    let ct = crate::util::unhex(h).unwrap();
                    // every provider opens it; tampered / truncated / other aad: every provider rejects
                    let mut variants: Vec<(&str, Vec<u8>, Option<Vec<u8>>)> = vec![("genuine", ct.clone(), aad.map(|a| a.to_vec()))];
                    let mut t = ct.clone();
                    let p = rng.below(t.len() as u64) as usize;
                    t[p] ^= 1 << rng.below(8);
                    variants.push(("bitflip", t, aad.map(|a| a.to_vec())));
                    variants.push(("truncated", ct[..ct.len() - 1].to_vec(), aad.map(|a| a.to_vec())));
                    variants.push(("shorter-than-tag", ct[..ct.len().min(rng.below(16) as usize)].to_vec(), aad.map(|a| a.to_vec())));
                    variants.push(("other-aad", ct.clone(), Some(rng.bytes(5))));
                    for (label, v, a2) in variants {
                        let r = agree(
                            st,
                            &format!("aead_open|{label}:pt{} len={l}", if l == 0 { "=0" } else { ">0" }),
                            suite,
                            &ps.iter().map(|(n, c)| (*n, canon(c.aead_open(&k, &v, a2.as_deref(), &nonce).map(|z| z.to_vec())))).collect::<Vec<_>>(),
                        );
                        if label == "genuine" && r != format!("ok:{}", hex(&pt)) {
                            st.fail(format!("[aead_open] suite {suite}: genuine ciphertext does not open to the plaintext"));
                        }
                        if label != "genuine" && label != "other-aad" && r.starts_with("ok") {
                            st.fail(format!("[aead_open] suite {suite}: {label} ciphertext accepted"));
                        }
                        if label == "other-aad" && r.starts_with("ok") && a2.as_deref() != aad {
                            if !(aad.is_none() && a2.as_deref() == Some(&[][..])) && !(aad == Some(&[][..]) && a2.is_none()) {
                                st.fail(format!("[aead_open] suite {suite}: other aad accepted"));
                            }
                        }
                    }
                }
                if !thorough && l > 130 && kl != nk {
                    break;
                }
            }
        }
        // ---- kem: derive, validate --------------------------------------------------------------------------------------
        let mut keypairs: Vec<(HpkeSecretKey, HpkePublicKey)> = vec![];
        for il in [1usize, 16, 32, 48, 64, 66, 100] {
            let ikm = rng.bytes(il);
            let rs: Vec<(&'static str, String)> = ps
                .iter()
                .map(|(n, c)| (*n, canon(c.kem_derive(&ikm).map(|(s, p)| [s.to_vec(), vec![0xAA, 0xAA], p.to_vec()].concat()))))
                .collect();
            agree(st, &format!("kem_derive|ikm ikm={il}"), suite, &rs);
            if let Ok(kp) = ps[0].1.kem_derive(&ikm) {
                keypairs.push(kp);
            }
        }
        agree(st, "kem_derive|empty-ikm -", suite, &ps.iter().map(|(n, c)| (*n, canon(c.kem_derive(&[]).map(|(s, _)| s.to_vec())))).collect::<Vec<_>>());
        for (n, c) in &ps {
            if let Ok(kp) = c.kem_generate() {
                keypairs.push(kp);
            } else {
                st.fail(format!("[kem_generate] suite {suite}: {n} failed"));
            }
        }
        for (_, pk) in keypairs.clone() {
            let mut vars: Vec<(&str, Vec<u8>)> = vec![("valid", pk.to_vec())];
            let b = pk.to_vec();
            vars.push(("empty", vec![]));
            vars.push(("short", b[..b.len() - 1].to_vec()));
            vars.push(("long", [b.clone(), vec![0]].concat()));
            vars.push(("zeros", vec![0; b.len()]));
            vars.push(("ones", vec![0xff; b.len()]));
            let mut f = b.clone();
            let l = f.len();
            f[l - 1] ^= 1;
            vars.push(("last-bit", f));
            let mut f = b.clone();
            f[0] ^= 6;
            vars.push(("first-byte", f));
            for (label, v) in vars {
                let r = agree(
                    st,
                    &format!("kem_public_key_validate|{label} -"),
                    suite,
                    &ps.iter().map(|(n, c)| (*n, canon(c.kem_public_key_validate(&HpkePublicKey::from(v.clone())).map(|_| vec![])))).collect::<Vec<_>>(),
                );
                if label == "valid" && !r.starts_with("ok") {
                    st.fail(format!("[kem_public_key_validate] suite {suite}: a generated public key is rejected"));
                }
            }
        }
        // ---- hpke: every sealer, every opener, base and psk mode ---------------------------------------------------------
        let psk_v = rng.bytes(32);
        let psk_id = rng.bytes(8);
        for (sk, pk) in keypairs.iter().take(if thorough { 8 } else { 4 }) {
            for &l in &[0usize, 1, 33, 1000] {
                let il = rng.below(40) as usize;
                let (info, pt) = (rng.bytes(il), rng.bytes(l));
                let aad_v = rng.bytes(9);
                let aad: Option<&[u8]> = if rng.chance(1, 2) { None } else { Some(&aad_v) };
                for mode in ["base", "psk"] {
                    // a plaintext every provider refuses to seal is a consistent rejection, not a failure
                    let seal_with = |sc: &AnyCs| if mode == "base" { sc.hpke_seal(pk, &info, aad, &pt) } else { sc.hpke_seal_psk(pk, &info, aad, &pt, HpkePsk { id: &psk_id, value: &psk_v }) };
                    if ps.iter().all(|(_, c)| seal_with(c).is_err()) {
                        st.kind("hpke_seal");
                        *st.outcomes.entry(format!("hpke_seal:refused-by-all:pt{}", if l == 0 { "=0" } else { ">0" })).or_default() += 1;
                        if l > 0 {
                            st.fail(format!("[hpke_seal/pt>0/refused-by:all] suite {suite}: nobody can seal ({mode}, len {l})"));
                        }
                        continue;
                    }
                    for (sn, sc) in &ps {
                        let ct = seal_with(sc);
                        st.kind("hpke_seal");
                        let Ok(ct) = ct else {
                            st.fail(format!("[hpke_seal/pt{}/refused-by:{sn}] suite {suite}: {sn} cannot seal ({mode}, len {l})", if l == 0 { "=0" } else { ">0" }));
                            continue;
                        };
                        let mut bad = HpkeCiphertext { kem_output: ct.kem_output.clone(), ciphertext: ct.ciphertext.clone() };
                        let p = rng.below(bad.ciphertext.len() as u64) as usize;
                        bad.ciphertext[p] ^= 0x10;
                        for (on, oc) in &ps {
                            st.kind("hpke_open");
                            let r = if mode == "base" { oc.hpke_open(&ct, sk, pk, &info, aad) } else { oc.hpke_open_psk(&ct, sk, pk, &info, aad, HpkePsk { id: &psk_id, value: &psk_v }) };
                            if r.as_ref().map(|z| z.to_vec()).ok() != Some(pt.clone()) {
                                st.fail(format!("[hpke_open/pt{}/sealed-by:{sn}/refused-by:{on}] suite {suite}: sealed by {sn}, {on} cannot open ({mode}, len {l})", if l == 0 { "=0" } else { ">0" }));
                            }
                            let r = if mode == "base" { oc.hpke_open(&bad, sk, pk, &info, aad) } else { oc.hpke_open_psk(&bad, sk, pk, &info, aad, HpkePsk { id: &psk_id, value: &psk_v }) };
                            if r.is_ok() {
                                st.fail(format!("[hpke_open] suite {suite}: {on} opens a tampered ciphertext of {sn}"));
                            }
                            // wrong mode / wrong psk / wrong info
                            let other_v = info_or(&psk_v);
                            let r = if mode == "base" {
                                oc.hpke_open_psk(&ct, sk, pk, &info, aad, HpkePsk { id: &psk_id, value: &psk_v })
                            } else {
                                oc.hpke_open_psk(&ct, sk, pk, &info, aad, HpkePsk { id: &psk_id, value: &other_v })
                            };
                            if r.is_ok() {
                                st.fail(format!("[hpke_open] suite {suite}: {on} opens a {mode} ciphertext of {sn} with another psk / mode"));
                            }
                        }
                    }
                }
            }
            // contexts: a sender context of one provider, receiver contexts of all
            let info = rng.bytes(12);
            for (sn, sc) in &ps {
                let Ok((enc, mut cs)) = sc.hpke_setup_s(pk, &info) else {
                    st.fail(format!("[hpke_setup_s] suite {suite}: {sn} failed"));
                    continue;
                };
                let mut rs: Vec<(&'static str, AnyCtxR)> = vec![];
                for (on, oc) in &ps {
                    match oc.hpke_setup_r(&enc, sk, pk, &info) {
                        Ok(r) => rs.push((*on, r)),
                        Err(_) => st.fail(format!("[hpke_setup_r] suite {suite}: {on} cannot set up from {sn}'s kem output")),
                    }
                }
                for m in 0..4 {
                    let (pt, aad) = (rng.bytes(m * 17 + 1), rng.bytes(m));
                    st.kind("hpke_context_seal");
                    let Ok(ct) = cs.seal(Some(&aad), &pt) else {
                        st.fail(format!("[hpke_context] suite {suite}: {sn} context seal failed"));
                        break;
                    };
                    for (on, r) in rs.iter_mut() {
                        if r.open(Some(&aad), &ct).map(|z| z.to_vec()).ok() != Some(pt.clone()) {
                            st.fail(format!("[hpke_context] suite {suite}: message {m} of {sn}'s context does not open under {on}"));
                        }
                    }
                }
                for len in [1usize, 32, nh, 255 * nh, 255 * nh + 1, 0] {
                    let ectx = rng.bytes(7);
                    let mut answers = vec![(*sn, canon(cs.export(&ectx, len).map(|z| z.to_vec())))];
                    for (on, r) in rs.iter() {
                        answers.push((*on, canon(r.export(&ectx, len).map(|z| z.to_vec()))));
                    }
                    agree(st, &format!("hpke_export|len{} len={len}", if len == 0 { "=0" } else if len > 255 * nh { ">255Nh" } else { "ok" }), suite, &answers);
                }
            }
        }
        // psk input rules
        if let Some((sk, pk)) = keypairs.first() {
            for (vl, il) in [(0usize, 0usize), (0, 4), (32, 0), (31, 4), (1, 4), (32, 4), (64, 200)] {
                let (v, i) = (rng.bytes(vl), rng.bytes(il));
                let a = agree(
                    st,
                    &format!("hpke_psk_rules|value{}:id{} value={vl} id={il}", if vl == 0 { "=0" } else if vl < 32 { "<32" } else { ">=32" }, if il == 0 { "=0" } else { ">0" }),
                    suite,
                    &ps.iter().map(|(n, c)| (*n, canon(c.hpke_seal_psk(pk, b"i", None, b"x", HpkePsk { id: &i, value: &v }).map(|_| vec![])))).collect::<Vec<_>>(),
                );
                let _ = (a, sk);
            }
        }
        // ---- signatures -------------------------------------------------------------------------------------------------
        let mut sig_keys: Vec<(&'static str, SignatureSecretKey, SignaturePublicKey)> = vec![];
        for (n, c) in &ps {
            match c.signature_key_generate() {
                Ok((s, p)) => sig_keys.push((*n, s, p)),
                Err(_) => st.fail(format!("[signature_key_generate] suite {suite}: {n} failed")),
            }
        }
        for (gn, sk, pk) in &sig_keys {
            let r = agree(
                st,
                &format!("signature_key_derive_public|- from={gn}"),
                suite,
                &ps.iter().map(|(n, c)| (*n, canon(c.signature_key_derive_public(sk).map(|p| p.to_vec())))).collect::<Vec<_>>(),
            );
            if r != format!("ok:{}", hex(pk)) {
                st.fail(format!("[signature_key_derive_public] suite {suite}: public key derived from {gn}'s secret key differs from the generated one"));
            }
            for &l in &[0usize, 1, 64, 1000] {
                let msg = rng.bytes(l);
                for (sn, sc) in &ps {
                    st.kind("sign");
                    let Ok(sig) = sc.sign(sk, &msg) else {
                        st.fail(format!("[sign] suite {suite}: {sn} cannot sign with {gn}'s key"));
                        continue;
                    };
                    let mut vars: Vec<(&str, Vec<u8>, Vec<u8>)> = vec![("genuine", sig.clone(), msg.clone())];
                    let mut t = sig.clone();
                    let p = rng.below(t.len() as u64) as usize;
                    t[p] ^= 1 << rng.below(8);
                    vars.push(("bitflip", t, msg.clone()));
                    vars.push(("truncated", sig[..sig.len() - 1].to_vec(), msg.clone()));
                    vars.push(("extended", [sig.clone(), vec![0]].concat(), msg.clone()));
                    vars.push(("empty", vec![], msg.clone()));
                    vars.push(("other-message", sig.clone(), [msg.clone(), vec![1]].concat()));
                    for (label, s2, m2) in vars {
                        let r = agree(
                            st,
                            &format!("verify|{label}:msg{} signer={sn} key={gn}", if l == 0 { "=0" } else { ">0" }),
                            suite,
                            &ps.iter().map(|(n, c)| (*n, canon(c.verify(pk, &s2, &m2).map(|_| vec![])))).collect::<Vec<_>>(),
                        );
                        if (label == "genuine") != r.starts_with("ok") {
                            st.fail(format!("[verify] suite {suite}: {label} signature of {sn} (key of {gn}): {r}"));
                        }
                    }
                }
            }
            // malformed public keys
            let b = pk.to_vec();
            let sig = ps[0].1.sign(sk, b"m").unwrap_or_default();
            for (label, v) in [("empty", vec![]), ("short", b[..b.len() - 1].to_vec()), ("long", [b.clone(), vec![0]].concat()), ("zeros", vec![0; b.len()]), ("ones", vec![0xff; b.len()])] {
                agree(
                    st,
                    &format!("verify-malformed-key|{label} -"),
                    suite,
                    &ps.iter().map(|(n, c)| (*n, canon(c.verify(&SignaturePublicKey::from(v.clone()), &sig, b"m").map(|_| vec![])))).collect::<Vec<_>>(),
                );
            }
            // malformed secret keys
            let s = sk.to_vec();
            for (label, v) in [("empty", vec![]), ("short", s[..s.len() - 1].to_vec()), ("long", [s.clone(), vec![0]].concat()), ("zeros", vec![0; s.len()])] {
                agree(
                    st,
                    &format!("sign-malformed-key|{label} -"),
                    suite,
                    &ps.iter()
                        .map(|(n, c)| (*n, if c.sign(&SignatureSecretKey::from(v.clone()), b"m").is_ok() { "ok".to_string() } else { "err".to_string() }))
                        .collect::<Vec<_>>(),
                );
            }
        }
    }
}

fn info_or(v: &[u8]) -> Vec<u8> {
    let mut x = v.to_vec();
    x[0] ^= 1;
    x
}

// ---------------------------------------------------------------------------------------------------------------------
// (2) the generic HPKE construction with scripted KEM / DH and a recording AEAD, over each provider's KDF

#[derive(Clone)]
struct CsKdf {
    cs: AnyCs,
    id: u16,
}
impl KdfType for CsKdf {
    type Error = AnyErr;
    fn kdf_id(&self) -> u16 {
        self.id
    }
    fn expand(&self, prk: &[u8], info: &[u8], len: usize) -> Result<Vec<u8>, AnyErr> {
        self.cs.kdf_expand(prk, info, len).map(|z| z.to_vec())
    }
    fn extract(&self, salt: &[u8], ikm: &[u8]) -> Result<Vec<u8>, AnyErr> {
        self.cs.kdf_extract(salt, ikm).map(|z| z.to_vec())
    }
    fn extract_size(&self) -> usize {
        self.cs.kdf_extract_size()
    }
}

#[derive(Clone)]
struct FakeKem {
    id: u16,
    ss: Vec<u8>,
    enc: Vec<u8>,
}
impl KemType for FakeKem {
    type Error = AnyErr;
    fn kem_id(&self) -> u16 {
        self.id
    }
    fn generate_deterministic(&self, seed: &[u8]) -> Result<(HpkeSecretKey, HpkePublicKey), AnyErr> {
        Ok((seed.to_vec().into(), seed.to_vec().into()))
    }
    fn generate(&self) -> Result<(HpkeSecretKey, HpkePublicKey), AnyErr> {
        Ok((vec![1].into(), vec![1].into()))
    }
    fn public_key_validate(&self, _: &HpkePublicKey) -> Result<(), AnyErr> {
        Ok(())
    }
    fn encap(&self, _: &HpkePublicKey) -> Result<KemResult, AnyErr> {
        Ok(KemResult::new(self.ss.clone(), self.enc.clone()))
    }
    fn decap(&self, _: &[u8], _: &HpkeSecretKey, _: &HpkePublicKey) -> Result<Vec<u8>, AnyErr> {
        Ok(self.ss.clone())
    }
    fn seed_length_for_derive(&self) -> usize {
        32
    }
}

/// "ciphertext" = what the construction handed to the AEAD
#[derive(Clone)]
struct RecAead {
    id: u16,
    nk: usize,
    nn: usize,
    log: Arc<Mutex<Vec<(Vec<u8>, Vec<u8>)>>>,
}
impl AeadType for RecAead {
    type Error = AnyErr;
    fn aead_id(&self) -> u16 {
        self.id
    }
    fn seal<'a>(&self, key: &[u8], data: &[u8], _aad: Option<&'a [u8]>, nonce: &[u8]) -> Result<Vec<u8>, AnyErr> {
        self.log.lock().unwrap().push((key.to_vec(), nonce.to_vec()));
        Ok(data.to_vec())
    }
    fn open<'a>(&self, key: &[u8], ct: &[u8], _aad: Option<&'a [u8]>, nonce: &[u8]) -> Result<Vec<u8>, AnyErr> {
        self.log.lock().unwrap().push((key.to_vec(), nonce.to_vec()));
        Ok(ct.to_vec())
    }
    fn key_size(&self) -> usize {
        self.nk
    }
    fn nonce_size(&self) -> usize {
        self.nn
    }
}

#[derive(Clone)]
struct FakeDh {
    dh: Vec<u8>,
    method: u8, // 0 = without bitmask, 1 = raw, otherwise bitmask given in `mask`
    mask: u8,
    sk_size: usize,
    /// number of leading candidates `to_public` rejects (rejection sampling)
    reject: Arc<Mutex<u32>>,
    eph: (Vec<u8>, Vec<u8>),
}
impl DhType for FakeDh {
    type Error = AnyErr;
    fn dh(&self, _: &HpkeSecretKey, _: &HpkePublicKey) -> Result<Vec<u8>, AnyErr> {
        Ok(self.dh.clone())
    }
    fn generate(&self) -> Result<(HpkeSecretKey, HpkePublicKey), AnyErr> {
        Ok((self.eph.0.clone().into(), self.eph.1.clone().into()))
    }
    fn to_public(&self, sk: &HpkeSecretKey) -> Result<HpkePublicKey, AnyErr> {
        let mut r = self.reject.lock().unwrap();
        if *r > 0 {
            *r -= 1;
            return Err(AnyErr("rejected candidate".into()));
        }
        Ok(sk.to_vec().into())
    }
    fn bitmask_for_rejection_sampling(&self) -> SamplingMethod {
        match self.method {
            0 => SamplingMethod::HpkeWithoutBitmask,
            1 => SamplingMethod::Raw,
            _ => SamplingMethod::HpkeWithBitmask(self.mask),
        }
    }
    fn secret_key_size(&self) -> usize {
        self.sk_size
    }
    fn public_key_size(&self) -> usize {
        self.sk_size
    }
    fn public_key_validate(&self, _: &HpkePublicKey) -> Result<(), AnyErr> {
        Ok(())
    }
}

/// (kem id, kdf id, aead id, n_secret, dh secret key size, sampling: 0 = no bitmask, else mask)
fn suite_ids(suite: u16) -> (u16, u16, u16, usize, usize, u8, u8) {
    match suite {
        1 => (0x0020, 1, 1, 32, 32, 0, 0),
        2 => (0x0010, 1, 1, 32, 32, 2, 0xff),
        3 => (0x0020, 1, 3, 32, 32, 0, 0),
        4 => (0x0021, 3, 2, 64, 56, 0, 0),
        5 => (0x0012, 3, 2, 64, 66, 2, 0x01),
        6 => (0x0021, 3, 3, 64, 56, 0, 0),
        _ => (0x0011, 2, 2, 48, 48, 2, 0xff),
    }
}

fn hpke_rows(rng: &mut Rng, qa: &mut QA, st: &mut St, thorough: bool) {
    let reps = if thorough { 40 } else { 6 };
    for suite in 1u16..=7 {
        let (kem_id, kdf_id, aead_id, n_secret, sk_size, method, mask) = suite_ids(suite);
        for (pname, cs) in providers(suite) {
            let nk = cs.aead_key_size();
            let nn = cs.aead_nonce_size();
            let kdf = CsKdf { cs: cs.clone(), id: kdf_id };
            for rep in 0..reps {
                // ---- key schedule, nonce sequence, exporter ----------------------------------------------------------------
                let ss = rng.bytes(n_secret);
                let il = *rng.pick(&[0usize, 1, 20, 64, 200]);
                let info = rng.bytes(il);
                let mode_psk = rep % 2 == 1;
                let (pv, pi) = if mode_psk {
                    let l = *rng.pick(&[32usize, 33, 64]);
                    {
                        let l2 = rng.range(1, 20) as usize;
                        (rng.bytes(l), rng.bytes(l2))
                    }
                } else {
                    (vec![], vec![])
                };
                let log = Arc::new(Mutex::new(vec![]));
                let aead = RecAead { id: aead_id, nk, nn, log: log.clone() };
                let h = Hpke::new(FakeKem { id: kem_id, ss: ss.clone(), enc: vec![9, 9] }, kdf.clone(), Some(aead));
                let mkpsk = || if mode_psk { Some(HpkePsk { id: &pi, value: &pv }) } else { None };
                st.kind("hpke.ks");
                let Ok((_, mut ctx)) = h.setup_sender(&HpkePublicKey::from(vec![1]), &info, mkpsk()) else {
                    st.fail(format!("[hpke.ks] suite {suite} {pname}: setup_sender failed"));
                    continue;
                };
                let mut nonces = vec![];
                for _ in 0..3 {
                    let _ = ctx.seal(None, b"x");
                }
                let l = log.lock().unwrap().clone();
                let key = l.first().map(|x| x.0.clone()).unwrap_or_default();
                for x in &l {
                    nonces.push(x.1.clone());
                }
                let el = rng.below(30) as usize;
                let ectx = rng.bytes(el);
                let elen = *rng.pick(&[1usize, 16, 32, 48, 64, 100]);
                let exp = ctx.export(&ectx, elen).map(|z| z.to_vec());
                // the receiver side of the same construction agrees
                let log2 = Arc::new(Mutex::new(vec![]));
                let h2 = Hpke::new(FakeKem { id: kem_id, ss: ss.clone(), enc: vec![9, 9] }, kdf.clone(), Some(RecAead { id: aead_id, nk, nn, log: log2.clone() }));
                if let Ok(mut r) = h2.setup_receiver(&[9, 9], &HpkeSecretKey::from(vec![1]), &HpkePublicKey::from(vec![1]), &info, mkpsk()) {
                    for _ in 0..3 {
                        let _ = r.open(None, b"x");
                    }
                    if *log2.lock().unwrap() != l {
                        st.fail(format!("[hpke.ks] suite {suite} {pname}: receiver context uses other keys / nonces than the sender context"));
                    }
                    if r.export(&ectx, elen).map(|z| z.to_vec()).ok() != exp.as_ref().ok().cloned() {
                        st.fail(format!("[hpke.ks] suite {suite} {pname}: receiver export differs"));
                    }
                } else {
                    st.fail(format!("[hpke.ks] suite {suite} {pname}: setup_receiver failed"));
                }
                // rows: the model recomputes key, base nonce (= nonce of seq 0) and the exporter secret; the exporter secret is
                // observable only through export, so the export row takes the model's own exporter secret as input:
                // `hpke.ksx` = key schedule + nonce(seq) for seq 0..2 + export
                qa.put(
                    &format!(
                        "hpke.ksx {suite} {} {} {} {} {} {} {elen}",
                        if mode_psk { "psk" } else { "base" },
                        hex(&ss),
                        hex(&info),
                        hex(&pv),
                        hex(&pi),
                        hex(&ectx)
                    ),
                    &format!(
                        "{} {} {}",
                        hex(&key),
                        nonces.iter().map(|n| hex(n)).collect::<Vec<_>>().join(","),
                        exp.map(|e| hex(&e)).unwrap_or("err".into())
                    ),
                );
                // ---- DHKEM: shared secret from (dh, enc, pkR) ----------------------------------------------------------------
                let dl = *rng.pick(&[32usize, 48, 56, 66]);
                let dh = rng.bytes(dl);
                let pl = *rng.pick(&[32usize, 65, 97, 133]);
                let (esk, epk) = (rng.bytes(sk_size), rng.bytes(pl));
                let pkr = rng.bytes(epk.len());
                let fdh = FakeDh { dh: dh.clone(), method, mask, sk_size, reject: Default::default(), eph: (esk, epk.clone()) };
                let kem = DhKem::new(fdh.clone(), kdf.clone(), kem_id, n_secret);
                st.kind("dhkem.ss");
                match kem.encap(&HpkePublicKey::from(pkr.clone())) {
                    Ok(res) => {
                        qa.put(&format!("dhkem.ss {suite} {} {} {}", hex(&dh), hex(res.enc()), hex(&pkr)), &hex(res.shared_secret()));
                        let d = kem.decap(res.enc(), &HpkeSecretKey::from(vec![2]), &HpkePublicKey::from(pkr.clone()));
                        if d.ok().as_deref() != Some(res.shared_secret()) {
                            st.fail(format!("[dhkem.ss] suite {suite} {pname}: decap differs from encap"));
                        }
                    }
                    Err(_) => st.fail(format!("[dhkem.ss] suite {suite} {pname}: encap failed")),
                }
                // ---- key derivation: dkp_prk (raw sampling shows it) and the secret key bytes of the suite's sampling method ---
                let kl = *rng.pick(&[1usize, 32, 48, 64, 66]);
                let ikm = rng.bytes(kl);
                let raw = Hpke::new(DhKem::new(FakeDh { method: 1, ..fdh.clone() }, kdf.clone(), kem_id, n_secret), kdf.clone(), None::<RecAead>);
                let real = Hpke::new(DhKem::new(fdh.clone(), kdf.clone(), kem_id, n_secret), kdf.clone(), None::<RecAead>);
                st.kind("dhkem.dkp");
                match (raw.derive(&ikm), real.derive(&ikm)) {
                    (Ok((prk, _)), Ok((sk, _))) => {
                        qa.put(&format!("dhkem.dkp {suite} {}", hex(&ikm)), &format!("{} {}", hex(&prk), hex(&sk)));
                        // the provider's own kem_derive yields the same secret key (for the NIST curves: unless candidate 0 is out of range)
                        if let Ok((psk_, _)) = cs.kem_derive(&ikm) {
                            if psk_.to_vec() != sk.to_vec() {
                                st.fail(format!("[dhkem.dkp] suite {suite} {pname}: kem_derive secret key differs from the RFC 9180 derivation over its own KDF"));
                            }
                        }
                    }
                    _ => st.fail(format!("[dhkem.dkp] suite {suite} {pname}: derive failed")),
                }
                // rejection sampling: the first k candidates refused -> candidate k (NIST suites only)
                if method == 2 && rep == 0 {
                    for k in [1u32, 3] {
                        let f = FakeDh { reject: Arc::new(Mutex::new(k)), ..fdh.clone() };
                        let hk = Hpke::new(DhKem::new(f, kdf.clone(), kem_id, n_secret), kdf.clone(), None::<RecAead>);
                        if let Ok((sk, _)) = hk.derive(&ikm) {
                            qa.put(&format!("dhkem.cand {suite} {} {k}", hex(&ikm)), &hex(&sk));
                        }
                    }
                }
            }
            // sequence numbers: nonce = base XOR seq for larger seq (context driven directly)
            let _ = pname;
        }
    }
}

// ---------------------------------------------------------------------------------------------------------------------
// (3) X.509

#[derive(Clone)]
struct ACert {
    subject: u32,
    issuer: u32,
    key: u32,
    signed_by: u32,
    nb: i64,
    na: i64,
    ca: bool,
    pathlen: Option<u32>,
    der: Vec<u8>,
}

fn acert_str(c: &ACert) -> String {
    format!("{},{},{},{},{},{},{},{}", c.subject, c.issuer, c.key, c.signed_by, c.nb, c.na, c.ca as u8, c.pathlen.map(|p| p.to_string()).unwrap_or("-".into()))
}

struct Pki {
    keys: Vec<openssl::pkey::PKey<openssl::pkey::Private>>,
    ed: bool,
}

impl Pki {
    fn key(&mut self, _rng: &mut Rng) -> u32 {
        let k = if self.ed {
            openssl::pkey::PKey::generate_ed25519().unwrap()
        } else {
            let g = openssl::ec::EcGroup::from_curve_name(openssl::nid::Nid::X9_62_PRIME256V1).unwrap();
            openssl::pkey::PKey::from_ec_key(openssl::ec::EcKey::generate(&g).unwrap()).unwrap()
        };
        self.keys.push(k);
        self.keys.len() as u32 - 1
    }

    #[allow(clippy::too_many_arguments)]
    fn cert(&self, subject: u32, issuer: u32, key: u32, signed_by: u32, nb: i64, na: i64, ca: bool, pathlen: Option<u32>, serial: u32) -> ACert {
        use openssl::x509::*;
        let name = |n: u32| {
            let mut b = X509NameBuilder::new().unwrap();
            b.append_entry_by_text("CN", &format!("subject-{n}")).unwrap();
            b.build()
        };
        let mut b = X509Builder::new().unwrap();
        b.set_version(2).unwrap();
        let sn = openssl::bn::BigNum::from_u32(serial + 1).unwrap().to_asn1_integer().unwrap();
        b.set_serial_number(&sn).unwrap();
        b.set_subject_name(&name(subject)).unwrap();
        b.set_issuer_name(&name(issuer)).unwrap();
        b.set_pubkey(&self.keys[key as usize]).unwrap();
        b.set_not_before(&openssl::asn1::Asn1Time::from_unix(nb).unwrap()).unwrap();
        b.set_not_after(&openssl::asn1::Asn1Time::from_unix(na).unwrap()).unwrap();
        let mut bc = extension::BasicConstraints::new();
        bc.critical();
        if ca {
            bc.ca();
            if let Some(p) = pathlen {
                bc.pathlen(p);
            }
        }
        b.append_extension(bc.build().unwrap()).unwrap();
        if ca {
            b.append_extension(extension::KeyUsage::new().critical().key_cert_sign().crl_sign().build().unwrap()).unwrap();
        } else {
            b.append_extension(extension::KeyUsage::new().critical().digital_signature().build().unwrap()).unwrap();
        }
        let md = if self.ed { openssl::hash::MessageDigest::null() } else { openssl::hash::MessageDigest::sha256() };
        b.sign(&self.keys[signed_by as usize], md).unwrap();
        ACert { subject, issuer, key, signed_by, nb, na, ca, pathlen, der: b.build().to_der().unwrap() }
    }
}

fn verdicts(anchors: &[ACert], chain: &[ACert], time: Option<i64>) -> Vec<(&'static str, String)> {
    let roots: Vec<DerCertificate> = anchors.iter().map(|c| DerCertificate::from(c.der.clone())).collect();
    let ch: CertificateChain = chain.iter().map(|c| DerCertificate::from(c.der.clone())).collect::<Vec<_>>().into();
    let t = time.map(|t| MlsTime::from(t as u64));
    let mut out = vec![];
    let v = |r: Result<Result<SignaturePublicKey, String>, Box<dyn std::any::Any + Send>>| match r {
        Ok(Ok(_)) => "ok".to_string(),
        Ok(Err(e)) => format!("err:{}", e.chars().take(60).collect::<String>()),
        Err(_) => "panic".to_string(),
    };
    out.push((
        "rustcrypto",
        v(std::panic::catch_unwind(|| {
            mls_rs_crypto_rustcrypto::x509::X509Validator::new(roots.clone()).map_err(|e| format!("anchors:{e:?}")).and_then(|x| x.validate_chain(&ch, t).map_err(|e| format!("{e:?}")))
        })),
    ));
    out.push((
        "openssl",
        v(std::panic::catch_unwind(|| {
            mls_rs_crypto_openssl::x509::X509Validator::new(roots.clone()).map_err(|e| format!("anchors:{e:?}")).and_then(|x| x.validate_chain(&ch, t).map_err(|e| format!("{e:?}")))
        })),
    ));
    out.push((
        "awslc",
        v(std::panic::catch_unwind(|| {
            mls_rs_crypto_awslc::x509::CertificateValidator::new_der(&roots).map_err(|e| format!("anchors:{e:?}")).and_then(|x| x.validate_chain(&ch, t).map_err(|e| format!("{e:?}")))
        })),
    ));
    out
}

fn x509(rng: &mut Rng, qa: &mut QA, st: &mut St, thorough: bool) {
    let base: i64 = 1_700_000_000;
    let n = if thorough { 400 } else { 60 };
    for case in 0..n {
        let mut pki = Pki { keys: vec![], ed: case % 3 == 0 };
        let depth = rng.range(1, 3) as usize; // number of intermediates + leaf - 1 ... chain = leaf + (depth-1) intermediates
        // root
        let rk = pki.key(rng);
        let window = |rng: &mut Rng| {
            let nb = base + rng.range(0, 5) as i64 * 100;
            (nb, nb + rng.range(1, 10) as i64 * 100)
        };
        let (rnb, rna) = window(rng);
        let root = pki.cert(100, 100, rk, rk, rnb, rna, true, None, 0);
        // chain from the root down: issuers[0] = root
        let mut issuers: Vec<ACert> = vec![root.clone()];
        for d in 0..depth - 1 {
            let k = pki.key(rng);
            let (nb, na) = window(rng);
            let p = issuers.last().unwrap().clone();
            issuers.push(pki.cert(200 + d as u32, p.subject, k, p.key, nb, na, true, None, 10 + d as u32));
        }
        let lk = pki.key(rng);
        let (lnb, lna) = window(rng);
        let p = issuers.last().unwrap().clone();
        let leaf = pki.cert(300, p.subject, lk, p.key, lnb, lna, false, None, 50);
        // leaf-first chain without the root
        let mut chain: Vec<ACert> = vec![leaf.clone()];
        chain.extend(issuers.iter().skip(1).rev().cloned());
        let mut anchors = vec![root.clone()];
        // ---- structural variant --------------------------------------------------------------------------------------------
        let variant = rng.below(12);
        let label = match variant {
            0 | 1 | 2 => "valid",
            3 => {
                // wrong issuer signature: an element signed by an unrelated key (names still chain)
                let other = pki.key(rng);
                let i = rng.below(chain.len() as u64) as usize;
                let c = chain[i].clone();
                chain[i] = pki.cert(c.subject, c.issuer, c.key, other, c.nb, c.na, c.ca, c.pathlen, 60);
                "wrong-signature"
            }
            4 if chain.len() > 1 => {
                let i = rng.range(1, chain.len() as u64 - 1) as usize;
                chain.remove(i);
                "missing-intermediate"
            }
            5 if chain.len() > 2 => {
                chain.swap(1, 2);
                "reordered-intermediates"
            }
            6 if chain.len() > 1 => {
                // the leaf's issuer is not a CA
                let c = chain[1].clone();
                chain[1] = pki.cert(c.subject, c.issuer, c.key, c.signed_by, c.nb, c.na, false, None, 61);
                "non-ca-issuer"
            }
            7 => {
                // unknown root: the anchor list holds another self-signed CA
                let ok = pki.key(rng);
                anchors = vec![pki.cert(101, 101, ok, ok, rnb, rna, true, None, 62)];
                "unknown-root"
            }
            8 => {
                // the root included at the end of the chain
                chain.push(root.clone());
                "root-in-chain"
            }
            9 => {
                // a second, unrelated anchor in front
                let ok = pki.key(rng);
                anchors.insert(0, pki.cert(101, 101, ok, ok, rnb, rna, true, None, 63));
                "extra-anchor"
            }
            10 if chain.len() > 1 => {
                // leaf listed last instead of first
                chain.rotate_left(1);
                "leaf-not-first"
            }
            11 => {
                // path length constraint 0 on the root with an intermediate below it
                let r2 = pki.cert(100, 100, rk, rk, rnb, rna, true, Some(0), 64);
                anchors = vec![r2];
                "pathlen-zero-root"
            }
            _ => "valid",
        };
        // ---- validation times around every boundary --------------------------------------------------------------------------
        let mut times: Vec<Option<i64>> = vec![None];
        let mut bounds: Vec<i64> = chain.iter().chain(anchors.iter()).flat_map(|c| [c.nb, c.na]).collect();
        bounds.sort();
        bounds.dedup();
        for b in bounds {
            for d in [-1i64, 0, 1] {
                times.push(Some(b + d));
            }
        }
        times.push(Some(base - 1000));
        times.push(Some(base + 100000));
        if !thorough {
            // a sample of the times
            let keep: Vec<Option<i64>> = (0..8).map(|_| *rng.pick(&times)).collect();
            times = [vec![None], keep].concat();
        }
        for t in times {
            let vs = verdicts(&anchors, &chain, t);
            st.kind("x509");
            *st.kinds.entry(format!("x509:{label}")).or_default() += 1;
            let simple: Vec<(&'static str, String)> = vs.iter().map(|(n, v)| (*n, if v == "ok" { "ok".to_string() } else if v == "panic" { "panic".into() } else { "err".to_string() })).collect();
            // known deviation classes this (chain, time, provider) falls into; a differing row / a disagreement inside a class is
            // reported under the class name (see /verif/known_findings.json), anything else under its own label
            let at_not_after = t.map(|t| chain.iter().chain(anchors.iter()).any(|c| c.na == t)).unwrap_or(false);
            let class_of = |provider: &str| -> Option<&'static str> {
                let ossl_family = provider == "openssl" || provider == "awslc";
                if at_not_after && ossl_family {
                    Some("notAfter-boundary")
                } else if label == "pathlen-zero-root" && provider == "awslc" {
                    Some("anchor-pathlen")
                } else if label == "reordered-intermediates" && ossl_family {
                    Some("reordered-accepted")
                } else if label == "leaf-not-first" {
                    Some("trailing-certs-ignored")
                } else {
                    None
                }
            };
            let first = simple[0].1.clone();
            if simple.iter().any(|(_, v)| *v != first) || simple.iter().any(|(_, v)| v == "panic") {
                let detail: Vec<String> = vs.iter().map(|(n, v)| format!("{n}={v}")).collect();
                let classes: Vec<&str> = simple.iter().filter_map(|(n, _)| class_of(n)).collect();
                let cls = if simple.iter().any(|(_, v)| v == "panic") { format!("x509:{label}:panic") } else if let Some(c) = classes.first() { format!("x509/{c}") } else { format!("x509:{label}") };
                st.fail(format!(
                    "[{cls}] validators disagree at time {}: {} | anchors {} | chain {}",
                    t.map(|x| x.to_string()).unwrap_or("-".into()),
                    detail.join(" "),
                    anchors.iter().map(acert_str).collect::<Vec<_>>().join(";"),
                    chain.iter().map(acert_str).collect::<Vec<_>>().join(";")
                ));
            }
            *st.outcomes.entry(format!("x509:{label}:{first}")).or_default() += 1;
            // one row per provider: each must give the model's (correct) verdict
            for (n, v) in &simple {
                let body = format!(
                    "{} {} {}",
                    t.map(|x| x.to_string()).unwrap_or("-".into()),
                    anchors.iter().map(acert_str).collect::<Vec<_>>().join(";"),
                    if chain.is_empty() { "-".to_string() } else { chain.iter().map(acert_str).collect::<Vec<_>>().join(";") }
                );
                match class_of(n) {
                    Some(c) => qa.put(&format!("x509k {c}:{n} {body}"), v),
                    None => qa.put(&format!("x509 {body}"), v),
                }
            }
        }
    }
}

pub fn run(o: &Opts) -> i32 {
    crate::util::quiet_panics();
    let dir = o.str("out", "/verif/work/c14");
    std::fs::create_dir_all(&dir).ok();
    let mut rng = Rng::new(o.seed());
    let mut st = St { fails: vec![], classes: Default::default(), cases: 0, kinds: Default::default(), outcomes: Default::default() };
    let part = o.str("part", "all");
    let mut qa = QA::create(&dir, "c14");
    if part == "all" || part == "prims" {
        prims(&mut rng, &mut qa, &mut st, o.thorough());
    }
    if part == "all" || part == "hpke" {
        hpke_rows(&mut rng, &mut qa, &mut st, o.thorough());
    }
    let rows_a = qa.finish();
    let mut qx = QA::create(&dir, "c14x");
    if part == "all" || part == "x509" {
        x509(&mut rng, &mut qx, &mut st, o.thorough());
    }
    let rows_x = qx.finish();
    println!("rows {}", rows_a + rows_x);
    println!("cases {}", st.cases);
    println!("kinds {}", st.kinds.iter().map(|(k, v)| format!("{k}={v}")).collect::<Vec<_>>().join(","));
    println!("outcomes {}", st.outcomes.iter().map(|(k, v)| format!("{k}={v}")).collect::<Vec<_>>().join(","));
    println!("oracle_failures {}", st.classes.len());
    println!("divergence_classes {}", st.classes.iter().map(|(k, v)| format!("{k}={}", v.0)).collect::<Vec<_>>().join(","));
    // one line per class (the known-findings filter works on classes), first example attached
    std::fs::write(format!("{dir}/c14.failures"), st.classes.iter().map(|(k, v)| format!("[{k}] x{} e.g. {}", v.0, v.1)).collect::<Vec<_>>().join("\n")).unwrap();
    std::fs::write(format!("{dir}/c14.allfailures"), st.fails.join("\n")).unwrap();
    std::fs::write(format!("{dir}/c14.samples"), "").unwrap();
    0
}
