//! C14: the shipped crypto providers (RustCrypto, OpenSSL, AWS-LC) are interchangeable.
//!
//! (1) every primitive of `CipherSuiteProvider`, every common suite, all providers side by side on the same inputs
//!     (lengths incl. empty and block boundaries, wrong key / nonce / tag / length, malformed keys): identical bytes for the
//!     deterministic ones, identical accept / reject, cross-verification / cross-opening for the randomised ones;
//!     hash / MAC / KDF rows are also recomputed by the Lean reference (`mlsmodel c14`);
//! (2) the generic HPKE construction (mls-rs-crypto-hpke) driven with a scripted KEM / DH and a recording AEAD over each
//!     provider's KDF: key schedule, nonce sequence, exporter, DHKEM shared secret and key derivation as rows for the Lean
//!     HPKE model;
//! (3) generated certificate chains (valid, expired, not yet valid, wrong issuer signature, missing / reordered
//!     intermediate, non-CA issuer, unknown root) at validation times around the validity boundaries through the three
//!     X.509 validators: same verdict, and the verdict of the Lean model (`x509` rows).
//! Mixed-provider group histories are run by `hist --providers mixed`.
use crate::anyprov::*;
use crate::util::{hex, Opts, Rng, QA};
use mls_rs::crypto::{HpkeCiphertext, HpkePublicKey, HpkeSecretKey, SignaturePublicKey, SignatureSecretKey};
use mls_rs::{CipherSuite, CipherSuiteProvider, CryptoProvider};
use mls_rs_core::crypto::{HpkeContextR, HpkeContextS, HpkePsk};
use mls_rs_core::time::MlsTime;
use mls_rs_crypto_hpke::dhkem::DhKem;
use mls_rs_crypto_hpke::hpke::Hpke;
use mls_rs_crypto_traits::{AeadType, DhType, KdfType, KemResult, KemType, SamplingMethod};
use mls_rs_identity_x509::{CertificateChain, DerCertificate, SubjectIdentityExtractor, X509CertificateReader, X509CredentialValidator};
use std::collections::BTreeMap;
use std::sync::{Arc, Mutex};

pub struct St {
    pub fails: Vec<String>,
    /// divergences by class: "<op>/<input class>/<who accepts>" -> (count, first example)
    pub classes: BTreeMap<String, (u64, String)>,
    pub cases: u64,
    pub kinds: BTreeMap<String, u64>,
    pub outcomes: BTreeMap<String, u64>,
}

impl St {
    fn fail(&mut self, s: String) {
        // `[class] detail`: one line per class, with the number of occurrences
        let class = s.split(']').next().unwrap_or("").trim_start_matches('[').to_string();
        let e = self.classes.entry(class).or_insert((0, s.clone()));
        e.0 += 1;
        if self.fails.len() < 2000 {
            self.fails.push(s);
        }
    }
    fn kind(&mut self, k: &str) {
        self.cases += 1;
        *self.kinds.entry(k.to_string()).or_default() += 1;
    }
}

fn providers(suite: u16) -> Vec<(&'static str, AnyCs)> {
    (0..3u8)
        .filter_map(|i| {
            let p = AnyProvider::by_index(i);
            p.cipher_suite_provider(CipherSuite::from(suite)).map(|c| (p.name(), c))
        })
        .collect()
}

/// canonical form of a primitive's result: bytes or `err`
fn canon<E>(r: Result<Vec<u8>, E>) -> String {
    match r {
        Ok(b) => format!("ok:{}", hex(&b)),
        Err(_) => "err".into(),
    }
}

/// all providers must give the same canonical answer; returns it (of the first provider)
fn agree(st: &mut St, what: &str, suite: u16, answers: &[(&'static str, String)]) -> String {
    // `what` = "<op> <details>" or "<op>|<input class> <details>"
    let head = what.split(' ').next().unwrap_or(what);
    let op = head.split('|').next().unwrap_or(head);
    st.kind(op);
    let first = &answers[0].1;
    if answers.iter().any(|(_, a)| a != first) {
        let detail: Vec<String> = answers.iter().map(|(n, a)| format!("{n}={}", if a.len() > 70 { format!("{}…", &a[..70]) } else { a.clone() })).collect();
        // who accepts: bytes differ (all ok but different) is its own pattern
        let mut oks: Vec<&str> = answers.iter().filter(|(_, a)| a.starts_with("ok")).map(|(n, _)| *n).collect();
        let all_ok = oks.len() == answers.len();
        oks.sort();
        oks.dedup();
        let pattern = if all_ok { "different-bytes".to_string() } else { format!("accepted-by:{}", oks.join("+")) };
        st.fail(format!("[{}/{pattern}] suite {suite}: {}: {}", head.replace('|', "/"), what.split_once(' ').map(|x| x.1).unwrap_or(""), detail.join(" ")));
    }
    *st.outcomes.entry(format!("{op}:{}", if first.starts_with("ok") { "ok" } else { "err" })).or_default() += 1;
    first.clone()
}

const LENS: [usize; 22] = [0, 1, 15, 16, 17, 31, 32, 33, 55, 56, 63, 64, 65, 111, 112, 119, 127, 128, 129, 255, 256, 1000];

fn row(qa: &mut QA, q: String, ans: &str) {
    // rows only for answers inside the domain of the RFC formulas (provider guards are compared between providers only)
    let a = match ans.strip_prefix("ok:") {
        Some(h) => h.to_string(),
        None => "err".to_string(),
    };
    qa.put(&q, &a);
}

fn prims(rng: &mut Rng, qa: &mut QA, st: &mut St, thorough: bool) {
    for suite in 1u16..=7 {
        let ps = providers(suite);
        if ps.len() < 2 {
            continue;
        }
        let names: Vec<&str> = ps.iter().map(|p| p.0).collect();
        *st.outcomes.entry(format!("suite{suite}:{}", names.join("+"))).or_default() += 1;
        let nh = ps[0].1.kdf_extract_size();
        let nk = ps[0].1.aead_key_size();
        let nn = ps[0].1.aead_nonce_size();
        for (n, c) in &ps {
            if c.kdf_extract_size() != nh || c.aead_key_size() != nk || c.aead_nonce_size() != nn {
                st.fail(format!("[params] suite {suite}: {n} reports other sizes"));
            }
        }
        // ---- hash, mac ------------------------------------------------------------------------------------------------
        for &l in &LENS {
            let d = rng.bytes(l);
            let a = agree(st, &format!("hash|- len={l}"), suite, &ps.iter().map(|(n, c)| (*n, canon(c.hash(&d)))).collect::<Vec<_>>());
            row(qa, format!("hash {suite} {}", hex(&d)), &a);
            for kl in [1usize, nh, 64, 65, 128, 129, 200] {
                let k = rng.bytes(kl);
                let a = agree(st, &format!("mac|data{} key={kl} len={l}", if l == 0 { "=0" } else { ">0" }), suite, &ps.iter().map(|(n, c)| (*n, canon(c.mac(&k, &d)))).collect::<Vec<_>>());
                row(qa, format!("mac {suite} {} {}", hex(&k), hex(&d)), &a);
                if !thorough && l > 130 {
                    break;
                }
            }
        }
        let d = rng.bytes(20);
        agree(st, "mac|empty-key -", suite, &ps.iter().map(|(n, c)| (*n, canon(c.mac(&[], &d)))).collect::<Vec<_>>());
        // ---- kdf ------------------------------------------------------------------------------------------------------
        for sl in [0usize, 7, nh, 200] {
            for il in [0usize, 1, nh, 100] {
                let (s, i) = (rng.bytes(sl), rng.bytes(il));
                let a = agree(
                    st,
                    &format!("kdf_extract|{} salt={sl} ikm={il}", if il == 0 { "empty-ikm" } else { "ikm" }),
                    suite,
                    &ps.iter().map(|(n, c)| (*n, canon(c.kdf_extract(&s, &i).map(|z| z.to_vec())))).collect::<Vec<_>>(),
                );
                if a.starts_with("ok") {
                    row(qa, format!("kdf.extract {suite} {} {}", hex(&s), hex(&i)), &a);
                }
            }
        }
        for pl in [nh, nh - 1, 0, 2 * nh] {
            for il in [0usize, 10, 300] {
                for len in [0usize, 1, nh - 1, nh, nh + 1, 2 * nh + 3, 255 * nh, 255 * nh + 1] {
                    let (p, i) = (rng.bytes(pl), rng.bytes(il));
                    let a = agree(
                        st,
                        &format!(
                            "kdf_expand|prk{}:info{}:len{} prk={pl} info={il} len={len}",
                            if pl < nh { "<Nh" } else { ">=Nh" },
                            if il > 255 { ">255" } else { "<=255" },
                            if len == 0 { "=0" } else if len > 255 * nh { ">255Nh" } else { "ok" }
                        ),
                        suite,
                        &ps.iter().map(|(n, c)| (*n, canon(c.kdf_expand(&p, &i, len).map(|z| z.to_vec())))).collect::<Vec<_>>(),
                    );
                    if a.starts_with("ok") || (len > 255 * nh && pl >= nh) {
                        row(qa, format!("kdf.expand {suite} {} {} {len}", hex(&p), hex(&i)), &a);
                    }
                }
            }
        }
        // ---- aead -----------------------------------------------------------------------------------------------------
        for &l in &LENS {
            for (kl, nl) in [(nk, nn), (nk, nn), (nk - 1, nn), (nk + 1, nn), (0, nn), (nk, nn - 1), (nk, nn + 1), (nk, 0)] {
                let (k, nonce, pt) = (rng.bytes(kl), rng.bytes(nl), rng.bytes(l));
                let aad_v = rng.bytes(13);
                let aad: Option<&[u8]> = match rng.below(3) {
                    0 => None,
                    1 => Some(&[]),
                    _ => Some(&aad_v),
                };
                let ct = agree(
                    st,
                    &format!(
                        "aead_seal|key{}:nonce{}:pt{} key={kl} nonce={nl} len={l} aad={}",
                        if kl == nk { "=Nk" } else if kl == 0 { "=0" } else { "!=Nk" },
                        if nl == nn { "=Nn" } else if nl == 0 { "=0" } else { "!=Nn" },
                        if l == 0 { "=0" } else { ">0" },
                        aad.map(|a| a.len() as i64).unwrap_or(-1)
                    ),
                    suite,
                    &ps.iter().map(|(n, c)| (*n, canon(c.aead_seal(&k, &pt, aad, &nonce)))).collect::<Vec<_>>(),
                );
                let all_sealed = ps.iter().all(|(_, c)| c.aead_seal(&k, &pt, aad, &nonce).is_ok());
                if let (Some(h), true) = (ct.strip_prefix("ok:"), all_sealed) {
                    let ct = crate::util::unhex(h).unwrap();
                    // every provider opens it; tampered / truncated / other aad: every provider rejects
                    let mut variants: Vec<(&str, Vec<u8>, Option<Vec<u8>>)> = vec![("genuine", ct.clone(), aad.map(|a| a.to_vec()))];
                    let mut t = ct.clone();
                    let p = rng.below(t.len() as u64) as usize;
                    t[p] ^= 1 << rng.below(8);
                    variants.push(("bitflip", t, aad.map(|a| a.to_vec())));
                    variants.push(("truncated", ct[..ct.len() - 1].to_vec(), aad.map(|a| a.to_vec())));
                    variants.push(("shorter-than-tag", ct[..ct.len().min(rng.below(16) as usize)].to_vec(), aad.map(|a| a.to_vec())));
                    variants.push(("other-aad", ct.clone(), Some(rng.bytes(5))));
                    for (label, v, a2) in variants {
                        let r = agree(
                            st,
                            &format!("aead_open|{label}:pt{} len={l}", if l == 0 { "=0" } else { ">0" }),
                            suite,
                            &ps.iter().map(|(n, c)| (*n, canon(c.aead_open(&k, &v, a2.as_deref(), &nonce).map(|z| z.to_vec())))).collect::<Vec<_>>(),
                        );
                        if label == "genuine" && r != format!("ok:{}", hex(&pt)) {
                            st.fail(format!("[aead_open] suite {suite}: genuine ciphertext does not open to the plaintext"));
                        }
                        if label != "genuine" && label != "other-aad" && r.starts_with("ok") {
                            st.fail(format!("[aead_open] suite {suite}: {label} ciphertext accepted"));
                        }
                        if label == "other-aad" && r.starts_with("ok") && a2.as_deref() != aad {
                            if !(aad.is_none() && a2.as_deref() == Some(&[][..])) && !(aad == Some(&[][..]) && a2.is_none()) {
                                st.fail(format!("[aead_open] suite {suite}: other aad accepted"));
                            }
                        }
                    }
                }
                if !thorough && l > 130 && kl != nk {
                    break;
                }
            }
        }
        // ---- kem: derive, validate --------------------------------------------------------------------------------------
        let mut keypairs: Vec<(HpkeSecretKey, HpkePublicKey)> = vec![];
        for il in [1usize, 16, 32, 48, 64, 66, 100] {
            let ikm = rng.bytes(il);
            let rs: Vec<(&'static str, String)> = ps
                .iter()
                .map(|(n, c)| (*n, canon(c.kem_derive(&ikm).map(|(s, p)| [s.to_vec(), vec![0xAA, 0xAA], p.to_vec()].concat()))))
                .collect();
            agree(st, &format!("kem_derive|ikm ikm={il}"), suite, &rs);
            if let Ok(kp) = ps[0].1.kem_derive(&ikm) {
                keypairs.push(kp);
            }
        }
        agree(st, "kem_derive|empty-ikm -", suite, &ps.iter().map(|(n, c)| (*n, canon(c.kem_derive(&[]).map(|(s, _)| s.to_vec())))).collect::<Vec<_>>());
        for (n, c) in &ps {
            if let Ok(kp) = c.kem_generate() {
                keypairs.push(kp);
            } else {
                st.fail(format!("[kem_generate] suite {suite}: {n} failed"));
            }
        }
        for (_, pk) in keypairs.clone() {
            let mut vars: Vec<(&str, Vec<u8>)> = vec![("valid", pk.to_vec())];
            let b = pk.to_vec();
            vars.push(("empty", vec![]));
            vars.push(("short", b[..b.len() - 1].to_vec()));
            vars.push(("long", [b.clone(), vec![0]].concat()));
            vars.push(("zeros", vec![0; b.len()]));
            vars.push(("ones", vec![0xff; b.len()]));
            let mut f = b.clone();
            let l = f.len();
            f[l - 1] ^= 1;
            vars.push(("last-bit", f));
            let mut f = b.clone();
            f[0] ^= 6;
            vars.push(("first-byte", f));
            for (label, v) in vars {
                let r = agree(
                    st,
                    &format!("kem_public_key_validate|{label} -"),
                    suite,
                    &ps.iter().map(|(n, c)| (*n, canon(c.kem_public_key_validate(&HpkePublicKey::from(v.clone())).map(|_| vec![])))).collect::<Vec<_>>(),
                );
                if label == "valid" && !r.starts_with("ok") {
                    st.fail(format!("[kem_public_key_validate] suite {suite}: a generated public key is rejected"));
                }
            }
        }
        // ---- hpke: every sealer, every opener, base and psk mode ---------------------------------------------------------
        let psk_v = rng.bytes(32);
        let psk_id = rng.bytes(8);
        for (sk, pk) in keypairs.iter().take(if thorough { 8 } else { 4 }) {
            for &l in &[0usize, 1, 33, 1000] {
                let il = rng.below(40) as usize;
                let (info, pt) = (rng.bytes(il), rng.bytes(l));
                let aad_v = rng.bytes(9);
                let aad: Option<&[u8]> = if rng.chance(1, 2) { None } else { Some(&aad_v) };
                for mode in ["base", "psk"] {
                    // a plaintext every provider refuses to seal is a consistent rejection, not a failure
                    let seal_with = |sc: &AnyCs| if mode == "base" { sc.hpke_seal(pk, &info, aad, &pt) } else { sc.hpke_seal_psk(pk, &info, aad, &pt, HpkePsk { id: &psk_id, value: &psk_v }) };
                    if ps.iter().all(|(_, c)| seal_with(c).is_err()) {
                        st.kind("hpke_seal");
                        *st.outcomes.entry(format!("hpke_seal:refused-by-all:pt{}", if l == 0 { "=0" } else { ">0" })).or_default() += 1;
                        if l > 0 {
                            st.fail(format!("[hpke_seal/pt>0/refused-by:all] suite {suite}: nobody can seal ({mode}, len {l})"));
                        }
                        continue;
                    }
                    for (sn, sc) in &ps {
                        let ct = seal_with(sc);
                        st.kind("hpke_seal");
                        let Ok(ct) = ct else {
                            st.fail(format!("[hpke_seal/pt{}/refused-by:{sn}] suite {suite}: {sn} cannot seal ({mode}, len {l})", if l == 0 { "=0" } else { ">0" }));
                            continue;
                        };
                        let mut bad = HpkeCiphertext { kem_output: ct.kem_output.clone(), ciphertext: ct.ciphertext.clone() };
                        let p = rng.below(bad.ciphertext.len() as u64) as usize;
                        bad.ciphertext[p] ^= 0x10;
                        for (on, oc) in &ps {
                            st.kind("hpke_open");
                            let r = if mode == "base" { oc.hpke_open(&ct, sk, pk, &info, aad) } else { oc.hpke_open_psk(&ct, sk, pk, &info, aad, HpkePsk { id: &psk_id, value: &psk_v }) };
                            if r.as_ref().map(|z| z.to_vec()).ok() != Some(pt.clone()) {
                                st.fail(format!("[hpke_open/pt{}/sealed-by:{sn}/refused-by:{on}] suite {suite}: sealed by {sn}, {on} cannot open ({mode}, len {l})", if l == 0 { "=0" } else { ">0" }));
                            }
                            let r = if mode == "base" { oc.hpke_open(&bad, sk, pk, &info, aad) } else { oc.hpke_open_psk(&bad, sk, pk, &info, aad, HpkePsk { id: &psk_id, value: &psk_v }) };
                            if r.is_ok() {
                                st.fail(format!("[hpke_open] suite {suite}: {on} opens a tampered ciphertext of {sn}"));
                            }
                            // wrong mode / wrong psk / wrong info
                            let other_v = info_or(&psk_v);
                            let r = if mode == "base" {
                                oc.hpke_open_psk(&ct, sk, pk, &info, aad, HpkePsk { id: &psk_id, value: &psk_v })
                            } else {
                                oc.hpke_open_psk(&ct, sk, pk, &info, aad, HpkePsk { id: &psk_id, value: &other_v })
                            };
                            if r.is_ok() {
                                st.fail(format!("[hpke_open] suite {suite}: {on} opens a {mode} ciphertext of {sn} with another psk / mode"));
                            }
                        }
                    }
                }
            }
            // contexts: a sender context of one provider, receiver contexts of all
            let info = rng.bytes(12);
            for (sn, sc) in &ps {
                let Ok((enc, mut cs)) = sc.hpke_setup_s(pk, &info) else {
                    st.fail(format!("[hpke_setup_s] suite {suite}: {sn} failed"));
                    continue;
                };
                let mut rs: Vec<(&'static str, AnyCtxR)> = vec![];
                for (on, oc) in &ps {
                    match oc.hpke_setup_r(&enc, sk, pk, &info) {
                        Ok(r) => rs.push((*on, r)),
                        Err(_) => st.fail(format!("[hpke_setup_r] suite {suite}: {on} cannot set up from {sn}'s kem output")),
                    }
                }
                for m in 0..4 {
                    let (pt, aad) = (rng.bytes(m * 17 + 1), rng.bytes(m));
                    st.kind("hpke_context_seal");
                    let Ok(ct) = cs.seal(Some(&aad), &pt) else {
                        st.fail(format!("[hpke_context] suite {suite}: {sn} context seal failed"));
                        break;
                    };
                    for (on, r) in rs.iter_mut() {
                        if r.open(Some(&aad), &ct).map(|z| z.to_vec()).ok() != Some(pt.clone()) {
                            st.fail(format!("[hpke_context] suite {suite}: message {m} of {sn}'s context does not open under {on}"));
                        }
                    }
                }
                for len in [1usize, 32, nh, 255 * nh, 255 * nh + 1, 0] {
                    let ectx = rng.bytes(7);
                    let mut answers = vec![(*sn, canon(cs.export(&ectx, len).map(|z| z.to_vec())))];
                    for (on, r) in rs.iter() {
                        answers.push((*on, canon(r.export(&ectx, len).map(|z| z.to_vec()))));
                    }
                    agree(st, &format!("hpke_export|len{} len={len}", if len == 0 { "=0" } else if len > 255 * nh { ">255Nh" } else { "ok" }), suite, &answers);
                }
            }
        }
        // psk input rules
        if let Some((sk, pk)) = keypairs.first() {
            for (vl, il) in [(0usize, 0usize), (0, 4), (32, 0), (31, 4), (1, 4), (32, 4), (64, 200)] {
                let (v, i) = (rng.bytes(vl), rng.bytes(il));
                let a = agree(
                    st,
                    &format!("hpke_psk_rules|value{}:id{} value={vl} id={il}", if vl == 0 { "=0" } else if vl < 32 { "<32" } else { ">=32" }, if il == 0 { "=0" } else { ">0" }),
                    suite,
                    &ps.iter().map(|(n, c)| (*n, canon(c.hpke_seal_psk(pk, b"i", None, b"x", HpkePsk { id: &i, value: &v }).map(|_| vec![])))).collect::<Vec<_>>(),
                );
                let _ = (a, sk);
            }
        }
        // ---- signatures -------------------------------------------------------------------------------------------------
        let mut sig_keys: Vec<(&'static str, SignatureSecretKey, SignaturePublicKey)> = vec![];
        for (n, c) in &ps {
            match c.signature_key_generate() {
                Ok((s, p)) => sig_keys.push((*n, s, p)),
                Err(_) => st.fail(format!("[signature_key_generate] suite {suite}: {n} failed")),
            }
        }
        for (gn, sk, pk) in &sig_keys {
            let r = agree(
                st,
                &format!("signature_key_derive_public|- from={gn}"),
                suite,
                &ps.iter().map(|(n, c)| (*n, canon(c.signature_key_derive_public(sk).map(|p| p.to_vec())))).collect::<Vec<_>>(),
            );
            if r != format!("ok:{}", hex(pk)) {
                st.fail(format!("[signature_key_derive_public] suite {suite}: public key derived from {gn}'s secret key differs from the generated one"));
            }
            for &l in &[0usize, 1, 64, 1000] {
                let msg = rng.bytes(l);
                for (sn, sc) in &ps {
                    st.kind("sign");
                    let Ok(sig) = sc.sign(sk, &msg) else {
                        st.fail(format!("[sign] suite {suite}: {sn} cannot sign with {gn}'s key"));
                        continue;
                    };
                    let mut vars: Vec<(&str, Vec<u8>, Vec<u8>)> = vec![("genuine", sig.clone(), msg.clone())];
                    let mut t = sig.clone();
                    let p = rng.below(t.len() as u64) as usize;
                    t[p] ^= 1 << rng.below(8);
                    vars.push(("bitflip", t, msg.clone()));
                    vars.push(("truncated", sig[..sig.len() - 1].to_vec(), msg.clone()));
                    vars.push(("extended", [sig.clone(), vec![0]].concat(), msg.clone()));
                    vars.push(("empty", vec![], msg.clone()));
                    vars.push(("other-message", sig.clone(), [msg.clone(), vec![1]].concat()));
                    for (label, s2, m2) in vars {
                        let r = agree(
                            st,
                            &format!("verify|{label}:msg{} signer={sn} key={gn}", if l == 0 { "=0" } else { ">0" }),
                            suite,
                            &ps.iter().map(|(n, c)| (*n, canon(c.verify(pk, &s2, &m2).map(|_| vec![])))).collect::<Vec<_>>(),
                        );
                        if (label == "genuine") != r.starts_with("ok") {
                            st.fail(format!("[verify] suite {suite}: {label} signature of {sn} (key of {gn}): {r}"));
                        }
                    }
                }
            }
            // malformed public keys
            let b = pk.to_vec();
            let sig = ps[0].1.sign(sk, b"m").unwrap_or_default();
            for (label, v) in [("empty", vec![]), ("short", b[..b.len() - 1].to_vec()), ("long", [b.clone(), vec![0]].concat()), ("zeros", vec![0; b.len()]), ("ones", vec![0xff; b.len()])] {
                agree(
                    st,
                    &format!("verify-malformed-key|{label} -"),
                    suite,
                    &ps.iter().map(|(n, c)| (*n, canon(c.verify(&SignaturePublicKey::from(v.clone()), &sig, b"m").map(|_| vec![])))).collect::<Vec<_>>(),
                );
            }
            // malformed secret keys
            let s = sk.to_vec();
            for (label, v) in [("empty", vec![]), ("short", s[..s.len() - 1].to_vec()), ("long", [s.clone(), vec![0]].concat()), ("zeros", vec![0; s.len()])] {
                agree(
                    st,
                    &format!("sign-malformed-key|{label} -"),
                    suite,
                    &ps.iter()
                        .map(|(n, c)| (*n, if c.sign(&SignatureSecretKey::from(v.clone()), b"m").is_ok() { "ok".to_string() } else { "err".to_string() }))
                        .collect::<Vec<_>>(),
                );
            }
        }
    }
}

fn info_or(v: &[u8]) -> Vec<u8> {
    let mut x = v.to_vec();
    x[0] ^= 1;
    x
}

// ---------------------------------------------------------------------------------------------------------------------
// (2) the generic HPKE construction with scripted KEM / DH and a recording AEAD, over each provider's KDF

#[derive(Clone)]
struct CsKdf {
    cs: AnyCs,
    id: u16,
}
impl KdfType for CsKdf {
    type Error = AnyErr;
    fn kdf_id(&self) -> u16 {
        self.id
    }
    fn expand(&self, prk: &[u8], info: &[u8], len: usize) -> Result<Vec<u8>, AnyErr> {
        self.cs.kdf_expand(prk, info, len).map(|z| z.to_vec())
    }
    fn extract(&self, salt: &[u8], ikm: &[u8]) -> Result<Vec<u8>, AnyErr> {
        self.cs.kdf_extract(salt, ikm).map(|z| z.to_vec())
    }
    fn extract_size(&self) -> usize {
        self.cs.kdf_extract_size()
    }
}

#[derive(Clone)]
struct FakeKem {
    id: u16,
    ss: Vec<u8>,
    enc: Vec<u8>,
}
impl KemType for FakeKem {
    type Error = AnyErr;
    fn kem_id(&self) -> u16 {
        self.id
    }
    fn generate_deterministic(&self, seed: &[u8]) -> Result<(HpkeSecretKey, HpkePublicKey), AnyErr> {
        Ok((seed.to_vec().into(), seed.to_vec().into()))
    }
    fn generate(&self) -> Result<(HpkeSecretKey, HpkePublicKey), AnyErr> {
        Ok((vec![1].into(), vec![1].into()))
    }
    fn public_key_validate(&self, _: &HpkePublicKey) -> Result<(), AnyErr> {
        Ok(())
    }
    fn encap(&self, _: &HpkePublicKey) -> Result<KemResult, AnyErr> {
        Ok(KemResult::new(self.ss.clone(), self.enc.clone()))
    }
    fn decap(&self, _: &[u8], _: &HpkeSecretKey, _: &HpkePublicKey) -> Result<Vec<u8>, AnyErr> {
        Ok(self.ss.clone())
    }
    fn seed_length_for_derive(&self) -> usize {
        32
    }
}

/// "ciphertext" = what the construction handed to the AEAD
#[derive(Clone)]
struct RecAead {
    id: u16,
    nk: usize,
    nn: usize,
    log: Arc<Mutex<Vec<(Vec<u8>, Vec<u8>)>>>,
}
impl AeadType for RecAead {
    type Error = AnyErr;
    fn aead_id(&self) -> u16 {
        self.id
    }
    fn seal<'a>(&self, key: &[u8], data: &[u8], _aad: Option<&'a [u8]>, nonce: &[u8]) -> Result<Vec<u8>, AnyErr> {
        self.log.lock().unwrap().push((key.to_vec(), nonce.to_vec()));
        Ok(data.to_vec())
    }
    fn open<'a>(&self, key: &[u8], ct: &[u8], _aad: Option<&'a [u8]>, nonce: &[u8]) -> Result<Vec<u8>, AnyErr> {
        self.log.lock().unwrap().push((key.to_vec(), nonce.to_vec()));
        Ok(ct.to_vec())
    }
    fn key_size(&self) -> usize {
        self.nk
    }
    fn nonce_size(&self) -> usize {
        self.nn
    }
}

#[derive(Clone)]
struct FakeDh {
    dh: Vec<u8>,
    method: u8, // 0 = without bitmask, 1 = raw, otherwise bitmask given in `mask`
    mask: u8,
    sk_size: usize,
    /// number of leading candidates `to_public` rejects (rejection sampling)
    reject: Arc<Mutex<u32>>,
    eph: (Vec<u8>, Vec<u8>),
}
impl DhType for FakeDh {
    type Error = AnyErr;
    fn dh(&self, _: &HpkeSecretKey, _: &HpkePublicKey) -> Result<Vec<u8>, AnyErr> {
        Ok(self.dh.clone())
    }
    fn generate(&self) -> Result<(HpkeSecretKey, HpkePublicKey), AnyErr> {
        Ok((self.eph.0.clone().into(), self.eph.1.clone().into()))
    }
    fn to_public(&self, sk: &HpkeSecretKey) -> Result<HpkePublicKey, AnyErr> {
        let mut r = self.reject.lock().unwrap();
        if *r > 0 {
            *r -= 1;
            return Err(AnyErr("rejected candidate".into()));
        }
        Ok(sk.to_vec().into())
    }
    fn bitmask_for_rejection_sampling(&self) -> SamplingMethod {
        match self.method {
            0 => SamplingMethod::HpkeWithoutBitmask,
            1 => SamplingMethod::Raw,
            _ => SamplingMethod::HpkeWithBitmask(self.mask),
        }
    }
    fn secret_key_size(&self) -> usize {
        self.sk_size
    }
    fn public_key_size(&self) -> usize {
        self.sk_size
    }
    fn public_key_validate(&self, _: &HpkePublicKey) -> Result<(), AnyErr> {
        Ok(())
    }
}

/// (kem id, kdf id, aead id, n_secret, dh secret key size, sampling: 0 = no bitmask, else mask)
fn suite_ids(suite: u16) -> (u16, u16, u16, usize, usize, u8, u8) {
    match suite {
        1 => (0x0020, 1, 1, 32, 32, 0, 0),
        2 => (0x0010, 1, 1, 32, 32, 2, 0xff),
        3 => (0x0020, 1, 3, 32, 32, 0, 0),
        4 => (0x0021, 3, 2, 64, 56, 0, 0),
        5 => (0x0012, 3, 2, 64, 66, 2, 0x01),
        6 => (0x0021, 3, 3, 64, 56, 0, 0),
        _ => (0x0011, 2, 2, 48, 48, 2, 0xff),
    }
}

fn hpke_rows(rng: &mut Rng, qa: &mut QA, st: &mut St, thorough: bool) {
    let reps = if thorough { 40 } else { 6 };
    for suite in 1u16..=7 {
        let (kem_id, kdf_id, aead_id, n_secret, sk_size, method, mask) = suite_ids(suite);
        for (pname, cs) in providers(suite) {
            let nk = cs.aead_key_size();
            let nn = cs.aead_nonce_size();
            let kdf = CsKdf { cs: cs.clone(), id: kdf_id };
            for rep in 0..reps {
                // ---- key schedule, nonce sequence, exporter ----------------------------------------------------------------
                let ss = rng.bytes(n_secret);
                let il = *rng.pick(&[0usize, 1, 20, 64, 200]);
                let info = rng.bytes(il);
                let mode_psk = rep % 2 == 1;
                let (pv, pi) = if mode_psk {
                    let l = *rng.pick(&[32usize, 33, 64]);
                    {
                        let l2 = rng.range(1, 20) as usize;
                        (rng.bytes(l), rng.bytes(l2))
                    }
                } else {
                    (vec![], vec![])
                };
                let log = Arc::new(Mutex::new(vec![]));
                let aead = RecAead { id: aead_id, nk, nn, log: log.clone() };
                let h = Hpke::new(FakeKem { id: kem_id, ss: ss.clone(), enc: vec![9, 9] }, kdf.clone(), Some(aead));
                let mkpsk = || if mode_psk { Some(HpkePsk { id: &pi, value: &pv }) } else { None };
                st.kind("hpke.ks");
                let Ok((_, mut ctx)) = h.setup_sender(&HpkePublicKey::from(vec![1]), &info, mkpsk()) else {
                    st.fail(format!("[hpke.ks] suite {suite} {pname}: setup_sender failed"));
                    continue;
                };
                let mut nonces = vec![];
                for _ in 0..3 {
                    let _ = ctx.seal(None, b"x");
                }
                let l = log.lock().unwrap().clone();
                let key = l.first().map(|x| x.0.clone()).unwrap_or_default();
                for x in &l {
                    nonces.push(x.1.clone());
                }
                let el = rng.below(30) as usize;
                let ectx = rng.bytes(el);
                let elen = *rng.pick(&[1usize, 16, 32, 48, 64, 100]);
                let exp = ctx.export(&ectx, elen).map(|z| z.to_vec());
                // the receiver side of the same construction agrees
                let log2 = Arc::new(Mutex::new(vec![]));
                let h2 = Hpke::new(FakeKem { id: kem_id, ss: ss.clone(), enc: vec![9, 9] }, kdf.clone(), Some(RecAead { id: aead_id, nk, nn, log: log2.clone() }));
                if let Ok(mut r) = h2.setup_receiver(&[9, 9], &HpkeSecretKey::from(vec![1]), &HpkePublicKey::from(vec![1]), &info, mkpsk()) {
                    for _ in 0..3 {
                        let _ = r.open(None, b"x");
                    }
                    if *log2.lock().unwrap() != l {
                        st.fail(format!("[hpke.ks] suite {suite} {pname}: receiver context uses other keys / nonces than the sender context"));
                    }
                    if r.export(&ectx, elen).map(|z| z.to_vec()).ok() != exp.as_ref().ok().cloned() {
                        st.fail(format!("[hpke.ks] suite {suite} {pname}: receiver export differs"));
                    }
                } else {
                    st.fail(format!("[hpke.ks] suite {suite} {pname}: setup_receiver failed"));
                }
                // rows: the model recomputes key, base nonce (= nonce of seq 0) and the exporter secret; the exporter secret is
                // observable only through export, so the export row takes the model's own exporter secret as input:
                // `hpke.ksx` = key schedule + nonce(seq) for seq 0..2 + export
                qa.put(
                    &format!(
                        "hpke.ksx {suite} {} {} {} {} {} {} {elen}",
                        if mode_psk { "psk" } else { "base" },
                        hex(&ss),
                        hex(&info),
                        hex(&pv),
                        hex(&pi),
                        hex(&ectx)
                    ),
                    &format!(
                        "{} {} {}",
                        hex(&key),
                        nonces.iter().map(|n| hex(n)).collect::<Vec<_>>().join(","),
                        exp.map(|e| hex(&e)).unwrap_or("err".into())
                    ),
                );
                // ---- DHKEM: shared secret from (dh, enc, pkR) ----------------------------------------------------------------
                let dl = *rng.pick(&[32usize, 48, 56, 66]);
                let dh = rng.bytes(dl);
                let pl = *rng.pick(&[32usize, 65, 97, 133]);
                let (esk, epk) = (rng.bytes(sk_size), rng.bytes(pl));
                let pkr = rng.bytes(epk.len());
                let fdh = FakeDh { dh: dh.clone(), method, mask, sk_size, reject: Default::default(), eph: (esk, epk.clone()) };
                let kem = DhKem::new(fdh.clone(), kdf.clone(), kem_id, n_secret);
                st.kind("dhkem.ss");
                match kem.encap(&HpkePublicKey::from(pkr.clone())) {
                    Ok(res) => {
                        qa.put(&format!("dhkem.ss {suite} {} {} {}", hex(&dh), hex(res.enc()), hex(&pkr)), &hex(res.shared_secret()));
                        let d = kem.decap(res.enc(), &HpkeSecretKey::from(vec![2]), &HpkePublicKey::from(pkr.clone()));
                        if d.ok().as_deref() != Some(res.shared_secret()) {
                            st.fail(format!("[dhkem.ss] suite {suite} {pname}: decap differs from encap"));
                        }
                    }
                    Err(_) => st.fail(format!("[dhkem.ss] suite {suite} {pname}: encap failed")),
                }
                // ---- key derivation: dkp_prk (raw sampling shows it) and the secret key bytes of the suite's sampling method ---
                let kl = *rng.pick(&[1usize, 32, 48, 64, 66]);
                let ikm = rng.bytes(kl);
                let raw = Hpke::new(DhKem::new(FakeDh { method: 1, ..fdh.clone() }, kdf.clone(), kem_id, n_secret), kdf.clone(), None::<RecAead>);
                let real = Hpke::new(DhKem::new(fdh.clone(), kdf.clone(), kem_id, n_secret), kdf.clone(), None::<RecAead>);
                st.kind("dhkem.dkp");
                match (raw.derive(&ikm), real.derive(&ikm)) {
                    (Ok((prk, _)), Ok((sk, _))) => {
                        qa.put(&format!("dhkem.dkp {suite} {}", hex(&ikm)), &format!("{} {}", hex(&prk), hex(&sk)));
                        // the provider's own kem_derive yields the same secret key (for the NIST curves: unless candidate 0 is out of range)
                        if let Ok((psk_, _)) = cs.kem_derive(&ikm) {
                            if psk_.to_vec() != sk.to_vec() {
                                st.fail(format!("[dhkem.dkp] suite {suite} {pname}: kem_derive secret key differs from the RFC 9180 derivation over its own KDF"));
                            }
                        }
                    }
                    _ => st.fail(format!("[dhkem.dkp] suite {suite} {pname}: derive failed")),
                }
                // rejection sampling: the first k candidates refused -> candidate k (NIST suites only)
                if method == 2 && rep == 0 {
                    for k in [1u32, 3] {
                        let f = FakeDh { reject: Arc::new(Mutex::new(k)), ..fdh.clone() };
                        let hk = Hpke::new(DhKem::new(f, kdf.clone(), kem_id, n_secret), kdf.clone(), None::<RecAead>);
                        if let Ok((sk, _)) = hk.derive(&ikm) {
                            qa.put(&format!("dhkem.cand {suite} {} {k}", hex(&ikm)), &hex(&sk));
                        }
                    }
                }
            }
            // sequence numbers: nonce = base XOR seq for larger seq (context driven directly)
            let _ = pname;
        }
    }
}

// ---------------------------------------------------------------------------------------------------------------------
// (3) X.509

#[derive(Clone)]
struct ACert {
    subject: u32,
    issuer: u32,
    key: u32,
    signed_by: u32,
    nb: i64,
    na: i64,
    ca: bool,
    pathlen: Option<u32>,
    der: Vec<u8>,
}

fn acert_str(c: &ACert) -> String {
    format!("{},{},{},{},{},{},{},{}", c.subject, c.issuer, c.key, c.signed_by, c.nb, c.na, c.ca as u8, c.pathlen.map(|p| p.to_string()).unwrap_or("-".into()))
}

struct Pki {
    keys: Vec<openssl::pkey::PKey<openssl::pkey::Private>>,
    ed: bool,
}

impl Pki {
    fn key(&mut self, _rng: &mut Rng) -> u32 {
        let k = if self.ed {
            openssl::pkey::PKey::generate_ed25519().unwrap()
        } else {
            let g = openssl::ec::EcGroup::from_curve_name(openssl::nid::Nid::X9_62_PRIME256V1).unwrap();
            openssl::pkey::PKey::from_ec_key(openssl::ec::EcKey::generate(&g).unwrap()).unwrap()
        };
        self.keys.push(k);
        self.keys.len() as u32 - 1
    }

    #[allow(clippy::too_many_arguments)]
    fn cert(&self, subject: u32, issuer: u32, key: u32, signed_by: u32, nb: i64, na: i64, ca: bool, pathlen: Option<u32>, serial: u32) -> ACert {
        use openssl::x509::*;
        let name = |n: u32| {
            let mut b = X509NameBuilder::new().unwrap();
            b.append_entry_by_text("CN", &format!("subject-{n}")).unwrap();
            b.build()
        };
        let mut b = X509Builder::new().unwrap();
        b.set_version(2).unwrap();
        let sn = openssl::bn::BigNum::from_u32(serial + 1).unwrap().to_asn1_integer().unwrap();
        b.set_serial_number(&sn).unwrap();
        b.set_subject_name(&name(subject)).unwrap();
        b.set_issuer_name(&name(issuer)).unwrap();
        b.set_pubkey(&self.keys[key as usize]).unwrap();
        b.set_not_before(&openssl::asn1::Asn1Time::from_unix(nb).unwrap()).unwrap();
        b.set_not_after(&openssl::asn1::Asn1Time::from_unix(na).unwrap()).unwrap();
        let mut bc = extension::BasicConstraints::new();
        bc.critical();
        if ca {
            bc.ca();
            if let Some(p) = pathlen {
                bc.pathlen(p);
            }
        }
        b.append_extension(bc.build().unwrap()).unwrap();
        if ca {
            b.append_extension(extension::KeyUsage::new().critical().key_cert_sign().crl_sign().build().unwrap()).unwrap();
        } else {
            b.append_extension(extension::KeyUsage::new().critical().digital_signature().build().unwrap()).unwrap();
        }
        let md = if self.ed { openssl::hash::MessageDigest::null() } else { openssl::hash::MessageDigest::sha256() };
        b.sign(&self.keys[signed_by as usize], md).unwrap();
        ACert { subject, issuer, key, signed_by, nb, na, ca, pathlen, der: b.build().to_der().unwrap() }
    }
}

fn verdicts(anchors: &[ACert], chain: &[ACert], time: Option<i64>) -> Vec<(&'static str, String)> {
    let roots: Vec<DerCertificate> = anchors.iter().map(|c| DerCertificate::from(c.der.clone())).collect();
    let ch: CertificateChain = chain.iter().map(|c| DerCertificate::from(c.der.clone())).collect::<Vec<_>>().into();
    let t = time.map(|t| MlsTime::from(t as u64));
    let mut out = vec![];
    let v = |r: Result<Result<SignaturePublicKey, String>, Box<dyn std::any::Any + Send>>| match r {
        Ok(Ok(_)) => "ok".to_string(),
        Ok(Err(e)) => format!("err:{}", e.chars().take(60).collect::<String>()),
        Err(_) => "panic".to_string(),
    };
    out.push((
        "rustcrypto",
        v(std::panic::catch_unwind(|| {
            mls_rs_crypto_rustcrypto::x509::X509Validator::new(roots.clone()).map_err(|e| format!("anchors:{e:?}")).and_then(|x| x.validate_chain(&ch, t).map_err(|e| format!("{e:?}")))
        })),
    ));
    out.push((
        "openssl",
        v(std::panic::catch_unwind(|| {
            mls_rs_crypto_openssl::x509::X509Validator::new(roots.clone()).map_err(|e| format!("anchors:{e:?}")).and_then(|x| x.validate_chain(&ch, t).map_err(|e| format!("{e:?}")))
        })),
    ));
    out.push((
        "awslc",
        v(std::panic::catch_unwind(|| {
            mls_rs_crypto_awslc::x509::CertificateValidator::new_der(&roots).map_err(|e| format!("anchors:{e:?}")).and_then(|x| x.validate_chain(&ch, t).map_err(|e| format!("{e:?}")))
        })),
    ));
    out
}

fn x509(rng: &mut Rng, qa: &mut QA, st: &mut St, thorough: bool) {
    let base: i64 = 1_700_000_000;
    let n = if thorough { 400 } else { 60 };
    for case in 0..n {
        let mut pki = Pki { keys: vec![], ed: case % 3 == 0 };
        let depth = rng.range(1, 3) as usize; // number of intermediates + leaf - 1 ... chain = leaf + (depth-1) intermediates
        // root
        let rk = pki.key(rng);
        let window = |rng: &mut Rng| {
            let nb = base + rng.range(0, 5) as i64 * 100;
            (nb, nb + rng.range(1, 10) as i64 * 100)
        };
        let (rnb, rna) = window(rng);
        let root = pki.cert(100, 100, rk, rk, rnb, rna, true, None, 0);
        // chain from the root down: issuers[0] = root
        let mut issuers: Vec<ACert> = vec![root.clone()];
        for d in 0..depth - 1 {
            let k = pki.key(rng);
            let (nb, na) = window(rng);
            let p = issuers.last().unwrap().clone();
            issuers.push(pki.cert(200 + d as u32, p.subject, k, p.key, nb, na, true, None, 10 + d as u32));
        }
        let lk = pki.key(rng);
        let (lnb, lna) = window(rng);
        let p = issuers.last().unwrap().clone();
        let leaf = pki.cert(300, p.subject, lk, p.key, lnb, lna, false, None, 50);
        // leaf-first chain without the root
        let mut chain: Vec<ACert> = vec![leaf.clone()];
        chain.extend(issuers.iter().skip(1).rev().cloned());
        let mut anchors = vec![root.clone()];
        // ---- structural variant --------------------------------------------------------------------------------------------
        let variant = rng.below(12);
        let label = match variant {
            0 | 1 | 2 => "valid",
            3 => {
                // wrong issuer signature: an element signed by an unrelated key (names still chain)
                let other = pki.key(rng);
                let i = rng.below(chain.len() as u64) as usize;
                let c = chain[i].clone();
                chain[i] = pki.cert(c.subject, c.issuer, c.key, other, c.nb, c.na, c.ca, c.pathlen, 60);
                "wrong-signature"
            }
            4 if chain.len() > 1 => {
                let i = rng.range(1, chain.len() as u64 - 1) as usize;
                chain.remove(i);
                "missing-intermediate"
            }
            5 if chain.len() > 2 => {
                chain.swap(1, 2);
                "reordered-intermediates"
            }
            6 if chain.len() > 1 => {
                // the leaf's issuer is not a CA
                let c = chain[1].clone();
                chain[1] = pki.cert(c.subject, c.issuer, c.key, c.signed_by, c.nb, c.na, false, None, 61);
                "non-ca-issuer"
            }
            7 => {
                // unknown root: the anchor list holds another self-signed CA
                let ok = pki.key(rng);
                anchors = vec![pki.cert(101, 101, ok, ok, rnb, rna, true, None, 62)];
                "unknown-root"
            }
            8 => {
                // the root included at the end of the chain
                chain.push(root.clone());
                "root-in-chain"
            }
            9 => {
                // a second, unrelated anchor in front
                let ok = pki.key(rng);
                anchors.insert(0, pki.cert(101, 101, ok, ok, rnb, rna, true, None, 63));
                "extra-anchor"
            }
            10 if chain.len() > 1 => {
                // leaf listed last instead of first
                chain.rotate_left(1);
                "leaf-not-first"
            }
            11 => {
                // path length constraint 0 on the root with an intermediate below it
                let r2 = pki.cert(100, 100, rk, rk, rnb, rna, true, Some(0), 64);
                anchors = vec![r2];
                "pathlen-zero-root"
            }
            _ => "valid",
        };
        // ---- validation times around every boundary --------------------------------------------------------------------------
        let mut times: Vec<Option<i64>> = vec![None];
        let mut bounds: Vec<i64> = chain.iter().chain(anchors.iter()).flat_map(|c| [c.nb, c.na]).collect();
        bounds.sort();
        bounds.dedup();
        for b in bounds {
            for d in [-1i64, 0, 1] {
                times.push(Some(b + d));
            }
        }
        times.push(Some(base - 1000));
        times.push(Some(base + 100000));
        if !thorough {
            // a sample of the times
            let keep: Vec<Option<i64>> = (0..8).map(|_| *rng.pick(&times)).collect();
            times = [vec![None], keep].concat();
        }
        for t in times {
            let vs = verdicts(&anchors, &chain, t);
            st.kind("x509");
            *st.kinds.entry(format!("x509:{label}")).or_default() += 1;
            let simple: Vec<(&'static str, String)> = vs.iter().map(|(n, v)| (*n, if v == "ok" { "ok".to_string() } else if v == "panic" { "panic".into() } else { "err".to_string() })).collect();
            // known deviation classes this (chain, time, provider) falls into; a differing row / a disagreement inside a class is
            // reported under the class name (see /verif/known_findings.json), anything else under its own label
            let at_not_after = t.map(|t| chain.iter().chain(anchors.iter()).any(|c| c.na == t)).unwrap_or(false);
            let class_of = |provider: &str| -> Option<&'static str> {
                let ossl_family = provider == "openssl" || provider == "awslc";
                if at_not_after && ossl_family {
                    Some("notAfter-boundary")
                } else if label == "pathlen-zero-root" && provider == "awslc" {
                    Some("anchor-pathlen")
                } else if label == "reordered-intermediates" && ossl_family {
                    Some("reordered-accepted")
                } else if label == "leaf-not-first" {
                    Some("trailing-certs-ignored")
                } else {
                    None
                }
            };
            let first = simple[0].1.clone();
            if simple.iter().any(|(_, v)| *v != first) || simple.iter().any(|(_, v)| v == "panic") {
                let detail: Vec<String> = vs.iter().map(|(n, v)| format!("{n}={v}")).collect();
                let classes: Vec<&str> = simple.iter().filter_map(|(n, _)| class_of(n)).collect();
                let cls = if simple.iter().any(|(_, v)| v == "panic") { format!("x509:{label}:panic") } else if let Some(c) = classes.first() { format!("x509/{c}") } else { format!("x509:{label}") };
                st.fail(format!(
                    "[{cls}] validators disagree at time {}: {} | anchors {} | chain {}",
                    t.map(|x| x.to_string()).unwrap_or("-".into()),
                    detail.join(" "),
                    anchors.iter().map(acert_str).collect::<Vec<_>>().join(";"),
                    chain.iter().map(acert_str).collect::<Vec<_>>().join(";")
                ));
            }
            *st.outcomes.entry(format!("x509:{label}:{first}")).or_default() += 1;
            // one row per provider: each must give the model's (correct) verdict
            for (n, v) in &simple {
                let body = format!(
                    "{} {} {}",
                    t.map(|x| x.to_string()).unwrap_or("-".into()),
                    anchors.iter().map(acert_str).collect::<Vec<_>>().join(";"),
                    if chain.is_empty() { "-".to_string() } else { chain.iter().map(acert_str).collect::<Vec<_>>().join(";") }
                );
                match class_of(n) {
                    Some(c) => qa.put(&format!("x509k {c}:{n} {body}"), v),
                    None => qa.put(&format!("x509 {body}"), v),
                }
            }
        }
    }
}

// ---------------------------------------------------------------------------------------------------------------------
// (4) directed side-by-side cases from the provider code audit.  No `Rng`: fixed inputs, so the classes that fire do not
//     depend on the seed (the only random source is `kem_generate` itself).  Every case has its own class `<area>/<what>`
//     (= its cover key in `kinds`); the per-provider verdicts are counted in `outcomes` as `<class>:<provider>:<verdict>+…`.
//     Every provider call runs inside `catch_unwind`.

/// one provider's answer: `v` is what is compared (`ok`, `ok:<hex>`, `err`, `panic`), `note` is shown only
struct Ans {
    who: &'static str,
    v: String,
    note: String,
}

fn short<E: std::fmt::Debug>(e: &E) -> String {
    // innermost error: the wrappers (`HpkeError(KemError(AnyError(DhError(…`) carry no information
    let mut s: String = format!("{e:?}").chars().filter(|c| *c != '\n' && *c != '[' && *c != ']' && *c != '"' && *c != '\\').collect();
    for w in ["AnyErr(", "AnyError(", "HpkeError(", "KemError(", "DhError(", "EcError(", "EcdhKemError(", "OpensslError(", "IdentityExtractorError(", "X509ReaderError("] {
        s = s.replace(w, "");
    }
    let s = s.trim_end_matches(')');
    s.chars().take(80).collect()
}

/// run a provider call, panics caught: `Err(("err" | "panic", detail))`
fn guard<T, E: std::fmt::Debug>(f: impl FnOnce() -> Result<T, E>) -> Result<T, (&'static str, String)> {
    match std::panic::catch_unwind(std::panic::AssertUnwindSafe(f)) {
        Ok(Ok(v)) => Ok(v),
        Ok(Err(e)) => Err(("err", short(&e))),
        Err(p) => Err(("panic", p.downcast_ref::<String>().cloned().or_else(|| p.downcast_ref::<&str>().map(|s| s.to_string())).unwrap_or_default().chars().take(70).collect())),
    }
}

fn ans<T>(who: &'static str, r: &Result<T, (&'static str, String)>) -> Ans {
    match r {
        Ok(_) => Ans { who, v: "ok".into(), note: String::new() },
        Err((k, d)) => Ans { who, v: k.to_string(), note: d.clone() },
    }
}

fn ans_bytes(who: &'static str, r: &Result<Vec<u8>, (&'static str, String)>) -> Ans {
    match r {
        Ok(b) => Ans { who, v: format!("ok:{}", hex(b)), note: String::new() },
        Err((k, d)) => Ans { who, v: k.to_string(), note: d.clone() },
    }
}

fn verdict_word(v: &str) -> &str {
    v.split(':').next().unwrap_or(v)
}

/// "accepted by a, b; refused by c" style summary of who did what
fn who_did_what(answers: &[Ans]) -> String {
    let mut groups: BTreeMap<String, Vec<&str>> = BTreeMap::new();
    for a in answers {
        let shown = if a.v.len() > 44 { format!("{}…", &a.v[..44]) } else { a.v.clone() };
        groups.entry(if a.note.is_empty() { shown } else { format!("{shown} ({})", a.note) }).or_default().push(a.who);
    }
    groups.iter().map(|(v, w)| format!("{} -> {v}", w.join("+"))).collect::<Vec<_>>().join("; ")
}

/// cover key + outcome pattern for one case; a failure line of class `class` when the providers differ or one panics.
/// Returns whether a line was written.
fn side(st: &mut St, class: &str, suite: u16, desc: &str, answers: &[Ans]) -> bool {
    st.kind(class);
    let pat: Vec<String> = answers.iter().map(|a| format!("{}:{}", a.who, verdict_word(&a.v))).collect();
    *st.outcomes.entry(format!("{class}:{}", pat.join("+"))).or_default() += 1;
    let first = &answers[0].v;
    if answers.iter().any(|a| &a.v != first || a.v == "panic") {
        let sx = if suite == 0 { String::new() } else { format!("suite {suite}: ") };
        st.fail(format!("[{class}] {sx}{desc}: {}", who_did_what(answers)));
        true
    } else {
        false
    }
}

fn note(st: &mut St, key: String) {
    *st.outcomes.entry(key).or_default() += 1;
}

const AUDIT_IKM: &[u8] = b"c14 audit: fixed input keying material for kem_derive, 64 bytes..";

#[derive(Clone)]
struct CsAead {
    cs: AnyCs,
    id: u16,
}
impl AeadType for CsAead {
    type Error = AnyErr;
    fn aead_id(&self) -> u16 {
        self.id
    }
    fn seal<'a>(&self, key: &[u8], data: &[u8], aad: Option<&'a [u8]>, nonce: &[u8]) -> Result<Vec<u8>, AnyErr> {
        self.cs.aead_seal(key, data, aad, nonce)
    }
    fn open<'a>(&self, key: &[u8], ct: &[u8], aad: Option<&'a [u8]>, nonce: &[u8]) -> Result<Vec<u8>, AnyErr> {
        self.cs.aead_open(key, ct, aad, nonce).map(|z| z.to_vec())
    }
    fn key_size(&self) -> usize {
        self.cs.aead_key_size()
    }
    fn nonce_size(&self) -> usize {
        self.cs.aead_nonce_size()
    }
}

/// RFC 9180 over `cs`'s KDF and AEAD with a DH that returns `dh` and whose ephemeral public key (`enc`) is `enc`: what any
/// outsider can compute when the DH output is a public constant
fn public_dh_hpke(cs: &AnyCs, suite: u16, dh: Vec<u8>, enc: Vec<u8>) -> Hpke<DhKem<FakeDh, CsKdf>, CsKdf, CsAead> {
    let (kem_id, kdf_id, aead_id, n_secret, sk_size, method, mask) = suite_ids(suite);
    let kdf = CsKdf { cs: cs.clone(), id: kdf_id };
    let fdh = FakeDh { dh, method, mask, sk_size, reject: Default::default(), eph: (vec![1; sk_size], enc) };
    Hpke::new(DhKem::new(fdh, kdf.clone(), kem_id, n_secret), kdf, Some(CsAead { cs: cs.clone(), id: aead_id }))
}

// ---- 1. special encodings of NIST public keys ------------------------------------------------------------------------------
fn audit_nist_encodings(st: &mut St) {
    for (suite, curve, n) in [(2u16, "p256", 32usize), (7, "p384", 48), (5, "p521", 66)] {
        let ps = providers(suite);
        if ps.len() < 2 {
            continue;
        }
        let Ok((sk, pk)) = guard(|| ps[0].1.kem_derive(AUDIT_IKM)) else {
            st.fail(format!("[kem-validate/{curve}-setup] suite {suite}: {} cannot derive the key pair of the case", ps[0].0));
            continue;
        };
        let b = pk.to_vec();
        if b.len() != 1 + 2 * n || b[0] != 4 {
            st.fail(format!("[kem-validate/{curve}-setup] suite {suite}: derived public key is not 04‖X‖Y ({} bytes)", b.len()));
            continue;
        }
        let (x, y) = (b[1..1 + n].to_vec(), b[1 + n..].to_vec());
        let odd = y[n - 1] & 1;
        let mut off = b.clone();
        off[2 * n] ^= 1;
        let encs: Vec<(String, Vec<u8>, &str)> = vec![
            ("uncompressed".into(), b.clone(), "04‖X‖Y of a valid point (control)"),
            ("infinity".into(), vec![0], "the point at infinity `00`"),
            ("hybrid".into(), [vec![6 + odd], x.clone(), y.clone()].concat(), "hybrid form 06|07‖X‖Y of a valid point"),
            ("hybrid-wrong-parity".into(), [vec![7 - odd], x.clone(), y.clone()].concat(), "hybrid form with the wrong parity octet"),
            ("compact".into(), [vec![5], x.clone()].concat(), "`05‖X`"),
            ("compressed".into(), [vec![2 + odd], x.clone()].concat(), "compressed form 02|03‖X of a valid point"),
            ("off-curve".into(), off, "uncompressed point not on the curve (Y with the last bit flipped)"),
            (format!("len-{}", 2 * n), [x.clone(), y.clone()].concat(), "X‖Y without the leading 04"),
            (format!("len-{}", 2 * n + 2), [b.clone(), vec![0]].concat(), "04‖X‖Y‖00"),
        ];
        for (name, enc, what) in encs {
            let key = HpkePublicKey::from(enc.clone());
            let val: Vec<_> = ps.iter().map(|(p, c)| (*p, guard(|| c.kem_public_key_validate(&key)))).collect();
            let seal: Vec<_> = ps.iter().map(|(p, c)| (*p, guard(|| c.hpke_seal(&key, b"info", Some(b"aad"), b"plaintext")))).collect();
            let va: Vec<Ans> = val.iter().map(|(p, r)| ans(p, r)).collect();
            let sa: Vec<Ans> = seal.iter().map(|(p, r)| ans(p, r)).collect();
            side(st, &format!("kem-validate/{curve}-{name}"), suite, &format!("kem_public_key_validate of {what} ({} bytes)", enc.len()), &va);
            side(st, &format!("hpke-seal/{curve}-{name}"), suite, &format!("hpke_seal to {what} ({} bytes)", enc.len()), &sa);
            // inside one provider: validate and seal give different verdicts (cover output)
            for ((p, v), (_, s)) in val.iter().zip(seal.iter()) {
                if v.is_ok() != s.is_ok() {
                    note(st, format!("kem-validate/{curve}-{name}:{p}:validate-{}-but-seal-{}", if v.is_ok() { "ok" } else { "err" }, if s.is_ok() { "ok" } else { "err" }));
                }
            }
            if ["compressed", "hybrid"].contains(&name.as_str()) {
                // accepted by everybody: a second byte string for the same key (kem_context takes the bytes as given); not a
                // divergence by itself
                if val.iter().all(|(_, r)| r.is_ok()) {
                    note(st, format!("kem-validate/{curve}-{name}:non-canonical-encoding-accepted-by-all"));
                }
            } else if name != "uncompressed" {
                // not a public key at all: providers that agree on accepting it
                st.kind(&format!("kem-validate/{curve}-{name}-accepted-by-all"));
                if val.iter().all(|(_, r)| r.is_ok()) {
                    st.fail(format!(
                        "[kem-validate/{curve}-{name}-accepted-by-all] suite {suite}: every provider of the suite ({}) validates {what} ({} bytes) as a public key; hpke_seal to it: {}",
                        ps.iter().map(|p| p.0).collect::<Vec<_>>().join("+"),
                        enc.len(),
                        who_did_what(&sa)
                    ));
                }
            }
            // what the holder of the key can do with a ciphertext sealed to the other encoding
            for (p, r) in &seal {
                if let (Ok(ct), true) = (r, name != "uncompressed") {
                    for (o, oc) in &ps {
                        let canon_pk = guard(|| oc.hpke_open(ct, &sk, &pk, b"info", Some(b"aad"))).is_ok();
                        let given_pk = guard(|| oc.hpke_open(ct, &sk, &key, b"info", Some(b"aad"))).is_ok();
                        let _ = (p, o);
                        note(st, format!("hpke-seal/{curve}-{name}:key-holder-opens-with-canonical-pk-{}:with-the-given-bytes-as-pk-{}", if canon_pk { "yes" } else { "no" }, if given_pk { "yes" } else { "no" }));
                    }
                }
            }
        }
    }
}

// ---- 2. X25519 low-order and non-canonical public keys ----------------------------------------------------------------------
fn audit_x25519(st: &mut St) {
    let tail = |first: u8| {
        let mut v = vec![0xffu8; 32];
        v[0] = first;
        v[31] = 0x7f;
        v
    };
    let mut one = vec![0u8; 32];
    one[0] = 1;
    // (name, encoding, low order: the DH output is all-zero for every secret key)
    let keys: Vec<(&str, Vec<u8>, bool, &str)> = vec![
        ("zero", vec![0u8; 32], true, "u = 0 (order 4 point of the curve / twist)"),
        ("one", one, true, "u = 1 (low order)"),
        ("p-minus-1", tail(0xec), true, "u = p-1 (low order)"),
        ("p", tail(0xed), true, "u = p (non-canonical 0)"),
        ("p-plus-1", tail(0xee), true, "u = p+1 (non-canonical 1)"),
        ("order8", crate::util::unhex("e0eb7a7c3b41b8ae1656e3faf19fc46ada098deb9c32b1fd866205165f49b800").unwrap(), true, "a point of order 8"),
        ("noncanonical", tail(0xff), false, "u = 2^255-1 (non-canonical 18, not of low order)"),
    ];
    for suite in [1u16, 3] {
        let ps = providers(suite);
        if ps.len() < 2 {
            continue;
        }
        let (info, aad, pt) = (b"info".as_slice(), b"aad".as_slice(), b"plaintext".as_slice());
        for (name, enc, low, what) in &keys {
            let key = HpkePublicKey::from(enc.clone());
            let val: Vec<_> = ps.iter().map(|(p, c)| (*p, guard(|| c.kem_public_key_validate(&key)))).collect();
            side(st, &format!("kem-validate/x25519-{name}"), suite, &format!("kem_public_key_validate of {what}"), &val.iter().map(|(p, r)| ans(p, r)).collect::<Vec<_>>());
            // seal to that key
            let seal: Vec<_> = ps.iter().map(|(p, c)| (*p, guard(|| c.hpke_seal(&key, info, Some(aad), pt)))).collect();
            let mut sa: Vec<Ans> = seal.iter().map(|(p, r)| ans(p, r)).collect();
            let mut zero_dh: Vec<&str> = vec![];
            for ((p, r), a) in seal.iter().zip(sa.iter_mut()) {
                if let (Ok(ct), true) = (r, *low) {
                    // the ciphertext opens for anybody who assumes DH = 0…0 (no secret key involved)
                    let h = public_dh_hpke(&ps[0].1, suite, vec![0; 32], vec![]);
                    let public = guard(|| h.open(ct, &HpkeSecretKey::from(vec![1u8; 32]), &key, info, None, Some(aad))).map(|z| z.to_vec()).ok() == Some(pt.to_vec());
                    a.note = format!("ciphertext opens with the public all-zero DH value: {}", if public { "yes" } else { "no" });
                    if public {
                        zero_dh.push(*p);
                    }
                }
            }
            let differ = side(st, &format!("hpke-seal/x25519-{name}"), suite, &format!("hpke_seal to {what}"), &sa);
            if *low {
                // providers that agree on sealing to it (a disagreement is reported above, with the same note)
                st.kind(&format!("hpke-seal/x25519-{name}-zero-dh"));
                if !zero_dh.is_empty() && !differ {
                    st.fail(format!(
                        "[hpke-seal/x25519-{name}-zero-dh] suite {suite}: hpke_seal to {what} succeeds on {} with the all-zero DH output (RFC 9180 7.1.4 requires abort); refused by {}",
                        zero_dh.join("+"),
                        ps.iter().map(|p| p.0).filter(|p| !zero_dh.contains(p)).collect::<Vec<_>>().join("+")
                    ));
                }
            }
            // open a ciphertext whose `enc` is that value
            if *low {
                let mut oa: Vec<Ans> = vec![];
                let mut acc: Vec<&str> = vec![];
                for (p, c) in &ps {
                    let r = guard(|| c.kem_derive(AUDIT_IKM)).and_then(|(sk, pk)| {
                        // forged by an outsider: key schedule from DH = 0…0, enc = the low order point
                        let h = public_dh_hpke(&ps[0].1, suite, vec![0; 32], enc.clone());
                        let ct = guard(|| h.seal(&pk, info, None, Some(aad), pt))?;
                        if ct.kem_output != *enc {
                            return Err(("err", "forgery construction failed".to_string()));
                        }
                        guard(|| c.hpke_open(&ct, &sk, &pk, info, Some(aad))).map(|z| z.to_vec())
                    });
                    let mut a = ans(p, &r);
                    if let Ok(o) = &r {
                        a.note = if o == pt { "the outsider's plaintext".into() } else { "another plaintext".into() };
                        acc.push(*p);
                    }
                    oa.push(a);
                }
                let differ = side(st, &format!("hpke-open/x25519-{name}"), suite, &format!("hpke_open of a ciphertext forged without any secret key (DH output 0…0), enc = {what}"), &oa);
                st.kind(&format!("hpke-open/x25519-{name}-zero-dh"));
                if !acc.is_empty() && !differ {
                    st.fail(format!(
                        "[hpke-open/x25519-{name}-zero-dh] suite {suite}: hpke_open accepts enc = {what} on {} (all-zero DH output, RFC 9180 7.1.4 requires abort); refused by {}",
                        acc.join("+"),
                        ps.iter().map(|p| p.0).filter(|p| !acc.contains(p)).collect::<Vec<_>>().join("+")
                    ));
                }
            } else {
                // a random enc that is a non-canonical encoding: same verdict (nobody can make a valid ciphertext for it)
                let oa: Vec<Ans> = ps
                    .iter()
                    .map(|(p, c)| {
                        let r = guard(|| c.kem_derive(AUDIT_IKM)).and_then(|(sk, pk)| guard(|| c.hpke_setup_r(enc, &sk, &pk, info)).map(|_| ()));
                        ans(p, &r)
                    })
                    .collect();
                side(st, &format!("hpke-open/x25519-{name}"), suite, &format!("hpke_setup_r with enc = {what}"), &oa);
            }
        }
    }
}

// ---- 3. kem_generate: format of the secret key, use of a generated key by the other providers ----------------------------------
fn dh_to_public(provider: &str, suite: u16, sk: &HpkeSecretKey) -> Result<Vec<u8>, (&'static str, String)> {
    let cs = CipherSuite::from(suite);
    match provider {
        "rustcrypto" => guard(|| mls_rs_crypto_rustcrypto::ecdh::Ecdh::new(cs).ok_or_else(|| "unsupported".to_string()).and_then(|d| d.to_public(sk).map_err(|e| format!("{e:?}")))).map(|p| p.to_vec()),
        "openssl" => guard(|| mls_rs_crypto_openssl::ecdh::Ecdh::new(cs).ok_or_else(|| "unsupported".to_string()).and_then(|d| d.to_public(sk).map_err(|e| format!("{e:?}")))).map(|p| p.to_vec()),
        _ => guard(|| mls_rs_crypto_awslc::Ecdh::new(cs).ok_or_else(|| "unsupported".to_string()).and_then(|d| d.to_public(sk).map_err(|e| format!("{e:?}")))).map(|p| p.to_vec()),
    }
}

fn audit_kem_generate(st: &mut St) {
    for (suite, curve, n) in [(2u16, "p256", 32usize), (7, "p384", 48), (5, "p521", 66)] {
        let ps = providers(suite);
        if ps.len() < 2 {
            continue;
        }
        // at least 200 generations; up to 3000 while a provider has shown one length only (a minimal big-endian encoding drops a
        // leading zero byte with probability 1/256 (P-521: 1/2) per key)
        let mut samples: Vec<(&'static str, HpkeSecretKey, HpkePublicKey)> = vec![];
        let mut la: Vec<Ans> = vec![];
        for (p, c) in &ps {
            let mut hist: BTreeMap<usize, u64> = BTreeMap::new();
            let (mut errs, mut lead0, mut odd) = (0u64, 0u32, 0u32);
            for i in 0..3000u32 {
                match guard(|| c.kem_generate()) {
                    Ok((sk, pk)) => {
                        let l = sk.len();
                        *hist.entry(l).or_default() += 1;
                        let take = if l != n {
                            odd += 1;
                            odd <= 4
                        } else if sk[0] == 0 {
                            lead0 += 1;
                            lead0 <= 3
                        } else {
                            i < 4
                        };
                        if take {
                            samples.push((*p, sk, pk));
                        }
                    }
                    Err(_) => errs += 1,
                }
                if i >= 199 && hist.len() > 1 {
                    break;
                }
            }
            if errs > 0 {
                st.fail(format!("[kem-generate/failed-{curve}] suite {suite}: {p}: {errs} generations failed"));
            }
            // the format, not the set of lengths seen (which depends on the keys drawn), is what is compared
            let fmt = match (hist.keys().any(|l| *l < n), hist.keys().any(|l| *l > n)) {
                (false, false) => "fixed-length",
                (true, false) => "minimal-big-endian",
                _ => "longer-than-nominal",
            };
            la.push(Ans { who: p, v: format!("ok:{fmt}"), note: format!("secret key lengths {}", hist.iter().map(|(l, k)| format!("{l} bytes x{k}")).collect::<Vec<_>>().join(", ")) });
            note(st, format!("kem-generate/secret-length-{curve}:{p}:{fmt}"));
        }
        side(st, &format!("kem-generate/secret-length-{curve}"), suite, &format!("length of kem_generate secret keys (nominal {n} bytes)"), &la);
        // every sampled key on every provider
        let mut bad: BTreeMap<String, u64> = BTreeMap::new();
        for (g, sk, pk) in &samples {
            let sealed = ps.iter().find(|p| p.0 == *g).and_then(|(_, c)| guard(|| c.hpke_seal(pk, b"info", None, b"plaintext")).ok());
            for (u, c) in &ps {
                st.kind(&format!("kem-generate/cross-use-{curve}"));
                let v = guard(|| c.kem_public_key_validate(pk));
                let tp = dh_to_public(u, suite, sk);
                let tp_s = match &tp {
                    Ok(p2) if p2 == &pk.to_vec() => "same".to_string(),
                    Ok(_) => "ANOTHER-PUBLIC-KEY".to_string(),
                    Err((k, d)) => format!("{k} ({d})"),
                };
                let op = match &sealed {
                    Some(ct) => match guard(|| c.hpke_open(ct, sk, pk, b"info", None)) {
                        Ok(z) if z.to_vec() == b"plaintext" => "ok".to_string(),
                        Ok(_) => "other-plaintext".to_string(),
                        Err((k, d)) => format!("{k} ({d})"),
                    },
                    None => format!("{g}-cannot-seal-to-own-key"),
                };
                let good = v.is_ok() && tp_s == "same" && op == "ok";
                note(st, format!("kem-generate/cross-use-{curve}:{}-byte-secret-of-{g}-on-{u}:{}", sk.len(), if good { "ok" } else { "refused" }));
                if !good {
                    *bad.entry(format!(
                        "{}-byte secret generated by {g}{} used on {u}: validate(public)={} to_public(secret)={tp_s} hpke_open={op}",
                        sk.len(),
                        if sk.len() == n && sk[0] == 0 { " (leading 00)" } else { "" },
                        match &v {
                            Ok(_) => "ok".to_string(),
                            Err((k, d)) => format!("{k} ({d})"),
                        }
                    ))
                    .or_default() += 1;
                }
            }
        }
        if !bad.is_empty() {
            st.fail(format!("[kem-generate/cross-use-{curve}] suite {suite}: {}", bad.iter().map(|(k, n)| format!("{k} x{n}")).collect::<Vec<_>>().join(" || ")));
        }
    }
}

// ---- 4. X.509: byte-patched certificates, crafted subjects through the readers --------------------------------------------------
fn der_tlv(b: &[u8], pos: usize) -> Option<(u8, usize, usize)> {
    let tag = *b.get(pos)?;
    let l0 = *b.get(pos + 1)? as usize;
    let (len, hdr) = if l0 < 0x80 {
        (l0, 2)
    } else {
        let k = l0 & 0x7f;
        if k == 0 || k > 4 {
            return None;
        }
        let mut l = 0usize;
        for i in 0..k {
            l = (l << 8) | *b.get(pos + 2 + i)? as usize;
        }
        (l, 2 + k)
    };
    let s = pos + hdr;
    let e = s.checked_add(len)?;
    if e > b.len() {
        return None;
    }
    Some((tag, s, e))
}

fn der_enc(tag: u8, content: &[u8]) -> Vec<u8> {
    let mut out = vec![tag];
    let l = content.len();
    if l < 0x80 {
        out.push(l as u8);
    } else if l < 0x100 {
        out.extend([0x81, l as u8]);
    } else {
        out.extend([0x82, (l >> 8) as u8, l as u8]);
    }
    out.extend_from_slice(content);
    out
}

/// the TLVs inside `b` as (start, end) of the whole element
fn der_children(b: &[u8]) -> Option<Vec<(usize, usize)>> {
    let mut out = vec![];
    let mut pos = 0;
    while pos < b.len() {
        let (_, _, e) = der_tlv(b, pos)?;
        out.push((pos, e));
        pos = e;
    }
    Some(out)
}

/// the certificate with another subject Name, signed again (ECDSA / SHA-256) by `key`
fn resubject(cert: &[u8], subject: &[u8], key: &openssl::pkey::PKey<openssl::pkey::Private>) -> Option<Vec<u8>> {
    let (_, s, e) = der_tlv(cert, 0)?;
    let outer = &cert[s..e];
    let kids = der_children(outer)?;
    if kids.len() != 3 {
        return None;
    }
    let tbs_full = &outer[kids[0].0..kids[0].1];
    let (_, ts, te) = der_tlv(tbs_full, 0)?;
    let tbs_c = &tbs_full[ts..te];
    let tk = der_children(tbs_c)?;
    let idx = if tbs_c[tk[0].0] == 0xa0 { 5 } else { 4 };
    if tk.len() <= idx {
        return None;
    }
    let mut c = vec![];
    for (i, (a, b)) in tk.iter().enumerate() {
        if i == idx {
            c.extend_from_slice(subject);
        } else {
            c.extend_from_slice(&tbs_c[*a..*b]);
        }
    }
    let tbs = der_enc(0x30, &c);
    let mut signer = openssl::sign::Signer::new(openssl::hash::MessageDigest::sha256(), key).ok()?;
    let sig = signer.sign_oneshot_to_vec(&tbs).ok()?;
    let bits = [vec![0u8], sig].concat();
    Some(der_enc(0x30, &[tbs, outer[kids[1].0..kids[1].1].to_vec(), der_enc(0x03, &bits)].concat()))
}

fn simple_verdicts(anchors: &[ACert], chain: &[ACert], time: Option<i64>) -> Vec<Ans> {
    verdicts(anchors, chain, time)
        .into_iter()
        .map(|(who, v)| {
            if v == "ok" || v == "panic" {
                Ans { who, v, note: String::new() }
            } else {
                Ans { who, v: "err".into(), note: v.trim_start_matches("err:").to_string() }
            }
        })
        .collect()
}

fn audit_x509(st: &mut St) {
    let mut rng = Rng::new(0); // `Pki::key` does not draw from it
    let base: i64 = 1_700_000_000;
    let (nb, na, at) = (base, base + 1000, Some(base + 500));
    let mut pki = Pki { keys: vec![], ed: false };
    let (rk, ik, lk) = (pki.key(&mut rng), pki.key(&mut rng), pki.key(&mut rng));
    let root = pki.cert(100, 100, rk, rk, nb, na, true, None, 0);
    let inter = pki.cert(200, 100, ik, rk, nb, na, true, None, 1);
    let leaf = pki.cert(300, 200, lk, ik, nb, na, false, None, 2);
    let with = |c: &ACert, der: Vec<u8>| ACert { der, ..c.clone() };
    // control: the unpatched chain
    let control = simple_verdicts(&[root.clone()], &[leaf.clone(), inter.clone()], at);
    let control_ok = control.iter().all(|a| a.v == "ok");
    side(st, "x509/audit-control-chain", 0, "leaf, intermediate under the root, inside all validity periods", &control);
    if !control_ok {
        st.fail(format!("[x509/audit-control-chain] the unpatched chain of the directed cases is not accepted by all: {}", who_did_what(&control)));
    }
    // (a) outer signatureAlgorithm ecdsa-with-SHA256 -> ecdsa-with-SHA384, tbsCertificate.signature unchanged
    let oid: &[u8] = &[0x06, 0x08, 0x2a, 0x86, 0x48, 0xce, 0x3d, 0x04, 0x03, 0x02];
    let occ: Vec<usize> = (0..leaf.der.len().saturating_sub(oid.len())).filter(|i| &leaf.der[*i..*i + oid.len()] == oid).collect();
    if occ.len() == 2 {
        let mut d = leaf.der.clone();
        d[occ[1] + oid.len() - 1] = 0x03;
        let vs = simple_verdicts(&[root.clone()], &[with(&leaf, d), inter.clone()], at);
        let all_ok = vs.iter().all(|a| a.v == "ok");
        side(st, "x509/outer-sigalg-mismatch", 0, "leaf whose outer signatureAlgorithm says ecdsa-with-SHA384 while tbsCertificate.signature says ecdsa-with-SHA256 (RFC 5280 4.1.1.2: must be equal)", &vs);
        st.kind("x509/outer-sigalg-mismatch-accepted-by-all");
        if all_ok {
            st.fail("[x509/outer-sigalg-mismatch-accepted-by-all] every validator accepts a leaf whose outer signatureAlgorithm differs from tbsCertificate.signature".to_string());
        }
    } else {
        st.fail(format!("[x509/outer-sigalg-mismatch] case not built: {} occurrences of the ecdsa-with-SHA256 OID", occ.len()));
    }
    // (b) trailing bytes after the DER of one element
    let junk = |c: &ACert| with(c, [c.der.clone(), vec![0xde, 0xad]].concat());
    let cases: Vec<(&str, Vec<ACert>, Vec<ACert>, &str)> = vec![
        ("x509/trailing-bytes-in-der", vec![root.clone()], vec![junk(&leaf), inter.clone()], "chain element 0 (leaf) is `certificate‖dead`"),
        ("x509/trailing-bytes-in-der-intermediate", vec![root.clone()], vec![leaf.clone(), junk(&inter)], "chain element 1 (intermediate) is `certificate‖dead`"),
        ("x509/trailing-bytes-in-der-anchor", vec![junk(&root)], vec![leaf.clone(), inter.clone()], "the trust anchor is `certificate‖dead`"),
    ];
    for (class, anchors, chain, what) in cases {
        let vs = simple_verdicts(&anchors, &chain, at);
        let all_ok = vs.iter().all(|a| a.v == "ok");
        side(st, class, 0, what, &vs);
        st.kind(&format!("{class}-accepted-by-all"));
        if all_ok {
            st.fail(format!("[{class}-accepted-by-all] every validator accepts: {what}"));
        }
    }
    // (c) crafted subjects through the readers and SubjectIdentityExtractor
    let cn_oid: &[u8] = &[0x06, 0x03, 0x55, 0x04, 0x03];
    let o_oid: &[u8] = &[0x06, 0x03, 0x55, 0x04, 0x0a];
    let atv = |oid: &[u8], tag: u8, v: &[u8]| der_enc(0x30, &[oid.to_vec(), der_enc(tag, v)].concat());
    let rdn = |atvs: &[Vec<u8>]| der_enc(0x31, &atvs.concat());
    let name = |rdns: &[Vec<u8>]| der_enc(0x30, &rdns.concat());
    let bmp: Vec<u8> = "alice".bytes().flat_map(|b| [0u8, b]).collect();
    let subjects: Vec<(&str, Vec<u8>, &str)> = vec![
        ("control", name(&[rdn(&[atv(cn_oid, 0x0c, b"alice")])]), "subject CN=alice (UTF8String)"),
        ("empty-first-rdn", crate::util::unhex("3010310031 0c300a06035504030c03616c69".replace(' ', "").as_str()).unwrap(), "subject whose first RDN is an empty SET, then CN=ali"),
        ("multi-valued-rdn", name(&[rdn(&[atv(o_oid, 0x0c, b"o"), atv(cn_oid, 0x0c, b"alice")])]), "subject with one multi-valued RDN {O=o, CN=alice}"),
        ("unknown-oid-before-cn", name(&[rdn(&[atv(&[0x06, 0x03, 0x2a, 0x03, 0x04], 0x0c, b"x")]), rdn(&[atv(cn_oid, 0x0c, b"alice")])]), "subject with an attribute of unknown type 1.2.3.4 before CN=alice"),
        ("bmpstring-cn", name(&[rdn(&[atv(cn_oid, 0x1e, &bmp)])]), "subject CN=alice as BMPString"),
    ];
    let ikey = pki.keys[ik as usize].clone();
    for (case, subject, what) in subjects {
        let Some(der) = resubject(&leaf.der, &subject, &ikey) else {
            st.fail(format!("[x509-reader/not-built-{case}] the certificate of the case could not be constructed"));
            continue;
        };
        let cert = DerCertificate::from(der.clone());
        let chain: CertificateChain = vec![cert.clone(), DerCertificate::from(inter.der.clone())].into();
        type Triple = (Result<Vec<u8>, (&'static str, String)>, Result<Vec<u8>, (&'static str, String)>, Result<String, (&'static str, String)>);
        fn read<R: X509CertificateReader + Clone>(r: R, cert: &DerCertificate, chain: &CertificateChain) -> Triple
        where
            R::Error: std::fmt::Debug,
        {
            (
                guard(|| SubjectIdentityExtractor::new(0, r.clone()).identity(chain)),
                guard(|| r.subject_bytes(cert)),
                guard(|| r.subject_components(cert)).map(|c| format!("{c:?}")),
            )
        }
        let rs: Vec<(&'static str, Triple)> = vec![
            ("rustcrypto", read(mls_rs_crypto_rustcrypto::x509::X509Reader::new(), &cert, &chain)),
            ("openssl", read(mls_rs_crypto_openssl::x509::X509Reader::new(), &cert, &chain)),
            ("awslc", read(mls_rs_crypto_awslc::x509::CertificateParser::new(), &cert, &chain)),
        ];
        // panics: one class per provider
        for (p, (id, sb, comps)) in &rs {
            st.kind(&format!("x509-reader/panic-{p}-{case}"));
            let which: Vec<&str> = [("identity", id.as_ref().err()), ("subject_bytes", sb.as_ref().err()), ("subject_components", comps.as_ref().err())]
                .iter()
                .filter(|(_, e)| e.map(|e| e.0 == "panic").unwrap_or(false))
                .map(|(n, _)| *n)
                .collect();
            if !which.is_empty() {
                let msg = [id.as_ref().err(), comps.as_ref().err(), sb.as_ref().err()].iter().flatten().find(|e| e.0 == "panic").map(|e| e.1.clone()).unwrap_or_default();
                st.fail(format!("[x509-reader/panic-{p}-{case}] {p}'s X.509 reader panics in {} on a certificate with {what}: {msg}", which.join(", ")));
            }
        }
        let ida: Vec<Ans> = rs
            .iter()
            .map(|(p, (id, _, _))| {
                let mut a = ans_bytes(p, id);
                if let Ok(b) = id {
                    a.note = format!("{:?}", String::from_utf8_lossy(b));
                }
                a
            })
            .collect();
        let id_differs = side(st, &format!("x509-reader/identity-differs-{case}"), 0, &format!("SubjectIdentityExtractor::identity of a leaf with {what}"), &ida);
        let sba: Vec<Ans> = rs.iter().map(|(p, (_, sb, _))| ans_bytes(p, sb)).collect();
        side(st, &format!("x509-reader/subject-bytes-differ-{case}"), 0, &format!("subject_bytes of a leaf with {what} (real subject {})", hex(&subject)), &sba);
        let ca: Vec<Ans> = rs
            .iter()
            .map(|(p, (_, _, c))| match c {
                Ok(s) => Ans { who: p, v: format!("ok:{s}"), note: String::new() },
                Err((k, d)) => Ans { who: p, v: k.to_string(), note: d.clone() },
            })
            .collect();
        if id_differs {
            st.kind(&format!("x509-reader/components-differ-{case}"));
            note(st, format!("x509-reader/components-differ-{case}:{}", ca.iter().map(|a| format!("{}:{}", a.who, verdict_word(&a.v))).collect::<Vec<_>>().join("+")));
        } else {
            side(st, &format!("x509-reader/components-differ-{case}"), 0, &format!("subject_components of a leaf with {what}"), &ca);
        }
        // the same (correctly signed) leaf through the validators
        let vs = simple_verdicts(&[root.clone()], &[with(&leaf, der), inter.clone()], at);
        side(st, &format!("x509/crafted-subject-{case}"), 0, &format!("validation of a correctly signed leaf with {what}"), &vs);
    }
}

// ---- 5. AEAD open with wrong sizes, HPKE with empty inputs and PSK sizes ---------------------------------------------------------
fn audit_aead(st: &mut St) {
    for suite in 1u16..=7 {
        let ps = providers(suite);
        if ps.len() < 2 {
            continue;
        }
        let (nk, nn) = (ps[0].1.aead_key_size(), ps[0].1.aead_nonce_size());
        let key: Vec<u8> = (0..nk).map(|i| i as u8 + 1).collect();
        let nonce: Vec<u8> = (0..nn).map(|i| 0xa0 + i as u8).collect();
        let (pt, aad) = (b"c14 audit plaintext".to_vec(), b"aad".to_vec());
        let Ok(ct) = guard(|| ps[0].1.aead_seal(&key, &pt, Some(&aad), &nonce)) else {
            st.fail(format!("[aead-open/setup] suite {suite}: {} cannot seal", ps[0].0));
            continue;
        };
        let other_size = if nk == 16 { 32 } else { 16 };
        let stretch = |v: &[u8], l: usize| -> Vec<u8> { (0..l).map(|i| if i < v.len() { v[i] } else { i as u8 }).collect() };
        // (what, key, nonce): parameters of a wrong size.  The ciphertext is the genuine one and, when a provider seals with the
        // wrong-size parameter, also that provider's ciphertext.
        let params: Vec<(&str, Vec<u8>, Vec<u8>)> = vec![
            ("key-short", key[..nk - 1].to_vec(), nonce.clone()),
            ("key-long", stretch(&key, nk + 1), nonce.clone()),
            ("key-empty", vec![], nonce.clone()),
            ("key-other-aes-size", stretch(&key, other_size), nonce.clone()),
            ("nonce-short", key.clone(), nonce[..nn - 1].to_vec()),
            ("nonce-long", key.clone(), stretch(&nonce, nn + 1)),
            ("nonce-empty", key.clone(), vec![]),
        ];
        for (what, k2, n2) in params {
            let mut cts: Vec<(String, Vec<u8>)> = vec![("the genuine ciphertext".into(), ct.clone())];
            for (p, c) in &ps {
                if let Ok(c2) = guard(|| c.aead_seal(&k2, &pt, Some(&aad), &n2)) {
                    note(st, format!("aead-open/{what}:{p}-seals-with-this-size"));
                    if !cts.iter().any(|x| x.1 == c2) {
                        cts.push((format!("the ciphertext {p} seals with these sizes"), c2));
                    }
                }
            }
            for (origin, c2) in cts {
                let a: Vec<Ans> = ps.iter().map(|(p, c)| ans_bytes(p, &guard(|| c.aead_open(&k2, &c2, Some(&aad), &n2)).map(|z| z.to_vec()))).collect();
                side(st, &format!("aead-open/{what}"), suite, &format!("aead_open with key of {} bytes (Nk={nk}), nonce of {} bytes (Nn={nn}) on {origin}", k2.len(), n2.len()), &a);
            }
        }
        let cuts: Vec<(&str, Vec<u8>)> = vec![
            ("ct-empty", vec![]),
            ("ct-shorter-than-tag", ct[..8].to_vec()),
            ("ct-tag-minus-1", ct[ct.len() - 15..].to_vec()),
            ("ct-only-tag", ct[ct.len() - 16..].to_vec()),
        ];
        for (what, c2) in cuts {
            let a: Vec<Ans> = ps.iter().map(|(p, c)| ans_bytes(p, &guard(|| c.aead_open(&key, &c2, Some(&aad), &nonce)).map(|z| z.to_vec()))).collect();
            side(st, &format!("aead-open/{what}"), suite, &format!("aead_open of a {}-byte ciphertext", c2.len()), &a);
            st.kind(&format!("aead-open/{what}-accepted"));
            if a.iter().all(|x| x.v.starts_with("ok")) {
                st.fail(format!("[aead-open/{what}-accepted] suite {suite}: every provider opens a {}-byte ciphertext", c2.len()));
            }
        }
        // empty aad and no aad are the same input
        for (what, seal_aad, open_aad) in [("aad-none-sealed-empty-opened", None, Some(&[][..])), ("aad-empty-sealed-none-opened", Some(&[][..]), None)] {
            for (sp, sc) in &ps {
                let Ok(c2) = guard(|| sc.aead_seal(&key, &pt, seal_aad, &nonce)) else {
                    st.kind(&format!("aead-open/{what}"));
                    st.fail(format!("[aead-open/{what}] suite {suite}: {sp} cannot seal with aad {seal_aad:?}"));
                    continue;
                };
                let a: Vec<Ans> = ps.iter().map(|(p, c)| ans_bytes(p, &guard(|| c.aead_open(&key, &c2, open_aad, &nonce)).map(|z| z.to_vec()))).collect();
                side(st, &format!("aead-open/{what}"), suite, &format!("sealed by {sp} with aad {seal_aad:?}, opened with aad {open_aad:?}"), &a);
            }
        }
    }
}

fn audit_hpke_inputs(st: &mut St) {
    for suite in 1u16..=7 {
        let ps = providers(suite);
        if ps.len() < 2 {
            continue;
        }
        let Ok((sk, pk)) = guard(|| ps[0].1.kem_derive(AUDIT_IKM)) else {
            st.fail(format!("[hpke-psk/setup] suite {suite}: {} cannot derive a key pair", ps[0].0));
            continue;
        };
        let pt = b"plaintext".to_vec();
        let psk = |l: usize| -> Vec<u8> { (0..l).map(|i| 0x40 + i as u8).collect() };
        // (what, info, aad at seal, aad at open, psk (value, id))
        #[allow(clippy::type_complexity)]
        let cases: Vec<(&str, Vec<u8>, Option<Vec<u8>>, Option<Vec<u8>>, Option<(Vec<u8>, Vec<u8>)>)> = vec![
            ("base-empty-info", vec![], Some(b"aad".to_vec()), Some(b"aad".to_vec()), None),
            ("base-empty-aad", b"info".to_vec(), Some(vec![]), Some(vec![]), None),
            ("base-empty-aad-opened-with-none", b"info".to_vec(), Some(vec![]), None, None),
            ("base-no-aad-opened-with-empty", b"info".to_vec(), None, Some(vec![]), None),
            ("base-empty-info-and-aad", vec![], Some(vec![]), Some(vec![]), None),
            ("empty-info", vec![], Some(b"aad".to_vec()), Some(b"aad".to_vec()), Some((psk(32), b"psk-id".to_vec()))),
            ("empty-aad", b"info".to_vec(), Some(vec![]), Some(vec![]), Some((psk(32), b"psk-id".to_vec()))),
            ("psk-len-31", b"info".to_vec(), None, None, Some((psk(31), b"psk-id".to_vec()))),
            ("psk-len-32", b"info".to_vec(), None, None, Some((psk(32), b"psk-id".to_vec()))),
            ("psk-len-33", b"info".to_vec(), None, None, Some((psk(33), b"psk-id".to_vec()))),
            ("psk-len-64", b"info".to_vec(), None, None, Some((psk(64), b"psk-id".to_vec()))),
            ("empty-psk-id", b"info".to_vec(), None, None, Some((psk(32), vec![]))),
            ("empty-psk", b"info".to_vec(), None, None, Some((vec![], b"psk-id".to_vec()))),
            ("empty-psk-and-id", b"info".to_vec(), None, None, Some((vec![], vec![]))),
        ];
        for (what, info, aad_s, aad_o, psk) in cases {
            let class = format!("hpke-psk/{what}");
            let seal = |c: &AnyCs| match &psk {
                None => guard(|| c.hpke_seal(&pk, &info, aad_s.as_deref(), &pt)),
                Some((v, i)) => guard(|| c.hpke_seal_psk(&pk, &info, aad_s.as_deref(), &pt, HpkePsk { id: i, value: v })),
            };
            let open = |c: &AnyCs, ct: &HpkeCiphertext| match &psk {
                None => guard(|| c.hpke_open(ct, &sk, &pk, &info, aad_o.as_deref())),
                Some((v, i)) => guard(|| c.hpke_open_psk(ct, &sk, &pk, &info, aad_o.as_deref(), HpkePsk { id: i, value: v })),
            };
            let sealed: Vec<_> = ps.iter().map(|(p, c)| (*p, seal(c))).collect();
            let desc = format!(
                "hpke_seal{} with info of {} bytes, aad {}{}",
                if psk.is_some() { "_psk" } else { "" },
                info.len(),
                aad_s.as_ref().map(|a| format!("of {} bytes", a.len())).unwrap_or("None".into()),
                psk.as_ref().map(|(v, i)| format!(", psk of {} bytes, psk id of {} bytes", v.len(), i.len())).unwrap_or_default()
            );
            side(st, &class, suite, &desc, &sealed.iter().map(|(p, r)| ans(p, r)).collect::<Vec<_>>());
            // the verdict itself, not only that it is common: a PSK shorter than 32 bytes must be refused (RFC 9180 5.1.2, and the
            // length check of mls-rs-crypto-hpke); a well-formed input must be accepted.  (A 32-byte PSK with an EMPTY id is accepted
            // by the shared HPKE code of all providers although RFC 9180 calls the inputs inconsistent: not a provider divergence,
            // recorded in the cover output only.)
            let must_refuse = matches!(&psk, Some((v, _)) if v.len() < 32);
            let must_accept = match &psk {
                None => true,
                Some((v, i)) => v.len() >= 32 && !i.is_empty(),
            };
            let accepted: Vec<&str> = sealed.iter().filter(|(_, r)| r.is_ok()).map(|(p, _)| *p).collect();
            if must_refuse && !accepted.is_empty() {
                st.fail(format!("[{class}-accepted] suite {suite}: {desc} must be refused (RFC 9180 5.1.2) but is accepted by {}", accepted.join("+")));
            }
            if must_accept && accepted.len() != sealed.len() {
                st.fail(format!("[{class}-refused] suite {suite}: {desc} is a valid input but is refused by some provider"));
            }
            // where accepted: every provider opens every provider's ciphertext
            let mut refused: Vec<String> = vec![];
            for (sp, r) in &sealed {
                let Ok(ct) = r else { continue };
                for (op, oc) in &ps {
                    st.kind(&format!("{class}-cross-open"));
                    match open(oc, ct) {
                        Ok(z) if z.to_vec() == pt => {}
                        Ok(_) => refused.push(format!("sealed by {sp}: {op} opens to another plaintext")),
                        Err((k, d)) => refused.push(format!("sealed by {sp}: {op} -> {k} ({d})")),
                    }
                }
            }
            if !refused.is_empty() {
                st.fail(format!("[{class}-cross-open] suite {suite}: {desc}, opened with aad {:?}: {}", aad_o.as_ref().map(|a| a.len()), refused.join("; ")));
            }
        }
    }
}

fn audit(st: &mut St) {
    audit_nist_encodings(st);
    audit_x25519(st);
    audit_kem_generate(st);
    audit_x509(st);
    audit_aead(st);
    audit_hpke_inputs(st);
}

pub fn run(o: &Opts) -> i32 {
    crate::util::quiet_panics();
    let dir = o.str("out", "/verif/work/c14");
    std::fs::create_dir_all(&dir).ok();
    let mut rng = Rng::new(o.seed());
    let mut st = St { fails: vec![], classes: Default::default(), cases: 0, kinds: Default::default(), outcomes: Default::default() };
    let part = o.str("part", "all");
    let mut qa = QA::create(&dir, "c14");
    if part == "all" || part == "prims" {
        prims(&mut rng, &mut qa, &mut st, o.thorough());
    }
    if part == "all" || part == "hpke" {
        hpke_rows(&mut rng, &mut qa, &mut st, o.thorough());
    }
    let rows_a = qa.finish();
    let mut qx = QA::create(&dir, "c14x");
    if part == "all" || part == "x509" {
        x509(&mut rng, &mut qx, &mut st, o.thorough());
    }
    let rows_x = qx.finish();
    if part == "all" || part == "audit" {
        audit(&mut st);
    }
    println!("rows {}", rows_a + rows_x);
    println!("cases {}", st.cases);
    println!("kinds {}", st.kinds.iter().map(|(k, v)| format!("{k}={v}")).collect::<Vec<_>>().join(","));
    println!("outcomes {}", st.outcomes.iter().map(|(k, v)| format!("{k}={v}")).collect::<Vec<_>>().join(","));
    println!("oracle_failures {}", st.classes.len());
    println!("divergence_classes {}", st.classes.iter().map(|(k, v)| format!("{k}={}", v.0)).collect::<Vec<_>>().join(","));
    // one line per class (the known-findings filter works on classes), first example attached
    std::fs::write(format!("{dir}/c14.failures"), st.classes.iter().map(|(k, v)| format!("[{k}] x{} e.g. {}", v.0, v.1)).collect::<Vec<_>>().join("\n")).unwrap();
    std::fs::write(format!("{dir}/c14.allfailures"), st.fails.join("\n")).unwrap();
    std::fs::write(format!("{dir}/c14.samples"), "").unwrap();
    0
}
