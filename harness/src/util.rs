use std::collections::BTreeMap;
use std::io::Write;

/// SplitMix64: the single PRNG every generator derives its choices from.
#[derive(Clone)]
pub struct Rng(pub u64);

impl Rng {
    pub fn new(seed: u64) -> Self {
        Rng(seed ^ 0x9E37_79B9_7F4A_7C15)
    }
    pub fn next(&mut self) -> u64 {
        self.0 = self.0.wrapping_add(0x9E37_79B9_7F4A_7C15);
        let mut z = self.0;
        z = (z ^ (z >> 30)).wrapping_mul(0xBF58_476D_1CE4_E5B9);
        z = (z ^ (z >> 27)).wrapping_mul(0x94D0_49BB_1331_11EB);
        z ^ (z >> 31)
    }
    pub fn below(&mut self, n: u64) -> u64 {
        if n == 0 {
            0
        } else {
            self.next() % n
        }
    }
    pub fn range(&mut self, lo: u64, hi_incl: u64) -> u64 {
        lo + self.below(hi_incl - lo + 1)
    }
    pub fn chance(&mut self, num: u64, den: u64) -> bool {
        self.below(den) < num
    }
    pub fn bytes(&mut self, n: usize) -> Vec<u8> {
        (0..n).map(|_| self.next() as u8).collect()
    }
    pub fn pick<'a, T>(&mut self, xs: &'a [T]) -> &'a T {
        &xs[self.below(xs.len() as u64) as usize]
    }
    pub fn fork(&mut self) -> Rng {
        Rng(self.next())
    }
}

pub struct Opts(pub BTreeMap<String, String>);

impl Opts {
    pub fn parse(args: &[String]) -> Self {
        let mut m = BTreeMap::new();
        let mut i = 0;
        while i < args.len() {
            let k = args[i].trim_start_matches("--").to_string();
            if i + 1 < args.len() && !args[i + 1].starts_with("--") {
                m.insert(k, args[i + 1].clone());
                i += 2;
            } else {
                m.insert(k, "1".to_string());
                i += 1;
            }
        }
        Opts(m)
    }
    pub fn get(&self, k: &str) -> Option<&str> {
        self.0.get(k).map(|s| s.as_str())
    }
    pub fn str(&self, k: &str, d: &str) -> String {
        self.get(k).unwrap_or(d).to_string()
    }
    pub fn u64(&self, k: &str, d: u64) -> u64 {
        self.get(k).and_then(|s| s.parse().ok()).unwrap_or(d)
    }
    pub fn seed(&self) -> u64 {
        self.u64("seed", 1)
    }
    pub fn thorough(&self) -> bool {
        self.get("tier") == Some("thorough")
    }
}

pub fn hex(b: &[u8]) -> String {
    if b.is_empty() {
        return "-".to_string();
    }
    let mut s = String::with_capacity(b.len() * 2);
    for x in b {
        s.push_str(&format!("{:02x}", x));
    }
    s
}

pub fn unhex(s: &str) -> Option<Vec<u8>> {
    if s == "-" {
        return Some(vec![]);
    }
    if s.len() % 2 != 0 {
        return None;
    }
    (0..s.len() / 2)
        .map(|i| u8::from_str_radix(&s[2 * i..2 * i + 2], 16).ok())
        .collect()
}

/// Two parallel line files: queries (fed to the Lean driver) and the implementation's answers.
pub struct QA {
    q: std::io::BufWriter<std::fs::File>,
    a: std::io::BufWriter<std::fs::File>,
    pub n: u64,
}

impl QA {
    pub fn create(dir: &str, stem: &str) -> Self {
        std::fs::create_dir_all(dir).unwrap();
        let q = std::fs::File::create(format!("{dir}/{stem}.q")).unwrap();
        let a = std::fs::File::create(format!("{dir}/{stem}.rust")).unwrap();
        QA { q: std::io::BufWriter::new(q), a: std::io::BufWriter::new(a), n: 0 }
    }
    pub fn put(&mut self, q: &str, a: &str) {
        writeln!(self.q, "{q}").unwrap();
        writeln!(self.a, "{a}").unwrap();
        self.n += 1;
    }
    /// write everything buffered so far (both files hold the same number of complete lines afterwards); returns the row count
    pub fn flush(&mut self) -> u64 {
        self.q.flush().unwrap();
        self.a.flush().unwrap();
        self.n
    }
    pub fn finish(mut self) -> u64 {
        self.q.flush().unwrap();
        self.a.flush().unwrap();
        self.n
    }
}

/// Run `f`, mapping a panic to `Err(message)`.
pub fn guarded<T>(f: impl FnOnce() -> T + std::panic::UnwindSafe) -> Result<T, String> {
    std::panic::catch_unwind(f).map_err(|e| {
        if let Some(s) = e.downcast_ref::<&str>() {
            s.to_string()
        } else if let Some(s) = e.downcast_ref::<String>() {
            s.clone()
        } else {
            "panic".to_string()
        }
    })
}

pub fn quiet_panics() {
    if std::env::var("VHARNESS_LOUD").is_ok() {
        return;
    }
    std::panic::set_hook(Box::new(|_| {}));
}

/// Scratch directory of this process for sub-command `name` (SQLite files of the members): one per process, so that
/// concurrent runs (two checks, a check and a replay) never share or delete each other's files.
pub fn scratch(name: &str) -> String {
    format!("/tmp/vharness-scratch-{name}-{}", std::process::id())
}
