"""C19 — late messages: exact retention window and never a wrong sender.
(P) MlsVerif.Props.C19 (retention_exact, retention_with_pending, get_returns_right_record, older_gone) over the repository model;
(T) the C06 scenarios: every late-message verdict is a `repo.get` row replayed on the model; direct oracle for vacated / reused /
    re-identified sender leaves."""
from . import c06


def run(ctx):
    ctx.work = ctx.work  # own work dir (c19)
    return c06.run(ctx, focus="C19", props=("MlsVerif.Props.C19",))


def replay(ctx, path):
    print(open(path).read()[:4000])
    return run(ctx)
