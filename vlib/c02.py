"""C02 — only current members can follow the group; secrets go only to entitled keys."""
from . import treechecks


def run(ctx):
    return treechecks.run(ctx, "C02", ["MlsVerif.Props.C02", "MlsVerif.Props.C02Group"], "C02",
                          "a path secret was sealed to a key outside the new tree's copath resolutions or to a leaf added by the same commit, joiner secrets went to a tree key, "
                          "or a removed member's retained group processed a later commit",
                          ["'never learns a later authenticator' is the symbolic consequence of removed_cannot_open_seals (no later seal targets a key the removed member holds) under free-term crypto; "
                           "the check feeds every later commit to the removed members' retained groups",
                           "every hpke_seal issued while a commit is built is recorded by a wrapping CipherSuiteProvider and classified by its EncryptContext label",
                           "MlsVerif.Props.C02Group: Dolev-Yao style derivability over the composed group model — a member removed by a path commit (also one that had missed commits) derives no path "
                           "secret, commit secret or epoch secret of that or any later epoch from its last state and all public seals, as long as no key it knows is re-introduced (NoReintro, "
                           "decidable); negative example without a path; Welcome secrecy. The adversary has its LAST state, not everything it ever saw; no compromise / PCS statement. "
                           "Tie: the `g.*` rows (the removed members' retained groups stay in their own class of the partition)"],
                          also=[(None, "group", "hist-group")])


def replay(ctx, path):
    print(open(path).read()[:4000])
    return run(ctx)
