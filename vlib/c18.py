"""C18 — a PSK commit binds the new epoch to knowledge of the PSK.
(P) MlsVerif.Props.C18: for a collision-free Prim (extract / expand-with-label injective: `FreePsk`), the chained psk_secret is injective in
    the list of (id, nonce, value) triples incl. order and count; every secret of the new epoch and the Welcome key/nonce determine
    (joiner secret, group context, psk secret); hence changing value, id, nonce, order or count of any PSK changes every epoch secret, holders of the
    same values agree; more than 65535 PSKs rejected.  Non-vacuity: the term algebra Prim satisfies FreePsk.
(T) random PSK commits on the real library (external and resumption PSKs, by value and by reference, 1-4 PSKs, per-member holdings: same /
    different / missing value, retention and join epoch for resumption): exactly the holders of all values reach the epoch (direct oracle),
    and the implementation's psk_secret is recomputed byte for byte by the compiled model (driver c13) under variations of value / id / nonce / order / count;
    `eks` rows: the epoch secrets and confirmation tag of every path-less PSK commit of those REAL groups recomputed by KS.epochOfCommit from the commit's own PSK list
    (ids and nonces as sent, message order; hook verif_commit_proposals)."""
from . import generic

SOURCES = ["mls-rs/src/psk/secret.rs", "mls-rs/src/psk/resolver.rs", "mls-rs/src/psk.rs", "mls-rs/src/group/key_schedule.rs",
           "mls-rs/src/group/commit.rs", "mls-rs/src/group/message_processor.rs", "mls-rs/src/group/mod.rs"]


def run(ctx):
    return generic.standard(
        ctx, ["MlsVerif.Props.C18", "MlsVerif.Props.C18Repo"], ["c18"], "c13", "c18", SOURCES + ["mls-rs/src/group/state_repo.rs"],
        rule="each case: group of 3-5 members, 1-4 PSK proposals (external / resumption, by value / by reference, random order), per member and PSK: "
             "holds the same value / a different value / nothing; resumption epochs inside and outside each member's retention and before its join; "
             "a joiner with and without the PSKs; rows = psk-secret chain recomputed by the model from (id, nonce, value) lists and their variations, and `eks` rows = secrets of the "
             "epoch the real group entered + confirmation tag, recomputed from the real commit's PSK proposals in message order (values from the harness's bookkeeping); "
             "non-trivial = cases",
        what_corr="the implementation's PSK secret / epoch secret differs from the RFC 9420 chain over the committed PSK list",
        what_oracle="a member without (all) the PSK values reached the epoch, a holder was refused, a rejecting member changed, or holders disagree",
        assumptions=["theorems assume an injective KDF (FreePsk) — the standard random-oracle idealisation; the byte-level rows use the Lean HKDF reference",
                     "PSK nonces are taken from the commit as sent (random per proposal)",
                     "`eks` rows exist for commits without an update path only (the commit secret of a path is not observable)"],
        nontrivial=lambda r, kv: int(kv.get("cases", "0")),
        # which resumption PSKs resolve at all: the repository's own lookup path (`resumption_secret`), tied as `repo.psk` rows of the
        # storage scenarios (both providers, random write / reload / crash points) to Repo.resumptionSecret; MlsVerif.Props.C18Repo
        # proves it equal to the epoch lookup (hence the retention window of C19) and blind to the caches for another group's PSK
        also=[(["c06", "--scenarios", "60" if ctx.tier != "thorough" else "600", "--focus", "C18"], "repo", "c06all")])


def replay(ctx, path):
    print(open(path).read()[:4000])
    return run(ctx)
