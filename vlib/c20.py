"""C20 — tree index arithmetic = RFC 9420 Appendix C, every size.
(P) theorems MlsVerif.Props.C20 (model = recursive spec, all k, all x);
(T) correspondence: full function tables of the real crate (hook verif::tree_math) vs compiled model."""
import json, os
from . import common

SOURCES = ["mls-rs/src/tree_kem/math.rs", "mls-rs/src/tree_kem/node.rs"]


def run(ctx, extra=()):
    proved = common.prove(ctx, ["MlsVerif.Props.C20", "MlsVerif.Props.GenTables"])
    ctx.cov["source_hashes"] = common.source_hashes(SOURCES)
    built = common.cargo_build(ctx)
    rows = 0
    ndiff = 0
    diffs = []
    oracle = []
    if built:
        rc, out, kv = common.harness(ctx, ["c20", "--out", ctx.work] + list(extra))
        q, a, b = (os.path.join(ctx.work, f"c20.{e}") for e in ("q", "rust", "lean"))
        drc, derr = common.driver(ctx, "c20", q, b)
        rows, diffs, ndiff = common.diff_rows(q, a, b)
        oracle = [l for l in open(os.path.join(ctx.work, "c20.oracle")).read().splitlines() if l]
        ctx.log(f"rows={rows} diffs={ndiff} oracle_failures={len(oracle)}")
        kinds = {}
        samples = []
        with open(q) as fq, open(a) as fa:
            for i, (ql, al) in enumerate(zip(fq, fa)):
                k = ql.split(" ", 1)[0]
                kinds[k] = kinds.get(k, 0) + 1
                if i % 97001 == 5:
                    samples.append(f"{ql.strip()} => {al.strip()}")
        ctx.cov.update({"evaluations": rows, "distinct_nontrivial": rows - kinds.get("lio", 0),
                        "rule": "one row per (function, size, node) query; exhaustive for every power-of-two leaf count "
                                "2^0..2^12 and every node index in the tree plus 3 beyond it, all leaf pairs below the "
                                "tier bound for the LCA level, sampled (k<=24, x); every row is distinct by construction",
                        "samples": samples[:12], "function_histogram": kinds,
                        "traces_validated_against_impl": rows, "exhaustive": True,
                        "correspondence_differences": ndiff, "direct_oracle_failures": len(oracle)})
        if rc != 0 or drc != 0:
            ctx.violation("correspondence", "harness or model driver failed to run", {"harness": out[-800:], "driver": derr[-800:]}, no_input=True)
    else:
        ctx.violation("correspondence", "harness does not build against /repo", {"log": getattr(ctx, "build_failure", "")}, no_input=True)
    # classification
    if ndiff or oracle:
        ctx.violation("correspondence" if ndiff else "oracle",
                      "tree math of the implementation differs from the model (= RFC 9420 App. C spec by MlsVerif.Props.C20)",
                      {"first_differing_rows": diffs, "rust_side_recursive_oracle": oracle[:20], "total_differences": ndiff,
                       "replay": "cd /verif/harness && target/debug/vharness c20 --out /verif/work/c20 && /verif/lean/.lake/build/bin/mlsmodel c20 < /verif/work/c20/c20.q | diff - /verif/work/c20/c20.rust"})
    if not proved:
        # a broken proof with agreeing tables: no concrete failing input
        ctx.violation("proof", "theorem(s) of MlsVerif.Props.C20 no longer check", ctx.proof_failure, no_input=not (ndiff or oracle))
    ctx.assumptions += ["leaf counts passed to the tree math are powers of two (NodeVec::total_leaf_count) — checked rows 'tlc'",
                        "Nat model = u32 code below 2^32: theorem fits_u32"]
    return ctx.finish("proof")


def replay(ctx, path):
    d = json.load(open(path))
    print(json.dumps(d, indent=1)[:4000])
    return run(ctx)
