"""C14 — the shipped crypto providers (RustCrypto, OpenSSL, AWS-LC) are interchangeable.
(P) MlsVerif.Props.C14 on the model of the generic HPKE construction (mls-rs-crypto-hpke: hpke.rs, context.rs, kdf.rs, dhkem.rs), generic over an
    abstract primitive record: setup_agree (receiver context = sender context, base and psk mode), seal_open_seq (any message list), nonce_injective /
    seq_never_wraps / no_nonce_reuse, export_agree, export_only, psk_rules, dhkem_correct / dhkem_shared_secret / dhkem_sampling, and the cross-provider
    theorems interchangeable (the construction is a function of the primitive record) and interop (sender on one record, receiver on another that
    agrees on the KDF and decapsulates / opens what the first encapsulated / sealed); X.509: the abstract RFC 5280-style verdict with
    verdict_time_window, verdict_reject_cases, verdict_anchor_monotone, verdict_prefix.
(T) (1) every CipherSuiteProvider primitive of the three providers side by side on the same inputs for every common suite (1,2,3,5,7 all three; 4,6 none
    or OpenSSL only): identical bytes / identical accept-reject / cross-verify / cross-open; hash, MAC, HKDF rows recomputed by the Lean reference;
    (2) the real generic Hpke / DhKem code driven with a scripted KEM / DH and a recording AEAD over each provider's KDF: key, nonce sequence, export,
    DHKEM shared secret, dkp_prk, derived secret key, rejection-sampling candidates as rows for the Lean HPKE model (byte for byte);
    (3) generated certificate chains x validation times around every validity boundary through the three validators: same verdict, and the verdict
    of the Lean model (`x509` rows); (4) random group histories whose members use different providers (all suites), agreement oracle of C01."""
import os
from . import common

SOURCES = ["mls-rs-crypto-openssl/src/lib.rs", "mls-rs-crypto-awslc/src/lib.rs", "mls-rs-crypto-rustcrypto/src/lib.rs", "mls-rs-crypto-openssl/src/x509.rs",
           "mls-rs-crypto-awslc/src/x509/validator.rs", "mls-rs-crypto-rustcrypto/src/x509/validator.rs", "mls-rs-identity-x509/src/provider.rs",
           "mls-rs-crypto-hpke/src/hpke.rs", "mls-rs-crypto-hpke/src/dhkem.rs", "mls-rs-crypto-hpke/src/context.rs", "mls-rs-crypto-hpke/src/kdf.rs",
           "mls-rs-core/src/crypto.rs", "mls-rs-crypto-traits/src/lib.rs", "mls-rs-crypto-openssl/src/aead.rs", "mls-rs-crypto-awslc/src/aead.rs",
           "mls-rs-crypto-rustcrypto/src/aead.rs", "mls-rs-crypto-openssl/src/kdf.rs", "mls-rs-crypto-awslc/src/kdf.rs", "mls-rs-crypto-rustcrypto/src/kdf.rs"]

# divergence class -> known-finding key.  Exact class names (a new divergence of a neighbouring kind is NOT covered); `*` stands for
# the fixed, enumerated variants of one and the same recorded divergence.
KNOWN_CLASSES = {
    "F18": ["mac/empty-key/accepted-by:awslc+rustcrypto", "mac/empty-key/accepted-by:awslc", "mac/empty-key/accepted-by:rustcrypto"],
    # (the keys come from the providers' own random generators: whether AWS-LC takes a key with one byte appended or removed as
    # well depends on the key — a P-521 scalar below order/256 stays in range when a zero byte is appended, about one key in 256 —
    # so the recorded divergence shows up with either set of accepting providers; RustCrypto rejects in every variant)
    "F19": ["sign-malformed-key/long/accepted-by:openssl", "sign-malformed-key/short/accepted-by:openssl", "sign-malformed-key/zeros/accepted-by:awslc+openssl",
            "sign-malformed-key/long/accepted-by:awslc+openssl", "sign-malformed-key/short/accepted-by:awslc+openssl", "sign-malformed-key/zeros/accepted-by:openssl"],
    "F20": ["x509/notAfter-boundary", "notAfter-boundary"],
    "F21": ["x509/anchor-pathlen", "anchor-pathlen"],
    "F22": ["x509/reordered-accepted", "reordered-accepted"],
    "F23": ["x509/trailing-certs-ignored", "trailing-certs-ignored"],
    # NIST public keys in another encoding than the uncompressed one
    "F42": ["kem-validate/p256-infinity", "kem-validate/p384-infinity", "kem-validate/p521-infinity-accepted-by-all",
            "kem-validate/p256-hybrid", "kem-validate/p384-hybrid", "hpke-seal/p256-hybrid", "hpke-seal/p384-hybrid",
            "kem-validate/p256-compact", "kem-validate/p384-compact", "hpke-seal/p256-compact", "hpke-seal/p384-compact"],
    "F43": ["kem-generate/secret-length-p256", "kem-generate/secret-length-p384"],
    "F44": ["x509/outer-sigalg-mismatch"],
    "F45": ["x509/trailing-bytes-in-der", "x509/trailing-bytes-in-der-intermediate", "x509/trailing-bytes-in-der-anchor"],
    "F46": ["x509-reader/identity-differs-multi-valued-rdn", "x509-reader/identity-differs-unknown-oid-before-cn", "x509-reader/identity-differs-bmpstring-cn"],
}


def key_of(cls):
    for k, classes in KNOWN_CLASSES.items():
        if cls in classes:
            return k
    return None


def run(ctx):
    proved = common.prove(ctx, ["MlsVerif.Props.C14"])
    ctx.cov["source_hashes"] = common.source_hashes(SOURCES)
    if not common.cargo_build(ctx):
        ctx.violation("correspondence", "harness does not build against /repo", {"log": getattr(ctx, "build_failure", "")}, no_input=True)
        return ctx.finish("proof")
    r = common.correspond(ctx, ["c14"], "c14", "c14")
    kv = r["kv"]
    # x509 rows: every differing row is attributed to its deviation class (the harness names the class of rows that fall into a recorded one)
    q, a, b = (os.path.join(ctx.work, f"c14x.{e}") for e in ("q", "rust", "lean"))
    xrows, xdiff = 0, {}
    if os.path.exists(q):
        drc, derr = common.driver(ctx, "c14", q, b)
        if drc != 0:
            r["ok"] = False
            r["out"] += "\nDRIVER(x509): " + derr[-500:]
        else:
            with open(q) as fq, open(a) as fa, open(b) as fb:
                for ql, al, bl in zip(fq, fa, fb):
                    xrows += 1
                    if al != bl:
                        w = ql.split(" ")
                        cls = w[1].split(":")[0] if w[0] == "x509k" else "x509"
                        xdiff.setdefault(cls, []).append({"query": ql.strip()[:400], "impl": al.strip(), "model": bl.strip()})
    ctx.log(f"c14x: rows={xrows} differing classes={ {k: len(v) for k, v in xdiff.items()} }")
    # mixed-provider histories
    n = "140" if ctx.tier == "thorough" else "14"
    rc2, out2, kv2 = common.harness(ctx, ["hist", "--histories", n, "--providers", "mixed", "--suites", "1,2,3,4,5,6,7", "--focus",
                                          "C01,C02,C03,C05,C07,C08,C09,C10,C11", "--out", os.path.join(ctx.work, "mixed")])
    mixed_fail = int(kv2.get("oracle_failures", "0") or 0)
    fails_file = os.path.join(ctx.work, "c14.failures")
    fails = [l for l in open(fails_file).read().splitlines() if l.strip()] if os.path.exists(fails_file) else []
    ctx.cov.update({
        "evaluations": r["rows"] + xrows + int(kv.get("cases", "0") or 0) + int(kv2.get("commits", "0") or 0),
        "distinct_nontrivial": r["rows"] + xrows,
        "rule": "(1) suites 1-7, every provider shipping the suite: hash / mac over 22 lengths (0..1000, block boundaries) x 7 key lengths, HKDF extract / expand over "
                "salt, ikm, prk, info and output lengths incl. 0, Nh-1, Nh, 255*Nh, 255*Nh+1, AEAD seal / open over key and nonce lengths (right, +-1, 0), 22 plaintext "
                "lengths, aad none / empty / 13 bytes, tampered / truncated / short ciphertexts, kem_derive over 7 ikm lengths, public-key validation of "
                "8 malformations, hpke_seal / open for every (sealer, opener) pair in base and psk mode with tampering and wrong psk, contexts of 4 messages, "
                "export lengths, psk input rules, sign / verify for every (key origin, signer, verifier) triple with 5 malformations, malformed public and "
                "secret keys; (2) 6 (40) random key schedules, DHKEM shared secrets and key derivations per suite and provider; (3) 60 (400) generated chains "
                "(depth 1-3, P-256 / Ed25519) in 12 structural variants x sampled (all) times at every boundary -1/0/+1; (4) 14 (140) mixed-provider histories",
        "samples": r["samples"][:8], "query_histogram": r["kinds"], "error_kinds": r.get("errors", {}),
        "traces_validated_against_impl": r["rows"] + xrows, "correspondence_differences": r["ndiff"] + sum(len(v) for v in xdiff.values()),
        "x509_rows": xrows, "x509_differing_rows_by_class": {k: len(v) for k, v in xdiff.items()},
        "primitive_cases": kv.get("cases", ""), "case_kinds": kv.get("kinds", "")[:1500], "outcomes": kv.get("outcomes", "")[:2500],
        "divergence_classes": kv.get("divergence_classes", ""),
        "mixed_provider_histories": {"commits": kv2.get("commits", ""), "cover": kv2.get("cover", ""), "results": kv2.get("results", "")[:600], "oracle_failures": mixed_fail}})
    if not r["ok"]:
        ctx.violation("correspondence", "harness or model driver failed", {"log": r["out"][-1500:]}, no_input=True)
    if r["ndiff"]:
        ctx.violation("correspondence", "a primitive / the HPKE construction of a provider differs from the RFC 9180 / RFC 5869 reference model",
                      {"first_differing_rows": r["diffs"], "total": r["ndiff"]})
    for cls, rows in sorted(xdiff.items()):
        ctx.violation("correspondence", f"an X.509 validator's verdict differs from the model's verdict (class {cls})",
                      {"class": cls, "rows": rows[:12], "total": len(rows),
                       "replay": "feed the 'query' line to /verif/lean/.lake/build/bin/mlsmodel c14; rebuild the chain with harness c14 --part x509 --seed <seed>"},
                      key=key_of(cls))
    for line in fails:
        cls = line.split("]")[0].lstrip("[")
        ctx.violation("oracle", f"providers disagree: {cls}", {"class": cls, "example": line[:1200],
                                                               "replay": f"cd /verif/harness && target/debug/vharness c14 --seed {ctx.seed * 100 + int(ctx.pid[1:])} --tier {ctx.tier}"},
                      key=key_of(cls))
    if rc2 != 0 or mixed_fail:
        mf = os.path.join(ctx.work, "mixed", "hist.failures")
        ctx.violation("oracle", "members using different providers do not form one working group",
                      {"failures": open(mf).read().splitlines()[:40] if os.path.exists(mf) else [], "log": out2[-800:]}, no_input=(mixed_fail == 0))
    if not proved:
        ctx.violation("proof", "theorem(s) of MlsVerif.Props.C14 no longer check", ctx.proof_failure,
                      no_input=not (r["ndiff"] or xdiff or fails))
    ctx.assumptions += ["theorems are over an abstract primitive record with the stated correctness hypotheses (KEM / DH commutativity, AEAD open inverts seal, AEAD binding); "
                        "AES-GCM, ChaCha20-Poly1305, the curves and the signature schemes have no Lean model: for them the check is the cross-provider differential only",
                        "the X.509 verdict is an abstract model (subject, issuer, key, signer, validity, CA flag, path length); extensions outside it are not generated",
                        "the Lean SHA-2 / HMAC / HKDF reference is tested against published vectors, not proved"]
    return ctx.finish("proof")


def replay(ctx, path):
    print(open(path).read()[:4000])
    return run(ctx)
