"""C16 — an external observer tracks exactly the members' public state.
(P) MlsVerif.Props.C16: epoch admission incl. the observer window (exact, monotone, no underflow);
(T) observers attached to random histories with public handshake messages: context / roster / tree equality after every commit,
    snapshot-restore, every jitter class; `adm` rows (observer epoch, jitter, message epoch) replayed on the model; panics are failures."""
from . import generic

SOURCES = ["mls-rs/src/external_client/group.rs", "mls-rs/src/external_client/builder.rs", "mls-rs/src/external_client.rs",
           "mls-rs/src/group/message_processor.rs"]


def run(ctx):
    return generic.standard(
        ctx, ["MlsVerif.Props.C16"], ["c16"], "small", "c16", SOURCES,
        rule="random group histories (adds, removes, updates, PSKs, by-reference and by-value, identity changes) with public handshake; up to 6 "
             "observers per history started at random epochs with jitter in {0,1,2,epoch-1,epoch,epoch+1,2^63,2^64-1,small}; each row = one "
             "ciphertext delivered to one observer (current and replayed older epochs); non-trivial = distinct (epoch, jitter, message epoch) rows "
             "plus every observer/member comparison",
        what_corr="the observer admits / refuses a ciphertext differently from the window model",
        what_oracle="observer diverges from the members' public state, rejects what members accept, or panics",
        assumptions=["proposals issued by the observer as an external sender (Remove, Add, PSK, GroupContextExtensions; default cache and cache_proposals(false)) are exercised by the directed scenario c10x "
                     "(group with an ExternalSendersExt; allowed types accepted and committed, a relayed Update dropped, the observer follows the commit over its own proposals), not inside the random histories",
                     "observers can only follow histories whose handshake messages are public"],
        nontrivial=lambda r, kv: len(set(open(__import__('os').path.join(ctx.work, 'c16.q')).read().splitlines())) + int(kv.get("comparisons", "0")),
        # proposals issued by an observer acting as external sender (allowed types are committed, a relayed Update is dropped)
        # (half of these observers run with cache_proposals(false): `propose` must remember what it issues whatever the flag says;
        # only the failures of that scenario that concern the observer are reported here, the others belong to C10)
        also=[(["c10x", "--focus", "C16"], None, "c10x")])


def replay(ctx, path):
    print(open(path).read()[:4000])
    return run(ctx)
