"""Shared machinery of ./check: Lean build + axiom audit, harness build/run, stream diff,
evidence and VIOLATION / KNOWN-FINDING reporting."""
import json, os, re, subprocess, sys, time, hashlib

VERIF = os.path.dirname(os.path.dirname(os.path.abspath(__file__)))
LEAN = os.path.join(VERIF, "lean")
HARNESS = os.path.join(VERIF, "harness")
WORK = os.path.join(VERIF, "work")
REPLAYS = os.path.join(VERIF, "replays")
EVID = os.path.join(VERIF, "evidence")
REPO = "/repo"
ALLOWED_AXIOMS = {"propext", "Classical.choice", "Quot.sound"}
ENV = dict(os.environ, CARGO_NET_OFFLINE="true")

TRUSTED_BASE_COMMON = [
    "Lean 4.33.0 kernel (lake build; thorough tier re-checks the property module with leanchecker)",
    "axioms allowed in property theorems: propext, Classical.choice, Quot.sound (audited by #print axioms on every run)",
    "correspondence check: /verif/harness (Rust, calls the real crates in-process) + /verif/lean/Driver (compiled Lean model) + canonicalisation and generators in both",
    "rustc/cargo, the harness' own instrumentation wrappers",
]


def sh(cmd, cwd=None, timeout=None, env=None, stdin=None, stdout=subprocess.PIPE):
    t = time.time()
    try:
        p = subprocess.run(cmd, cwd=cwd, shell=isinstance(cmd, str), stdout=stdout, stderr=subprocess.STDOUT,
                           text=True, timeout=timeout, env=env or ENV, stdin=stdin)
    except subprocess.TimeoutExpired as e:
        # a hanging harness / driver / build (e.g. a decoder that loops) is a failed run, reported by the caller
        out = e.stdout if isinstance(e.stdout, str) else (e.stdout or b"").decode("utf-8", "replace")
        return 124, (out or "") + f"\nTIMEOUT after {timeout}s: {cmd if isinstance(cmd, str) else ' '.join(map(str, cmd))[:300]}", time.time() - t
    return p.returncode, (p.stdout or ""), time.time() - t


class Ctx:
    """State of one check run."""

    def __init__(self, pid, tier, seed):
        self.pid, self.tier, self.seed = pid, tier, seed
        self.t0 = time.time()
        self.violations = []      # (replay_path, no_input_found)
        self.known_hits = []
        self.notes = []
        self.cov = {}
        self.assumptions = []
        self.work = os.path.join(WORK, pid.lower())
        os.makedirs(self.work, exist_ok=True)
        os.makedirs(REPLAYS, exist_ok=True)
        os.makedirs(EVID, exist_ok=True)
        self.replay_n = 0
        self.known = load_known().get(pid, [])

    def log(self, *a):
        print(f"[{self.pid} {time.time()-self.t0:6.1f}s]", *a, flush=True)

    # ---- reporting -------------------------------------------------------------------------
    def violation(self, kind, what, detail, no_input=False, key=None):
        """kind: proof | translation | correspondence | oracle.  `key` identifies the failing input
        for the known-findings filter."""
        for k in self.known:
            if k.get("status") == "open" and key is not None and key == k.get("key"):
                if not any(h.get("id") == k.get("id") for h in self.known_hits):
                    print(f"KNOWN-FINDING: property={self.pid} {k['what']}", flush=True)
                self.known_hits.append(k)
                return
        self.replay_n += 1
        path = os.path.join(REPLAYS, f"{self.pid}-{self.seed}-{self.replay_n}.json")
        with open(path, "w") as f:
            json.dump({"property": self.pid, "kind": kind, "what": what, "seed": self.seed, "tier": self.tier,
                       "detail": detail, "no_failing_input_found": no_input}, f, indent=1)
        self.violations.append((path, no_input))
        print(f"VIOLATION property={self.pid} replay={path}" + (" no-failing-input-found" if no_input else ""), flush=True)

    def finish(self, level="proof"):
        wall = time.time() - self.t0
        cov = dict(self.cov)
        ev = {"property_id": self.pid, "tier": self.tier, "seed": self.seed, "level": level, "coverage": cov,
              "assumptions": self.assumptions, "wall_s": round(wall, 2), "violations": len(self.violations),
              "known_findings_reproduced": [k["what"] for k in self.known_hits], "notes": self.notes}
        with open(os.path.join(EVID, f"{self.pid}.json"), "w") as f:
            json.dump(ev, f, indent=1)
        self.log(f"done: violations={len(self.violations)} known={len(self.known_hits)} wall={wall:.1f}s")
        return 1 if self.violations else 0


def load_known():
    p = os.path.join(VERIF, "known_findings.json")
    if not os.path.exists(p):
        return {}
    out = {}
    for e in json.load(open(p)).get("findings", []):
        out.setdefault(e["property"], []).append(e)
    return out


# ---- Lean side -----------------------------------------------------------------------------
def strip_lean_comments(src):
    src = re.sub(r"/-.*?-/", "", src, flags=re.S)
    return re.sub(r"--.*", "", src)


FORBIDDEN = re.compile(r"\b(sorry|admit|native_decide|bv_decide|implemented_by|unsafe)\b|^\s*axiom\s|maxHeartbeats\s+0", re.M)


def forbidden_scan(files):
    hits = []
    for f in files:
        if not os.path.exists(f):
            continue
        src = strip_lean_comments(open(f).read())
        for m in FORBIDDEN.finditer(src):
            hits.append(f"{os.path.relpath(f, LEAN)}: {m.group(0).strip()}")
    return hits


def lean_module_files(mods):
    return [os.path.join(LEAN, m.replace(".", "/") + ".lean") for m in mods]


def lake_build(targets, timeout=3000):
    rc, out, dt = sh(["lake", "build"] + targets, cwd=LEAN, timeout=timeout)
    return rc == 0, out, dt


def transitive_imports(mod, seen=None):
    """Modules of this project reachable from `mod` (for the forbidden-token scan)."""
    seen = seen if seen is not None else set()
    if mod in seen:
        return seen
    f = os.path.join(LEAN, mod.replace(".", "/") + ".lean")
    if not os.path.exists(f):
        return seen
    seen.add(mod)
    for m in re.finditer(r"^\s*import\s+([\w.]+)", open(f).read(), re.M):
        if m.group(1).startswith(("MlsVerif", "Driver")):
            transitive_imports(m.group(1), seen)
    return seen


def theorems_of(prop_mod):
    """(qualified name, is_partial) of every theorem in a Props file."""
    f = os.path.join(LEAN, prop_mod.replace(".", "/") + ".lean")
    src = strip_lean_comments(open(f).read())
    ns = []
    out = []
    for line in src.splitlines():
        m = re.match(r"\s*namespace\s+([\w.]+)", line)
        if m:
            ns.append(m.group(1)); continue
        m = re.match(r"\s*end\s+([\w.]+)", line)
        if m and ns and ns[-1].endswith(m.group(1)):
            ns.pop(); continue
        m = re.match(r"\s*(?:protected\s+)?theorem\s+([\w.']+)", line)   # private helpers are not obligations
        if m:
            out.append(".".join(ns + [m.group(1)]))
    return out


def prove(ctx, prop_mods, extra_targets=("mlsmodel",), thorough_leanchecker=True):
    """Build the property modules, audit axioms of every theorem in them.  Returns True iff all
    obligations are discharged; fills ctx.cov.  A failure is reported by the caller after the
    failing-input search (ctx.proof_failure holds the reason)."""
    ctx.proof_failure = None
    # the generated part of the model is regenerated from the /repo working tree on every run
    from . import translate_all
    tok, tout = translate_all.run(ctx)
    ctx.cov["translator"] = tout.strip()[-300:]
    translate_failed = {} if tok else (translate_all.failed_generators() or {"*": tout[-300:]})
    ok, out, dt = lake_build(list(prop_mods) + list(extra_targets))
    ctx.log(f"lake build {' '.join(prop_mods)}: {'ok' if ok else 'FAILED'} ({dt:.1f}s)")
    thms = []
    for m in prop_mods:
        try:
            thms += theorems_of(m)
        except FileNotFoundError:
            pass
    mods = set()
    for m in prop_mods:
        transitive_imports(m, mods)
    # a generator that cannot read the current source breaks the tie of exactly those properties whose theorems are
    # instantiated at its output (their modules import the generated file); the others are not affected
    hit = {g: why for g, why in translate_failed.items() if g == "*" or f"MlsVerif.Gen.{g}" in mods}
    if hit:
        ctx.proof_failure = {"stage": "translate", "log": json.dumps(hit)[:1500]}
    elif translate_failed:
        ctx.log("translate: generators failed that this property does not depend on: " + ", ".join(sorted(translate_failed)))
    forb = forbidden_scan(lean_module_files(sorted(mods)))
    axioms = {}
    bad = []
    if ok:
        af = os.path.join(ctx.work, "Audit.lean")
        with open(af, "w") as f:
            for m in prop_mods:
                f.write(f"import {m}\n")
            for t in thms:
                f.write(f"#print axioms {t}\n")
        rc, aout, _ = sh(["lake", "env", "lean", af], cwd=LEAN, timeout=900)
        for m in re.finditer(r"'(\S+)' depends on axioms: \[([^\]]*)\]", aout.replace("\n", " ")):
            axioms[m.group(1)] = [a.strip() for a in m.group(2).split(",") if a.strip()]
        for m in re.finditer(r"'(\S+)' does not depend on any axioms", aout):
            axioms[m.group(1)] = []
        for t in thms:
            if t not in axioms:
                bad.append(f"{t}: no audit output")
            elif not set(axioms[t]) <= ALLOWED_AXIOMS:
                bad.append(f"{t}: axioms {sorted(set(axioms[t]) - ALLOWED_AXIOMS)}")
        if rc != 0:
            bad.append("audit file failed to elaborate: " + aout[-400:])
    discharged = 0 if not ok else len([t for t in thms if t in axioms and set(axioms[t]) <= ALLOWED_AXIOMS])
    if forb:
        bad += [f"forbidden token {h}" for h in forb]
    if ctx.tier == "thorough" and ok and thorough_leanchecker:
        for m in prop_mods:
            rc, lout, ldt = sh(["lake", "env", "leanchecker", m], cwd=LEAN, timeout=1800)
            ctx.log(f"leanchecker {m}: rc={rc} ({ldt:.1f}s)")
            ctx.cov.setdefault("leanchecker", {})[m] = rc
            if rc != 0:
                bad.append(f"leanchecker {m} rc={rc}: {lout[-300:]}")
    ctx.cov.update({
        "obligations": max(len(thms), 1), "discharged": discharged,
        "checker_cmd": "cd /verif/lean && lake build " + " ".join(prop_mods) + " && lake env lean <generated #print axioms file>",
        "trusted_base": list(TRUSTED_BASE_COMMON),
        "theorems": thms, "partial_theorems": [t for t in thms if t.endswith("_partial")],
        "axioms": {t: axioms.get(t) for t in thms}, "lean_build_s": round(dt, 1),
    })
    if not tok:
        pass
    elif not ok:
        errs = [l for l in out.splitlines() if "error" in l][:12]
        ctx.proof_failure = {"stage": "lake build", "modules": list(prop_mods), "errors": errs, "tail": out[-1500:]}
    elif bad or discharged != len(thms):
        ctx.proof_failure = {"stage": "audit", "problems": bad}
    return ctx.proof_failure is None


# ---- Rust side -----------------------------------------------------------------------------
def cargo_build(ctx, features=None):
    lock_src = os.path.join(REPO, "Cargo.lock")
    cmd = ["cargo", "build", "--offline"]
    if features:
        cmd += ["--features", features]
    rc, out, dt = sh(cmd, cwd=HARNESS, timeout=3000)
    ctx.log(f"cargo build harness: {'ok' if rc == 0 else 'FAILED'} ({dt:.1f}s)")
    if rc != 0:
        ctx.build_failure = out[-3000:]
    return rc == 0


def harness(ctx, args, timeout=3000):
    # one seed per property, so that checks that share a generator do not all look at the same histories
    pseed = ctx.seed * 100 + (int(ctx.pid[1:]) if ctx.pid[1:].isdigit() else 0)
    cmd = [os.path.join(HARNESS, "target/debug/vharness")] + [str(a) for a in args] + \
          ["--seed", str(pseed), "--tier", ctx.tier]
    rc, out, dt = sh(cmd, cwd=HARNESS, timeout=timeout)
    ctx.log(f"harness {' '.join(str(a) for a in args[:3])}: rc={rc} ({dt:.1f}s)")
    kv = {}
    for l in out.splitlines():
        p = l.split(" ", 1)
        if len(p) == 2:
            kv[p[0]] = p[1]
    return rc, out, kv


def driver(ctx, mode, qfile, outfile, timeout=3000):
    exe = os.path.join(LEAN, ".lake/build/bin/mlsmodel")
    with open(qfile) as fi, open(outfile, "w") as fo:
        p = subprocess.run([exe, mode], stdin=fi, stdout=fo, stderr=subprocess.PIPE, text=True, timeout=timeout)
    return p.returncode, p.stderr


def diff_rows(qfile, afile, bfile, limit=20):
    """Rows where the implementation's answer (a) differs from the model's (b)."""
    diffs = []
    n = 0
    with open(qfile) as q, open(afile) as a, open(bfile) as b:
        while True:
            ql, al, bl = q.readline(), a.readline(), b.readline()
            if not ql and not al and not bl:
                break
            n += 1
            if al != bl:
                if len(diffs) < limit:
                    diffs.append({"row": n, "query": ql.strip(), "impl": al.strip(), "model": bl.strip()})
                else:
                    diffs.append(None)
    total = len(diffs)
    return n, [d for d in diffs if d], total


def source_hashes(paths):
    out = {}
    for p in paths:
        fp = os.path.join(REPO, p)
        if os.path.exists(fp):
            out[p] = hashlib.sha256(open(fp, "rb").read()).hexdigest()[:16]
    return out


def correspond(ctx, harness_args, mode, stem, sample_every=997):
    """Run the harness (implementation answers) and the compiled model on the same queries; diff.
    Returns dict(rows, ndiff, diffs, kinds, samples, kv, ok)."""
    if harness_args is None:      # a further stream written by a harness run that already took place
        rc, out, kv = 0, "", {}
    else:
        rc, out, kv = harness(ctx, list(harness_args) + ["--out", ctx.work])
    q, a, b = (os.path.join(ctx.work, f"{stem}.{e}") for e in ("q", "rust", "lean"))
    res = {"rows": 0, "ndiff": 0, "diffs": [], "kinds": {}, "samples": [], "kv": kv, "ok": rc == 0, "out": out}
    if rc != 0 or not os.path.exists(q):
        res["ok"] = False
        return res
    drc, derr = driver(ctx, mode, q, b)
    if drc != 0:
        res["ok"] = False
        res["out"] += "\nDRIVER: " + derr[-800:]
        return res
    rows, diffs, ndiff = diff_rows(q, a, b)
    kinds, samples, errs = {}, [], {}
    with open(q) as fq, open(a) as fa:
        for i, (ql, al) in enumerate(zip(fq, fa)):
            k = ql.split(" ", 1)[0]
            kinds[k] = kinds.get(k, 0) + 1
            if al.startswith("err"):
                e = al.strip().split(" ")[0]
                errs[e] = errs.get(e, 0) + 1
            if i % sample_every == 3 and len(samples) < 12:
                samples.append((ql.strip()[:160] + " => " + al.strip()[:160]))
    res.update({"rows": rows, "ndiff": ndiff, "diffs": diffs, "kinds": kinds, "samples": samples, "errors": errs})
    ctx.log(f"{stem}: rows={rows} diffs={ndiff}")
    return res
