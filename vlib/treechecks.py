"""Shared by C01 C02 C07 C08 C09: random group histories on the real library with the property's direct oracle, and the
tree-layer stream (commit as tree transformation, receivers' / joiners' private slots, key invariant) replayed on Model.Tree."""
from . import generic

SOURCES = ["mls-rs/src/group/mod.rs", "mls-rs/src/group/commit.rs", "mls-rs/src/group/message_processor.rs", "mls-rs/src/tree_kem/kem.rs",
           "mls-rs/src/tree_kem/mod.rs", "mls-rs/src/tree_kem/node.rs", "mls-rs/src/tree_kem/private.rs", "mls-rs/src/tree_kem/tree_hash.rs",
           "mls-rs/src/tree_kem/parent_hash.rs", "mls-rs/src/tree_kem/tree_validator.rs", "mls-rs/src/group/key_schedule.rs",
           "mls-rs/src/group/transcript_hash.rs"]

RULE = ("random histories (<= 9 members quick, 14 rounds): by-reference and by-value add / update / remove / external-PSK proposals, commits with and "
        "without path, identity changes, racing commits, own-commit echo or apply, random delivery order of proposals, application traffic with replays, "
        "per-member options (ratchet-tree extension, single/per-member Welcome, path_required, encrypted or public handshake), write+reload; removal/re-add bias "
        "gives interior blanks and unmerged leaves; one `commit` row per commit (old tree + applied proposals -> new tree, added leaves, seal recipients), "
        "one `slots` row per member and epoch, one `recv` row per receiver, one `joiner` row per joiner")


def run(ctx, pid, props, focus, what_oracle, assumptions, extra_args=(), also=()):
    n = "400" if ctx.tier == "thorough" else "40"
    # members on both storage providers, the group's cipher suite rotating over the suites RustCrypto ships
    args = ["hist", "--histories", n, "--focus", focus, "--removal_bias", "1", "--sqlite", "1", "--suites", "1,2,3"] + list(extra_args)
    if ctx.tier == "thorough":
        args += ["--members", "17", "--rounds", "24"]
    return generic.standard(
        ctx, props, args, "tree", "hist-tree", SOURCES, rule=RULE,
        what_corr="the implementation's tree / private key slots / seal recipients differ from the tree-layer model",
        what_oracle=what_oracle, assumptions=list(assumptions) + [
            "keys are stamps in the model (public and private key share the stamp); the real HPKE/AEAD are exercised by the oracle (seal/open probes, cross-decryption)",
            "members that re-join with storage still holding epochs of an earlier membership are excluded from random histories (known finding F14, exercised by the C07 scenario)"],
        nontrivial=lambda r, kv: r["rows"], also=also)
