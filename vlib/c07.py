"""C07 — a joiner ends up with exactly the members' state; a key package is used once."""
from . import treechecks


def keyer(line):
    return "F14" if "[F14]" in line else None


def run(ctx):
    n = "1500" if ctx.tier == "thorough" else "100"
    from . import generic
    return generic.standard(
        ctx, ["MlsVerif.Props.C07"], ["c07", "--scenarios", n], None, "c07", treechecks.SOURCES + ["mls-rs/src/group/external_commit.rs", "mls-rs/src/group/state_repo.rs"],
        rule="joiner scenarios: groups grown by 1-2 joiners per commit, tree in the extension or out of band, single or per-member Welcome; after each join: state equality with the "
             "committer, key package deleted by the first write, Welcome not reusable, foreign client cannot use the Welcome, a Welcome re-addressed by a holder of its group secrets to "
             "another key package of the joiner or to a stranger's key package (hook verif_retarget_welcome: no leaf of the addressed key package in the tree) is refused; external commit by an outsider and a commit by it; stale "
             "GroupInfo; removed member re-joining with the same client and storage; plus the random histories' joiner rows replayed on the tree model",
        what_corr="a joiner's private key slots differ from the tree-layer model",
        what_oracle="a joiner does not reach the members' state, a key package survives the first write, or a mismatched Welcome / tree / GroupInfo produced a group",
        assumptions=["last-resort key packages need the cargo feature last_resort_key_package_ext, which the default build lacks: not exercised",
                     "known finding F14: a member re-joining with storage that still holds prior epochs of its earlier membership cannot process the next commit (InvalidEpoch)"],
        nontrivial=lambda r, kv: r["rows"] + int(kv.get("cases", "0")), oracle_keyer=keyer,
        also=[(["hist", "--histories", "40" if ctx.tier != "thorough" else "300", "--focus", "C07", "--removal_bias", "1"], "tree", "hist-tree")])


def replay(ctx, path):
    print(open(path).read()[:4000])
    return run(ctx)
