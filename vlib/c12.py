"""C12 — the wire codec round-trips, reports exact lengths and never panics on any bytes.
(P) MlsVerif.Props.C12 (every schema, value and byte string: roundtrip, size_exact, decode_wf, canonical, decode_reencode_stable,
    varint_unique / varint_minimal / varint_no_panic, prefix_in_bounds, alloc_bound; totality = no loop), Props.C12Custom (the
    hand-written codecs as `Lawful` codec records), Props.C12Gen (the side conditions Progress / Canon DECIDED for every schema
    GENERATED from the Rust items that derive the codec traits, so the unrestricted statements hold for each of them);
(T) translator (schemas regenerated every run from struct/enum definitions incl. discriminants, byte_vec attributes, generics)
    + correspondence: for every generated type that can be decoded (test types of every building block in harness/src/c12types.rs,
    public types, crate-private types through hook verif::codec) structured-valid, mutated and random bytes are decoded by the real
    code and by the model (`dec` rows: consumed, encoded length, re-encodes-to-same, value text for the test types);
    direct oracle on every decode incl. the hand-written types harvested from real group histories (MlsMessage, trees, snapshots,
    Welcome, GroupInfo, key packages, prior epochs, commit secrets): no panic, exact length, wire types canonical, produced values
    round-trip exactly, peak heap (global counting allocator) within a fixed multiple of the input."""
from . import generic

SOURCES = ["mls-rs-codec/src/varint.rs", "mls-rs-codec/src/iter.rs", "mls-rs-codec/src/vec.rs", "mls-rs-codec/src/byte_vec.rs",
           "mls-rs-codec/src/map.rs", "mls-rs-codec/src/option.rs", "mls-rs-codec/src/bool.rs", "mls-rs-codec/src/array.rs",
           "mls-rs-codec/src/lib.rs", "mls-rs-codec-derive/src/lib.rs", "mls-rs/src/group/framing.rs", "mls-rs/src/group/proposal.rs",
           "mls-rs/src/tree_kem/node.rs", "mls-rs/src/tree_kem/leaf_node.rs", "mls-rs-core/src/extension/list.rs",
           "mls-rs/src/group/secret_tree.rs"]


def run(ctx):
    def extra(r, kv):
        return {"input_kinds": kv.get("inputs", ""), "outcomes": kv.get("outcomes", ""), "produced_values": kv.get("produced_values", ""),
                "modelled_types": kv.get("modelled_types", ""), "codec_model_rows": kv.get("codec_model_rows", ""), "schema_types_without_probe": kv.get("schema_types_without_probe", ""),
                "max_alloc_per_input_byte": kv.get("max_alloc_per_input_byte", ""), "low_acceptance_types": kv.get("low_acceptance_types", ""),
                "work_bound": kv.get("work_bound", ""), "slowest_call": kv.get("slowest_call", "")}
    return generic.standard(
        ctx, ["MlsVerif.Props.C12", "MlsVerif.Props.C12Custom", "MlsVerif.Props.C12Gen", "MlsVerif.Props.C12GenCodecs", "MlsVerif.Props.GenTables"], ["c12"], "c12", "c12", SOURCES,
        rule="per decodable generated type (85 of 101; the rest are encode-only inputs of hashes / signatures or test-only types, each listed with its reason): 220 (thorough 3000) inputs = 40% valid "
             "(schema-directed generator with boundary lengths 0/63/64/16383/16384, for the test types the real encoder on random values), 50% "
             "mutated (truncate, bit flip, special byte, insert, delete, non-minimal varint, oversized length, invalid varint prefix, junk tail, "
             "duplicated chunk, double mutation), 10% random; plus every distinct value harvested from 3 (12) random group histories with 12 (60) "
             "mutations each; a row = one decode compared field by field (consumed, size, same/diff, value text)",
        what_corr="the implementation decodes / sizes / re-encodes a byte string differently from the generated schema under the codec model",
        what_oracle="a decode panicked, reported a wrong length, accepted non-canonical bytes for a wire type, a produced value did not round-trip, "
                    "the decoder allocated beyond 4096 x input + 256 KiB, a container decoded more than 2n+4 elements from n input bytes "
                    "(clock-free work bound over zero-size and one-byte elements), or ONE codec call did not return within the deadline (watchdog thread, 20 s; the failing type, phase and input are reported)",
        assumptions=["schemas and codec records are extracted from the Rust item definitions by tools/translate_schemas.py (trusted extractor; validated by the rows: a wrong "
                     "extraction shows up as a differing row); the hand-written codecs (Proposal, Credential, PublicMessage, auth data, ratchet history, LeafIndex, ExtensionList) are "
                     "modelled by hand (Model/CodecCustom), composed with the derived ones by the translator (Gen/Codecs) and compared row by row (`decc`) on real and mutated "
                     "MlsMessage / PublicMessage / KeyPackage / GroupInfo / exported tree / snapshot / prior-epoch / commit-secrets values; for state types holding hash maps the "
                     "same-byte-order field is not compared",
                     "memory: the theorem bounds the abstract weight of the decoded value; the oracle measures real heap use"],
        extra_cov=extra, nontrivial=lambda r, kv: r["rows"])


def replay(ctx, path):
    print(open(path).read()[:4000])
    return run(ctx)
