"""./check --setup : build everything from files on disk (offline)."""
import os, shutil
from . import common


def run():
    shutil.copy(os.path.join(common.REPO, "Cargo.lock"), os.path.join(common.HARNESS, "Cargo.lock")) \
        if not os.path.exists(os.path.join(common.HARNESS, "Cargo.lock")) else None
    from . import translate_all
    translate_all.run(None)
    rc, out, dt = common.sh(["lake", "build"], cwd=common.LEAN, timeout=6000)
    print(out[-2000:])
    print(f"lake build rc={rc} ({dt:.0f}s)")
    if rc != 0:
        return 1
    rc, out, dt = common.sh(["cargo", "build", "--offline"], cwd=common.HARNESS, timeout=6000)
    print(out[-2000:])
    print(f"cargo build rc={rc} ({dt:.0f}s)")
    return 0 if rc == 0 else 1
