"""C11 — pending commits do not change the group until applied; one successor per epoch.
(P) MlsVerif.Props.C11 over the pending-commit state machine (invariant by induction over all op lists);
(T) exhaustive enumeration of every interleaving of build / build-detached / clear / apply / apply-detached / deliver
    by members racing in one epoch up to the tier's depth on real groups, replayed on the compiled model."""
from . import generic

SOURCES = ["mls-rs/src/group/commit.rs", "mls-rs/src/group/mod.rs", "mls-rs/src/group/snapshot.rs", "mls-rs/src/group/message_processor.rs"]


def run(ctx):
    depth = "5" if ctx.tier == "thorough" else "4"
    return generic.standard(
        ctx, ["MlsVerif.Props.C11"], ["c11", "--depth", depth], "small", "c11", SOURCES,
        rule=f"DFS over all op sequences of length <= {depth} (3 members, 2 of them committing; ops: commit, detached commit, clear, apply pending, "
             "apply detached secrets k, deliver commit k to any member); one row per sequence with, per op, ok/err and every member's "
             "(epoch, state class by authenticator, pending flag); all rows distinct; exhaustive at that depth",
        what_corr="a member's result / epoch / state / pending flag differs from the pending-commit model on this op sequence",
        what_oracle="a failed operation changed a member's state, or an epoch moved by other than +1",
        assumptions=["the enumerated commits are empty commits; proposal content is covered by C01/C10"],
        extra_cov=lambda r, kv: {"exhaustive": True, "depth": int(depth)},
        nontrivial=lambda r, kv: r["rows"])


def replay(ctx, path):
    print(open(path).read()[:4000])
    return run(ctx)
