"""C03 — any modification or forgery of protocol traffic is rejected.
(P) MlsVerif.Props.C03 over Model/Framing with the field lists GENERATED from the Rust sources (Gen/Framing): every wire field of
    PublicMessage / PrivateMessage / GroupInfo / KeyPackage / LeafNode is covered by the signature, the MAC or the AEAD associated data
    (decide over the generated lists); binding theorems for free (injective) Sig/Mac/Aead symbols: a message accepted under another context,
    with a modified field or another sender is rejected; Dolev-Yao statement (an accepted signature/tag was produced by a key holder);
    insider part: a validated update path (`unfilter`, the loop of validate_update_path incl. the length check) makes decap total (no index
    out of bounds) — `validated_path_no_oob`; `decap_oob_on_short_path` is the model witness of finding F11.
(T) translator (field lists regenerated every run) + real receivers: single-bit flips, truncations, splices, cross-epoch / cross-group
    replays, member lacking the PSK, insider re-signed structural edits incl. too-short update paths with consistent parent hashes on
    sparse trees (rows `unfilter <filter flags> <nodes>` replayed on the model), Welcome variants: each must be an error (no panic, no acceptance)."""
from . import generic

SOURCES = ["mls-rs/src/group/framing.rs", "mls-rs/src/group/message_signature.rs", "mls-rs/src/group/membership_tag.rs",
           "mls-rs/src/group/message_verifier.rs", "mls-rs/src/group/ciphertext_processor.rs", "mls-rs/src/group/group_info.rs",
           "mls-rs/src/key_package/mod.rs", "mls-rs/src/tree_kem/leaf_node.rs", "mls-rs/src/tree_kem/update_path.rs",
           "mls-rs/src/tree_kem/kem.rs", "mls-rs/src/tree_kem/parent_hash.rs", "mls-rs/src/signer.rs"]


def keyer(line):
    # known finding F38: keys of an update path are not checked for uniqueness against the tree (RFC 9420 12.4.2)
    if "insider-path-leaf-key0-consistent passed every structural check" in line or "insider-path-leaf-key1-consistent passed every structural check" in line:
        return "F38"
    return None


def run(ctx):
    return generic.standard(
        ctx, ["MlsVerif.Props.C03"], ["c03"], "small", "c03", SOURCES,
        rule="per scenario (3-5 members, public or encrypted handshake): for every genuine proposal / application message / commit (path, add, PSK): "
             "sampled (thorough: first scenario exhaustive) single-bit flips, truncations, appended byte, field splices with other valid messages, "
             "cross-epoch and cross-group replays, a member lacking the PSK, insider re-signed edits (short/long/foreign/fresh path keys, dropped "
             "ciphertexts, foreign leaf key, removed path, stale tag); 3 sparse-tree groups (5-9 members, 1-4 removed) where every member's empty "
             "commit is re-issued with 0..4 path nodes and consistent parent hash, delivered to every other member; Welcome variants at the joiner; "
             "non-trivial = rejected cases",
        what_corr="validate_update_path accepts / rejects an update-path length differently from the model's un-filtering loop",
        what_oracle="a modified, replayed, re-attributed or insider-crafted message was accepted or made the receiver panic",
        assumptions=["signature, MAC and AEAD are free symbols (injective, unforgeable without the key) in the theorems; the real primitives are exercised only by the oracle",
                     "field lists are extracted from the Rust struct definitions and signable_content implementations by tools/translate.py (trusted extractor, ~120 lines)",
                     "insider edits are limited to the InsiderEdit variants of the verif hook (update-path structure, leaf key, confirmation tag) on public-message commits, plus re-attribution "
                     "(hook verif_reattribute): a commit / Update / Remove re-issued by a member under ANOTHER member's sender index with its own signature and a fresh membership tag, "
                     "and a commit taken over under the re-signer's own name; re-attribution inside PrivateMessages (sender data) is covered by the byte-level mutations only"],
        nontrivial=lambda r, kv: int(kv.get("rejected", "0")), oracle_keyer=keyer)


def replay(ctx, path):
    print(open(path).read()[:4000])
    return run(ctx)
