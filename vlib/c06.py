"""C06 — a group restored from storage is the same group, at every crash point.
(P) MlsVerif.Props.C06 over the repository + two back-end models (invariant for every op sequence, back ends bisimilar,
    load returns the last write) — snapshot round trip of the member state itself is C12's codec theorem;
(T) subjects on the in-memory and the SQLite provider follow the same traffic with random write / reload / crash points and a
    never-reloaded twin; every repository operation is replayed on the compiled model (`repo.*` rows)."""
from . import generic

SOURCES = ["mls-rs/src/group/snapshot.rs", "mls-rs/src/group/state_repo.rs", "mls-rs/src/client.rs",
           "mls-rs/src/storage_provider/in_memory/group_state_storage.rs", "mls-rs-provider-sqlite/src/group_state.rs", "mls-rs/src/group/epoch.rs"]


def run(ctx, focus="C06", props=("MlsVerif.Props.C06",)):
    return generic.standard(
        ctx, list(props), ["c06", "--focus", focus], "repo", "c06all" if focus == "C06" else "c06all", SOURCES,
        rule="per scenario: retention R in {1,2,3,5}; 8-22 epochs; after each commit each subject (memory / SQLite) randomly writes, writes+reloads, or "
             "crashes (reload without write); late application messages of age 0..R+2 (a fresh ciphertext each) to both subjects; a sender whose leaf is "
             "removed / reused / re-keyed / re-identified; rows = repository operations (insert epoch, get epoch, write, stored ids, reload) per back end; "
             "non-trivial = every row + every late delivery",
        what_corr="the repository / storage back end answers differently from the model (stored epoch ids, availability of a past epoch)",
        what_oracle="loaded group differs from the written one, crash does not return the last write, twin diverges, or a late message verdict contradicts the retention window / sender rule",
        assumptions=["the SQLite transaction is one atomic step; a crash inside a provider call is not modelled",
                     "compared state excludes repo_pending_* bookkeeping (not part of the snapshot) when comparing loaded vs written"],
        nontrivial=lambda r, kv: r["rows"] + int(kv.get("late_deliveries", "0")),
        # random histories with members on both providers: write + reload in the middle of a run (cached proposals, pending own
        # updates present), the reloaded group compared with the written one — the history generator's own C06 oracle
        also=[(["hist", "--histories", "30" if ctx.tier != "thorough" else "300", "--sqlite", "1", "--focus", focus], None, "hist")] if focus == "C06" else [])


def replay(ctx, path):
    print(open(path).read()[:4000])
    return run(ctx)
