"""C17 — re-init and branch keep the membership rules and the link to the old group.
(P) MlsVerif.Props.C17: membership check <-> same identities (re-init) / subset (branch), join parameter checks, freeze;
(T) random old groups (blank interior leaves, re-keyed members) and successor member sets (equal / subset / superset / replaced):
    creation and every old member's join on the real library vs the property; `sub` rows (identity lists) replayed on the model."""
from . import generic

SOURCES = ["mls-rs/src/group/resumption.rs", "mls-rs/src/group/message_processor.rs", "mls-rs/src/group/commit.rs",
           "mls-rs/src/psk/resolver.rs", "mls-rs/src/group/mod.rs"]


def run(ctx):
    return generic.standard(
        ctx, ["MlsVerif.Props.C17"], ["c17"], "small", "c17", SOURCES,
        rule="each case: old group of 2-7 members, random removals (interior blanks), optional re-key; successor kind re-init or branch; member set "
             "equal / strict subset / superset / replaced identity; row = (kind, old identities, new identities) -> created?; the harness also "
             "joins every invited old member, an outsider and a plain join without the resumption secret",
        what_corr="creation of a successor/branch is allowed or refused differently from the membership model",
        what_oracle="re-init / branch outcome contradicts the property (legitimate successor refused, illegitimate created, old member cannot join, "
                    "outsider joins, old group still commits)",
        assumptions=["re-init parameter changes (suite, version, extensions) are modelled and proved (joinChecks) but only the unchanged-parameter path is exercised on the implementation"],
        nontrivial=lambda r, kv: int(kv.get("cases", "0")))


def replay(ctx, path):
    print(open(path).read()[:4000])
    return run(ctx)
