"""C17 — re-init and branch keep the membership rules and the link to the old group.
(P) MlsVerif.Props.C17: membership check <-> same identities (re-init) / subset (branch), join parameter checks, freeze;
(T) random old groups (blank interior leaves, re-keyed members) and successor member sets (equal / subset / superset / replaced):
    creation and every old member's join on the real library vs the property; `sub` rows (identity lists), `join` rows (verdict and error
    class of an honest joiner for successors / branches that deviate in group id, extensions, protocol version, cipher suite or epoch) and
    `frz` rows (commit attempts on the frozen old group) replayed on the model."""
from . import generic

SOURCES = ["mls-rs/src/group/resumption.rs", "mls-rs/src/group/message_processor.rs", "mls-rs/src/group/commit.rs",
           "mls-rs/src/psk/resolver.rs", "mls-rs/src/group/mod.rs"]


def run(ctx):
    return generic.standard(
        ctx, ["MlsVerif.Props.C17"], ["c17"], "small", "c17", SOURCES,
        rule="each case: old group of 2-7 members, random removals (interior blanks), optional re-key; successor kind re-init or branch; member set "
             "equal / strict subset / superset / replaced identity; row = (kind, old identities, new identities) -> created?; the harness also "
             "joins every invited old member, an outsider and a plain join without the resumption secret; a dishonest creator (hooks verif_deviate, "
             "verif_deviate_params, verif_branch_deviating) builds successors / branches for another epoch (1-3 commits before the Welcome), cipher suite (key package the "
             "victim published for that suite), protocol version (clients declaring versions {1,2}), group id or extensions: every honest joiner must refuse with the class "
             "the model gives; after the re-init commit every kind of commit (empty, Add, Remove, PSK, ReInit, detached) and every commit received from a member that ignores "
             "the freeze or from an external committer is refused with the state unchanged",
        what_corr="creation of a successor/branch is allowed or refused differently from the membership model",
        what_oracle="re-init / branch outcome contradicts the property (legitimate successor refused, illegitimate created, old member cannot join, "
                    "outsider joins, old group still commits)",
        assumptions=["a re-init to a suite with another signature scheme (new signer) and a branch deviating in its extensions are not constructed",
                     "proposals, application traffic and GroupInfo export still work in a frozen group: the property speaks of commits only, these are recorded as coverage"],
        nontrivial=lambda r, kv: int(kv.get("cases", "0")))


def replay(ctx, path):
    print(open(path).read()[:4000])
    return run(ctx)
