"""Regenerates lean/MlsVerif/Gen/*.lean from the /repo working tree (tools/translate.py)."""
import os, subprocess, sys
from . import common


def run(ctx):
    tool = os.path.join(common.VERIF, "tools", "translate.py")
    if not os.path.exists(tool):
        return True, ""
    p = subprocess.run([sys.executable, tool], stdout=subprocess.PIPE, stderr=subprocess.STDOUT, text=True)
    if ctx:
        ctx.log(f"translate: rc={p.returncode}")
    return p.returncode == 0, p.stdout
