"""Regenerates lean/MlsVerif/Gen/*.lean from the /repo working tree (tools/translate.py)."""
import os, subprocess, sys
from . import common


def run(ctx):
    tool = os.path.join(common.VERIF, "tools", "translate.py")
    if not os.path.exists(tool):
        return True, ""
    p = subprocess.run([sys.executable, tool], stdout=subprocess.PIPE, stderr=subprocess.STDOUT, text=True)
    if ctx:
        ctx.log(f"translate: rc={p.returncode}")
    return p.returncode == 0, p.stdout


def failed_generators():
    """Generated Lean modules whose generator could not read the current source (their previous version is still in place)."""
    import json
    try:
        st = json.load(open(os.path.join(common.VERIF, "lean", "MlsVerif", "Gen", "gen_manifest.json"))).get("status", {})
    except Exception:  # noqa: BLE001
        return {"*": "gen_manifest.json unreadable"}
    return {k: v for k, v in st.items() if v != "ok"}
