"""C13 — key schedule, secret tree, PSK chain, tags = RFC 9420 formulas.
(P) MlsVerif.Props.C13: the code-structured model equals the RFC-structured spec for every Prim and all inputs
    (fold = recursion for PSKs, lazy secret tree = spec path, ratchet independent of request order).
(T) byte-level correspondence: the real crate (hook verif::kdf, RustCrypto and OpenSSL providers, suites 1-7)
    vs the model instantiated with the Lean reference HKDF/HMAC/SHA-2."""
import json, os
from . import common

SOURCES = ["mls-rs/src/group/key_schedule.rs", "mls-rs/src/group/secret_tree.rs", "mls-rs/src/psk/secret.rs",
           "mls-rs/src/group/transcript_hash.rs", "mls-rs/src/group/confirmation_tag.rs", "mls-rs/src/group/membership_tag.rs"]


def run(ctx):
    proved = common.prove(ctx, ["MlsVerif.Props.C13", "MlsVerif.Props.C13Transcript"])
    ctx.cov["source_hashes"] = common.source_hashes(SOURCES)
    if not common.cargo_build(ctx):
        ctx.violation("correspondence", "harness does not build against /repo", {"log": getattr(ctx, "build_failure", "")}, no_input=True)
        return ctx.finish("proof")
    r = common.correspond(ctx, ["c13"], "c13", "c13")
    ctx.cov.update({"evaluations": r["rows"], "distinct_nontrivial": r["rows"] - r["kinds"].get("st.reload", 0),
                    "rule": "fresh random (init, commit secret, group context, psk list, tree size, leaf, key type, generation, label, context, length) "
                            "per row, every supported suite of RustCrypto and OpenSSL; a row is one derivation whose bytes are compared; "
                            "secret-tree sessions are stateful request scripts (out-of-order, replays, window boundary, reload)",
                    "samples": r["samples"], "query_histogram": r["kinds"], "error_kinds": r.get("errors", {}),
                    "traces_validated_against_impl": r["rows"], "correspondence_differences": r["ndiff"],
                    "suites": r["kv"].get("suites", "")})
    # transcript hashes and membership tags of REAL messages: random histories with public handshake messages; the model decodes
    # each message with the generated codec records and recomputes confirmed / interim transcript hash and membership tag
    n = "150" if ctx.tier == "thorough" else "12"
    r2 = common.correspond(ctx, ["hist", "--histories", n, "--suites", "1,2,3" if ctx.tier == "quick" else "1,2,3,4,5,6,7", "--providers", "mixed",
                                 "--focus", "C13"], "tree", "hist-tree")
    # PSK chains of REAL commits: the PSK-commit scenarios of C18 (1-4 external and resumption PSKs, by value and by reference, shuffled
    # builder order) give `eks` rows whose PSK list is read from the commit message in message order; only the rows are used here
    # (the direct oracle of that stream belongs to C18)
    r3 = common.correspond(ctx, ["c18", "--scenarios", "120" if ctx.tier != "thorough" else "1500"], "c13", "c18")
    ctx.cov["psk_commit_rows"] = {"eks": r3["kinds"].get("eks", 0), "extpub": r3["kinds"].get("extpub", 0), "psk": r3["kinds"].get("psk", 0),
                                  "stream_rows": r3["rows"], "differences": r3["ndiff"]}
    if not r3["ok"]:
        ctx.violation("correspondence", "PSK-commit harness or model driver failed", {"log": r3["out"][-1500:]}, no_input=True)
    if r3["ndiff"]:
        ctx.violation("correspondence", "the epoch secrets / confirmation tag of a real PSK commit (or a PSK-chain row) differ from the RFC 9420 chain over the commit's PSK list in message order",
                      {"first_differing_rows": r3["diffs"], "total": r3["ndiff"]})
    th_rows = r2["kinds"].get("th", 0) + r2["kinds"].get("mtag", 0)
    ctx.cov["transcript_rows"] = {"th": r2["kinds"].get("th", 0), "thp": r2["kinds"].get("thp", 0), "mtag": r2["kinds"].get("mtag", 0),
                                  "eks (epoch secrets and confirmation tag of real path-less commits)": r2["kinds"].get("eks", 0),
                                  "stream_rows": r2["rows"], "differences": r2["ndiff"]}
    ctx.cov["traces_validated_against_impl"] = r["rows"] + r2["rows"] + r3["rows"]
    ctx.cov["evaluations"] = r["rows"] + r2["rows"] + r3["rows"]
    ctx.cov["correspondence_differences"] = r["ndiff"] + r2["ndiff"] + r3["ndiff"]
    if not r2["ok"]:
        ctx.violation("correspondence", "history harness or model driver failed", {"log": r2["out"][-1500:]}, no_input=True)
    if r2["ndiff"]:
        ctx.violation("correspondence", "a transcript hash / membership tag / epoch secret (or a tree-layer row) of a real history differs from the model's recomputation from the message bytes",
                      {"first_differing_rows": r2["diffs"], "total": r2["ndiff"]})
    if th_rows == 0:
        ctx.violation("correspondence", "no transcript rows were produced (no public handshake message in the histories)", {}, no_input=True)
    if not r["ok"]:
        ctx.violation("correspondence", "harness or model driver failed", {"log": r["out"][-1500:]}, no_input=True)
    if r["ndiff"]:
        ctx.violation("correspondence", "a derived value of the implementation differs from the RFC 9420 formula (Lean reference)",
                      {"first_differing_rows": r["diffs"], "total": r["ndiff"],
                       "replay": "feed the 'query' line to /verif/lean/.lake/build/bin/mlsmodel c13 and to the hook named by its first word"})
    if not proved:
        ctx.violation("proof", "theorem(s) of MlsVerif.Props.C13 no longer check", ctx.proof_failure, no_input=not r["ndiff"])
    ctx.assumptions += ["providers reject a PRK shorter than Nh, an empty IKM and an output length of 0 (OpenSSL) before deriving; generators stay inside that domain",
                        "SHA-2/HMAC/HKDF reference written in Lean (checked against published vectors and python hashlib), not proved",
                        "confirmed / interim transcript hashes and membership tags are recomputed from the raw bytes of real public handshake messages (decoded by the generated codec model), "
                        "for encrypted commits from the content a receiver decrypts (`thp`); the epoch secrets and the confirmation tag of every real commit WITHOUT an update path are recomputed "
                        "by KS.epochOfCommit (`eks` rows: previous init secret, zero commit secret, new context, the commit's PSKs in message order); the commit secret of a path is not observable, "
                        "the external key pair (DeriveKeyPair of the external secret) is not recomputed"]
    return ctx.finish("proof")


def replay(ctx, path):
    print(open(path).read()[:4000])
    return run(ctx)
