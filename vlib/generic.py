"""Shape shared by most checks: (P) build + audit theorems, (T) correspondence stream vs compiled model,
direct-oracle failures reported by the harness, known-findings filter, evidence."""
import os
from . import common


def _failures_of(ctx, stem, kv):
    """Failure lines of the harness run that just finished for `stem` (read at once: a later run of the same sub-command
    overwrites the file).  Histories write `hist.failures` whatever row stream is replayed.  If the harness reports more
    failures than lines can be read, a line saying so is added, so that nothing is dropped silently."""
    f = os.path.join(ctx.work, f"{stem}.failures")
    if not os.path.exists(f) and "-" in stem:
        f = os.path.join(ctx.work, f"{stem.split('-')[0]}.failures")
    lines = [l for l in open(f).read().splitlines() if l.strip()] if os.path.exists(f) else []
    try:
        n = int(kv.get("oracle_failures", "0") or 0)
    except ValueError:
        n = 0
    if n > len(lines):
        lines.append(f"{stem}: {n - len(lines)} further oracle failure(s) reported by the harness without a readable failure line")
    return lines, f


def standard(ctx, prop_mods, harness_args, driver_mode, stem, sources, rule, what_corr, what_oracle,
             assumptions=(), extra_cov=None, nontrivial=None, oracle_keyer=None, also=()):
    proved = common.prove(ctx, prop_mods)
    ctx.cov["source_hashes"] = common.source_hashes(sources)
    if not common.cargo_build(ctx):
        ctx.violation("correspondence", "harness does not build against /repo", {"log": getattr(ctx, "build_failure", "")}, no_input=True)
        return ctx.finish("proof")
    if driver_mode:
        r = common.correspond(ctx, harness_args, driver_mode, stem)
    else:
        rc, out, kv = common.harness(ctx, list(harness_args) + ["--out", ctx.work])
        r = {"rows": 0, "ndiff": 0, "diffs": [], "kinds": {}, "samples": [], "kv": kv, "ok": rc == 0, "out": out, "errors": {}}
    kv = r["kv"]
    fails, fails_file = _failures_of(ctx, stem, kv)
    # further streams (harness command, driver mode, stem) whose rows and failures are added
    for (a_args, a_mode, a_stem) in also:
        r2 = common.correspond(ctx, a_args, a_mode, a_stem) if a_mode else None
        if r2 is None:
            rc2, out2, kv2 = common.harness(ctx, list(a_args) + ["--out", ctx.work])
            r2 = {"rows": 0, "ndiff": 0, "diffs": [], "kinds": {}, "samples": [], "kv": kv2, "ok": rc2 == 0, "out": out2, "errors": {}}
        if a_args is not None:      # (a replay-only stream has no harness run of its own)
            fails += _failures_of(ctx, a_stem, r2["kv"])[0]
        r["rows"] += r2["rows"]
        r["ndiff"] += r2["ndiff"]
        r["diffs"] += r2["diffs"]
        r["samples"] += r2["samples"][:3]
        r["ok"] = r["ok"] and r2["ok"]
        r["out"] += r2["out"][-500:]
        for k, v in r2["kinds"].items():
            r["kinds"][k] = r["kinds"].get(k, 0) + v
        for k, v in r2["kv"].items():
            if k in ("oracle_failures", "deliveries", "commits", "cases", "messages"):
                kv[k] = str(int(kv.get(k, "0") or 0) + int(v or 0))
            else:
                kv.setdefault(a_stem + "." + k, v)
    samples_file = os.path.join(ctx.work, f"{stem}.samples")
    hsamples = [l[:400] for l in open(samples_file).read().splitlines() if l.strip()][:6] if os.path.exists(samples_file) else []
    n_oracle = max(int(kv.get("oracle_failures", "0") or 0), len(fails))
    evals = r["rows"] + sum(int(kv.get(k, "0") or 0) for k in ("deliveries", "commits", "cases", "messages"))
    ctx.cov.update({"evaluations": max(evals, 1),
                    "distinct_nontrivial": nontrivial(r, kv) if nontrivial else max(r["rows"], len((kv.get("cover", "") or "").split(","))),
                    "rule": rule, "samples": (r["samples"][:6] + hsamples) or ["(no samples)"],
                    "query_histogram": r["kinds"], "error_kinds": r.get("errors", {}),
                    "traces_validated_against_impl": r["rows"], "correspondence_differences": r["ndiff"],
                    "direct_oracle_failures": n_oracle, "harness_report": {k: v[:600] for k, v in kv.items()}})
    if extra_cov:
        ctx.cov.update(extra_cov(r, kv))
    if not r["ok"]:
        ctx.violation("correspondence", "harness or model driver failed", {"log": r["out"][-1500:]}, no_input=True)
    if r["ndiff"]:
        ctx.violation("correspondence", what_corr, {"first_differing_rows": r["diffs"], "total": r["ndiff"]},
                      no_input=False)
    if n_oracle:
        # group failures by known-finding key
        groups = {}
        for f in (fails or [f"{n_oracle} oracle failure(s) reported by the harness (no failure list found)"]):
            k = oracle_keyer(f) if oracle_keyer else None
            groups.setdefault(k, []).append(f)
        for k, fl in groups.items():
            ctx.violation("oracle", what_oracle, {"failures": fl[:40], "log_file": fails_file,
                                                  "replay": f"cd /verif/harness && target/debug/vharness {' '.join(map(str, harness_args))} --seed {ctx.seed * 100 + int(ctx.pid[1:])} --tier {ctx.tier}"},
                          key=k)
    if not proved:
        ctx.violation("proof", f"theorem(s) of {' '.join(prop_mods)} no longer check", ctx.proof_failure,
                      no_input=not (r["ndiff"] or n_oracle))
    ctx.assumptions += list(assumptions)
    return ctx.finish("proof")
