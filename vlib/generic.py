"""Shape shared by most checks: (P) build + audit theorems, (T) correspondence stream vs compiled model,
direct-oracle failures reported by the harness, known-findings filter, evidence."""
import os
from . import common


def standard(ctx, prop_mods, harness_args, driver_mode, stem, sources, rule, what_corr, what_oracle,
             assumptions=(), extra_cov=None, nontrivial=None, oracle_keyer=None, also=()):
    proved = common.prove(ctx, prop_mods)
    ctx.cov["source_hashes"] = common.source_hashes(sources)
    if not common.cargo_build(ctx):
        ctx.violation("correspondence", "harness does not build against /repo", {"log": getattr(ctx, "build_failure", "")}, no_input=True)
        return ctx.finish("proof")
    if driver_mode:
        r = common.correspond(ctx, harness_args, driver_mode, stem)
    else:
        rc, out, kv = common.harness(ctx, list(harness_args) + ["--out", ctx.work])
        r = {"rows": 0, "ndiff": 0, "diffs": [], "kinds": {}, "samples": [], "kv": kv, "ok": rc == 0, "out": out, "errors": {}}
    kv = r["kv"]
    # further streams (harness command, driver mode, stem) whose rows and failures are added
    extra_fail_files = []
    for (a_args, a_mode, a_stem) in also:
        r2 = common.correspond(ctx, a_args, a_mode, a_stem) if a_mode else None
        if r2 is None:
            rc2, out2, kv2 = common.harness(ctx, list(a_args) + ["--out", ctx.work])
            r2 = {"rows": 0, "ndiff": 0, "diffs": [], "kinds": {}, "samples": [], "kv": kv2, "ok": rc2 == 0, "out": out2, "errors": {}}
        r["rows"] += r2["rows"]
        r["ndiff"] += r2["ndiff"]
        r["diffs"] += r2["diffs"]
        r["samples"] += r2["samples"][:3]
        r["ok"] = r["ok"] and r2["ok"]
        r["out"] += r2["out"][-500:]
        for k, v in r2["kinds"].items():
            r["kinds"][k] = r["kinds"].get(k, 0) + v
        for k, v in r2["kv"].items():
            if k in ("oracle_failures", "deliveries", "commits", "cases", "messages"):
                kv[k] = str(int(kv.get(k, "0") or 0) + int(v or 0))
            else:
                kv.setdefault(a_stem + "." + k, v)
        extra_fail_files.append(os.path.join(ctx.work, f"{a_stem}.failures"))
    fails_file = os.path.join(ctx.work, f"{stem}.failures")
    if not os.path.exists(fails_file) and "-" in stem:   # hist-tree / hist-filter rows come with hist.failures
        fails_file = os.path.join(ctx.work, f"{stem.split('-')[0]}.failures")
    fails = [l for l in open(fails_file).read().splitlines() if l.strip()] if os.path.exists(fails_file) else []
    for ff in extra_fail_files:
        if os.path.exists(ff) and ff != fails_file:
            fails += [l for l in open(ff).read().splitlines() if l.strip()]
    samples_file = os.path.join(ctx.work, f"{stem}.samples")
    hsamples = [l[:400] for l in open(samples_file).read().splitlines() if l.strip()][:6] if os.path.exists(samples_file) else []
    n_oracle = int(kv.get("oracle_failures", "0") or 0)
    evals = r["rows"] + sum(int(kv.get(k, "0") or 0) for k in ("deliveries", "commits", "cases", "messages"))
    ctx.cov.update({"evaluations": max(evals, 1),
                    "distinct_nontrivial": nontrivial(r, kv) if nontrivial else max(r["rows"], len((kv.get("cover", "") or "").split(","))),
                    "rule": rule, "samples": (r["samples"][:6] + hsamples) or ["(no samples)"],
                    "query_histogram": r["kinds"], "error_kinds": r.get("errors", {}),
                    "traces_validated_against_impl": r["rows"], "correspondence_differences": r["ndiff"],
                    "direct_oracle_failures": n_oracle, "harness_report": {k: v[:600] for k, v in kv.items()}})
    if extra_cov:
        ctx.cov.update(extra_cov(r, kv))
    if not r["ok"]:
        ctx.violation("correspondence", "harness or model driver failed", {"log": r["out"][-1500:]}, no_input=True)
    if r["ndiff"]:
        ctx.violation("correspondence", what_corr, {"first_differing_rows": r["diffs"], "total": r["ndiff"]},
                      no_input=False)
    if n_oracle:
        # group failures by known-finding key
        groups = {}
        for f in (fails or [f"{n_oracle} oracle failure(s) reported by the harness (no failure list found)"]):
            k = oracle_keyer(f) if oracle_keyer else None
            groups.setdefault(k, []).append(f)
        for k, fl in groups.items():
            ctx.violation("oracle", what_oracle, {"failures": fl[:40], "log_file": fails_file,
                                                  "replay": f"cd /verif/harness && target/debug/vharness {' '.join(map(str, harness_args))} --seed {ctx.seed} --tier {ctx.tier}"},
                          key=k)
    if not proved:
        ctx.violation("proof", f"theorem(s) of {' '.join(prop_mods)} no longer check", ctx.proof_failure,
                      no_input=not (r["ndiff"] or n_oracle))
    ctx.assumptions += list(assumptions)
    return ctx.finish("proof")
