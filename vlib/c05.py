"""C05 — message keys single-use: no (key, nonce) reuse, no replay, reordering within the 1024 window.
(P) MlsVerif.Props.C05 (handed_out_once, window_exact, permutation_complete, sender_fresh, key_injective under FreePrim);
(T) secret-tree request scripts of the real crate vs the compiled ratchet model; direct oracle on real groups
    (RecordingProvider log of every aead_seal, permuted/duplicated delivery, window boundary, save/reload)."""
from . import common, generic

SOURCES = ["mls-rs/src/group/secret_tree.rs", "mls-rs/src/group/ciphertext_processor.rs",
           "mls-rs/src/group/ciphertext_processor/reuse_guard.rs", "mls-rs/src/group/ciphertext_processor/message_key.rs",
           "mls-rs/src/group/epoch.rs"]


def run(ctx):
    return generic.standard(
        ctx, ["MlsVerif.Props.C05", "MlsVerif.Props.GenTables"], ["c05"], "c13", "c05", SOURCES,
        rule="(a) stateful secret-tree scripts (next / get at generation / replay of a used generation / window boundary "
             "gen+1023..gen+1025 / encode-decode of the tree), one row per request, compared with the model; (b) real groups of 2-4 "
             "members, 3-40 messages per sender (one run with 1030 from one sender), per-receiver random permutation with duplicates "
             "and mid-stream reloads; (c) members that encrypt their handshake: every sender interleaves application messages and encrypted proposals (psk, update, gce, "
             "remove, custom, add), duplicated / permuted / partial delivery, reloads, then an encrypted commit by reference or after a cleared cache (k handshake generations "
             "ahead of a receiver that saw none), late messages of the closed epoch; handshake gaps of 1024 / 1025 / 1026; every verdict compared with the exact ratchet model; "
             "(d) every aead_seal of the run classified by its AAD (content / sender data / welcome) with the sender-data plaintext read at the provider: no content key, no "
             "nonce-before-guard, no (epoch, leaf, ratchet, generation) twice, generations consecutive per ratchet, application and handshake keys disjoint; each real epoch's "
             "secret tree replayed by the model (`st.new` / `st.get` rows from the epoch's encryption secret; `sdk` rows: sender-data key and nonce from the ciphertext sample); "
             "non-trivial = every delivery and every request row",
        what_corr="ratchet / secret tree of the implementation answers a request differently from the model (accept/reject, generation or key bytes)",
        what_oracle="message-key single-use violated on real groups (a content key or ratchet nonce used twice, a generation handed out twice, application and handshake "
                    "messages sharing a key, replay accepted, in-window message refused, out-of-window accepted, sealed key / nonce not the secret-tree value of its generation)",
        assumptions=["u32 generation overflow beyond 2^32-2048 messages per sender and epoch is excluded (hypothesis of permutation_complete; counterexample permutation_near_overflow kept in the Props file)",
                     "roll-back to a snapshot older than the last send is outside the claim (only the random reuse guard protects it)",
                     "key_injective assumes collision-free KDF (FreePrim), instantiated and proved for the free term algebra"],
        nontrivial=lambda r, kv: r["rows"] + int(kv.get("deliveries", "0")),
        # late messages of stored prior epochs (both storage providers, random write / reload / crash points, random epoch order):
        # an accepted late message is never accepted again (oracle tagged C05 in the repository harness)
        also=[(["c06", "--focus", "C05"], "repo", "c06all"),
              # the history generator's own C05 oracle (an application message delivered twice is accepted once)
              (["hist", "--histories", "20" if ctx.tier != "thorough" else "200", "--focus", "C05"], None, "hist")])


def replay(ctx, path):
    print(open(path).read()[:4000])
    return run(ctx)
