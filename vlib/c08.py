"""C08 — every reachable ratchet tree is valid and matches the context tree hash."""
from . import treechecks


def run(ctx):
    return treechecks.run(ctx, "C08", ["MlsVerif.Props.C08", "MlsVerif.Props.C08Hash", "MlsVerif.Props.C08Sync"], "C08",
                          "an exported tree + GroupInfo failed an outside observer's full validation, the context tree hash differs from an independent from-scratch recomputation, "
                          "or a tree ends in a blank",
                          ["proved on the model: shape, no trailing blank, leftmost-blank placement, unmerged-list and uniqueness invariants for every reachable tree (reachable_trees_wf); "
                           "proved (Props.C08Hash): the incremental tree-hash cache (tree_hash.rs: resize, leaf loop, FIFO parent queue, right-to-left scan for missing entries) equals the from-scratch "
                           "RFC 9420 tree hash after every operation of every history, incl. shrink followed by re-growth (reachable_cache_coherent; machine-checked negative witness for a cache that "
                           "only grows); tie: `thashspec` rows compare the partition of (previous ++ current) cache entries by equal bytes with the partition by equal hash terms of the model; "
                           "proved (Props.C08Sync, the TreeSync theorem): every reachable tree is parent-hash valid in the sense of RFC 9420 7.9.2 and accepted by the model of validate_parent_hashes "
                           "(validate_iff_valid, original_hashes_spec, update_path_valid, sender_receiver_agree, original_hash_stable, batchEdit_preserves_valid, reachable_parent_hash_valid, "
                           "reachable_accepted_by_joiner); side condition: path keys are fresh also w.r.t. the keys inside stale stored parent hashes (PhKeysBelow; machine-checked counterexample "
                           "without it); tie: `phupd` rows (model of update_parent_hashes vs the real stored parent hashes, as partitions of equal bytes) and `phvalid` rows (structural witness "
                           "condition on every member's real tree); the hash is a free symbol"])


def replay(ctx, path):
    print(open(path).read()[:4000])
    return run(ctx)
