"""C08 — every reachable ratchet tree is valid and matches the context tree hash."""
from . import treechecks


def run(ctx):
    return treechecks.run(ctx, "C08", ["MlsVerif.Props.C08", "MlsVerif.Props.C08Hash"], "C08",
                          "an exported tree + GroupInfo failed an outside observer's full validation, the context tree hash differs from an independent from-scratch recomputation, "
                          "or a tree ends in a blank",
                          ["proved on the model: shape, no trailing blank, leftmost-blank placement, unmerged-list and uniqueness invariants for every reachable tree (reachable_trees_wf); "
                           "proved (Props.C08Hash): the incremental tree-hash cache (tree_hash.rs: resize, leaf loop, FIFO parent queue, right-to-left scan for missing entries) equals the from-scratch "
                           "RFC 9420 tree hash after every operation of every history, incl. shrink followed by re-growth (reachable_cache_coherent; machine-checked negative witness for a cache that "
                           "only grows); tie: `thashspec` rows compare the partition of (previous ++ current) cache entries by equal bytes with the partition by equal hash terms of the model; "
                           "NOT proved: validity of parent-hash chains for all histories (the TreeSync theorem) — covered by the oracle only: every exported tree is validated by "
                           "ExternalClient::observe_group and by every joiner"])


def replay(ctx, path):
    print(open(path).read()[:4000])
    return run(ctx)
