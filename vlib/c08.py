"""C08 — every reachable ratchet tree is valid and matches the context tree hash."""
from . import treechecks


def run(ctx):
    return treechecks.run(ctx, "C08", ["MlsVerif.Props.C08"], "C08",
                          "an exported tree + GroupInfo failed an outside observer's full validation, the context tree hash differs from an independent from-scratch recomputation, "
                          "or a tree ends in a blank",
                          ["proved on the model: shape, no trailing blank, leftmost-blank placement, unmerged-list and uniqueness invariants for every reachable tree (reachable_trees_wf); "
                           "NOT proved: validity of parent-hash chains for all histories (the TreeSync theorem) and coherence of the incremental tree-hash cache — both are covered by the oracle only: "
                           "every exported tree is validated by ExternalClient::observe_group and by every joiner, and the tree hash is recomputed by plain recursion in the harness"])


def replay(ctx, path):
    print(open(path).read()[:4000])
    return run(ctx)
