"""C10 — committer-side and receiver-side proposal validation agree.
(P) MlsVerif.Props.C10 over the proposal-filter model (send_accepted, rule lemmas, path_required_agree);
(T) random histories with valid and offending by-reference proposals (removal of the committer, update by the committer, double
    removal, update of a removed member, add of an existing member, removal of a blank leaf, second update) and by-value extras:
    every commit's bundle is replayed on the compiled model in both modes (`filter send|receive` rows: applied set, path flag,
    built-or-error); direct oracle: every receiver accepts the commit and reports the committer's applied / unused proposals."""
from . import generic

SOURCES = ["mls-rs/src/group/proposal_filter/filtering.rs", "mls-rs/src/group/proposal_filter/filtering_common.rs",
           "mls-rs/src/group/proposal_filter/bundle.rs", "mls-rs/src/group/proposal_cache.rs", "mls-rs/src/group/proposal_filter.rs",
           "mls-rs/src/tree_kem/mod.rs", "mls-rs/src/tree_kem/leaf_node_validator.rs", "mls-rs/src/key_package/validator.rs"]


def run(ctx):
    n = "400" if ctx.tier == "thorough" else "40"
    return generic.standard(
        ctx, ["MlsVerif.Props.C10", "MlsVerif.Props.C10Lifetime"], ["hist", "--histories", n, "--offend", "600", "--focus", "C10,C01"], "filter", "hist-filter", SOURCES,
        rule="per history up to 14 rounds, <= 9 members: by-reference add/update/remove/PSK proposals from random members in random cache order, "
             "with probability 0.6 per round 1-3 offending by-reference proposals; by-value add/remove/PSK extras; one row per commit and mode: "
             "(committer leaf, tree, ordered abstract bundle) -> applied handles + path flag, or error; non-trivial = rows",
        what_corr="the implementation keeps / drops / rejects a proposal set differently from the filter model",
        what_oracle="an honest receiver rejected a commit the library let a member build, or reports different applied/unused proposals",
        assumptions=["payload validity facts (signatures, capabilities, identity provider verdict, PSK presence) are attributes of the abstract proposal, equal on both sides "
                     "(generated: revoked identities, default values listed in the capabilities, expired lifetime); the lifetime window itself is the model Lifetime.addOk, "
                     "tied by the `life` rows of the directed scenario (committer clock before / inside / after the window, receivers with clocks of their own or none)",
                     "bundle order of cached proposals is read through hook verif_cached_proposals_in_bundle_order (HashMap iteration order)"],
        nontrivial=lambda r, kv: r["rows"],
        # directed: by-reference proposals from an external sender (allowed types, and a relayed member Update which it may not send);
        # group-context-extension mixes with clients of different capabilities; key-package lifetime against the committer's and the
        # receivers' clocks (`life` rows: window, clock -> verdict, replayed on `Lifetime.addOk`)
        also=[(["c10x"], "small", "c10x")])


def replay(ctx, path):
    print(open(path).read()[:4000])
    return run(ctx)
