"""C04 — a rejected message (or a failed build) leaves the group exactly as it was.
(P) MlsVerif.Props.C04: `atomic` / `retry_same` for every well-ordered step list, instantiated (by `decide`) at the step lists
    GENERATED from the Rust source of update_key_schedule, apply_update_path, apply_detached_commit, apply_pending_commit,
    process_commit, state_repo insert; machine-checked negation + counterexample for CiphertextProcessor::open (known finding F8);
(T) translator (regenerated every run) + mutation/rejection sweep and identity-provider fault sweep on real receivers:
    complete state (every Snapshot component + repository bookkeeping) before/after each rejected message, genuine follow-up, peer acceptance."""
import os
from . import common, generic

SOURCES = ["mls-rs/src/group/message_processor.rs", "mls-rs/src/group/mod.rs", "mls-rs/src/group/ciphertext_processor.rs",
           "mls-rs/src/group/secret_tree.rs", "mls-rs/src/group/commit.rs", "mls-rs/src/group/snapshot.rs", "mls-rs/src/group/state_repo.rs"]


def keyer(line):
    if "[F8b]" in line:
        return "F8b"
    if "[F8]" in line:
        return "F8"
    return None


def run(ctx):
    rc = generic.standard(
        ctx, ["MlsVerif.Props.C04"], ["c04"], None, "c04", SOURCES,
        rule="per scenario (3-5 members, public or encrypted handshake): for every genuine proposal / application message / commit (path, add, PSK) "
             "of the epoch: sampled single-bit flips, truncations, appended byte, splices with other valid messages, cross-epoch and cross-group replays, "
             "a member lacking the PSK, insider re-signed structural edits, Welcome variants; plus every identity/storage/PSK provider call of "
             "process/apply/build failed once; each case = one delivery to a cloned receiver with full state comparison; non-trivial = rejected cases",
        what_corr="(no model stream for C04; the tie is the translator)",
        what_oracle="a rejected message / failed operation changed the member's state, or the genuine follow-up was refused",
        assumptions=["step lists are extracted at statement granularity; mutations hidden behind calls are listed in tools/translate.py MUTATING_CALLS (trusted table)",
                     "crypto-provider faults are not injected (the property does not quantify over them)",
                     "repo_pending_updates (read-through cache of stored epochs) is not part of the compared state"],
        nontrivial=lambda r, kv: int(kv.get("rejected", "0")),
        oracle_keyer=keyer,
        # messages refused for their generation (more than 1024 ahead of the receiver's ratchet, first message of that sender in the
        # epoch): the streams of the C05 scenarios with a full state comparison around every refusal
        also=[(["c05", "--focus", "C04"], None, "c05"),
              # the history generator's own C04 oracle (a failed commit build leaves the committer unchanged)
              (["hist", "--histories", "20" if ctx.tier != "thorough" else "200", "--offend", "600", "--focus", "C04"], None, "hist")])
    return rc


def replay(ctx, path):
    print(open(path).read()[:4000])
    return run(ctx)
