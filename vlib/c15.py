"""C15 — a failing storage call never loses or corrupts the group.
(P) MlsVerif.Props.C15: write_retry_same_history / write_accounts_every_epoch over the repository model (any fault flags), plus the
    atomicity theorems of Props.C04 at the GENERATED step lists of apply_pending_commit / apply_detached_commit / update_key_schedule /
    state_repo insert;
(T) translator + fault sweep on real members: every storage / key-package / PSK-store call of process / apply / build / join / write
    fails once (thorough: twice), state and stored history compared with the fault-free run."""
from . import generic

SOURCES = ["mls-rs/src/group/state_repo.rs", "mls-rs/src/group/mod.rs", "mls-rs/src/group/message_processor.rs", "mls-rs/src/group/commit.rs",
           "mls-rs/src/group/snapshot.rs", "mls-rs/src/psk/resolver.rs", "mls-rs/src/group/util.rs"]


def run(ctx):
    return generic.standard(
        ctx, ["MlsVerif.Props.C15", "MlsVerif.Props.C04"], ["c15"], None, "c15", SOURCES,
        rule="scenario variants (1-3 unwritten epochs, external and resumption PSKs, by-reference update, add of a newcomer; in-memory and SQLite): for "
             "process-proposal / process-app / process-commit / apply-pending / build-commit / join / write_to_storage a dry run enumerates the provider calls, "
             "then each call fails once (thorough: also a second fault on the retry); each injected fault is a case; compared: every state component, "
             "stored snapshot + epoch records (ids and the id recorded inside each record), key-package store",
        what_corr="(no model stream; tie = translator for the step lists + the repo rows of C06)",
        what_oracle="a storage fault lost or corrupted the member (state changed on error, retry fails, or stored history differs from the fault-free run)",
        assumptions=["a storage write that succeeded before a later call failed is an external effect: the member's pending-insert list is compared together with the storage (each epoch stored or pending, never both)",
                     "faults are transient single-call failures; crash inside a provider is not modelled"],
        nontrivial=lambda r, kv: int(kv.get("cases", "0")),
        # the history generator's own C15 oracle (write_to_storage never fails without an injected fault)
        also=[(["hist", "--histories", "20" if ctx.tier != "thorough" else "200", "--sqlite", "1", "--focus", "C15"], None, "hist")])


def replay(ctx, path):
    print(open(path).read()[:4000])
    return run(ctx)
