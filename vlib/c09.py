"""C09 — members hold exactly the private keys they are entitled to, matching the tree."""
from . import treechecks


def run(ctx):
    return treechecks.run(ctx, "C09", ["MlsVerif.Props.C09"], "C09",
                          "a stored private key does not open what is sealed to the node's public key, a key is stored for a blank node, an entitled key is missing, "
                          "or a path commit left an old key on the committer's path",
                          ["each stored private key is probed with a real hpke_seal to the node's public key / hpke_open with the stored key"])


def replay(ctx, path):
    print(open(path).read()[:4000])
    return run(ctx)
