"""C01 — all members that process the same commits reach the same epoch state."""
from . import treechecks


def run(ctx):
    return treechecks.run(ctx, "C01", ["MlsVerif.Props.C01"], "C01,C03,C11",
                          "members disagree after a commit (context, tree, roster, authenticator, exporter), an epoch moved by other than one, or a member cannot decrypt a peer",
                          ["agreement of secrets is proved as: same tree (receivers_compute_committers_tree) + the receiver opens the committer's seal (receiver_opens_committers_seal) + "
                           "deterministic derivations (chain_meets, epoch_secrets_function, C13); the real HPKE open and the transcript chain are checked by the oracle"])


def replay(ctx, path):
    print(open(path).read()[:4000])
    return run(ctx)
