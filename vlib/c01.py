"""C01 — all members that process the same commits reach the same epoch state."""
from . import treechecks


def run(ctx):
    return treechecks.run(ctx, "C01", ["MlsVerif.Props.C01", "MlsVerif.Props.C01Group"], "C01,C03,C11",
                          "members disagree after a commit (context, tree, roster, authenticator, exporter), an epoch moved by other than one, or a member cannot decrypt a peer",
                          ["agreement of secrets is proved as: same tree (receivers_compute_committers_tree) + the receiver opens the committer's seal (receiver_opens_committers_seal) + "
                           "deterministic derivations (chain_meets, epoch_secrets_function, C13); the real HPKE open and the transcript chain are checked by the oracle",
                           "composed over whole histories in MlsVerif.Props.C01Group (symbolic secrets on top of the tree-layer world: agreement for every reachable world, every receiver reaches "
                           "the committer's commit secret, no entitled party gets stuck); tie: `g.commit` / `g.classes` / `g.slots` rows — the model replays every history as a world of parties and "
                           "must print the same tree and the same partition of all parties (members and removed members' retained groups) by epoch secret as the real groups' epoch authenticators"],
                          also=[(None, "group", "hist-group")])


def replay(ctx, path):
    print(open(path).read()[:4000])
    return run(ctx)
