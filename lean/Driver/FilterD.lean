import MlsVerif.Model.Proposals
import Driver.TreeD
/-! Line protocol of the proposal-filter model (C10): `filter <send|receive> c=<leaf> <tree> <props> [path=x|?]`. -/
namespace Driver.FilterD
open MlsVerif.Proposals MlsVerif.Tree Driver.TreeD

def kind? : String → Option Kind
  | "add" => some .add | "update" => some .update | "remove" => some .remove | "psk" => some .psk
  | "reinit" => some .reinit | "extinit" => some .extInit | "gce" => some .gce | _ => none

def snd? (s : String) : Option Snd :=
  if s = "E" then some (.external 0) else if s = "NC" then some .newMemberCommit else if s = "NP" then some .newMemberProposal
  else if s.startsWith "S" then ((s.drop 1).toString.toNat?).map .member else none

def src? : String → Option Src
  | "v" => some .byValue | "r" => some .byRef | "l" => some .loc | _ => none

def parseProp (s : String) : Option Proposal :=
  match s.splitOn "," with
  | [id, k, snd, src, tgt, leaf, ok, pid] => do
    let (a, b, c) ← nat3? leaf
    pure { id := ← id.toNat?, kind := ← kind? k, sender := ← snd? snd, src := ← src? src, target := ← tgt.toNat?,
           leaf := { ident := a, hpke := b, sig := c }, ok := ok = "1", pskId := ← pid.toNat? }
  | _ => none

def handle (ws : List String) : String :=
  match ws with
  | "filter" :: mode :: c :: t :: props :: rest =>
    let st : Option Strategy := match mode with | "send" => some .send | "receive" => some .receive | _ => none
    let ps : Option (List Proposal) := if props = "-" then some [] else (props.splitOn ";").mapM parseProp
    match st, field "c=" c >>= String.toNat?, parseTree t, ps with
    | some st, some c, some t, some ps =>
      -- bundle order: the per-type lists keep the given order
      match applyFromMember st c (Bundle.ofList ps) t with
      | .error _ => "err"
      | .ok out =>
        let ids := sortNat (out.bundle.all.map (·.id))
        let forced := rest == ["path=x"]
        let path := if forced then "x" else if pathRequired out.bundle then "1" else "0"
        s!"ok applied={listS ids} path={path}"
    | _, _, _, _ => "bad-op"
  | _ => "bad-op"
end Driver.FilterD
