import Driver.C20
import Driver.C13
import Driver.TreeD
import Driver.Small
import Driver.RepoD
import Driver.FilterD
import Driver.C12
import Driver.C14
import Driver.THash
import Driver.PHash
import Driver.TH
import Driver.GroupD
/-! `mlsmodel <mode>`: reads queries from stdin, prints one model answer per line. -/

def splitWs (line : String) : List String :=
  (line.trimAscii.toString.splitOn " ").filter (· ≠ "")

partial def loopS {σ : Type} (h : IO.FS.Stream) (out : IO.FS.Stream) (f : σ → List String → σ × String) (s : σ) : IO Unit := do
  let line ← h.getLine
  if line.isEmpty then return ()
  let (s', o) := f s (splitWs line)
  out.putStrLn o
  loopS h out f s'

def main (args : List String) : IO UInt32 := do
  let stdin ← IO.getStdin
  let stdout ← IO.getStdout
  match args with
  | ["c20"] => loopS stdin stdout (fun (_ : Unit) ws => ((), Driver.C20.handle ws)) (); return 0
  | ["repo"] => loopS stdin stdout Driver.RepoD.step { backend := .mem, ret := 3 }; return 0
  | ["filter"] => loopS stdin stdout (fun (_ : Unit) ws => ((), Driver.FilterD.handle ws)) (); return 0
  | ["small"] => loopS stdin stdout (fun (_ : Unit) ws => ((), Driver.Small.handle ws)) (); return 0
  | ["tree"] =>
    -- tree-layer rows; the tree-hash rows of the same stream are answered by the (stateless) tree-hash model
    loopS stdin stdout (fun (st : Driver.TreeD.St) ws =>
      if ws.head? == some "thashspec" then (st, Driver.THash.handle ws)
      else if ws.head? == some "phvalid" || ws.head? == some "phupd" then (st, Driver.PHash.handle ws)
      -- transcript-hash / membership-tag rows on real message bytes (stateless)
      else if ws.head? == some "th" || ws.head? == some "thp" || ws.head? == some "mtag" then (st, Driver.TH.handle ws)
      -- the external public key of a real epoch from its external secret
      else if ws.head? == some "extpub" then (st, Driver.C14.handle ws)
      -- epoch secrets of a real path-less commit (stateless key-schedule row)
      else if ws.head? == some "eks" then (st, (Driver.C13.step {} ws).2)
      else Driver.TreeD.step st ws) {}; return 0
  | ["c12"] => loopS stdin stdout (fun (_ : Unit) ws => ((), Driver.C12.handle ws)) (); return 0
  | ["c14"] => loopS stdin stdout (fun (_ : Unit) ws => ((), Driver.C14.handle ws)) (); return 0
  | ["phash"] => loopS stdin stdout (fun (_ : Unit) ws => ((), Driver.PHash.handle ws)) (); return 0
  | ["th"] => loopS stdin stdout (fun (_ : Unit) ws => ((), Driver.TH.handle ws)) (); return 0
  | ["group"] => loopS stdin stdout Driver.GroupD.step {}; return 0
  | ["thash"] => loopS stdin stdout (fun (_ : Unit) ws => ((), Driver.THash.handle ws)) (); return 0
  | ["c13"] => loopS stdin stdout (fun (st : Driver.C13.St) ws =>
      if ws.head? == some "extpub" then (st, Driver.C14.handle ws) else Driver.C13.step st ws) {}; return 0
  | _ => IO.eprintln "usage: mlsmodel <mode>"; return 2
