import MlsVerif.Model.TreeMath
def main : IO Unit := IO.println "ok"
