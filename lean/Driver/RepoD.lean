import MlsVerif.Model.Repo
/-! Line protocol of the repository model (C06 / C15 / C19). -/
namespace Driver.RepoD
open MlsVerif.Repo

def listS (l : List Nat) : String := if l.isEmpty then "-" else ",".intercalate (l.map toString)

def step (r : Repo) (ws : List String) : Repo × String :=
  match ws with
  | ["repo.new", b, ret] =>
    match ret.toNat? with
    | some ret => ({ backend := if b = "sql" then .sql else .mem, ret := ret }, "ok")
    | none => (r, "bad-op")
  | ["repo.ins", id] =>
    match id.toNat? with
    | some id => match r.insert (id, 0) with
      | .ok r' => (r', "ok")
      | .error _ => (r, "err")
    | none => (r, "bad-op")
  | ["repo.get", id] =>
    match id.toNat? with
    | some id => let (x, r') := r.getEpoch id; (r', if x.isSome then "some" else "none")
    | none => (r, "bad-op")
  | ["repo.psk", id] =>
    -- `GroupStateRepository::resumption_secret` for the own group (read-only)
    match id.toNat? with
    | some id => (r, if (r.resumptionSecret id).isSome then "some" else "none")
    | none => (r, "bad-op")
  | ["repo.write"] =>
    let (res, r') := r.write false false
    (r', match res with | .ok _ => "ok" | .error _ => "err")
  | ["repo.ids"] => (r, listS (r.stored.map (·.1)))
  | ["repo.reload"] => (r.reload, "ok")
  | _ => (r, "bad-op")
end Driver.RepoD
