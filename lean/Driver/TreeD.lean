import MlsVerif.Model.Tree
/-! Line protocol of the tree layer (`Model.Tree`): commits as tree transformations, private-slot updates of
receivers and joiners, and the key invariant, on the abstract trees printed by the harness. -/
namespace Driver.TreeD
open MlsVerif.Tree

structure St where
  t1 : Tree := []          -- after the proposals
  after : Tree := []       -- after the update path
  added : List Nat := []
  sender : Nat := 0
  pathKeys : List (Option Nat) := []
  hasPath : Bool := false

def nat3? (s : String) : Option (Nat × Nat × Nat) :=
  match s.splitOn ":" with
  | [a, b, c] => do pure (← a.toNat?, ← b.toNat?, ← c.toNat?)
  | _ => none

def parseNode (s : String) : Option (Option Node) :=
  if s = "_" then some none
  else match s.splitOn ":" with
    | ["L", a, b, c] => do pure (some (.leaf { ident := ← a.toNat?, hpke := ← b.toNat?, sig := ← c.toNat? }))
    | ["P", k, u] => do
      let k ← k.toNat?
      let us ← if u = "-" then some [] else (u.splitOn ".").mapM String.toNat?
      pure (some (.parent { key := k, unmerged := us }))
    | _ => none

def parseTree (s : String) : Option Tree :=
  if s = "-" then some [] else (s.splitOn "|").mapM parseNode

def nodeS : Option Node → String
  | none => "_"
  | some (.leaf l) => s!"L:{l.ident}:{l.hpke}:{l.sig}"
  | some (.parent p) =>
    let u := if p.unmerged.isEmpty then "-" else ".".intercalate (p.unmerged.map toString)
    s!"P:{p.key}:{u}"

def treeS (t : Tree) : String := if t.isEmpty then "-" else "|".intercalate (t.map nodeS)

def listS (l : List Nat) : String := if l.isEmpty then "-" else ",".intercalate (l.map toString)

def parseList (s : String) : Option (List Nat) :=
  if s = "-" then some [] else (s.splitOn ",").mapM String.toNat?

def field (pfx : String) (s : String) : Option String :=
  if s.startsWith pfx then some (s.drop pfx.length).toString else none

/-- rename stamps outside `known` to 1000001, 1000002, … by first appearance in node order -/
def canon (t : Tree) (known : List Nat) : Tree :=
  let step := fun (acc : List (Nat × Nat) × List (Option Node)) (n : Option Node) =>
    let (ren, out) := acc
    let f := fun (ren : List (Nat × Nat)) (x : Nat) =>
      if known.contains x then (ren, x)
      else match ren.find? (·.1 == x) with
        | some (_, y) => (ren, y)
        | none => let y := 1000001 + ren.length; (ren ++ [(x, y)], y)
    match n with
    | none => (ren, out ++ [none])
    | some (.leaf l) =>
      let (r1, a) := f ren l.ident
      let (r2, b) := f r1 l.hpke
      let (r3, c) := f r2 l.sig
      (r3, out ++ [some (.leaf { ident := a, hpke := b, sig := c })])
    | some (.parent p) =>
      let (r1, k) := f ren p.key
      (r1, out ++ [some (.parent { p with key := k })])
  (t.foldl step ([], [])).2

def stampsOf (t : Tree) : List Nat :=
  t.flatMap fun n => match n with
    | some (.leaf l) => [l.ident, l.hpke, l.sig]
    | some (.parent p) => [p.key]
    | none => []

def bitsS (l : List (Option Nat)) : String :=
  let l := (l.reverse.dropWhile (·.isNone)).reverse
  if l.isEmpty then "-" else String.ofList (l.map fun k => if k.isSome then '1' else '0')

def parseBits (s : String) : List (Option Nat) :=
  if s = "-" then [] else s.toList.map fun c => if c = '1' then some 1 else none

def errS (e : Err) : String := s!"err:{repr e}"

def sortNat (l : List Nat) : List Nat := (l.toArray.qsort (· < ·)).toList

def step (st : St) (ws : List String) : St × String :=
  let bad := (st, "bad-op")
  match ws with
  | ["commit", t, c, rm, up, add, nl] =>
    match parseTree t, field "c=" c >>= String.toNat?, field "rm=" rm >>= parseList,
          field "up=" up, field "add=" add, field "newleaf=" nl with
    | some t, some c, some rm, some up, some add, some nl =>
      let ups : Option (List (Nat × Leaf)) :=
        if up = "-" then some [] else (up.splitOn ",").mapM fun s =>
          match s.splitOn ":" with
          | [l, a, b, d] => do pure (← l.toNat?, { ident := ← a.toNat?, hpke := ← b.toNat?, sig := ← d.toNat? })
          | _ => none
      let adds : Option (List Leaf) :=
        if add = "-" then some [] else (add.splitOn ",").mapM fun s =>
          (nat3? s).map fun (a, b, d) => { ident := a, hpke := b, sig := d }
      match ups, adds with
      | some ups, some adds =>
        match batchEdit t { removes := rm, updates := ups, adds := adds } with
        | .error e => (st, errS e)
        | .ok (added, t1) =>
          let known := stampsOf t ++ ups.flatMap (fun u => [u.2.ident, u.2.hpke, u.2.sig])
            ++ adds.flatMap (fun l => [l.ident, l.hpke, l.sig])
          if nl = "-" then
            ({ t1 := t1, after := t1, added := added, sender := c, pathKeys := [], hasPath := false },
             s!"{treeS (canon t1 known)} added={listS (sortNat added)} seals=- pathbits=-")
          else match nat3? nl with
            | none => bad
            | some (a, b, d) =>
              let leaf : Leaf := { ident := a, hpke := b, sig := d }
              match encap t1 c leaf added 2000001 with
              | .error e => (st, errS e)
              | .ok o =>
                let known := known ++ [a, b, d]
                let seals := sortNat (o.seals.flatMap (·.2))
                -- trailing zeros dropped (the harness prints every bit vector that way: the length is fixed by the tree size)
                let pb := String.ofList ((o.pathKeys.map fun k => if k.isSome then '1' else '0').reverse.dropWhile (· == '0')).reverse
                ({ t1 := t1, after := o.tree, added := added, sender := c, pathKeys := o.pathKeys, hasPath := true },
                 s!"{treeS (canon o.tree known)} added={listS (sortNat added)} seals={listS seals} pathbits={if pb.isEmpty then "-" else pb}")
      | _, _ => bad
    | _, _, _, _, _, _ => bad
  | ["slots", leaf] =>
    match leaf.toNat? with
    | some leaf => (st, bitsS (expectedSlots st.after leaf))
    | none => bad
  | ["recv", leaf, bits, own] =>
    match leaf.toNat?, field "own=" own with
    | some leaf, some own =>
      let p : Priv := { self := leaf, keys := parseBits bits }
      let prov := provisionalPriv st.t1 p (if own = "1" then some 1 else none)
      match decap st.after prov st.sender st.pathKeys st.added with
      | .ok d => (st, bitsS d.priv.keys)
      | .error e => (st, errS e)
    | _, _ => bad
  | ["joiner", leaf, path] =>
    match leaf.toNat?, field "path=" path with
    | some leaf, some path =>
      match joinerPriv st.after leaf 1 st.sender (path = "1") with
      | .ok p => (st, bitsS p.keys)
      | .error e => (st, errS e)
    | _, _ => bad
  | ["shape", _] => (st, "ok")
  | _ => bad
end Driver.TreeD
