import Driver.Bytes
import MlsVerif.Model.HpkeBytes
import MlsVerif.Model.X509
import MlsVerif.Model.X25519
/-! Line protocol for C14: the HPKE key schedule / exporter / nonce / DHKEM derivations of
`Model/Hpke.lean` on bytes (reference HKDF), plain KDF / hash / MAC of a suite, and the X.509
reference verdict of `Model/X509.lean`.

    hpke.ks <suite> <base|psk> <shared_secret> <info> <psk> <psk_id>  -> <key> <base_nonce> <exporter_secret> | err
    hpke.nonce <base_nonce> <seq>                                     -> <nonce>            (err: seq ≥ 2^64)
    hpke.export <suite> <exporter_secret> <exporter_context> <len>    -> <bytes> | err       (err: len > 255·Nh)
    dhkem.ss <suite> <dh> <enc> <pkR>                                 -> <shared_secret>
    dhkem.dkp <suite> <ikm>                                           -> <dkp_prk> <sk | candidate0>
    extpub <suite> <external_secret>                                  -> <public key>        (X25519 suites; `unsupported` otherwise)
    kdf.extract <suite> <salt> <ikm>                                  -> <prk>
    kdf.expand <suite> <prk> <info> <len>                             -> <okm> | err
    hash <suite> <data>        mac <suite> <key> <data>
    x509 <time|-> <anchors> <chain>                                   -> ok | err            (`verdict`)
    x509w <time|-> <anchors> <chain>                                  -> ok | err            (`verdictWalk`)

In `base` mode the two psk fields are ignored (the Rust caller passes `None`).  A certificate is
`subject,issuer,key,signedBy,notBefore,notAfter,isCA(0|1),pathLen(or -)`, lists are `;`-separated,
`-` is the empty list. -/
namespace Driver.C14
open MlsVerif MlsVerif.Hpke MlsVerif.Hpke.Bytes Driver

def suiteOf (s : String) : Option SuiteParams := s.toNat? >>= Bytes.suite?

def cert? (s : String) : Option X509.Cert :=
  match s.splitOn "," with
  | [su, is, k, sb, nb, na, ca, pl] => do
    let su ← su.toNat?
    let is ← is.toNat?
    let k ← k.toNat?
    let sb ← sb.toNat?
    let nb ← nb.toNat?
    let na ← na.toNat?
    let ca ← (if ca = "1" then some true else if ca = "0" then some false else none)
    let pl ← (if pl = "-" then some none else pl.toNat?.map some)
    pure { subject := su, issuer := is, key := k, signedBy := sb, notBefore := nb, notAfter := na,
           isCA := ca, pathLen := pl }
  | _ => none

def certs? (s : String) : Option (List X509.Cert) :=
  if s = "-" then some [] else (s.splitOn ";").mapM cert?

def time? (s : String) : Option (Option Nat) :=
  if s = "-" then some none else s.toNat?.map some

def okErr (b : Bool) : String := if b then "ok" else "err"

def handle (ws : List String) : String :=
  let bad := "bad-op"
  match ws with
  | ["hpke.ksx", s, mode, ss, info, psk, pskId, ectx, elen] =>
    -- key schedule as the harness observes it: the AEAD key, the nonces of sequence numbers 0, 1, 2 and one export
    match suiteOf s, unhx ss, unhx info, unhx psk, unhx pskId, unhx ectx, elen.toNat? with
    | some p, some ss, some info, some psk, some pskId, some ectx, some elen =>
      let psk? : Option (Option (Psk ByteArray)) :=
        if mode = "base" then some none
        else if mode = "psk" then some (some { id := pskId, value := psk })
        else none
      match psk? with
      | none => bad
      | some pskArg =>
        match (hpke p).keySchedule (baseMode pskArg) ss info pskArg with
        | .ok { exporterSecret := ex, enc := some e } =>
          let nonces := ",".intercalate ([0, 1, 2].map fun q => hx (computeNonce Bytes.ops e.baseNonce q))
          let ex := match (hpke p).exportSecret { exporterSecret := ex, enc := none } ectx elen with
            | .ok b => hx b
            | .error _ => "err"
          s!"{hx e.key} {nonces} {ex}"
        | _ => "err"
    | _, _, _, _, _, _, _ => bad
  | ["dhkem.cand", s, ikm, k] =>
    -- rejection sampling: the candidate with counter k (the first k were refused)
    match suiteOf s, unhx ikm, k.toNat? with
    | some p, some ikm, some k =>
      match (hpke p).dkpPrk ikm, p.sampling with
      | some prk, .hpkeWithBitmask m =>
        match (dhKem p).candidate prk m k with
        | some sk => hx sk
        | none => "err"
      | _, _ => "err"
    | _, _, _ => bad
  | ["hpke.ks", s, mode, ss, info, psk, pskId] =>
    match suiteOf s, unhx ss, unhx info, unhx psk, unhx pskId with
    | some p, some ss, some info, some psk, some pskId =>
      let psk? : Option (Option (Psk ByteArray)) :=
        if mode = "base" then some none
        else if mode = "psk" then some (some { id := pskId, value := psk })
        else none
      match psk? with
      | none => bad
      | some pskArg =>
        match (hpke p).keySchedule (baseMode pskArg) ss info pskArg with
        | .ok { exporterSecret := ex, enc := some e } => s!"{hx e.key} {hx e.baseNonce} {hx ex}"
        | _ => "err"
    | _, _, _, _, _ => bad
  | ["hpke.nonce", bn, seq] =>
    match unhx bn, seq.toNat? with
    | some bn, some seq => if seq < seqLimit then hx (computeNonce Bytes.ops bn seq) else "err"
    | _, _ => bad
  | ["hpke.export", s, es, ec, len] =>
    match suiteOf s, unhx es, unhx ec, len.toNat? with
    | some p, some es, some ec, some len =>
      match (hpke p).exportSecret { exporterSecret := es, enc := none } ec len with
      | .ok b => hx b
      | .error _ => "err"
    | _, _, _, _ => bad
  | ["dhkem.ss", s, dh, enc, pkR] =>
    match suiteOf s, unhx dh, unhx enc, unhx pkR with
    | some p, some dh, some enc, some pkR =>
      match (dhKem p).sharedSecret dh enc pkR with
      | some b => hx b
      | none => "err"
    | _, _, _, _ => bad
  | ["dhkem.dkp", s, ikm] =>
    match suiteOf s, unhx ikm with
    | some p, some ikm =>
      match (hpke p).dkpPrk ikm with
      | none => "err"
      | some prk =>
        let sk := match p.sampling with
          | .hpkeWithBitmask m => (dhKem p).candidate prk m 0
          | .hpkeWithoutBitmask => (dhKem p).skWithoutSampling prk
          | .raw => some prk
        match sk with
        | some sk => s!"{hx prk} {hx sk}"
        | none => "err"
    | _, _ => bad
  | ["extpub", s, ikm] =>
    -- the external public key of an epoch: DeriveKeyPair(external_secret).pk (RFC 9420 §8); X25519 suites only
    match suiteOf s, unhx ikm with
    | some p, some ikm =>
      if p.kemId != 0x0020 then "unsupported" else
      match (hpke p).dkpPrk ikm with
      | none => "err"
      | some prk =>
        match (dhKem p).skWithoutSampling prk with
        | some sk => hx (X25519.publicKey sk)
        | none => "err"
    | _, _ => bad
  | ["kdf.extract", s, salt, ikm] =>
    match suiteOf s, unhx salt, unhx ikm with
    | some p, some salt, some ikm => hx (Hkdf.extract p.alg salt ikm)
    | _, _, _ => bad
  | ["kdf.expand", s, prk, info, len] =>
    match suiteOf s, unhx prk, unhx info, len.toNat? with
    | some p, some prk, some info, some len =>
      match Hkdf.expand p.alg prk info len with
      | some b => hx b
      | none => "err"
    | _, _, _, _ => bad
  | ["hash", s, d] =>
    match suiteOf s, unhx d with
    | some p, some d => hx (Sha2.hash p.alg d)
    | _, _ => bad
  | ["mac", s, k, d] =>
    match suiteOf s, unhx k, unhx d with
    | some p, some k, some d => hx (Hmac.hmac p.alg k d)
    | _, _, _ => bad
  | ["x509", t, anchors, chain] =>
    match time? t, certs? anchors, certs? chain with
    | some t, some anchors, some chain => okErr (X509.verdict chain anchors t)
    | _, _, _ => bad
  | ["x509k", _cls, t, anchors, chain] =>
    -- same verdict; the harness marks rows that fall into a recorded deviation class of one provider
    match time? t, certs? anchors, certs? chain with
    | some t, some anchors, some chain => okErr (X509.verdict chain anchors t)
    | _, _, _ => bad
  | ["x509w", t, anchors, chain] =>
    match time? t, certs? anchors, certs? chain with
    | some t, some anchors, some chain => okErr (X509.verdictWalk chain anchors t)
    | _, _, _ => bad
  | _ => bad

end Driver.C14
