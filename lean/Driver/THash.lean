import MlsVerif.Model.TreeHash
import Driver.TreeD
/-! Line protocol of the tree-hash model (`Model.TreeHash`).

`thashspec [f=<filtered leaves>] <tree> [<tree> …]` → for every tree the from-scratch tree hashes of
all `2·leafCount − 1` nodes, as a canonical numbering: each node index is printed as the number of
its hash term in order of first appearance *across all trees of the query* (`0,1,2 0,3,4`).  The
harness compares the partition induced by equal hash bytes with the partition induced by equal
terms.  (Within a single tree all terms are distinct, because a leaf hash contains the leaf index;
the comparison is informative across trees, e.g. before / after an operation.)

`thashupd <tree0> <tree1> <updated leaves | ->` → runs the model's `update_hashes(updated)` on the
coherent cache of `tree0` against `tree1` and reports `coherent` or `stale:<node indices>`; then the
same for the grow-only (seeded bug) resize, after `;`.

`thashhist <tree0> <tree1> <upd1> <tree2> <upd2> …` → threads two caches (the code's resize / the
grow-only resize) through the history starting from the coherent cache of `tree0`; one
`verdict;verdict` per step. -/
namespace Driver.THash
open MlsVerif.Tree MlsVerif.TreeHash Driver.TreeD

def numsS (l : List Nat) : String := ",".intercalate (l.map toString)

/-- split a flat numbering back into chunks of the given lengths -/
def chunks : List Nat → List Nat → List (List Nat)
  | [], _ => []
  | n :: ns, l => l.take n :: chunks ns (l.drop n)

def stale (t : Tree) (c : List HT) : List Nat :=
  (List.range (2 * leafCount t - 1)).filter fun x => c[x]? != some (treeHashSpec t [] x)

def verdict (t : Tree) (c : List HT) : String :=
  if c.length == 2 * leafCount t - 1 && (stale t c).isEmpty then "coherent"
  else s!"stale:{listS (stale t c)}:len={c.length}"

def hist (c cb : List HT) : List String → Option (List String)
  | [] => some []
  | [_] => none
  | a :: u :: rest => do
    let t ← parseTree a
    let upd ← parseList u
    let c' := updateHashes c t upd
    let cb' := updateHashesWith resizeGrowOnly cb t upd
    let more ← hist c' cb' rest
    pure (s!"{verdict t c'};{verdict t cb'}" :: more)

def handle (ws : List String) : String :=
  match ws with
  | "thashspec" :: rest =>
    let (filt, trees) := match rest with
      | a :: more => match field "f=" a with
        | some f => (parseList f, more)
        | none => (some [], rest)
      | [] => (some [], [])
    match filt, trees.mapM parseTree with
    | some f, some ts =>
      if ts.isEmpty then "err:parse" else
      let all := ts.map (specAll · f)
      let nums := canon all.flatten
      " ".intercalate ((chunks (all.map List.length) nums).map numsS)
    | _, _ => "err:parse"
  | ["thashupd", a, b, u] =>
    match parseTree a, parseTree b, parseList u with
    | some t0, some t1, some upd =>
      let c0 := specAll t0 []
      s!"{verdict t1 (updateHashes c0 t1 upd)};{verdict t1 (updateHashesWith resizeGrowOnly c0 t1 upd)}"
    | _, _, _ => "err:parse"
  | "thashhist" :: a :: rest =>
    match parseTree a with
    | some t0 =>
      match hist (specAll t0 []) (specAll t0 []) rest with
      | some out => if out.isEmpty then "-" else " ".intercalate out
      | none => "err:parse"
    | none => "err:parse"
  | _ => "err:query"

end Driver.THash
