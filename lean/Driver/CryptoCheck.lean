/-
Line-oriented cross-check entry for the crypto reference functions (used by `tools_crosscheck.py`).

stdin, one request per line (`-` stands for an empty hex argument; `<alg>` is sha256|sha384|sha512):
  hash    <alg> <hex>
  hmac    <alg> <keyhex> <msghex>
  extract <alg> <salthex> <ikmhex>
  expand  <alg> <prkhex> <infohex> <len>
  bench   <alg> <hex> <n>          -- hashes n times (feeding a digest byte back in), prints last
stdout: one line per request: lower-case hex (`-` never printed; empty output = empty line),
`none` for an over-long `expand`, `error: …` for a malformed request.
-/
import MlsVerif.Model.Sha2
import MlsVerif.Model.Hmac
import MlsVerif.Model.Hkdf
import MlsVerif.Model.Hex

namespace Driver.CryptoCheck

open MlsVerif MlsVerif.Sha2

def parseAlg? : String → Option HashAlg
  | "sha256" => some .sha256
  | "sha384" => some .sha384
  | "sha512" => some .sha512
  | _ => none

def parseHex? (s : String) : Option ByteArray :=
  if s == "-" then some ByteArray.empty else Hex.ofHex? s

/-- `n` chained hashes: each round overwrites byte 0 of the message with byte 0 of the digest, so
that no round can be hoisted or shared. -/
def benchLoop (alg : HashAlg) : Nat → ByteArray → ByteArray → ByteArray
  | 0, _, d => d
  | n + 1, msg, d =>
    let msg := if msg.size > 0 then msg.set! 0 (d.get! 0) else msg
    benchLoop alg n msg (hash alg msg)

def handle (line : String) : String :=
  let bad := s!"error: malformed request: {line}"
  match (line.trimAscii.toString.splitOn " ").filter (· ≠ "") with
  | ["hash", a, m] =>
    match parseAlg? a, parseHex? m with
    | some alg, some msg => Hex.toHex (hash alg msg)
    | _, _ => bad
  | ["hmac", a, k, m] =>
    match parseAlg? a, parseHex? k, parseHex? m with
    | some alg, some key, some msg => Hex.toHex (Hmac.hmac alg key msg)
    | _, _, _ => bad
  | ["extract", a, s, i] =>
    match parseAlg? a, parseHex? s, parseHex? i with
    | some alg, some salt, some ikm => Hex.toHex (Hkdf.extract alg salt ikm)
    | _, _, _ => bad
  | ["expand", a, p, i, l] =>
    match parseAlg? a, parseHex? p, parseHex? i, l.toNat? with
    | some alg, some prk, some info, some len =>
      match Hkdf.expand alg prk info len with
      | some okm => Hex.toHex okm
      | none => "none"
    | _, _, _, _ => bad
  | ["bench", a, m, n] =>
    match parseAlg? a, parseHex? m, n.toNat? with
    | some alg, some msg, some cnt => Hex.toHex (benchLoop alg cnt msg (hash alg msg))
    | _, _, _ => bad
  | _ => bad

partial def loop (stdin stdout : IO.FS.Stream) : IO Unit := do
  let line ← stdin.getLine
  if line.isEmpty then return
  if !line.trimAscii.toString.isEmpty then
    stdout.putStrLn (handle line)
  loop stdin stdout

end Driver.CryptoCheck

def cryptoCheckMain : IO Unit := do
  let stdin ← IO.getStdin
  let stdout ← IO.getStdout
  Driver.CryptoCheck.loop stdin stdout
  stdout.flush
