import Driver.Bytes
import MlsVerif.Model.Transcript
/-! Line protocol of the transcript-hash / membership-tag model (`Model.Transcript`) on REAL message bytes.
Hex lower case, `-` = empty.

`th <suite 1..7> <interim_before> <mlsmessage>` → `<confirmed> <interim_after>` for a PublicMessage commit;
`err:<reason>` otherwise (`decode`, `not-public`, `not-commit`, `no-confirmation-tag`, `shape`, `reencode`, `parse`).

`mtag <suite> <membership_key> <group_context> <mlsmessage>` → `ok` when the message is a PublicMessage of a member
sender whose membership tag is the recomputed HMAC, `bad:<recomputed tag>` when it differs, `err:<reason>` otherwise
(`decode`, `not-public`, `not-member`, `no-membership-tag`, `context-decode`, `context-trailing`, …).

Helpers for the self-test (encoder side of the same codecs; no counterpart in the harness):
`thsample-ctx <suite> <group_id> <epoch> <tree_hash> <confirmed_transcript_hash>` → an encoded `GroupContext`
(version 1, no extensions);
`thsample <suite> <membership_key> <group_context> <group_id> <epoch> <leaf> <signature> <confirmation_tag>` → an encoded
`MlsMessage` holding a PublicMessage commit (no proposals, no path) of member `<leaf>`, with the membership tag computed by
the model. -/
namespace Driver.TH
open MlsVerif MlsVerif.Codec MlsVerif.Transcript Driver

def unhxB (s : String) : Option Codec.Bytes := (unhx s).map (·.toList)
def hxB (b : Codec.Bytes) : String := hx (toBA b)

def handle (ws : List String) : String :=
  match ws with
  | ["th", suite, interim, msg] =>
    match suite.toNat? >>= suite?, unhxB interim, unhxB msg with
    | some s, some i, some m =>
      match transcriptHashes s.alg i m with
      | .ok (c, i') => s!"{hxB c} {hxB i'}"
      | .error e => s!"err:{e}"
    | _, _, _ => "err:parse"
  -- `thp <suite> <interim_before> <wire 1|2> <framed content> <signature> <confirmation tag>`: the two transcript hashes from the
  -- parts of an AuthenticatedContent (a PrivateMessage commit as decrypted by a member: wire format 2)
  | ["thp", suite, interim, wire, fc, sg, tag] =>
    match suite.toNat? >>= suite?, unhxB interim, wire.toNat?, unhxB fc, unhxB sg, unhxB tag with
    | some s, some i, some w, some fc, some sg, some tag =>
      let confirmed := confirmedHashWith (hashB s.alg) i (confirmedTranscriptHashInput (Transcript.u16 w) fc sg)
      s!"{hxB confirmed} {hxB (interimHashWith (hashB s.alg) confirmed tag)}"
    | _, _, _, _, _, _ => "err:parse"
  | ["mtag", suite, key, ctx, msg] =>
    match suite.toNat? >>= suite?, unhxB key, unhxB ctx, unhxB msg with
    | some s, some k, some c, some m =>
      match checkMembershipTag s.alg k c m with
      | .ok .ok => "ok"
      | .ok (.bad e) => s!"bad:{hxB e}"
      | .error e => s!"err:{e}"
    | _, _, _, _ => "err:parse"
  | ["thsample-ctx", suite, gid, epoch, th, cth] =>
    match suite.toNat?, unhxB gid, epoch.toNat?, unhxB th, unhxB cth with
    | some s, some g, some e, some t, some c =>
      match Gen.Codecs.C_GroupContext.enc
          (.tuple [.tuple [.nat 1], .tuple [.nat s], .bytes g, .nat e, .bytes t, .tuple [.bytes c], .list []]) with
      | .ok b => hxB b
      | .error _ => "err:encode"
    | _, _, _, _, _ => "err:parse"
  | ["thsample", suite, key, ctx, gid, epoch, leaf, sig, ctag] =>
    match suite.toNat? >>= suite?, unhxB key, unhxB ctx, unhxB gid, epoch.toNat?, leaf.toNat?, unhxB sig, unhxB ctag with
    | some s, some k, some c, some g, some e, some l, some sg, some ct =>
      match signedSample s.alg k c (sampleContent g e (.variant 1 (some (.nat l))) []) sg (some ct) with
      | .ok b => hxB b
      | .error e => s!"err:{e}"
    | _, _, _, _, _, _, _, _ => "err:parse"
  | _ => "err:query"

end Driver.TH
