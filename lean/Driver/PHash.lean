import MlsVerif.Model.ParentHash
import Driver.TreeD
/-! Line protocol of the parent-hash model (`Model.ParentHash`), mode `mlsmodel phash`.

The harness prints abstract trees in the `Driver.TreeD.parseTree` syntax and only knows hash *bytes*.
Parent-hash values are therefore communicated as small natural numbers naming byte strings:
equal numbers = equal bytes, `0` = the empty parent hash (`ParentHash::empty()`), `-` = no value
(a blank node, or a leaf whose `leaf_node_source` is not `Commit`).  A `<layer>` is a `|`-separated
list of such cells aligned with the nodes of the tree.  It must have exactly as many cells as the
tree has nodes (`err:parse` otherwise; for the empty tree `-` the layer is `-`); a non-blank parent
with `-`, or a blank node with a value, is `err:align`.

### Why there is no "compute the model's terms and compare partitions" query

The query planned originally, "`phvalid <tree> <layer>` → compute the model's parent-hash term of
every node of the tree and compare the partition with the partition of the bytes", is ILL-DEFINED:
the stored parent hash of a node is NOT a function of the current tree.
  (i)   `validate_parent_hashes` never constrains the `parent_hash` field of a topmost non-blank
        node (nothing above it hashes it; it is whatever the last path update left there);
  (ii)  a non-blank node whose first non-blank ancestor was re-keyed by a commit that came from the
        other side keeps a stale value that depends on the history of the group;
  (iii) which of the two children sides of a parent carries the witness depends on who committed
        last.
So from byte-equality classes alone one cannot decide whether a stored value equals
`H(P.key, P.parent_hash, original_sibling_tree_hash)`.  The protocol below is the closest
well-defined replacement: the harness additionally reports the equality classes of the hashes that
`validate_chain` could compute (query 1), or only a necessary condition is checked (query 2).

### Queries (answers are single lines; `err:parse` for unparsable arguments, `err:query` otherwise)

1. `phvalid <tree> <layer> <calc>` (sharp).  `<calc>` is a third `|`-separated list aligned with
   the nodes: `-` for every node that is not a non-blank parent; for a non-blank parent `P` at node
   `x` the cell `a.b`, where `a` names the bytes of
   `ParentHash::new(P.public_key, P.parent_hash, original_hashes[left(x)])` and `b` the same with
   `original_hashes[right(x)]` (same numbering as the layer; the harness computes them with the
   real hash).  A cell that does not fit the node (also: a parent at an even index) is `err:align`.
   Answer:
     * `err:partition:<x>` if the calc numbers contradict the model's view of the hash inputs for an
       injective hash.  The model's input of calc(x, s) is the triple
       `(P.key, layer[x], treeHashSpec t P.unmerged s)`.  Required: no calc number is `0`; two calc
       entries (over all parents and both sides) carry the same number IFF their triples are equal.
       `<x>` is the first node (node order) one of whose entries violates this.
     * `err:cycle` if the interpretation below runs out of fuel (a cyclic dependency).
     * otherwise the verdict `ok` / `err` of `validateParentHashes` on the `PTree` obtained by
       interpreting numbers as terms: `0 ↦ PH.empty`; a number that is the calc number of (x, s) ↦
       `PH.node P.key (interp layer[x]) (treeHashSpec t P.unmerged s)` (fuel = nodes + 1); any other
       number m ↦ an atom `PH.node (atomBase + m) .empty .dflt`, `atomBase = 1000000000` (key
       stamps are far smaller).  Under the partition condition the interpretation is injective, so
       `phGet ph d = some (linkHash p x s P)` holds exactly when `layer[d] = calc(x, s)`: the model
       runs the same comparisons as the code.
       For trees of at most 64 nodes ` valid=<ok|err>` is appended: the verdict of the declarative
       `phValidB` on the same `PTree` (quadratic).  The two verdicts should agree.

2. `phvalid <tree> <layer>` (NECESSARY condition only).  `ok` iff every non-blank parent `P` at `x`
   (children `l`, `r`) has a structural witness candidate: a child `c ∈ {l, r}` and a `d` in
   `resolution t c` with `sideOk t P c d` whose layer cell is neither `-` nor `0`, and the
   candidates can be chosen with pairwise different layer numbers for different parents
   (backtracking, step budget 100000 → `err:budget`).  Otherwise `err:<x>` with `x` the first parent
   without any candidate, or `err` if only distinctness fails.  Every tree accepted by
   `validate_parent_hashes` satisfies this (real hashes are injective, distinct parents have
   distinct keys): harness `Ok` with model `err…` is a discrepancy; the converse is not claimed.

3. `phupd <tree> <layer> <sender>`: differential test of `parent_hash_for_leaf` /
   `update_parent_hashes(sender, false)`.  `<tree>` is the tree AFTER the `update_node` calls of the
   path update, `<layer>` the layer at that moment (numbers are atoms, `0` = `PH.empty`).  Runs
   `updateParentHashes ⟨t, layer⟩ sender false`.  `err:<PErr constructor>` on error; on success the
   new layer in the same syntax: an input atom / empty prints as its original number, every NEW term
   gets the next unused number (max input number + 1, + 2, … by first appearance in node order;
   equal terms get equal numbers).  The harness compares the partition with the real bytes.

4. `phterms <tree> <layer> <sender>`: as 3, but prints space-separated `node=<depth>` for the nodes
   whose value changed (`-` if none); depth = number of genuine `PH.node` constructors on the
   `parent` spine of the new term (atoms and `PH.empty` count 0).  A debugging aid. -/
namespace Driver.PHash
open MlsVerif.TreeMath MlsVerif.Tree MlsVerif.TreeHash MlsVerif.ParentHash Driver.TreeD

def atomBase : Nat := 1000000000

def atom (m : Nat) : PH := .node (atomBase + m) .empty .dflt

/-! ### parsing -/

def parseCell (s : String) : Option (Option Nat) :=
  if s = "-" then some none else s.toNat?.map some

/-- a layer, not yet checked against a tree -/
def parseLayer (s : String) : Option (List (Option Nat)) := (s.splitOn "|").mapM parseCell

def parseCalcCell (s : String) : Option (Option (Nat × Nat)) :=
  if s = "-" then some none
  else match s.splitOn "." with
    | [a, b] => do pure (some (← a.toNat?, ← b.toNat?))
    | _ => none

def parseCalc (s : String) : Option (List (Option (Nat × Nat))) := (s.splitOn "|").mapM parseCalcCell

/-- a cell list for the tree `t`: same length (the empty tree `-` has the empty list `-`) -/
def cellsFor {α : Type} (t : Tree) (parse : String → Option (List α)) (s : String) : Option (List α) :=
  if t.isEmpty then (if s = "-" then some [] else none)
  else match parse s with
    | some l => if l.length == t.length then some l else none
    | none => none

/-- a non-blank parent has a value, a blank has none -/
def layerAligned (t : Tree) (layer : List (Option Nat)) : Bool :=
  (t.zip layer).all fun nv =>
    match nv.1 with
    | none => nv.2.isNone
    | some (.parent _) => nv.2.isSome
    | some (.leaf _) => true

/-! ### query 1: calc entries, the partition condition, interpretation -/

/-- one hash computed by the harness: `ParentHash::new(key, bytes named par, sib)` is named `num` -/
structure Entry where
  x : Nat
  num : Nat
  key : Nat
  par : Nat
  sib : HT

/-- the entries of node `x`; `none` = the calc cell does not fit the node -/
def entriesAt (t : Tree) (layer : List (Option Nat)) (x : Nat) (c : Option (Nat × Nat)) :
    Option (List Entry) :=
  match parentAt t x, c with
  | none, none => some []
  | some P, some (a, b) =>
    match left? x, right? x, (layer[x]?).join with
    | some l, some r, some v =>
      some [{ x := x, num := a, key := P.key, par := v, sib := treeHashSpec t P.unmerged l },
            { x := x, num := b, key := P.key, par := v, sib := treeHashSpec t P.unmerged r }]
    | _, _, _ => none
  | _, _ => none

def entries (t : Tree) (layer : List (Option Nat)) (cal : List (Option (Nat × Nat))) :
    Option (List Entry) :=
  (cal.zipIdx.mapM fun ci => entriesAt t layer ci.2 ci.1).map List.flatten

def sameTriple (e e' : Entry) : Bool := e.key == e'.key && e.par == e'.par && e.sib == e'.sib

/-- the first node with an entry that is `0` or whose number / triple equalities disagree -/
def partitionErr (es : List Entry) : Option Nat :=
  (es.find? fun e => e.num == 0 || es.any fun e' => (e.num == e'.num) != sameTriple e e').map (·.x)

/-- numbers as terms; `none` = out of fuel (cyclic dependency) -/
def interp (es : List Entry) : Nat → Nat → Option PH
  | 0, _ => none
  | fuel + 1, m =>
    if m = 0 then some .empty
    else match es.find? (·.num == m) with
      | none => some (atom m)
      | some e => (interp es fuel e.par).map fun h => .node e.key h e.sib

def interpLayer (es : List Entry) (fuel : Nat) (layer : List (Option Nat)) : Option PhLayer :=
  layer.mapM fun v => match v with
    | none => some none
    | some m => (interp es fuel m).map some

def okS (b : Bool) : String := if b then "ok" else "err"

def phvalid3 (t : Tree) (layer : List (Option Nat)) (cal : List (Option (Nat × Nat))) : String :=
  if !layerAligned t layer then "err:align" else
  match entries t layer cal with
  | none => "err:align"
  | some es =>
    match partitionErr es with
    | some x => s!"err:partition:{x}"
    | none =>
      match interpLayer es (t.length + 1) layer with
      | none => "err:cycle"
      | some ph =>
        let p : PTree := { t := t, ph := ph }
        let v := okS (validateParentHashes p)
        if t.length ≤ 64 then s!"{v} valid={okS (phValidB p)}" else v

/-! ### query 2: the necessary condition -/

/-- layer numbers of the structural witness candidates of the parent `P` at `x` -/
def candidates (t : Tree) (layer : List (Option Nat)) (x : Nat) (P : Parent) : List Nat :=
  match left? x, right? x with
  | some l, some r =>
    ([l, r].flatMap fun c => (resolution t c).filterMap fun d =>
      if sideOk t P c d then
        match (layer[d]?).join with
        | some n => if n != 0 then some n else none
        | none => none
      else none).eraseDups
  | _, _ => []

inductive SR
  | found | notFound | budget

/-- depth-first search for a choice of pairwise different numbers, one from each list.  A stack
frame is (alternatives left at this level, the lists of the later levels, numbers used below). -/
def searchLoop : Nat → List (List Nat × List (List Nat) × List Nat) → SR
  | 0, _ => .budget
  | _ + 1, [] => .notFound
  | fuel + 1, (alts, rest, used) :: stk =>
    match alts with
    | [] => searchLoop fuel stk
    | a :: alts' =>
      if used.contains a then searchLoop fuel ((alts', rest, used) :: stk)
      else match rest with
        | [] => .found
        | nxt :: rest' => searchLoop fuel ((nxt, rest', a :: used) :: (alts', rest, used) :: stk)

def phvalid2 (t : Tree) (layer : List (Option Nat)) : String :=
  if !layerAligned t layer then "err:align" else
  let cs := (List.range t.length).filterMap fun x =>
    (parentAt t x).map fun P => (x, candidates t layer x P)
  match cs.find? (·.2.isEmpty) with
  | some (x, _) => s!"err:{x}"
  | none =>
    match cs.map (·.2) with
    | [] => "ok"
    | c :: rest =>
      match searchLoop 100000 [(c, rest, [])] with
      | .found => "ok"
      | .notFound => "err"
      | .budget => "err:budget"

/-! ### queries 3 and 4: `update_parent_hashes(sender, false)` -/

def perrS : PErr → String
  | .tree _ => "tree"
  | .expectedParent => "expectedParent"
  | .expectedLeaf => "expectedLeaf"
  | .parentHashMismatch => "parentHashMismatch"
  | .invalidLeafNodeSource => "invalidLeafNodeSource"

def atomLayer (layer : List (Option Nat)) : PhLayer :=
  layer.map fun v => v.map fun m => if m = 0 then .empty else atom m

/-- the input number of an atom / the empty hash -/
def origNum? : PH → Option Nat
  | .empty => some 0
  | .node k .empty .dflt => if k > atomBase then some (k - atomBase) else none
  | .node _ _ _ => none

/-- the renumbering printer: `tbl` = the new terms seen so far with their numbers -/
def renumber : List (Option PH) → Nat → List (PH × Nat) → List String
  | [], _, _ => []
  | none :: rest, next, tbl => "-" :: renumber rest next tbl
  | some h :: rest, next, tbl =>
    match origNum? h with
    | some m => toString m :: renumber rest next tbl
    | none =>
      match tbl.find? (·.1 == h) with
      | some (_, m) => toString m :: renumber rest next tbl
      | none => toString next :: renumber rest (next + 1) ((h, next) :: tbl)

def maxNum (layer : List (Option Nat)) : Nat := layer.foldl (fun m v => max m (v.getD 0)) 0

/-- number of genuine `PH.node`s on the `parent` spine -/
def depth : PH → Nat
  | .empty => 0
  | .node k par sib => if (origNum? (.node k par sib)).isSome then 0 else depth par + 1

def phupd (terms : Bool) (t : Tree) (layer : List (Option Nat)) (sender : Nat) : String :=
  if !layerAligned t layer then "err:align" else
  let ph0 := atomLayer layer
  match updateParentHashes { t := t, ph := ph0 } sender false with
  | .error e => s!"err:{perrS e}"
  | .ok p =>
    if terms then
      let ch := (p.ph.zip ph0).zipIdx.filterMap fun ((new, old), i) =>
        if new == old then none else some s!"{i}={(new.map depth).getD 0}"
      if ch.isEmpty then "-" else " ".intercalate ch
    else
      let out := renumber p.ph (maxNum layer + 1) []
      if out.isEmpty then "-" else "|".intercalate out

def handle (ws : List String) : String :=
  match ws with
  | ["phvalid", a, b, c] =>
    match parseTree a with
    | some t =>
      match cellsFor t parseLayer b, cellsFor t parseCalc c with
      | some layer, some cal => phvalid3 t layer cal
      | _, _ => "err:parse"
    | none => "err:parse"
  | ["phvalid", a, b] =>
    match parseTree a with
    | some t =>
      match cellsFor t parseLayer b with
      | some layer => phvalid2 t layer
      | none => "err:parse"
    | none => "err:parse"
  | [q, a, b, s] =>
    if q != "phupd" && q != "phterms" then "err:query" else
    match parseTree a, s.toNat? with
    | some t, some sender =>
      match cellsFor t parseLayer b with
      | some layer => phupd (q == "phterms") t layer sender
      | none => "err:parse"
    | _, _ => "err:parse"
  | _ => "err:query"

end Driver.PHash
