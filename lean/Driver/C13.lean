import Driver.Bytes
import MlsVerif.Model.SecretTree
/-! Line protocol for C13 / C05: key-schedule derivations and secret-tree sessions on bytes.
Provider input guards that are outside the RFC formulas are mirrored here, not in the model: the
shipped providers return an error for an output length above 255·Nh (length 0 is not generated:
OpenSSL rejects it while RustCrypto returns the empty string — recorded under C14). -/
namespace Driver.C13
open MlsVerif MlsVerif.KS MlsVerif.ST Driver

structure St where
  suite : Option Suite := none
  tree : Option (SecretTree ByteArray) := none

def epochLine (o : EpochOut ByteArray) : String :=
  " ".intercalate ([o.joiner, o.resumption, o.senderData, o.encryption, o.exporter, o.authentication,
    o.external, o.membership, o.init, o.confirmationKey].map hx)

def errS : ST.Err → String
  | .keyMissing _ => "err:KeyMissing"
  | .invalidFutureGeneration _ => "err:FutureGen"
  | .leafNodeNoChildren => "err:NoChildren"
  | .invalidLeafConsumption => "err:LeafConsumption"
  | .overflow => "err:Panic"

def keyS : Except ST.Err (MsgKey ByteArray) → String
  | .ok k => s!"{hx k.nonce} {hx k.key} {k.generation}"
  | .error e => errS e

def kt? : String → Option KeyType
  | "app" => some .application
  | "hs" => some .handshake
  | _ => none

def pskInputs : List String → Option (List (PskInput ByteArray))
  | [] => some []
  | id :: v :: rest => do
    let id ← unhx id
    let v ← unhx v
    let r ← pskInputs rest
    pure ({ id := id, psk := v } :: r)
  | _ => none

def suiteOf (s : String) : Option Suite := s.toNat? >>= suite?

def step (st : St) (ws : List String) : St × String :=
  let bad := (st, "bad-op")
  match ws with
  | ["ks", s, i, c, x, p, _size] =>
    match suiteOf s, unhx i, unhx c, unhx x, unhx p with
    | some s, some i, some c, some x, some p => (st, epochLine (fromKeySchedule (prim s) i c x p))
    | _, _, _, _, _ => bad
  | ["fj", s, j, x, p, _size] =>
    match suiteOf s, unhx j, unhx x, unhx p with
    | some s, some j, some x, some p => (st, epochLine (fromJoiner (prim s) j x p))
    | _, _, _, _ => bad
  | ["wel", s, j, p] =>
    match suiteOf s, unhx j, unhx p with
    | some s, some j, some p => let (k, n) := welcomeKeyNonce (prim s) j p; (st, s!"{hx k} {hx n}")
    | _, _, _ => bad
  | ["exp", s, e, l, c, len] =>
    match suiteOf s, unhx e, unhx l, unhx c, len.toNat? with
    | some s, some e, some l, some c, some len =>
      if len > 255 * s.alg.outLen then (st, "err") else (st, hx (exportSecret (prim s) e l c len))
    | _, _, _, _, _ => bad
  | ["ewl", s, sec, l, c, len] =>
    match suiteOf s, unhx sec, unhx l, unhx c with
    | some s, some sec, some l, some c =>
      let len? : Option (Option Nat) := if len = "-" then some none else len.toNat?.map some
      match len? with
      | some lo =>
        if lo.getD s.alg.outLen > 255 * s.alg.outLen then (st, "err")
        else (st, hx (expandWithLabelB (prim s) sec l c lo))
      | none => bad
    | _, _, _, _ => bad
  | "psk" :: s :: _n :: rest =>
    match suiteOf s, pskInputs rest with
    | some s, some ins => match pskSecret (prim s) ins with
      | some b => (st, hx b)
      | none => (st, "err")
    | _, _ => bad
  | "eks" :: s :: i :: cs :: x :: cth :: enc :: _n :: rest =>
    -- a real commit of a real group: previous init secret, commit secret ("-" = no update path), new context,
    -- its confirmed transcript hash, PSK list in commit order; `enc` = 0: the member's encryption secret is consumed already
    let cs? : Option (Option ByteArray) := if cs = "-" then some none else (unhx cs).map some
    match suiteOf s, unhx i, cs?, unhx x, unhx cth, pskInputs rest with
    | some s, some i, some cs, some x, some cth, some ins =>
      match epochOfCommit (prim s) i cs x ins with
      | some o =>
        let l := [hx o.resumption, hx o.senderData, (if enc = "1" then hx o.encryption else "-"), hx o.exporter,
          hx o.authentication, hx o.external, hx o.membership, hx o.init, hx (confirmationTag (prim s) o.confirmationKey cth)]
        (st, " ".intercalate l)
      | none => (st, "err")
    | _, _, _, _, _, _ => bad
  | ["ctag", s, k, h] =>
    match suiteOf s, unhx k, unhx h with
    | some s, some k, some h => (st, hx (confirmationTag (prim s) k h))
    | _, _, _ => bad
  | ["sdk", s, sec, ct] =>
    match suiteOf s, unhx sec, unhx ct with
    | some s, some sec, some ct => let (k, n) := senderDataKeyNonce (prim s) sec ct; (st, s!"{hx k} {hx n}")
    | _, _, _ => bad
  | ["st.new", s, size, enc] =>
    match suiteOf s, size.toNat?, unhx enc with
    | some s, some size, some enc => ({ suite := some s, tree := some (SecretTree.new size enc) }, "ok")
    | _, _, _ => bad
  | ["st.next", idx, kt] =>
    match st.suite, st.tree, idx.toNat?, kt? kt with
    | some s, some t, some idx, some kt =>
      let (r, t') := t.nextMessageKey (prim s) idx kt
      ({ st with tree := some t' }, keyS r)
    | _, _, _, _ => bad
  | ["st.get", idx, kt, g] =>
    match st.suite, st.tree, idx.toNat?, kt? kt, g.toNat? with
    | some s, some t, some idx, some kt, some g =>
      let (r, t') := t.messageKeyGeneration (prim s) idx kt g
      ({ st with tree := some t' }, keyS r)
    | _, _, _, _, _ => bad
  | ["st.known"] =>
    match st.tree with
    | some t =>
      let l := t.known.map fun (i, n) => (i, match n with | .secret _ => 0 | .ratchet _ _ => 1)
      let l := l.toArray.qsort (fun a b => a.1 < b.1) |>.toList
      (st, if l.isEmpty then "-" else ",".intercalate (l.map fun (i, k) => s!"{i}:{k}"))
    | none => bad
  | ["st.reload"] => (st, "ok")
  | _ => bad
end Driver.C13
