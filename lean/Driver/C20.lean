import MlsVerif.Model.TreeMath
/-! Line protocol for C20: one query per line, one answer per line (same syntax as the harness). -/
namespace Driver.C20
open MlsVerif.TreeMath

def optS : Option Nat → String
  | some x => toString x
  | none => "-"

def pairsS (l : List (Nat × Nat)) : String :=
  if l.isEmpty then "-" else ",".intercalate (l.map fun (a, b) => s!"{a}:{b}")

def b01 (b : Bool) : String := if b then "1" else "0"

def handle (ws : List String) : String :=
  match ws with
  | ["root", n] => match n.toNat? with
    | some n => toString (root n)
    | none => "bad-op"
  | ["intree", x, r] => match x.toNat?, r.toNat? with
    | some x, some r => b01 (isInTree x r)
    | _, _ => "bad-op"
  | ["leaf", x] => match x.toNat? with
    | some x => b01 (isLeaf x)
    | none => "bad-op"
  | ["ps", x, n] => match x.toNat?, n.toNat? with
    | some x, some n => match parentSibling? x n with
      | some (p, s) => s!"{p} {s}"
      | none => "none"
    | _, _ => "bad-op"
  | ["lr", x] => match x.toNat? with
    | some x => s!"{optS (left? x)} {optS (right? x)}"
    | none => "bad-op"
  | ["dc", x, n] => match x.toNat?, n.toNat? with
    | some x, some n => pairsS (directCopath x n)
    | _, _ => "bad-op"
  | ["sub", x] => match x.toNat? with
    | some x => let (a, b) := subtree x; s!"{a} {b}"
    | none => "bad-op"
  | ["lca", x, y] => match x.toNat?, y.toNat? with
    | some x, some y => toString (leafLcaLevel x y)
    | _, _ => "bad-op"
  | ["bfs", n] => match n.toNat? with
    | some n => ",".intercalate ((bfsTopDown n).map toString)
    | none => "bad-op"
  | ["tlc", n] => match n.toNat? with
    | some n => toString (totalLeafCount n)
    | none => "bad-op"
  | ["lio", v] => match v.toNat? with
    | some v => b01 (leafIndexOk v)
    | none => "bad-op"
  | _ => "bad-op"
end Driver.C20
