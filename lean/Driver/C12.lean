import MlsVerif.Model.Codec
import MlsVerif.Model.CodecCustom
import MlsVerif.Model.Hex
import MlsVerif.Gen.Schemas
import MlsVerif.Gen.Codecs
/-! Line protocol for C12: `dec <Type> <hex>` — decode with the schema GENERATED from the Rust item of that name, then
re-encode and measure: `ok <consumed> <size> same|diff [<value text>]` or `err`.  A name that is not a plain schema is
looked up in the table of GENERATED codecs (`Gen.Codecs.codecTable`: derive layouts over the hand models of the
hand-written impls; `MlsMessage`, `KeyPackage`, `Commit`, `Snapshot`, …), same answer format.  Lookup order: the two
refined decoders themselves, `Gen.Schemas.table`, `Gen.Codecs.codecTable`.  `decc` is `dec` with the codec table asked
before the schema table: for the names that are in both (schemas with a refined decoder inside: `GroupInfo`,
`GroupContext`, `RemoveProposal`, …) it answers with the exact model (leaf-index bound, duplicate extension types).  `decx` rows are inputs the implementation
rejected for a type containing a node whose Rust decoder is stricter than the derive layout (`Gen.Schemas.refinedIdx`):
the model's own verdict is not compared, the answer is `err`.  The value text is printed for the harness test types
(`V*`), whose Rust values are printed in the same format. -/
namespace Driver.C12
open MlsVerif MlsVerif.Codec

def hexB (b : Bytes) : String := Hex.toHex (ByteArray.mk b.toArray)

mutual
partial def valS : Value → String
  | .nat n => s!"n{n}"
  | .bool b => if b then "t1" else "t0"
  | .bytes b => "x" ++ hexB b
  | .list vs => "l[" ++ ",".intercalate (vs.map valS) ++ "]"
  | .none => "N"
  | .some v => "S" ++ valS v
  | .tuple vs => "T[" ++ ",".intercalate (vs.map valS) ++ "]"
  | .variant t none => s!"V{t}"
  | .variant t (some p) => s!"V{t}:" ++ valS p
  | .map kvs => "M[" ++ ",".intercalate (kvs.map fun (k, v) => valS k ++ "=" ++ valS v) ++ "]"
end

def lookup (name : String) : Option Schema :=
  (Gen.Schemas.table.find? (·.1 == name)).map (·.2)

/-- the two refined decoders themselves (`LeafIndex`: value bound; `ExtensionList`: distinct extension types) are
compared exactly, through their hand-written models -/
def custom? (name : String) : Option Codec.Codec :=
  if name == "LeafIndex" then some Codec.leafIndex
  else if name == "ExtensionList" then some Codec.extensionList
  else none

def lookupCodec (name : String) : Option Codec.Codec :=
  (Gen.Codecs.codecTable.find? (·.1 == name)).map (·.2)

def decWith (c : Codec.Codec) (b : Bytes) : String :=
  match c.dec b with
  | .error _ => "err"
  | .ok (v, rest) =>
    let consumed := b.length - rest.length
    let tag := match c.enc v with
      | .ok re => if re == b.take consumed then "same" else "diff"
      | .error _ => "encerr"
    s!"ok {consumed} {c.size v} {tag}"

def dec (name hex : String) : String :=
  match custom? name, (if hex == "-" then some ByteArray.empty else Hex.ofHex? hex) with
  | some c, some ba => decWith c ba.toList
  | _, _ =>
  match lookup name, (if hex == "-" then some ByteArray.empty else Hex.ofHex? hex) with
  | some s, some ba =>
    let b : Bytes := ba.toList
    match decode s b with
    | .error _ => "err"
    | .ok (v, rest) =>
      let consumed := b.length - rest.length
      let sz := size s v
      let tag := match encode s v with
        | .ok re => if re == b.take consumed then "same" else "diff"
        | .error _ => "encerr"
      let base := s!"ok {consumed} {sz} {tag}"
      if name.startsWith "V" && tag != "encerr" then base ++ " " ++ valS v else base
  | none, some ba =>
    match lookupCodec name with
    | some c => decWith c ba.toList
    | none => "unknown-type"
  | none, none => if (lookupCodec name).isSome then "bad-op" else "unknown-type"
  | _, none => "bad-op"

/-- `dec` preferring the generated codec (exact refined decoders inside) over the plain schema of the same name -/
def decc (name hex : String) : String :=
  match custom? name, lookupCodec name, (if hex == "-" then some ByteArray.empty else Hex.ofHex? hex) with
  | none, some c, some ba => decWith c ba.toList
  | _, _, _ => dec name hex

def handle (ws : List String) : String :=
  match ws with
  | ["dec", name, hex] => dec name hex
  | ["decc", name, hex] => decc name hex
  -- state types holding unordered maps: whether the re-encoding has the same byte ORDER is not a property of the value
  | ["deccu", name, hex] => ((decc name hex).replace " same" " any").replace " diff" " any"
  -- `VarInt::try_from(n)` followed by `mls_encode` (length headers): hex or the range error
  | ["vi", n] => match n.toNat? with
    | some n => match Codec.encodeLen n with
      | .ok b => hexB b
      | .error _ => "err"
    | none => "bad-op"
  -- `VarInt::mls_decode` of raw bytes: value and number of bytes consumed, or error
  | ["vd", hex] => match Hex.ofHex? hex with
    | some ba => match Codec.decodeVarint ba.toList with
      | .ok (n, rest) => s!"{n} {ba.size - rest.length}"
      | .error _ => "err"
    | none => "bad-op"
  | ["decx", name, _] => if (lookup name).isSome then "err" else "unknown-type"
  | _ => "bad-op"
end Driver.C12
