import MlsVerif.Model.KeySchedule
import MlsVerif.Model.Hkdf
import MlsVerif.Model.Hex
/-! The byte-level instance of `KS.Prim`: Lean reference HKDF/HMAC/SHA-2 per cipher suite. -/
namespace Driver
open MlsVerif MlsVerif.Sha2

def u16be (n : Nat) : ByteArray := ByteArray.mk #[(n / 256 % 256).toUInt8, (n % 256).toUInt8]
def u32be (n : Nat) : ByteArray :=
  ByteArray.mk #[(n / 16777216 % 256).toUInt8, (n / 65536 % 256).toUInt8, (n / 256 % 256).toUInt8, (n % 256).toUInt8]

/-- RFC 9000 §16 variable-length integer as used by mls-rs-codec (1, 2 or 4 bytes) -/
def varint (n : Nat) : ByteArray :=
  if n < 64 then ByteArray.mk #[n.toUInt8]
  else if n < 16384 then ByteArray.mk #[(0x40 + n / 256).toUInt8, (n % 256).toUInt8]
  else ByteArray.mk #[(0x80 + n / 16777216 % 64).toUInt8, (n / 65536 % 256).toUInt8, (n / 256 % 256).toUInt8, (n % 256).toUInt8]

def varbytes (b : ByteArray) : ByteArray := varint b.size ++ b

def zeros (n : Nat) : ByteArray := ByteArray.mk (Array.replicate n 0)

/-- `Label::new(len as u16, label, context).mls_encode_to_vec()` -/
def labelBytes (len : Nat) (label ctx : ByteArray) : ByteArray :=
  u16be (len % 65536) ++ varbytes ("MLS 1.0 ".toUTF8 ++ label) ++ varbytes ctx

structure Suite where
  alg : HashAlg
  nk : Nat
  nn : Nat := 12

def suite? : Nat → Option Suite
  | 1 => some { alg := .sha256, nk := 16 }
  | 2 => some { alg := .sha256, nk := 16 }
  | 3 => some { alg := .sha256, nk := 32 }
  | 4 => some { alg := .sha512, nk := 32 }
  | 5 => some { alg := .sha512, nk := 32 }
  | 6 => some { alg := .sha512, nk := 32 }
  | 7 => some { alg := .sha384, nk := 32 }
  | _ => none

/-- expansions longer than 255·Nh make the real provider return an error; the driver never asks
for them through `prim` (they are covered by the explicit `expand` query). -/
def prim (s : Suite) : KS.Prim ByteArray where
  extract salt ikm := Hkdf.extract s.alg salt ikm
  expandLabel secret label ctx len :=
    (Hkdf.expand s.alg secret (labelBytes len label ctx) len).getD ByteArray.empty
  hash := Sha2.hash s.alg
  mac := Hmac.hmac s.alg
  nh := s.alg.outLen
  nk := s.nk
  nn := s.nn
  zeros := zeros
  empty := ByteArray.empty
  ascii str := str.toUTF8
  u16be := u16be
  u32be := u32be
  cat a b := a ++ b
  varbytes := varbytes
  take n b := b.extract 0 n

def hx (b : ByteArray) : String := if b.size = 0 then "-" else Hex.toHex b
def unhx (s : String) : Option ByteArray := if s = "-" then some ByteArray.empty else Hex.ofHex? s

end Driver
