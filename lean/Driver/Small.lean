import MlsVerif.Model.Framing
import MlsVerif.Model.Pending
import MlsVerif.Model.External
import MlsVerif.Model.Resumption
import MlsVerif.Model.Lifetime
/-! Line protocols of the small decision-logic models: C11 (`run …`), C16 (`adm …`), C17 (`sub …`, `join …`), C10 lifetime (`life …`). -/
namespace Driver.Small
open MlsVerif

/-- kind suffix of a build token: `n` = no update path, `r<j>` = removes member `j` (with a path),
`i` = reinit (without path) -/
def parseKind (s : String) : Option Pending.Kind :=
  match s.front, (s.drop 1).toString with
  | 'n', "" => some { hasPath := false }
  | 'i', "" => some { hasPath := false, reinit := true }
  | 'r', j => j.toNat?.map fun j => { removes := some j }
  | _, _ => none

/-- `none` inside = `x<m>:<k>`: member m receives commit k with a wrong confirmation tag (re-signed by its author): a
rejected message, which by C04 leaves every member as it was.  Build tokens: `b<m>` / `B<m>` (attached / detached) =
empty commit with an update path; an optional suffix `:n`, `:r<j>`, `:i` gives the commit's kind (`parseKind`). -/
def parseOp (s : String) : Option (Option Pending.Op) :=
  let body := (s.drop 1).toString
  match s.front, body.splitOn ":" with
  | 'x', [m, k] => do let _ ← m.toNat?; let _ ← k.toNat?; pure none
  | c, parts => (parseOp' c parts).map some
where parseOp' (c : Char) (parts : List String) : Option Pending.Op :=
  match c, parts with
  | 'b', [m] => m.toNat?.map fun m => .build m false {}
  | 'B', [m] => m.toNat?.map fun m => .build m true {}
  | 'b', [m, kd] => do pure (.build (← m.toNat?) false (← parseKind kd))
  | 'B', [m, kd] => do pure (.build (← m.toNat?) true (← parseKind kd))
  | 'c', [m] => m.toNat?.map .clear
  | 'a', [m] => m.toNat?.map .apply
  | 'D', [m, k] => do pure (.applyDet (← m.toNat?) (← k.toNat?))
  | 'd', [m, k] => do pure (.deliver (← m.toNat?) (← k.toNat?))
  | _, _ => none

/-- one observation per op: result, then per member `e<epoch>s<class>p<pending>`; state classes are
numbered by first appearance along the run, the initial state being class 0 -/
def runObs (n : Nat) (ops : List (Option Pending.Op)) : String :=
  let rec go (w : Pending.World) (classes : List Nat) : List (Option Pending.Op) → List String
    | [] => []
    | op :: rest =>
      let (w', r) : Pending.World × Pending.Res := match op with
        | some op => Pending.step w op
        | none => (w, .invalidEpoch)   -- any error: only ok / err is printed
      let (classes', cells) := w'.members.foldl (fun (acc : List Nat × List String) x =>
        let (cl, out) := acc
        let (cl, c) := match cl.findIdx? (· == x.cur) with
          | some i => (cl, i)
          | none => (cl ++ [x.cur], cl.length)
        (cl, out ++ [s!"e{w'.epoch x.cur}s{c}p{if x.pending.isSome then 1 else 0}"])) (classes, [])
      s!"{if r.isOk then "ok" else "err"};{",".intercalate cells}" :: go w' classes' rest
  " ".intercalate (go (Pending.init n) [0] ops)

def b? : String → Option Bool
  | "1" => some true
  | "0" => some false
  | _ => none

def ct? : String → Option External.ContentType
  | "app" => some .application
  | "prop" => some .proposal
  | "commit" => some .commit
  | _ => none

def handle (ws : List String) : String :=
  match ws with
  | "run" :: n :: ops =>
    match ((n.drop 2).toString).toNat?, ops.mapM parseOp with
    | some n, some ops => runObs n ops
    | _, _ => "bad-op"
  | ["adm", epoch, jitter, sameGroup, msgEpoch, ct, wire] =>
    -- with the wire format (`priv` / `pub`): application content only as a private message
    match epoch.toNat?, b? sameGroup, msgEpoch.toNat?, ct? ct, (if wire = "priv" then some true else if wire = "pub" then some false else none) with
    | some e, some sg, some me, some ct, some isCipher =>
      let j : Option (Option Nat) := if jitter = "-" then some none else jitter.toNat?.map some
      match j with
      | some j => if External.checkMetadataW isCipher e j true sg me ct == .ok then "ok" else "err"
      | none => "bad-op"
    | _, _, _, _, _ => "bad-op"
  | ["adm", epoch, jitter, sameGroup, msgEpoch, ct] =>
    match epoch.toNat?, b? sameGroup, msgEpoch.toNat?, ct? ct with
    | some e, some sg, some me, some ct =>
      let j : Option (Option Nat) := if jitter = "-" then some none else jitter.toNat?.map some
      match j with
      | some j => if External.checkMetadata e j true sg me ct == .ok then "ok" else "err"
      | none => "bad-op"
    | _, _, _, _ => "bad-op"
  | ["sub", kind, old, new] =>
    let k : Option Resumption.Kind := match kind with | "reinit" => some .reinit | "branch" => some .branch | _ => none
    let pl := fun (s : String) => if s = "-" then some [] else (s.splitOn ",").mapM String.toNat?
    match k, pl old, pl new with
    | some k, some o, some n => if Resumption.checkSubgroup k o n then "ok" else "err"
    | _, _, _ => "bad-op"
  | ["join", kind, old, new, ev, es, eg, ex, gv, gs, ge, gg, gx] =>
    -- `ResumptionGroupBuilder::join` after the Welcome itself was processed: expected (version, suite, group id, extensions)
    -- against what the joined group has (version, suite, epoch, group id, extensions)
    let k : Option Resumption.Kind := match kind with | "reinit" => some .reinit | "branch" => some .branch | _ => none
    let pl := fun (s : String) => if s = "-" then some [] else (s.splitOn ",").mapM String.toNat?
    match k, pl old, pl new, [ev, es, eg, ex, gv, gs, ge, gg, gx].mapM String.toNat? with
    | some k, some o, some n, some [ev, es, eg, ex, gv, gs, ge, gg, gx] =>
      match Resumption.joinChecks k o n { version := ev, suite := es, epoch := 1, groupId := eg, extensions := ex }
          { version := gv, suite := gs, epoch := ge, groupId := gg, extensions := gx } with
      | .ok _ => "ok"
      | .error .notASubgroup => "NotASubgroup"
      | .error .protocolVersionMismatch => "ProtocolVersionMismatch"
      | .error .cipherSuiteMismatch => "CipherSuiteMismatch"
      | .error .initialEpochNotOne => "InitialEpochNotOne"
      | .error .groupIdMismatch => "GroupIdMismatch"
      | .error .reInitExtensionsMismatch => "ReInitExtensionsMismatch"
    | _, _, _, _ => "bad-op"
  | ["frz", p, e] =>
    -- the freeze after a committed ReInit: is a re-init pending, entry point (`build` = commit_internal, `process` = process_commit)
    let pb : Option Bool := match p with | "0" => some false | "1" => some true | _ => none
    let en : Option Resumption.CommitEntry := match e with | "build" => some .build | "process" => some .process | _ => none
    match pb, en with
    | some pb, some en =>
      match Resumption.commitVerdict pb en with
      | .ok _ => "ok"
      | .error .groupUsedAfterReInit => "GroupUsedAfterReInit"
    | _, _ => "bad-op"
  | ["life", nb, na, t] =>
    -- key-package lifetime against a clock (`-` = no clock): verdict on the Add
    match nb.toNat?, na.toNat?, (if t = "-" then some none else t.toNat?.map some) with
    | some nb, some na, some clock => if Lifetime.addOk { notBefore := nb, notAfter := na } clock then "ok" else "err"
    | _, _, _ => "bad-op"
  | ["unfilter", bits, n] =>
    -- the un-filtering loop of `validate_update_path`: filter flags of the sender's direct path, number of nodes sent
    let fs : Option (List Bool) := if bits = "-" then some [] else bits.toList.mapM (fun c => if c = '1' then some true else if c = '0' then some false else none)
    match fs, n.toNat? with
    | some fs, some n => if (MlsVerif.Framing.unfilter fs (List.range n)).isSome then "ok" else "err"
    | _, _ => "bad-op"
  | _ => "bad-op"
end Driver.Small
