import MlsVerif.Model.TreeMath
