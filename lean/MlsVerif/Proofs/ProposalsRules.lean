/-
Helper lemmas for `Props/C10.lean`, part 4: what a successful run guarantees about every proposal of
the output bundle (rule by rule), what the committer may not drop, the tree-level rules (removal of a
blank leaf, two changes to one leaf), `path_update_required`.  Core Lean only.
-/
import MlsVerif.Proofs.ProposalsSend

namespace MlsVerif.Proposals
open MlsVerif.Tree MlsVerif.TreeMath

/-! ## the bundle by kind -/

def Bundle.byKind (b : Bundle) : Kind → List Proposal
  | .add => b.adds
  | .update => b.updates
  | .remove => b.removes
  | .psk => b.psks
  | .reinit => b.reinits
  | .extInit => b.extInits
  | .gce => b.gces

/-- every proposal sits in the list of its own kind (true of `Bundle.ofList`) -/
def Bundle.WellKinded (b : Bundle) : Prop := ∀ k, ∀ p ∈ b.byKind k, p.kind = k

theorem Bundle.mem_all {b : Bundle} {p : Proposal} : p ∈ b.all ↔ ∃ k, p ∈ b.byKind k := by
  simp only [Bundle.all, List.mem_append]
  constructor
  · rintro (((((((h | h) | h) | h) | h) | h) | h))
    · exact ⟨.add, h⟩
    · exact ⟨.update, h⟩
    · exact ⟨.remove, h⟩
    · exact ⟨.psk, h⟩
    · exact ⟨.reinit, h⟩
    · exact ⟨.extInit, h⟩
    · exact ⟨.gce, h⟩
  · rintro ⟨k, h⟩
    cases k <;> simp only [Bundle.byKind] at h <;> simp [h]

theorem Bundle.ofList_wellKinded (ps : List Proposal) : (Bundle.ofList ps).WellKinded := by
  intro k p hp
  cases k <;> simp only [Bundle.byKind, Bundle.ofList, List.mem_filter, beq_iff_eq] at hp <;> exact hp.2

theorem Bundle.ofList_byKind (ps : List Proposal) (k : Kind) :
    (Bundle.ofList ps).byKind k = ps.filter (·.kind == k) := by
  cases k <;> rfl

theorem Clean.sender {c : Nat} {B : Bundle} (h : Clean c B) (k : Kind) :
    ∀ p ∈ B.byKind k, canPropose p.sender k p.src = true := by
  intro p hp
  cases k <;> simp only [Bundle.byKind] at hp
  · exact h.adds p hp
  · exact (h.updates p hp).1
  · exact (h.removes p hp).1
  · exact (h.psks p hp).1
  · exact (h.reinits p hp).1
  · rw [h.extInits] at hp; cases hp
  · exact (h.gces p hp).1

theorem out_byKind_sublist {st : Strategy} {c : Nat} {b : Bundle} {t : Tree} {out : EditOut}
    (h : applyFromMember st c b t = .ok out) (k : Kind) :
    (out.bundle.byKind k).Sublist (b.byKind k) := by
  obtain ⟨h1, h2, h3, h4, h5, h6, h7⟩ := out_sublists h
  cases k <;> assumption

/-- under well-kindedness, absence from the list of its kind is absence from the bundle -/
theorem not_mem_all_of_byKind {b B : Bundle} (hw : b.WellKinded)
    (hsub : ∀ k, (B.byKind k).Sublist (b.byKind k)) {p : Proposal} {k : Kind}
    (hp : p ∈ b.byKind k) (hn : p ∉ B.byKind k) : p ∉ B.all := by
  intro hm
  obtain ⟨k', hk'⟩ := Bundle.mem_all.1 hm
  have e1 := hw k' p ((hsub k').subset hk')
  have e2 := hw k p hp
  rw [← e1, e2] at hk'
  exact hn hk'

/-! ## the strict mode: the input bundle itself is `Clean` -/

theorem receive_clean {c : Nat} {b : Bundle} {t : Tree} {out : EditOut}
    (h : applyFromMember .receive c b t = .ok out) : Clean c b :=
  receive_bundle h ▸ out_clean h

/-! ## what may not be dropped is kept -/

theorem filterExtraGce_keeps {st : Strategy} {l l' : List Proposal}
    (h : filterExtraGce st l false = .ok l') {p : Proposal} (hp : p ∈ l)
    (hi : ignore st p.byRef = false) : p ∈ l' := by
  obtain ⟨rfl, hd⟩ := filterExtraGce_false h
  rw [← List.take_append_drop 1 l] at hp
  rcases List.mem_append.1 hp with hp | hp
  · exact hp
  · have := hd p hp; rw [hi] at this; cases this

/-- `prepare` keeps every proposal that the strategy does not allow to drop (external inits: none) -/
theorem prepare_keeps {st : Strategy} {c : Nat} {b b' : Bundle} (h : prepare st c b = .ok b')
    {p : Proposal} (hi : ignore st p.byRef = false) :
    (p ∈ b.adds → p ∈ b'.adds) ∧ (p ∈ b.updates → p ∈ b'.updates) ∧
      (p ∈ b.removes → p ∈ b'.removes) ∧ (p ∈ b.psks → p ∈ b'.psks) ∧
      (p ∈ b.gces → p ∈ b'.gces) ∧ (p ∈ b.reinits → p ∈ b'.reinits) ∧ p ∉ b.extInits := by
  obtain ⟨a, u1, u, r1, r, k1, k, g0, g1, g, ri0, ri, ha, hu1, hu, hr1, hr, hk1, hk, hg0, hg1, hg,
    hri0, hri, fa, fu, fr, fk, fg, _, _, hkeep, _, hei, _⟩ := prepare_fields h
  refine ⟨fun hp => ?_, fun hp => ?_, fun hp => ?_, fun hp => ?_, fun hp => ?_, fun hp => ?_,
    fun hp => ?_⟩
  · rw [fa]; exact (retain_keeps ha hp hi).1
  · rw [fu]; exact (retain_keeps hu (retain_keeps hu1 hp hi).1 hi).1
  · rw [fr]; exact (retain_keeps hr (retain_keeps hr1 hp hi).1 hi).1
  · rw [fk]; exact filterPsks_keeps hk (retain_keeps hk1 hp hi).1 hi
  · rw [fg]; exact filterExtraGce_keeps hg (retain_keeps hg1 (retain_keeps hg0 hp hi).1 hi).1 hi
  · exact hkeep p (retain_keeps hri (retain_keeps hri0 hp hi).1 hi).1 hi
  · have := hei p hp; rw [hi] at this; cases this

theorem applyRemovesF_keeps {f : Bool} : ∀ {rs kept : List Proposal} {t t1 : Tree},
    applyRemovesF f rs t = .ok (kept, t1) → ∀ {p : Proposal}, p ∈ rs → (!p.byRef || !f) = true →
      p ∈ kept
  | [], _, _, _, _, p, hp, _ => by cases hp
  | q :: ps, kept, t, t1, h, p, hp, hi => by
    simp only [applyRemovesF] at h
    split at h
    · cases h
    · rename_i kept0 t0 hr
      split at h
      · cases h
        rcases List.mem_cons.1 hp with rfl | hp
        · exact List.mem_cons_self
        · exact List.mem_cons_of_mem _ (applyRemovesF_keeps hr hp hi)
      · split at h
        · cases h
        · rename_i hq
          cases h
          rcases List.mem_cons.1 hp with rfl | hp
          · exact absurd hi hq
          · exact applyRemovesF_keeps hr hp hi

theorem applyAddsF_keeps {f : Bool} : ∀ {as kept : List Proposal} {idxs : List Nat} {t t1 : Tree} {s : Nat},
    applyAddsF f as t s = .ok (kept, idxs, t1) → ∀ {p : Proposal}, p ∈ as →
      (!p.byRef || !f) = true → p ∈ kept
  | [], _, _, _, _, _, _, p, hp, _ => by cases hp
  | q :: ps, kept, idxs, t, t1, s, h, p, hp, hi => by
    simp only [applyAddsF] at h
    split at h
    · split at h
      · cases h
      · rename_i hr
        cases h
        rcases List.mem_cons.1 hp with rfl | hp
        · exact List.mem_cons_self
        · exact List.mem_cons_of_mem _ (applyAddsF_keeps hr hp hi)
    · split at h
      · cases h
      · rename_i hq
        rcases List.mem_cons.1 hp with rfl | hp
        · exact absurd hi hq
        · exact applyAddsF_keeps h hp hi

/-- `apply_tree_changes` keeps the adds and removes that may not be dropped -/
theorem applyTreeChanges_keeps {st : Strategy} {b : Bundle} {t : Tree} {out : EditOut}
    (h : applyTreeChanges st b t = .ok out) {p : Proposal} (hi : ignore st p.byRef = false) :
    (p ∈ b.adds → p ∈ out.bundle.adds) ∧ (p ∈ b.removes → p ∈ out.bundle.removes) := by
  obtain ⟨us, as, hu, ha, hb⟩ := applyTreeChanges_ok h
  obtain ⟨removes, t1, updates, t2, adds, added, t3, hr, hu', ha', rfl⟩ := batchEditF_ok hb
  have hi' : (!p.byRef || !(st == .send)) = true := by
    cases st <;> simp_all [ignore]
  exact ⟨fun hp => applyAddsF_keeps ha' (retain_keeps ha hp hi).1 hi',
    fun hp => applyRemovesF_keeps hr hp hi'⟩

theorem applyProposalChanges_keeps {st : Strategy} {b : Bundle} {t : Tree} {out : EditOut}
    (h : applyProposalChanges st b t = .ok out) {p : Proposal} (hi : ignore st p.byRef = false) :
    (p ∈ b.adds → p ∈ out.bundle.adds) ∧ (p ∈ b.removes → p ∈ out.bundle.removes) := by
  cases hg : b.gces with
  | nil =>
    rw [applyProposalChanges_nil hg] at h
    exact applyTreeChanges_keeps h hi
  | cons g gs =>
    rw [applyProposalChanges_cons hg] at h
    split at h
    · cases h
    · rename_i out1 h1
      split at h
      · cases h; exact applyTreeChanges_keeps h1 hi
      · split at h
        · exact applyTreeChanges_keeps h hi
        · cases h

/-- the whole pipeline keeps every add, remove, psk, gce, re-init that the strategy does not allow to
drop; there is no such external init.  (Updates are not in the list: `batch_edit(filter = true)` drops
an update whose new leaf collides whatever its source — only local ones get that far.) -/
theorem run_keeps {st : Strategy} {c : Nat} {b : Bundle} {t : Tree} {out : EditOut}
    (h : applyFromMember st c b t = .ok out) {p : Proposal} (hi : ignore st p.byRef = false) :
    (p ∈ b.adds → p ∈ out.bundle.adds) ∧ (p ∈ b.removes → p ∈ out.bundle.removes) ∧
      (p ∈ b.psks → p ∈ out.bundle.psks) ∧ (p ∈ b.gces → p ∈ out.bundle.gces) ∧
      (p ∈ b.reinits → p ∈ out.bundle.reinits) ∧ p ∉ b.extInits := by
  obtain ⟨b', hp, hc⟩ := applyFromMember_ok h
  obtain ⟨k1, k2, k3, k4, k5, k6, k7⟩ := prepare_keeps hp hi
  obtain ⟨h1, h2, h3, h4, _⟩ := applyProposalChanges_bundle hc
  obtain ⟨ka, kr⟩ := applyProposalChanges_keeps hc hi
  refine ⟨fun hm => ka (k1 hm), fun hm => kr (k3 hm), fun hm => h1 ▸ k4 hm, fun hm => ?_,
    fun hm => h2 ▸ k6 hm, k7⟩
  rcases h4 with h4 | ⟨_, g, hg, _, hgi⟩
  · rw [h4.1]; exact k5 hm
  · -- the gce was dropped by the capabilities retry: then it is droppable, and it is the only one
    have hm' := k5 hm
    have hone := (prepare_clean hp).gcesOne
    have : p = g := by
      match hb : b'.gces, hone, hm', hg with
      | [x], _, hm', hg =>
        simp only [List.mem_singleton] at hm'
        simp only [List.head?_cons, Option.mem_def, Option.some.injEq] at hg
        rw [hm', hg]
    rw [this, hgi] at hi; cases hi

/-! ## payload validity of the new nodes, capabilities -/

theorem out_nodes_ok {st : Strategy} {c : Nat} {b : Bundle} {t : Tree} {out : EditOut}
    (h : applyFromMember st c b t = .ok out) :
    (∀ p ∈ out.bundle.updates, p.ok = true) ∧ (∀ p ∈ out.bundle.adds, p.ok = true) := by
  obtain ⟨b', _, hc⟩ := applyFromMember_ok h
  obtain ⟨_, _, _, _, _, _, _, h8, h9⟩ := applyProposalChanges_bundle hc
  exact ⟨h8, h9⟩

theorem out_gce_caps {st : Strategy} {c : Nat} {b : Bundle} {t : Tree} {out : EditOut}
    (h : applyFromMember st c b t = .ok out) : ∀ p ∈ out.bundle.gces, p.capsOk = true := by
  obtain ⟨b', hp, hc⟩ := applyFromMember_ok h
  obtain ⟨_, _, _, h4, _⟩ := applyProposalChanges_bundle hc
  have hone := (prepare_clean hp).gcesOne
  intro p hm
  rcases h4 with ⟨e, hcaps⟩ | ⟨e, _⟩
  · rw [e] at hm
    match hb : b'.gces, hone, hm, hcaps with
    | [x], _, hm, hcaps =>
      simp only [List.mem_singleton] at hm
      subst hm
      exact hcaps p (by simp)
  · rw [e] at hm; cases hm

/-- a non-droppable update with an invalid payload stops `apply_tree_changes` -/
theorem prepare_updates_ok_keeps {b : Bundle} {t : Tree} {out : EditOut}
    (h : applyTreeChanges .send b t = .ok out) {p : Proposal} (hp : p ∈ b.updates)
    (hi : p.byRef = false) : p.ok = true := by
  obtain ⟨us, as, hu, _, _⟩ := applyTreeChanges_ok h
  exact (retain_keeps hu hp (by rw [ignore_send]; exact hi)).2

theorem applyProposalChanges_tree {st : Strategy} {b : Bundle} {t : Tree} {out : EditOut}
    (h : applyProposalChanges st b t = .ok out) :
    ∃ b0, applyTreeChanges st b0 t = .ok out ∧ b0.adds = b.adds ∧ b0.updates = b.updates ∧
      b0.removes = b.removes := by
  cases hg : b.gces with
  | nil =>
    rw [applyProposalChanges_nil hg] at h
    exact ⟨b, h, rfl, rfl, rfl⟩
  | cons g gs =>
    rw [applyProposalChanges_cons hg] at h
    split at h
    · cases h
    · rename_i out1 h1
      split at h
      · cases h; exact ⟨b, h1, rfl, rfl, rfl⟩
      · split at h
        · exact ⟨_, h, rfl, rfl, rfl⟩
        · cases h

/-- every successful run ends in a `batch_edit` on sublists of the input's adds, updates, removes -/
theorem run_edit {st : Strategy} {c : Nat} {b : Bundle} {t : Tree} {out : EditOut}
    (h : applyFromMember st c b t = .ok out) :
    ∃ b0, batchEditF (st == .send) b0 t = .ok out ∧ b0.adds.Sublist b.adds ∧
      b0.updates.Sublist b.updates ∧ b0.removes.Sublist b.removes := by
  obtain ⟨b', hp, hc⟩ := applyFromMember_ok h
  obtain ⟨b0, ht, ea, eu, er⟩ := applyProposalChanges_tree hc
  obtain ⟨us, as, hu, ha, hb⟩ := applyTreeChanges_ok ht
  obtain ⟨a, u1, u, r1, r, k1, k, g0, g1, g, ri0, ri, ha', hu1, hu', hr1, hr, _, _, _, _, _,
    _, _, fa, fu, fr, _⟩ := prepare_fields hp
  refine ⟨_, hb, ?_, ?_, ?_⟩
  · exact (retain_sublist ha).trans (ea ▸ fa ▸ retain_sublist ha')
  · exact (retain_sublist hu).trans (eu ▸ fu ▸ (retain_sublist hu').trans (retain_sublist hu1))
  · exact er ▸ fr ▸ (retain_sublist hr).trans (retain_sublist hr1)


/-! ## the three faces of a rule -/

/-- What "rule enforced" means for an offending proposal `p` in the list of kind `k` of bundle `b`:
never committed unless it came by reference (by value or local: the commit fails), dropped from the
committed bundle, rejected by a receiver. -/
structure Enforced (c : Nat) (b : Bundle) (t : Tree) (k : Kind) (p : Proposal) : Prop where
  never_by_value : p.byRef = false → ∃ e, applyFromMember .send c b t = .error e
  dropped_by_ref : ∀ out, applyFromMember .send c b t = .ok out → p ∉ out.bundle.byKind k
  rejected : ∃ e, applyFromMember .receive c b t = .error e

theorem byRef_false_of_byValue {p : Proposal} (h : p.src = .byValue) : p.byRef = false := by
  simp [Proposal.byRef, h]

theorem Enforced.never_byValue {c : Nat} {b : Bundle} {t : Tree} {k : Kind} {p : Proposal}
    (h : Enforced c b t k p) (hv : p.src = .byValue) : ∃ e, applyFromMember .send c b t = .error e :=
  h.never_by_value (byRef_false_of_byValue hv)

/-- in a well-kinded bundle (`Bundle.ofList`) the dropped proposal is nowhere in the committed bundle -/
theorem Enforced.dropped_all {c : Nat} {b : Bundle} {t : Tree} {k : Kind} {p : Proposal}
    (h : Enforced c b t k p) (hw : b.WellKinded) (hp : p ∈ b.byKind k) {out : EditOut}
    (ho : applyFromMember .send c b t = .ok out) : p ∉ out.bundle.all :=
  not_mem_all_of_byKind hw (out_byKind_sublist ho) hp (h.dropped_by_ref out ho)

theorem prepare_keeps_byKind {st : Strategy} {c : Nat} {b b' : Bundle} (h : prepare st c b = .ok b')
    {p : Proposal} (hi : ignore st p.byRef = false) {k : Kind} (hp : p ∈ b.byKind k) :
    p ∈ b'.byKind k := by
  obtain ⟨k1, k2, k3, k4, k5, k6, k7⟩ := prepare_keeps h hi
  cases k <;> simp only [Bundle.byKind] at hp ⊢
  · exact k1 hp
  · exact k2 hp
  · exact k3 hp
  · exact k4 hp
  · exact k6 hp
  · exact absurd hp k7
  · exact k5 hp

theorem run_keeps_byKind {st : Strategy} {c : Nat} {b : Bundle} {t : Tree} {out : EditOut}
    (h : applyFromMember st c b t = .ok out) {p : Proposal} (hi : ignore st p.byRef = false)
    {k : Kind} (hk : k ≠ .update) (hp : p ∈ b.byKind k) : p ∈ out.bundle.byKind k := by
  obtain ⟨k1, k3, k4, k5, k6, k7⟩ := run_keeps h hi
  cases k <;> simp only [Bundle.byKind] at hp ⊢
  · exact k1 hp
  · exact absurd rfl hk
  · exact k3 hp
  · exact k4 hp
  · exact k6 hp
  · exact absurd hp k7
  · exact k5 hp

/-- driver for the rules that the passes before the tree check: `p` cannot be in a `Clean` bundle -/
theorem Enforced.of_clean {c : Nat} {b : Bundle} {t : Tree} {k : Kind} {p : Proposal}
    (hp : p ∈ b.byKind k) (hbad : ∀ B, Clean c B → p ∉ B.byKind k) : Enforced c b t k p := by
  refine ⟨fun hv => not_ok_error fun out h => ?_, fun out h => hbad _ (out_clean h),
    not_ok_error fun out h => hbad b (receive_clean h) hp⟩
  obtain ⟨b', hp', _⟩ := applyFromMember_ok h
  exact hbad b' (prepare_clean hp') (prepare_keeps_byKind hp' (by rw [ignore_send]; exact hv) hp)

/-- driver for the rules checked at the end (not for updates): `p` is in no output bundle -/
theorem Enforced.of_out {c : Nat} {b : Bundle} {t : Tree} {k : Kind} {p : Proposal}
    (hk : k ≠ .update) (hp : p ∈ b.byKind k)
    (hbad : ∀ st out, applyFromMember st c b t = .ok out → p ∉ out.bundle.byKind k) :
    Enforced c b t k p := by
  refine ⟨fun hv => not_ok_error fun out h => ?_, fun out h => hbad _ out h,
    not_ok_error fun out h => ?_⟩
  · exact hbad _ out h (run_keeps_byKind h (by rw [ignore_send]; exact hv) hk hp)
  · exact hbad _ out h (by rw [receive_bundle h]; exact hp)

/-- an update whose payload is invalid -/
theorem Enforced.update_not_ok {c : Nat} {b : Bundle} {t : Tree} {p : Proposal}
    (hp : p ∈ b.updates) (hbad : p.ok = false) : Enforced c b t .update p := by
  refine ⟨fun hv => not_ok_error fun out h => ?_, fun out h hm => ?_,
    not_ok_error fun out h => ?_⟩
  · obtain ⟨b', hp', hc⟩ := applyFromMember_ok h
    have hi : ignore .send p.byRef = false := by rw [ignore_send]; exact hv
    have hm := (prepare_keeps hp' hi).2.1 hp
    obtain ⟨b0, ht, _, eu, _⟩ := applyProposalChanges_tree hc
    have := prepare_updates_ok_keeps ht (eu ▸ hm) hv
    rw [hbad] at this; cases this
  · have := (out_nodes_ok h).1 p hm
    rw [hbad] at this; cases this
  · have := (out_nodes_ok h).1 p (by rw [receive_bundle h]; exact hp)
    rw [hbad] at this; cases this

/-! ## positional rules: duplicate PSK id, second gce -/

theorem filter_split {α : Type} (f : α → Bool) (l1 l2 l3 : List α) (q p : α) (hq : f q = true)
    (hp : f p = true) :
    (l1 ++ q :: (l2 ++ p :: l3)).filter f = l1.filter f ++ q :: (l2.filter f ++ p :: l3.filter f) := by
  simp [List.filter_append, hq, hp]

/-- a PSK proposal that repeats the id of an earlier one (which the sender filter lets through)
cannot be committed by value -/
theorem dup_psk_send_error {c : Nat} {b : Bundle} {t : Tree} {l1 l2 l3 : List Proposal}
    {q p : Proposal} (hb : b.psks = l1 ++ q :: (l2 ++ p :: l3)) (he : q.pskId = p.pskId)
    (hq : canPropose q.sender .psk q.src = true) (hv : p.byRef = false) :
    ∃ e, applyFromMember .send c b t = .error e := by
  refine not_ok_error fun out h => ?_
  obtain ⟨b', hp', _⟩ := applyFromMember_ok h
  obtain ⟨a, u1, u, r1, r, k1, k, g0, g1, g, ri0, ri, ha, hu1, hu, hr1, hr, hk1, hk, _⟩ :=
    prepare_fields hp'
  have hi : ignore .send p.byRef = false := by rw [ignore_send]; exact hv
  have hpm : p ∈ b.psks := by rw [hb]; simp
  have hps := (retain_keeps hk1 hpm hi).2
  have e1 := (retain_ok hk1).1
  rw [hb, filter_split (senderOk .psk) l1 l2 l3 q p hq hps] at e1
  rw [e1] at hk
  have := filterPsks_dup_error' hk he
  rw [hi] at this; cases this

theorem mem_drop_one {α : Type} {A B : List α} {x y : α} (h : y ∈ B) :
    y ∈ (A ++ x :: B).drop 1 := by
  cases A with
  | nil => simpa using h
  | cons a A => simp [h]

/-- a second group-context-extensions proposal (after one that the earlier filters let through)
cannot be committed by value -/
theorem second_gce_send_error {c : Nat} {b : Bundle} {t : Tree} {l1 l2 l3 : List Proposal}
    {g1 g2 : Proposal} (hb : b.gces = l1 ++ g1 :: (l2 ++ g2 :: l3))
    (hq : canPropose g1.sender .gce g1.src = true) (hok : g1.ok = true) (hv : g2.byRef = false) :
    ∃ e, applyFromMember .send c b t = .error e := by
  refine not_ok_error fun out h => ?_
  obtain ⟨b', hp', _⟩ := applyFromMember_ok h
  obtain ⟨a, u1, u, r1, r, k1, k, g0, g1', g, ri0, ri, ha, hu1, hu, hr1, hr, hk1, hk, hg0, hg1, hg, _⟩ :=
    prepare_fields hp'
  have hi : ignore .send g2.byRef = false := by rw [ignore_send]; exact hv
  have hpm : g2 ∈ b.gces := by rw [hb]; simp
  have h2 := retain_keeps hg0 hpm hi
  have h2' := retain_keeps hg1 h2.1 hi
  have e0 := (retain_ok hg0).1
  rw [hb, filter_split (senderOk .gce) l1 l2 l3 g1 g2 hq h2.2] at e0
  have e1 := (retain_ok hg1).1
  rw [e0, filter_split (fun x => x.ok) _ _ _ g1 g2 hok h2'.2] at e1
  have := (filterExtraGce_false hg).2 g2 (by rw [e1]; exact mem_drop_one (by simp))
  rw [hi] at this; cases this

/-! ## tree-level rules -/

/-- `t'` is `t` with some nodes blanked -/
def Blanker (t t' : Tree) : Prop := t'.length = t.length ∧ ∀ j : Nat, t'[j]? = t[j]? ∨ t'[j]? = some none

theorem Blanker.refl (t : Tree) : Blanker t t := ⟨rfl, fun _ => Or.inl rfl⟩

theorem Blanker.trans {a b c : Tree} (h1 : Blanker a b) (h2 : Blanker b c) : Blanker a c :=
  ⟨h2.1.trans h1.1, fun j => by
    rcases h2.2 j with h | h
    · rw [h]; exact h1.2 j
    · exact Or.inr h⟩

theorem Blanker.set_none (t : Tree) (i : Nat) : Blanker t (t.set i none) :=
  ⟨List.length_set, fun j => by
    rw [List.getElem?_set]
    split
    · rename_i hij
      split
      · exact Or.inr rfl
      · rename_i hlt
        subst hij
        exact Or.inl (List.getElem?_eq_none (by omega)).symm
    · exact Or.inl rfl⟩

theorem Blanker.blank_stays {t t' : Tree} (h : Blanker t t') {j : Nat} (hj : t[j]? = some none) :
    t'[j]? = some none := by
  rcases h.2 j with h' | h'
  · rw [h', hj]
  · exact h'

theorem Blanker.leaf_was {t t' : Tree} (h : Blanker t t') {j : Nat} {l : Leaf}
    (hj : t'[j]? = some (some (Node.leaf l))) : t[j]? = some (some (Node.leaf l)) := by
  rcases h.2 j with h' | h'
  · rw [← h', hj]
  · rw [h'] at hj; cases hj

theorem blankDirectPath_blanker (t : Tree) (i : Nat) : Blanker t (blankDirectPath t i) := by
  unfold blankDirectPath
  generalize directCopathOf t i = path
  induction path generalizing t with
  | nil => exact Blanker.refl t
  | cons cp rest ih =>
    simp only [List.foldl_cons]
    rw [set_eq]
    exact (Blanker.set_none t cp.1).trans (ih _)

theorem applyRemovesF_spec {f : Bool} : ∀ {rs kept : List Proposal} {t t1 : Tree},
    applyRemovesF f rs t = .ok (kept, t1) →
      Blanker t t1 ∧
      (∀ r ∈ kept, (∃ l, t[2 * r.target]? = some (some (Node.leaf l))) ∧
        t1[2 * r.target]? = some none) ∧
      kept.Pairwise (fun r r' => r.target ≠ r'.target)
  | [], kept, t, t1, h => by
    cases h
    exact ⟨Blanker.refl _, fun r hr => (by cases hr), List.Pairwise.nil⟩
  | p :: ps, kept, t, t1, h => by
    simp only [applyRemovesF] at h
    split at h
    · cases h
    · rename_i kept0 t0 hr
      obtain ⟨hb0, hk0, hp0⟩ := applyRemovesF_spec hr
      split at h
      · rename_i old t2 hbl
        cases h
        obtain ⟨_, hg, rfl⟩ := blankLeaf_ok hbl
        have hlt : 2 * p.target < t0.length := lt_of_getElem?_eq_some hg
        have hb2 : Blanker t0 (blankDirectPath (t0.set (2 * p.target) none) p.target) :=
          (Blanker.set_none t0 _).trans (blankDirectPath_blanker _ _)
        refine ⟨hb0.trans hb2, fun r hr => ?_, ?_⟩
        · rcases List.mem_cons.1 hr with rfl | hr
          · exact ⟨⟨old, hb0.leaf_was hg⟩,
              (blankDirectPath_blanker _ _).blank_stays (List.getElem?_set_self hlt)⟩
          · exact ⟨(hk0 r hr).1, hb2.blank_stays (hk0 r hr).2⟩
        · refine List.Pairwise.cons (fun r hr he => ?_) hp0
          have := (hk0 r hr).2
          rw [← he, hg] at this
          cases this
      · split at h
        · cases h
        · cases h; exact ⟨hb0, hk0, hp0⟩

/-- the updates reported as applied went through the first loop -/
theorem applyUpdatesF_pairs {f : Bool} {us applied : List Proposal} {t t2 : Tree}
    (h : applyUpdatesF f us t = .ok (applied, t2)) :
    ∃ pairs ta, takeOldLeaves f us t = .ok (pairs, ta) ∧ applied.Sublist (pairs.map (·.1)) := by
  unfold applyUpdatesF at h
  split at h
  · cases h
  · rename_i pairs ta htake
    refine ⟨pairs, ta, htake, ?_⟩
    split at h
    · cases h
    · rename_i ap tb hins
      cases h
      cases f
      · have := insertNewLeaves_false hins
        simp only [List.reverse_nil, List.map_nil, List.nil_append, Option.some.injEq] at this
        rw [this]; exact List.Sublist.refl _
      · have hap := insertNewLeaves_true_applied hins
        simp only [List.reverse_nil, List.map_nil, List.nil_append] at hap
        rw [hap]; exact (insApplied_sublist pairs ta).map (·.1)
    · cases h; exact List.nil_sublist _

theorem applyUpdatesF_spec {f : Bool} {us applied : List Proposal} {t t2 : Tree}
    (h : applyUpdatesF f us t = .ok (applied, t2)) :
    (∀ u ∈ applied, ∃ l, t[2 * leafIdxOf u]? = some (some (Node.leaf l))) ∧
      applied.Pairwise (fun u u' => leafIdxOf u ≠ leafIdxOf u') := by
  obtain ⟨pairs, ta, htake, hsub⟩ := applyUpdatesF_pairs h
  obtain ⟨_, _, hnd, holds, _⟩ := takeOldLeaves_spec htake
  refine ⟨fun u hu => ?_, ?_⟩
  · obtain ⟨po, hpo, rfl⟩ := List.mem_map.1 (hsub.subset hu)
    exact ⟨po.2, (holds po hpo).1⟩
  · refine List.Pairwise.sublist hsub ?_
    rw [List.pairwise_map]
    have : pairs.Pairwise (fun a b => pos a ≠ pos b) := by
      rw [List.Nodup, List.pairwise_map] at hnd; exact hnd
    exact this.imp fun {a b} hab he => hab (by unfold pos; rw [he])

/-- tree-level validity of the output bundle of a successful run (either mode):
every kept remove targets a leaf that is in the tree, no leaf is removed twice, every kept update is from
a member whose leaf is in the tree and is not removed by a kept remove, no member has two kept updates -/
theorem out_tree_valid {st : Strategy} {c : Nat} {b : Bundle} {t : Tree} {out : EditOut}
    (h : applyFromMember st c b t = .ok out) :
    (∀ r ∈ out.bundle.removes, ∃ l, t[2 * r.target]? = some (some (Node.leaf l))) ∧
      out.bundle.removes.Pairwise (fun r r' => r.target ≠ r'.target) ∧
      (∀ u ∈ out.bundle.updates, ∃ l, t[2 * leafIdxOf u]? = some (some (Node.leaf l))) ∧
      out.bundle.updates.Pairwise (fun u u' => leafIdxOf u ≠ leafIdxOf u') ∧
      (∀ u ∈ out.bundle.updates, ∀ r ∈ out.bundle.removes, leafIdxOf u ≠ r.target) := by
  obtain ⟨b0, hb, _, _, _⟩ := run_edit h
  obtain ⟨removes, t1, updates, t2, adds, added, t3, hr, hu, ha, rfl⟩ := batchEditF_ok hb
  obtain ⟨hbl, hk, hpw⟩ := applyRemovesF_spec hr
  obtain ⟨hex, hupw⟩ := applyUpdatesF_spec hu
  refine ⟨fun r hr' => (hk r hr').1, hpw, fun u hu' => ?_, hupw, fun u hu' r hr' he => ?_⟩
  · obtain ⟨l, hl⟩ := hex u hu'
    exact ⟨l, hbl.leaf_was hl⟩
  · obtain ⟨l, hl⟩ := hex u hu'
    have := (hk r hr').2
    rw [← he, hl] at this
    cases this

/-! ## `path_update_required` -/

theorem pathRequired_iff (b : Bundle) :
    pathRequired b = true ↔
      b.all = [] ∨ ∃ p ∈ b.updates ++ b.extInits ++ b.gces ++ b.removes, p.src ≠ .loc := by
  unfold pathRequired
  simp only [Bundle.length, Bool.or_eq_true, List.any_eq_true, bne_iff_ne, ne_eq, beq_iff_eq,
    List.length_eq_zero_iff, List.mem_append]
  constructor
  · rintro ((((⟨p, hp, hs⟩ | h) | ⟨p, hp, hs⟩) | ⟨p, hp, hs⟩) | ⟨p, hp, hs⟩)
    · exact Or.inr ⟨p, Or.inl (Or.inl (Or.inl hp)), hs⟩
    · exact Or.inl h
    · exact Or.inr ⟨p, Or.inl (Or.inl (Or.inr hp)), hs⟩
    · exact Or.inr ⟨p, Or.inl (Or.inr hp), hs⟩
    · exact Or.inr ⟨p, Or.inr hp, hs⟩
  · rintro (h | ⟨p, (((hp | hp) | hp) | hp), hs⟩)
    · exact Or.inl (Or.inl (Or.inl (Or.inr h)))
    · exact Or.inl (Or.inl (Or.inl (Or.inl ⟨p, hp, hs⟩)))
    · exact Or.inl (Or.inl (Or.inr ⟨p, hp, hs⟩))
    · exact Or.inl (Or.inr ⟨p, hp, hs⟩)
    · exact Or.inr ⟨p, hp, hs⟩

/-! ## decidable equality of results, for the evaluated examples in `Props/C10` -/

deriving instance DecidableEq for EditOut
deriving instance DecidableEq for Except

end MlsVerif.Proposals
