/-
Reflective lawfulness of the generated codec expressions: `okSpec s = true → Lawful (denote s)`, proved once by
induction on the expression from the laws of the combinators and hand models (`Proofs/CodecCustom.lean`,
`Props/C12Custom.lean`), plus the law of the new map combinator `Codec.mapOf`.
-/
import MlsVerif.Model.CodecSpec
import MlsVerif.Props.C12Custom

namespace MlsVerif.Codec
open Codec MlsVerif.Props.C12Custom

/-! ## `mapOf` -/

theorem mapOf_wf_inv {k : Schema} {v : Codec} {x : Value} (h : (mapOf k v).wf x = true) :
    ∃ kvs, x = .map kvs ∧ (∀ kv, kv ∈ kvs → WF k kv.1 = true ∧ v.wf kv.2 = true) ∧
      sortedKeys kvs = true := by
  cases x <;> simp only [mapOf] at h <;> try (cases h; done)
  rename_i kvs
  simp only [Bool.and_eq_true, List.all_eq_true] at h
  exact ⟨kvs, rfl, h.1, h.2⟩

theorem encodePair_inv {fk fv : Value → Except CodecErr Bytes} {kv : Value × Value} {bx : Bytes}
    (h : encodePair fk fv kv = .ok bx) : ∃ a c, fk kv.1 = .ok a ∧ fv kv.2 = .ok c ∧ bx = a ++ c := by
  unfold encodePair at h
  split at h
  · cases h
  · rename_i a ha
    split at h
    · cases h
    · rename_i c hc
      injection h with h
      exact ⟨a, c, ha, hc, h.symm⟩

theorem decodePair_inv {fk fv : Dec Value} {d r : Bytes} {kv : Value × Value}
    (h : decodePair fk fv d = .ok (kv, r)) :
    ∃ r1, fk d = .ok (kv.1, r1) ∧ fv r1 = .ok (kv.2, r) := by
  unfold decodePair at h
  split at h
  · cases h
  · rename_i x r1 h1
    split at h
    · cases h
    · rename_i y r2 h2
      injection h with h; injection h with e1 e2; subst e1 e2
      exact ⟨r1, h1, h2⟩

theorem lawful_mapOf (k : Schema) (v : Codec) (hk : Progress k = true) (hv : Lawful v)
    (hne : nonEmpty k = true ∨ v.ne = true) : Lawful (mapOf k v) where
  rt x b r hw he := by
    obtain ⟨kvs, rfl, hx, hs⟩ := mapOf_wf_inv hw
    simp only [mapOf, hs, if_true] at he
    split at he
    · cases he
    · rename_i buf hbuf
      obtain ⟨h1, rfl⟩ := encodeLenPrefixed_ok he
      have hl : LoopRel (decodePair (decode k) v.dec) buf kvs := by
        apply LoopRel_of_encodeList kvs buf _ hbuf
        intro kv hm bx hb
        obtain ⟨a, c, ha, hc, rfl⟩ := encodePair_inv hb
        refine ⟨fun r => ?_, ?_⟩
        · simp [decodePair, List.append_assoc, (encSpec_all k kv.1 a (hx kv hm).1 ha).2 hk (c ++ r),
            hv.rt kv.2 c r (hx kv hm).2 hc]
        · rw [List.length_append]
          rcases hne with hne | hne
          · have := nonEmpty_pos k kv.1 a hne (hx kv hm).1 ha; omega
          · have := hv.nepos kv.2 c hne (hx kv hm).2 hc; omega
      have hkw : KeysWF k kvs := fun kv hm => (hx kv hm).1
      have hins : insertAll kvs [] = some kvs := by
        have := insertAll_append k kvs [] (by simpa using hkw)
          (by simpa using (sortedKeys_iff_pairwise k kvs hkw).1 hs)
        simpa using this
      simp [mapOf, decodeCollection, decodeSplit_append buf r h1,
        decodeMapLoop_of_rel hl [] kvs hins]
  sz x b hw he := by
    obtain ⟨kvs, rfl, hx, hs⟩ := mapOf_wf_inv hw
    simp only [mapOf, hs, if_true] at he
    split at he
    · cases he
    · rename_i buf hbuf
      have hsz : sumBy (fun kv => MlsVerif.Codec.size k kv.1 + v.size kv.2) kvs = buf.length := by
        apply encodeList_length kvs buf _ hbuf
        intro kv hm bx hb
        obtain ⟨a, c, ha, hc, rfl⟩ := encodePair_inv hb
        rw [(encSpec_all k kv.1 a (hx kv hm).1 ha).1, hv.sz kv.2 c (hx kv hm).2 hc,
          List.length_append]
      simp only [mapOf, hsz]
      exact encodeLenPrefixed_length he
  dwf b x r h := by
    simp only [mapOf] at h
    split at h
    · cases h
    · rename_i m r' hd
      injection h with h; injection h with e1 e2; subst e1 e2
      obtain ⟨data, hl, hb, hi⟩ := decodeCollection_ok hd
      obtain ⟨kvs, hrel, hins⟩ := decodeMapLoop_ok_iff.1 hi
      have hwf : ∀ kv, kv ∈ kvs → WF k kv.1 = true ∧ v.wf kv.2 = true :=
        LoopRel_all (fun kv => WF k kv.1 = true ∧ v.wf kv.2 = true) hrel
          (fun d kv r hx => by
            obtain ⟨r1, h1, h2⟩ := decodePair_inv hx
            exact ⟨(decSpec_all k d kv.1 r1 h1).1, (hv.dwf r1 kv.2 r h2).1⟩)
      obtain ⟨hp, hmem, _⟩ := insertAll_spec k kvs [] m (fun kv hm => (hwf kv hm).1)
        (fun kv hm => by cases hm) List.Pairwise.nil hins
      have hmw : ∀ kv, kv ∈ m → WF k kv.1 = true ∧ v.wf kv.2 = true := fun kv hm =>
        hwf kv (by simpa using (hmem kv).1 hm)
      have hsorted : sortedKeys m = true :=
        (sortedKeys_iff_pairwise k m (fun kv hm => (hmw kv hm).1)).2 hp
      refine ⟨?_, _, hb, fun _ => by
        have := encodeVarint_length_pos data.length; rw [List.length_append]; omega⟩
      simp only [mapOf, Bool.and_eq_true, List.all_eq_true, hsorted, and_true]
      exact hmw
  nepos x b _ hw he := by
    obtain ⟨kvs, rfl, _, hs⟩ := mapOf_wf_inv hw
    simp only [mapOf, hs, if_true] at he
    split at he
    · cases he
    · exact encodeLenPrefixed_pos he

/-! ## `denote` -/

mutual
theorem ne_denote : ∀ s : CSpec, (denote s).ne = neSpec s
  | .ofSchema _ => rfl
  | .seq cs => by simp only [denote, neSpec, Codec.seq]; exact ne_denoteList cs
  | .opt _ => rfl
  | .vec _ => rfl
  | .tagged _ _ => rfl
  | .mapOf _ _ => rfl
  | .leafIndex => rfl
  | .extensionList => rfl
  | .proposal _ _ _ _ _ _ => rfl
  | .credential _ _ => rfl
  | .publicMessage _ => rfl
  | .authenticatedContent _ => rfl
  | .proposalInfo p => by
    simp [denote, neSpec, proposalInfo, Codec.seq, seqNe, ofSchema, senderSchema, nonEmpty]
  | .commitEffect _ _ => rfl
  | .secretKeyRatchet => rfl
theorem ne_denoteList : ∀ cs : List CSpec, seqNe (denoteList cs) = neList cs
  | [] => rfl
  | c :: cs => by simp only [denoteList, seqNe, neList, ne_denote c, ne_denoteList cs]
end

mutual
/-- The law bundle holds for the denotation of every codec expression that passes the (decidable) checker. -/
theorem lawful_denote : ∀ s : CSpec, okSpec s = true → Lawful (denote s)
  | .ofSchema s, h => lawful_ofSchema s (by simpa [okSpec] using h)
  | .seq cs, h => by
    simp only [denote]
    exact lawful_seq _ (lawful_denoteList cs (by simpa [okSpec] using h))
  | .opt c, h => by
    simp only [denote]
    exact lawful_opt _ (lawful_denote c (by simpa [okSpec] using h))
  | .vec c, h => by
    simp only [okSpec, Bool.and_eq_true] at h
    simp only [denote]
    exact lawful_vec _ (lawful_denote c h.2) (by rw [ne_denote]; exact h.1)
  | .tagged w cases, h => by
    simp only [okSpec, Bool.and_eq_true] at h
    simp only [denote]
    refine lawful_tagged w _ none _ 0 ?_ (fun d hd => by cases hd)
    intro t c hm
    exact lawful_denoteCases cases h.2 t c hm
  | .mapOf k v, h => by
    simp only [okSpec, Bool.and_eq_true, Bool.or_eq_true] at h
    simp only [denote]
    refine lawful_mapOf k _ h.1.2 (lawful_denote v h.2) ?_
    rcases h.1.1 with h1 | h1
    · exact .inl h1
    · exact .inr (by rw [ne_denote]; exact h1)
  | .leafIndex, _ => leafIndex_lawful
  | .extensionList, _ => lawful_extensionList
  | .proposal a u r p ri ei, h => by
    simp only [okSpec, Bool.and_eq_true] at h
    simp only [denote]
    exact proposal_lawful _ _ _ _ _ _ (lawful_denote a h.1.1.1.1.1) (lawful_denote u h.1.1.1.1.2)
      (lawful_denote r h.1.1.1.2) (lawful_denote p h.1.1.2) (lawful_denote ri h.1.2)
      (lawful_denote ei h.2)
  | .credential b x, h => by
    simp only [okSpec, Bool.and_eq_true] at h
    simp only [denote]
    exact credential_lawful _ _ (lawful_denote b h.1) (lawful_denote x h.2)
  | .publicMessage c, h => by
    simp only [denote]
    exact publicMessage_lawful _ (lawful_denote c (by simpa [okSpec] using h))
  | .authenticatedContent c, h => by
    simp only [denote]
    exact authenticatedContent_lawful _ (lawful_denote c (by simpa [okSpec] using h))
  | .proposalInfo p, h => by
    simp only [denote]
    exact proposalInfo_lawful _ (lawful_denote p (by simpa [okSpec] using h))
  | .commitEffect n r, h => by
    simp only [okSpec, Bool.and_eq_true] at h
    simp only [denote]
    exact commitEffect_lawful _ _ (lawful_denote n h.1) (lawful_denote r h.2)
  | .secretKeyRatchet, _ => secretKeyRatchet_lawful
theorem lawful_denoteList : ∀ cs : List CSpec, okList cs = true →
    ∀ c, c ∈ denoteList cs → Lawful c
  | [], _, c, hc => by cases hc
  | s :: ss, h, c, hc => by
    simp only [okList, Bool.and_eq_true] at h
    simp only [denoteList, List.mem_cons] at hc
    rcases hc with rfl | hc
    · exact lawful_denote s h.1
    · exact lawful_denoteList ss h.2 c hc
theorem lawful_denoteCases : ∀ cases : List (Nat × Option CSpec), okCases cases = true →
    ∀ t c, (t, some c) ∈ denoteCases cases → Lawful c
  | [], _, _, _, hc => by cases hc
  | (_, none) :: cs, h, t, c, hc => by
    simp only [okCases] at h
    simp only [denoteCases, List.mem_cons, Prod.mk.injEq] at hc
    rcases hc with ⟨_, hc⟩ | hc
    · cases hc
    · exact lawful_denoteCases cs h t c hc
  | (_, some s) :: cs, h, t, c, hc => by
    simp only [okCases, Bool.and_eq_true] at h
    simp only [denoteCases, List.mem_cons, Prod.mk.injEq, Option.some.injEq] at hc
    rcases hc with ⟨_, rfl⟩ | hc
    · exact lawful_denote s h.1
    · exact lawful_denoteCases cs h.2 t c hc
end

end MlsVerif.Codec
