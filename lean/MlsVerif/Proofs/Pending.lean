/-
Helper lemmas for C11 (`MlsVerif.Model.Pending`): the invariant `Inv` (well-formed commits and commit
attributes, pending commits, the `frozen` flag), the behaviour of `epochOf` / `stateReinit` under fuel
changes and appended commits, one equation per branch of `step`, the shape of every step
(`StepShape`), and the ancestry relation `Anc` on the tree of states with the history invariant `Hist`.
Core only.
-/
import MlsVerif.Model.Pending

namespace MlsVerif.Pending

/-! ### `epochOf` -/

/-- every commit was built on a state that existed before it -/
def CommitsWF (cs : List Commit) : Prop :=
  ∀ (k : Nat) (c : Commit), cs[k]? = some c → c.base ≤ k

/-- fuel sufficiency: any fuel above the state number gives the same epoch -/
theorem epochOf_fuel (cs : List Commit) (h : CommitsWF cs) :
    ∀ f1 f2 s, s < f1 → s < f2 → epochOf cs f1 s = epochOf cs f2 s
  | 0, _, _, h1, _ => absurd h1 (Nat.not_lt_zero _)
  | _ + 1, 0, _, _, h2 => absurd h2 (Nat.not_lt_zero _)
  | f1 + 1, f2 + 1, 0, _, _ => by simp [epochOf]
  | f1 + 1, f2 + 1, s + 1, h1, h2 => by
    simp only [epochOf]
    cases hc : cs[s]? with
    | none => rfl
    | some c =>
      have := h s c hc
      simp only []
      rw [epochOf_fuel cs h f1 f2 c.base (by omega) (by omega)]

/-- appending a commit does not change the epoch of the states that already exist -/
theorem epochOf_append (cs : List Commit) (c0 : Commit) (h : CommitsWF cs) :
    ∀ f s, s ≤ cs.length → epochOf (cs ++ [c0]) f s = epochOf cs f s
  | 0, _, _ => by simp [epochOf]
  | f + 1, 0, _ => by simp [epochOf]
  | f + 1, s + 1, hs => by
    have hlt : s < cs.length := hs
    simp only [epochOf]
    rw [List.getElem?_append_left hlt]
    cases hc : cs[s]? with
    | none => rfl
    | some c =>
      have := h s c hc
      simp only []
      rw [epochOf_append cs c0 h f c.base (by omega)]

/-- the state reached by commit `k` is one epoch after the state the commit was built on -/
theorem epoch_succ (w : World) (h : CommitsWF w.commits) (k : Nat) (c : Commit)
    (hk : w.commits[k]? = some c) : w.epoch (k + 1) = w.epoch c.base + 1 := by
  have hb := h k c hk
  simp only [World.epoch, epochOf, hk]
  rw [epochOf_fuel w.commits h (k + 1) (c.base + 1) c.base (by omega) (by omega)]

theorem epoch_zero (w : World) : w.epoch 0 = 0 := by simp [World.epoch, epochOf]

/-! ### worlds -/

/-- the world with one more commit -/
def addCommit (w : World) (c : Commit) : World := { w with commits := w.commits ++ [c] }

@[simp] theorem addCommit_members (w : World) (c : Commit) : (addCommit w c).members = w.members := rfl
@[simp] theorem addCommit_commits (w : World) (c : Commit) :
    (addCommit w c).commits = w.commits ++ [c] := rfl
@[simp] theorem setMember_commits (w : World) (m : Nat) (x : Member) :
    (setMember w m x).commits = w.commits := rfl
@[simp] theorem setMember_members (w : World) (m : Nat) (x : Member) :
    (setMember w m x).members = w.members.set m x := rfl
@[simp] theorem setMember_epoch (w : World) (m : Nat) (x : Member) (s : Nat) :
    (setMember w m x).epoch s = w.epoch s := rfl

theorem addCommit_epoch (w : World) (c : Commit) (h : CommitsWF w.commits) (s : Nat)
    (hs : s ≤ w.commits.length) : (addCommit w c).epoch s = w.epoch s :=
  epochOf_append w.commits c h (s + 1) s hs

theorem setMember_get_self (w : World) (m : Nat) (x y : Member) (h : w.members[m]? = some y) :
    (setMember w m x).members[m]? = some x := by
  have hlt : m < w.members.length := by
    rcases Nat.lt_or_ge m w.members.length with h' | h'
    · exact h'
    · rw [List.getElem?_eq_none h'] at h; cases h
  simp [hlt]

theorem setMember_get_ne (w : World) (m r : Nat) (x : Member) (h : r ≠ m) :
    (setMember w m x).members[r]? = w.members[r]? := by
  have : m ≠ r := fun e => h e.symm
  simp [this]

/-- looking a member up after `setMember`: either it is the one that was set, or nothing changed -/
theorem setMember_get_cases (w : World) (m r : Nat) (x z : Member)
    (h : (setMember w m x).members[r]? = some z) :
    (r = m ∧ z = x) ∨ (r ≠ m ∧ w.members[r]? = some z) := by
  by_cases hr : r = m
  · subst hr
    left
    simp only [setMember_members, List.getElem?_set] at h
    simp only [if_true] at h
    split at h
    · exact ⟨rfl, (Option.some.inj h).symm⟩
    · cases h
  · right; rw [setMember_get_ne w m r x hr] at h; exact ⟨hr, h⟩

theorem setMember_same (w : World) (m : Nat) (x : Member) (h : w.members[m]? = some x) :
    (setMember w m x).members = w.members := by
  simp only [setMember_members]
  apply List.ext_getElem?
  intro i
  rw [List.getElem?_set]
  by_cases hi : m = i
  · subst hi
    have hlt : m < w.members.length := by
      rcases Nat.lt_or_ge m w.members.length with h' | h'
      · exact h'
      · rw [List.getElem?_eq_none h'] at h; cases h
    rw [List.getElem?_eq_getElem hlt] at h
    simp [hlt, Option.some.inj h]
  · simp [hi]

theorem getElem?_lt {α} (l : List α) (i : Nat) (x : α) (h : l[i]? = some x) : i < l.length := by
  rcases Nat.lt_or_ge i l.length with h' | h'
  · exact h'
  · rw [List.getElem?_eq_none h'] at h; cases h

/-! ### the invariant -/

/-- state `s` was reached by a reinit commit -/
def stateReinit (cs : List Commit) : Nat → Bool
  | 0 => false
  | k + 1 =>
    match cs[k]? with
    | some c => c.kind.reinit
    | none => false

theorem stateReinit_append (cs : List Commit) (c0 : Commit) (s : Nat) (hs : s ≤ cs.length) :
    stateReinit (cs ++ [c0]) s = stateReinit cs s := by
  cases s with
  | zero => rfl
  | succ k =>
    have hlt : k < cs.length := hs
    simp only [stateReinit]
    rw [List.getElem?_append_left hlt]

theorem stateReinit_succ (cs : List Commit) (k : Nat) (c : Commit) (h : cs[k]? = some c) :
    stateReinit cs (k + 1) = c.kind.reinit := by
  simp only [stateReinit, h]

theorem Kind.valid_iff (kd : Kind) (n m : Nat) :
    kd.valid n m = true ↔ ∀ j, kd.removes = some j → j ≠ m ∧ j < n := by
  unfold Kind.valid
  cases h : kd.removes with
  | none => simp
  | some j => simp

structure Inv (w : World) : Prop where
  /-- states are created after their base; authors are members -/
  commit_wf : ∀ (k : Nat) (c : Commit), w.commits[k]? = some c → c.base ≤ k ∧ c.author < w.members.length
  /-- a commit removes nobody, or a member other than its author -/
  kind_wf : ∀ (k : Nat) (c : Commit), w.commits[k]? = some c →
    ∀ j, c.kind.removes = some j → j ≠ c.author ∧ j < w.members.length
  /-- no commit is built on a state reached by a reinit commit -/
  base_live : ∀ (k : Nat) (c : Commit), w.commits[k]? = some c → stateReinit w.commits c.base = false
  /-- every member is in an existing state -/
  cur_le : ∀ (m : Nat) (x : Member), w.members[m]? = some x → x.cur ≤ w.commits.length
  /-- a pending commit is the member's own commit built on its current state -/
  pending_wf : ∀ (m : Nat) (x : Member) (k : Nat), w.members[m]? = some x → x.pending = some k →
    ∃ c, w.commits[k]? = some c ∧ c.author = m ∧ c.base = x.cur
  /-- a member is frozen exactly when its current state was reached by a reinit commit -/
  frozen_wf : ∀ (m : Nat) (x : Member), w.members[m]? = some x → x.frozen = stateReinit w.commits x.cur
  /-- a frozen member has no pending commit -/
  frozen_pending : ∀ (m : Nat) (x : Member), w.members[m]? = some x → x.frozen = true → x.pending = none

theorem Inv.commitsWF {w : World} (hi : Inv w) : CommitsWF w.commits :=
  fun k c h => (hi.commit_wf k c h).1

theorem Inv.setMember {w : World} (hi : Inv w) (m : Nat) (y : Member)
    (hcur : y.cur ≤ w.commits.length)
    (hp : ∀ k, y.pending = some k → ∃ c, w.commits[k]? = some c ∧ c.author = m ∧ c.base = y.cur)
    (hf : y.frozen = stateReinit w.commits y.cur) (hfp : y.frozen = true → y.pending = none) :
    Inv (setMember w m y) where
  commit_wf k c h := by
    have := hi.commit_wf k c h
    simpa using this
  kind_wf k c h := by
    have := hi.kind_wf k c h
    simpa using this
  base_live k c h := hi.base_live k c h
  cur_le r z h := by
    rcases setMember_get_cases w m r y z h with ⟨_, rfl⟩ | ⟨_, h'⟩
    · exact hcur
    · exact hi.cur_le r z h'
  pending_wf r z k h hk := by
    rcases setMember_get_cases w m r y z h with ⟨rfl, rfl⟩ | ⟨_, h'⟩
    · exact hp k hk
    · exact hi.pending_wf r z k h' hk
  frozen_wf r z h := by
    rcases setMember_get_cases w m r y z h with ⟨_, rfl⟩ | ⟨_, h'⟩
    · exact hf
    · exact hi.frozen_wf r z h'
  frozen_pending r z h hz := by
    rcases setMember_get_cases w m r y z h with ⟨_, rfl⟩ | ⟨_, h'⟩
    · exact hfp hz
    · exact hi.frozen_pending r z h' hz

/-- a member that installs an existing commit built on a live state keeps the invariant -/
theorem Inv.install {w : World} (hi : Inv w) (m k : Nat) (c : Commit) (hc : w.commits[k]? = some c) :
    Inv (Pending.setMember w m (Pending.install k c)) :=
  Inv.setMember hi m (Pending.install k c) (getElem?_lt _ _ _ hc) (fun k hk => by cases hk)
    (by simp only [Pending.install]; exact (stateReinit_succ _ k c hc).symm) (fun _ => rfl)

theorem Inv.addCommit {w : World} (hi : Inv w) (c : Commit) (hb : c.base ≤ w.commits.length)
    (ha : c.author < w.members.length)
    (hk : ∀ j, c.kind.removes = some j → j ≠ c.author ∧ j < w.members.length)
    (hl : stateReinit w.commits c.base = false) : Inv (addCommit w c) := by
  -- the commit at position `k` of the longer list: an old one, or the new one at the end
  have hget : ∀ (k : Nat) (c' : Commit), (w.commits ++ [c])[k]? = some c' →
      w.commits[k]? = some c' ∨ (k = w.commits.length ∧ c' = c) := by
    intro k c' h
    rcases Nat.lt_or_ge k w.commits.length with hk | hk
    · rw [List.getElem?_append_left hk] at h; exact .inl h
    · rw [List.getElem?_append_right hk] at h
      have hlt := getElem?_lt _ _ _ h
      simp only [List.length_singleton] at hlt
      have hk0 : k - w.commits.length = 0 := by omega
      rw [hk0] at h
      simp only [List.getElem?_cons_zero, Option.some.injEq] at h
      exact .inr ⟨by omega, h.symm⟩
  refine ⟨?_, ?_, ?_, ?_, ?_, ?_, ?_⟩
  · intro k c' h
    simp only [addCommit_commits, addCommit_members] at h ⊢
    rcases hget k c' h with h' | ⟨rfl, rfl⟩
    · exact hi.commit_wf k c' h'
    · exact ⟨hb, ha⟩
  · intro k c' h
    simp only [addCommit_commits, addCommit_members] at h ⊢
    rcases hget k c' h with h' | ⟨rfl, rfl⟩
    · exact hi.kind_wf k c' h'
    · exact hk
  · intro k c' h
    simp only [addCommit_commits] at h ⊢
    rcases hget k c' h with h' | ⟨rfl, rfl⟩
    · have hb' := (hi.commit_wf k c' h').1
      have hlt := getElem?_lt _ _ _ h'
      rw [stateReinit_append _ _ _ (by omega)]; exact hi.base_live k c' h'
    · rw [stateReinit_append _ _ _ hb]; exact hl
  · intro m x h
    have := hi.cur_le m x h
    simp only [addCommit_commits, List.length_append, List.length_singleton]; omega
  · intro m x k h hk
    obtain ⟨c', h1, h2, h3⟩ := hi.pending_wf m x k h hk
    refine ⟨c', ?_, h2, h3⟩
    simp only [addCommit_commits]
    rw [List.getElem?_append_left (getElem?_lt _ _ _ h1)]; exact h1
  · intro m x h
    simp only [addCommit_commits, addCommit_members] at h ⊢
    rw [stateReinit_append _ _ _ (hi.cur_le m x h)]; exact hi.frozen_wf m x h
  · intro m x h hz
    exact hi.frozen_pending m x h hz

theorem addCommit_get_last (w : World) (c : Commit) :
    (addCommit w c).commits[w.commits.length]? = some c := by
  simp [addCommit_commits]

theorem addCommit_get_old (w : World) (c c' : Commit) (k : Nat) (h : w.commits[k]? = some c') :
    (addCommit w c).commits[k]? = some c' := by
  simp only [addCommit_commits]
  rw [List.getElem?_append_left (getElem?_lt _ _ _ h)]; exact h

/-- a member that is not frozen is in a live state, and conversely -/
theorem Inv.frozen_false_iff {w : World} (hi : Inv w) (m : Nat) (x : Member)
    (hm : w.members[m]? = some x) : x.frozen = false ↔ stateReinit w.commits x.cur = false := by
  rw [hi.frozen_wf m x hm]

/-- under the invariant a member standing on the base of some commit is not frozen -/
theorem Inv.on_base_not_frozen {w : World} (hi : Inv w) (m k : Nat) (x : Member) (c : Commit)
    (hm : w.members[m]? = some x) (hc : w.commits[k]? = some c) (hb : c.base = x.cur) :
    x.frozen = false := by
  rw [hi.frozen_wf m x hm, ← hb]; exact hi.base_live k c hc

/-! ### `step`, branch by branch -/

section step
variable (w : World) (m k : Nat) (x : Member) (c : Commit)

theorem step_build_bad (d : Bool) (kd : Kind) (h : w.members[m]? = none) :
    step w (.build m d kd) = (w, .badOp) := by
  simp [step, h]

theorem step_build_pending (d : Bool) (kd : Kind) (h : w.members[m]? = some x)
    (hp : x.pending = some k) : step w (.build m d kd) = (w, .existingPendingCommit) := by
  simp [step, h, hp]

theorem step_build_frozen (d : Bool) (kd : Kind) (h : w.members[m]? = some x)
    (hp : x.pending = none) (hf : x.frozen = true) :
    step w (.build m d kd) = (w, .groupUsedAfterReInit) := by
  simp [step, h, hp, hf]

theorem step_build_invalid (d : Bool) (kd : Kind) (h : w.members[m]? = some x)
    (hp : x.pending = none) (hf : x.frozen = false) (hv : kd.valid w.members.length m = false) :
    step w (.build m d kd) = (w, .badOp) := by
  simp [step, h, hp, hf, hv]

theorem step_build_detached (kd : Kind) (h : w.members[m]? = some x) (hp : x.pending = none)
    (hf : x.frozen = false) (hv : kd.valid w.members.length m = true) :
    step w (.build m true kd) = (addCommit w ⟨m, x.cur, kd⟩, .ok) := by
  simp [step, h, hp, hf, hv, addCommit]

theorem step_build_attached (kd : Kind) (h : w.members[m]? = some x) (hp : x.pending = none)
    (hf : x.frozen = false) (hv : kd.valid w.members.length m = true) :
    step w (.build m false kd) =
      (setMember (addCommit w ⟨m, x.cur, kd⟩) m { x with pending := some w.commits.length }, .ok) := by
  simp [step, h, hp, hf, hv, addCommit]

theorem step_clear_bad (h : w.members[m]? = none) : step w (.clear m) = (w, .badOp) := by
  simp [step, h]

theorem step_clear_ok (h : w.members[m]? = some x) :
    step w (.clear m) = (setMember w m { x with pending := none }, .ok) := by
  simp [step, h]

theorem step_apply_bad (h : w.members[m]? = none) : step w (.apply m) = (w, .badOp) := by
  simp [step, h]

theorem step_apply_none (h : w.members[m]? = some x) (hp : x.pending = none) :
    step w (.apply m) = (w, .pendingCommitNotFound) := by
  simp [step, h, hp]

theorem step_apply_dangling (h : w.members[m]? = some x) (hp : x.pending = some k)
    (hc : w.commits[k]? = none) : step w (.apply m) = (w, .badOp) := by
  simp [step, h, hp, hc]

theorem step_apply_ok (h : w.members[m]? = some x) (hp : x.pending = some k)
    (hc : w.commits[k]? = some c) : step w (.apply m) = (setMember w m (install k c), .ok) := by
  simp [step, h, hp, hc]

theorem step_applyDet_bad (h : w.members[m]? = none ∨ w.commits[k]? = none) :
    step w (.applyDet m k) = (w, .badOp) := by
  simp only [step]
  split
  · rename_i h1 h2; rcases h with h | h <;> simp_all
  · rfl

theorem step_applyDet_author (h : w.members[m]? = some x) (hc : w.commits[k]? = some c)
    (ha : c.author ≠ m) : step w (.applyDet m k) = (w, .badOp) := by
  simp [step, h, hc, ha]

theorem step_applyDet_stale (h : w.members[m]? = some x) (hc : w.commits[k]? = some c)
    (ha : c.author = m) (he : w.epoch c.base ≠ w.epoch x.cur) :
    step w (.applyDet m k) = (w, .invalidEpoch) := by
  simp [step, h, hc, ha, he]

theorem step_applyDet_frozen (h : w.members[m]? = some x) (hc : w.commits[k]? = some c)
    (ha : c.author = m) (he : w.epoch c.base = w.epoch x.cur) (hf : x.frozen = true) :
    step w (.applyDet m k) = (w, .groupUsedAfterReInit) := by
  simp [step, h, hc, ha, he, hf]

theorem step_applyDet_ok (h : w.members[m]? = some x) (hc : w.commits[k]? = some c)
    (ha : c.author = m) (he : w.epoch c.base = w.epoch x.cur) (hf : x.frozen = false) :
    step w (.applyDet m k) = (setMember w m (install k c), .ok) := by
  simp [step, h, hc, ha, he, hf]

theorem step_deliver_bad (h : w.members[m]? = none ∨ w.commits[k]? = none) :
    step w (.deliver m k) = (w, .badOp) := by
  simp only [step]
  split
  · rename_i h1 h2; rcases h with h | h <;> simp_all
  · rfl

/-- `deliver` on an existing member and commit: the chain of checks, in order -/
theorem step_deliver_eq (h : w.members[m]? = some x) (hc : w.commits[k]? = some c) :
    step w (.deliver m k) =
      if x.pending = some k then (setMember w m (install k c), .ok)
      else if w.epoch c.base ≠ w.epoch x.cur then (w, .invalidEpoch)
      else if c.author = m ∧ c.kind.hasPath = true then (w, .cantProcessMessageFromSelf)
      else if c.base ≠ x.cur then (w, .invalidEpoch)
      else if x.frozen = true then (w, .groupUsedAfterReInit)
      else if c.kind.removes = some m then (setMember w m { x with pending := none }, .ok)
      else (setMember w m (install k c), .ok) := by
  simp only [step, h, hc]

theorem step_deliver_echo (h : w.members[m]? = some x) (hc : w.commits[k]? = some c)
    (hp : x.pending = some k) :
    step w (.deliver m k) = (setMember w m (install k c), .ok) := by
  rw [step_deliver_eq w m k x c h hc, if_pos hp]

theorem step_deliver_stale (h : w.members[m]? = some x) (hc : w.commits[k]? = some c)
    (hp : x.pending ≠ some k) (he : w.epoch c.base ≠ w.epoch x.cur) :
    step w (.deliver m k) = (w, .invalidEpoch) := by
  rw [step_deliver_eq w m k x c h hc, if_neg hp, if_pos he]

/-- own commit (not the pending one) with an update path -/
theorem step_deliver_self (h : w.members[m]? = some x) (hc : w.commits[k]? = some c)
    (hp : x.pending ≠ some k) (he : w.epoch c.base = w.epoch x.cur) (ha : c.author = m)
    (hpath : c.kind.hasPath = true) :
    step w (.deliver m k) = (w, .cantProcessMessageFromSelf) := by
  rw [step_deliver_eq w m k x c h hc, if_neg hp, if_neg (fun hne => hne he), if_pos ⟨ha, hpath⟩]

theorem step_deliver_branch (h : w.members[m]? = some x) (hc : w.commits[k]? = some c)
    (hp : x.pending ≠ some k) (he : w.epoch c.base = w.epoch x.cur)
    (ha : ¬ (c.author = m ∧ c.kind.hasPath = true))
    (hb : c.base ≠ x.cur) : step w (.deliver m k) = (w, .invalidEpoch) := by
  rw [step_deliver_eq w m k x c h hc, if_neg hp, if_neg (fun hne => hne he), if_neg ha, if_pos hb]

theorem step_deliver_frozen (h : w.members[m]? = some x) (hc : w.commits[k]? = some c)
    (hp : x.pending ≠ some k) (ha : ¬ (c.author = m ∧ c.kind.hasPath = true))
    (hb : c.base = x.cur) (hf : x.frozen = true) :
    step w (.deliver m k) = (w, .groupUsedAfterReInit) := by
  rw [step_deliver_eq w m k x c h hc, if_neg hp, if_neg (fun hne => hne (by rw [hb])), if_neg ha,
    if_neg (fun hne => hne hb), if_pos hf]

/-- the receiver is removed by the commit: it stays where it is and loses its pending commit -/
theorem step_deliver_removed (h : w.members[m]? = some x) (hc : w.commits[k]? = some c)
    (hp : x.pending ≠ some k) (ha : ¬ (c.author = m ∧ c.kind.hasPath = true))
    (hb : c.base = x.cur) (hf : x.frozen = false) (hr : c.kind.removes = some m) :
    step w (.deliver m k) = (setMember w m { x with pending := none }, .ok) := by
  rw [step_deliver_eq w m k x c h hc, if_neg hp, if_neg (fun hne => hne (by rw [hb])), if_neg ha,
    if_neg (fun hne => hne hb), if_neg (by rw [hf]; exact Bool.false_ne_true), if_pos hr]

/-- somebody else's commit, or an own commit without an update path -/
theorem step_deliver_ok (h : w.members[m]? = some x) (hc : w.commits[k]? = some c)
    (hp : x.pending ≠ some k) (ha : ¬ (c.author = m ∧ c.kind.hasPath = true))
    (hb : c.base = x.cur) (hf : x.frozen = false) (hr : c.kind.removes ≠ some m) :
    step w (.deliver m k) = (setMember w m (install k c), .ok) := by
  rw [step_deliver_eq w m k x c h hc, if_neg hp, if_neg (fun hne => hne (by rw [hb])), if_neg ha,
    if_neg (fun hne => hne hb), if_neg (by rw [hf]; exact Bool.false_ne_true), if_neg hr]

end step

/-- the shape of every step: an error leaves the world alone; a success is one of six updates -/
inductive StepShape (w : World) (op : Op) : World × Res → Prop
  | err (r : Res) (h : r ≠ .ok) : StepShape w op (w, r)
  | buildDet (m : Nat) (x : Member) (kd : Kind) (hop : op = .build m true kd)
      (hm : w.members[m]? = some x) (hp : x.pending = none) (hf : x.frozen = false)
      (hv : kd.valid w.members.length m = true) : StepShape w op (addCommit w ⟨m, x.cur, kd⟩, .ok)
  | buildAtt (m : Nat) (x : Member) (kd : Kind) (hop : op = .build m false kd)
      (hm : w.members[m]? = some x) (hp : x.pending = none) (hf : x.frozen = false)
      (hv : kd.valid w.members.length m = true) :
      StepShape w op
        (setMember (addCommit w ⟨m, x.cur, kd⟩) m { x with pending := some w.commits.length }, .ok)
  | clear (m : Nat) (x : Member) (hop : op = .clear m) (hm : w.members[m]? = some x) :
      StepShape w op (setMember w m { x with pending := none }, .ok)
  /-- own commit: `apply`, or `deliver` of the echo -/
  | own (m k : Nat) (x : Member) (c : Commit) (hop : op = .apply m ∨ op = .deliver m k)
      (hm : w.members[m]? = some x) (hp : x.pending = some k) (hc : w.commits[k]? = some c) :
      StepShape w op (setMember w m (install k c), .ok)
  /-- `applyDet`, or `deliver` of a commit that is processed (somebody else's, or an own one without
  path) and does not remove the receiver: accepted on the epoch number -/
  | move (m k : Nat) (x : Member) (c : Commit) (hop : op = .applyDet m k ∨ op = .deliver m k)
      (hm : w.members[m]? = some x) (hc : w.commits[k]? = some c)
      (he : w.epoch c.base = w.epoch x.cur) (hcase : c.author = m ∨ c.base = x.cur)
      (hf : x.frozen = false) (hnr : c.kind.removes = some m → c.author = m) :
      StepShape w op (setMember w m (install k c), .ok)
  /-- `deliver` of a commit that removes the receiver: it stays, its pending commit is discarded -/
  | removed (m k : Nat) (x : Member) (c : Commit) (hop : op = .deliver m k)
      (hm : w.members[m]? = some x) (hc : w.commits[k]? = some c) (hp : x.pending ≠ some k)
      (hb : c.base = x.cur) (hf : x.frozen = false) (hr : c.kind.removes = some m) :
      StepShape w op (setMember w m { x with pending := none }, .ok)

theorem step_shape (w : World) (op : Op) : StepShape w op (step w op) := by
  cases op with
  | build m d kd =>
    cases hm : w.members[m]? with
    | none => rw [step_build_bad w m d kd hm]; exact .err _ (by decide)
    | some x =>
      cases hp : x.pending with
      | some k => rw [step_build_pending w m k x d kd hm hp]; exact .err _ (by decide)
      | none =>
        cases hf : x.frozen with
        | true => rw [step_build_frozen w m x d kd hm hp hf]; exact .err _ (by decide)
        | false =>
          cases hv : kd.valid w.members.length m with
          | false => rw [step_build_invalid w m x d kd hm hp hf hv]; exact .err _ (by decide)
          | true =>
            cases d
            · rw [step_build_attached w m x kd hm hp hf hv]; exact .buildAtt m x kd rfl hm hp hf hv
            · rw [step_build_detached w m x kd hm hp hf hv]; exact .buildDet m x kd rfl hm hp hf hv
  | clear m =>
    cases hm : w.members[m]? with
    | none => rw [step_clear_bad w m hm]; exact .err _ (by decide)
    | some x => rw [step_clear_ok w m x hm]; exact .clear m x rfl hm
  | apply m =>
    cases hm : w.members[m]? with
    | none => rw [step_apply_bad w m hm]; exact .err _ (by decide)
    | some x =>
      cases hp : x.pending with
      | none => rw [step_apply_none w m x hm hp]; exact .err _ (by decide)
      | some k =>
        cases hc : w.commits[k]? with
        | none => rw [step_apply_dangling w m k x hm hp hc]; exact .err _ (by decide)
        | some c => rw [step_apply_ok w m k x c hm hp hc]; exact .own m k x c (.inl rfl) hm hp hc
  | applyDet m k =>
    cases hm : w.members[m]? with
    | none => rw [step_applyDet_bad w m k (.inl hm)]; exact .err _ (by decide)
    | some x =>
      cases hc : w.commits[k]? with
      | none => rw [step_applyDet_bad w m k (.inr hc)]; exact .err _ (by decide)
      | some c =>
        by_cases ha : c.author = m
        · by_cases he : w.epoch c.base = w.epoch x.cur
          · cases hf : x.frozen with
            | true => rw [step_applyDet_frozen w m k x c hm hc ha he hf]; exact .err _ (by decide)
            | false =>
              rw [step_applyDet_ok w m k x c hm hc ha he hf]
              exact .move m k x c (.inl rfl) hm hc he (.inl ha) hf (fun _ => ha)
          · rw [step_applyDet_stale w m k x c hm hc ha he]; exact .err _ (by decide)
        · rw [step_applyDet_author w m k x c hm hc ha]; exact .err _ (by decide)
  | deliver m k =>
    cases hm : w.members[m]? with
    | none => rw [step_deliver_bad w m k (.inl hm)]; exact .err _ (by decide)
    | some x =>
      cases hc : w.commits[k]? with
      | none => rw [step_deliver_bad w m k (.inr hc)]; exact .err _ (by decide)
      | some c =>
        by_cases hp : x.pending = some k
        · rw [step_deliver_echo w m k x c hm hc hp]; exact .own m k x c (.inr rfl) hm hp hc
        · by_cases he : w.epoch c.base = w.epoch x.cur
          · by_cases ha : c.author = m ∧ c.kind.hasPath = true
            · rw [step_deliver_self w m k x c hm hc hp he ha.1 ha.2]; exact .err _ (by decide)
            · by_cases hb : c.base = x.cur
              · cases hf : x.frozen with
                | true => rw [step_deliver_frozen w m k x c hm hc hp ha hb hf]; exact .err _ (by decide)
                | false =>
                  by_cases hr : c.kind.removes = some m
                  · rw [step_deliver_removed w m k x c hm hc hp ha hb hf hr]
                    exact .removed m k x c rfl hm hc hp hb hf hr
                  · rw [step_deliver_ok w m k x c hm hc hp ha hb hf hr]
                    exact .move m k x c (.inr rfl) hm hc he (.inr hb) hf (fun h => absurd h hr)
              · rw [step_deliver_branch w m k x c hm hc hp he ha hb]; exact .err _ (by decide)
          · rw [step_deliver_stale w m k x c hm hc hp he]; exact .err _ (by decide)

/-! ### history: a member's own commits are built on states it went through -/

/-- `Anc cs a s`: state `a` is `s` or one of the states below `s` in the tree of states -/
inductive Anc (cs : List Commit) : Nat → Nat → Prop
  | refl (s : Nat) : Anc cs s s
  | up (a k : Nat) (c : Commit) (hk : cs[k]? = some c) (h : Anc cs a c.base) : Anc cs a (k + 1)

theorem Anc.trans {cs : List Commit} {a b s : Nat} (h1 : Anc cs a b) (h2 : Anc cs b s) :
    Anc cs a s := by
  induction h2 with
  | refl => exact h1
  | up k c hk _ ih => exact .up a k c hk ih

theorem Anc.append {cs : List Commit} (c0 : Commit) {a s : Nat} (h : Anc cs a s) :
    Anc (cs ++ [c0]) a s := by
  induction h with
  | refl => exact .refl _
  | up k c hk _ ih =>
    exact .up a k c (by rw [List.getElem?_append_left (getElem?_lt _ _ _ hk)]; exact hk) ih

/-- a proper ancestor has a strictly smaller epoch -/
theorem Anc.eq_or_lt (w : World) (hwf : CommitsWF w.commits) {a s : Nat}
    (h : Anc w.commits a s) : a = s ∨ w.epoch a < w.epoch s := by
  induction h with
  | refl => exact .inl rfl
  | up k c hk _ ih =>
    right
    rw [epoch_succ w hwf k c hk]
    rcases ih with e | e
    · rw [e]; omega
    · omega

/-- an ancestor is an older state -/
theorem Anc.le {cs : List Commit} (hwf : CommitsWF cs) {a s : Nat} (h : Anc cs a s) : a ≤ s := by
  induction h with
  | refl => exact Nat.le_refl _
  | up k c hk _ ih => have := hwf k c hk; omega

/-- appending a commit creates no ancestry among the states that already exist -/
theorem Anc.of_append {cs : List Commit} (hwf : CommitsWF cs) (c0 : Commit) {a s : Nat}
    (h : Anc (cs ++ [c0]) a s) (hs : s ≤ cs.length) : Anc cs a s := by
  induction h with
  | refl => exact .refl _
  | up k c hk _ ih =>
    have hlt : k < cs.length := hs
    rw [List.getElem?_append_left hlt] at hk
    have := hwf k c hk
    exact .up a k c hk (ih (by omega))

/-- ancestry survives any extension of the commit list -/
theorem Anc.mono {cs cs' : List Commit}
    (hsub : ∀ (k : Nat) (c : Commit), cs[k]? = some c → cs'[k]? = some c)
    {a s : Nat} (h : Anc cs a s) : Anc cs' a s := by
  induction h with
  | refl => exact .refl _
  | up k c hk _ ih => exact .up a k c (hsub k c hk) ih

/-- the ancestors of `k + 1`: itself, and the ancestors of the base of commit `k` -/
theorem Anc.succ_cases {cs : List Commit} {a k : Nat} (h : Anc cs a (k + 1)) :
    a = k + 1 ∨ ∃ c, cs[k]? = some c ∧ Anc cs a c.base := by
  cases h with
  | refl => exact .inl rfl
  | up _ c hk h => exact .inr ⟨c, hk, h⟩

/-- every commit was built on a state that its author's current state descends from -/
def Hist (w : World) : Prop :=
  ∀ (k : Nat) (c : Commit) (x : Member), w.commits[k]? = some c → w.members[c.author]? = some x →
    Anc w.commits c.base x.cur

theorem Hist.setMember {w : World} (hh : Hist w) (m : Nat) (x y : Member)
    (hm : w.members[m]? = some x) (hanc : Anc w.commits x.cur y.cur) : Hist (setMember w m y) := by
  intro k c z hc hz
  simp only [setMember_commits] at hc ⊢
  rcases setMember_get_cases w m c.author y z hz with ⟨ha, rfl⟩ | ⟨_, hz'⟩
  · exact (hh k c x hc (by rw [ha]; exact hm)).trans hanc
  · exact hh k c z hc hz'

theorem Hist.addCommit {w : World} (hh : Hist w) (m : Nat) (x : Member) (kd : Kind)
    (hm : w.members[m]? = some x) : Hist (addCommit w ⟨m, x.cur, kd⟩) := by
  intro k c z hc hz
  simp only [addCommit_commits, addCommit_members] at hc hz ⊢
  rcases Nat.lt_or_ge k w.commits.length with hk | hk
  · rw [List.getElem?_append_left hk] at hc
    exact (hh k c z hc hz).append _
  · rw [List.getElem?_append_right hk] at hc
    have hlt := getElem?_lt _ _ _ hc
    simp only [List.length_singleton] at hlt
    have hk0 : k - w.commits.length = 0 := by omega
    rw [hk0] at hc
    simp only [List.getElem?_cons_zero, Option.some.injEq] at hc
    subst hc
    simp only at hz ⊢
    rw [hm] at hz; cases hz
    exact .refl _

/-- commits are never changed or deleted -/
theorem step_commits_get (w : World) (op : Op) (k : Nat) (c : Commit) (h : w.commits[k]? = some c) :
    (step w op).1.commits[k]? = some c := by
  have hs := step_shape w op
  generalize step w op = r at hs
  cases hs with
  | err r hne => exact h
  | buildDet m x kd hop hm hp hf hv => exact addCommit_get_old w _ c k h
  | buildAtt m x kd hop hm hp hf hv => exact addCommit_get_old w _ c k h
  | clear m x hop hm => exact h
  | own m k0 x c0 hop hm hp hc => exact h
  | move m k0 x c0 hop hm hc he hcase hf hnr => exact h
  | removed m k0 x c0 hop hm hc hp hb hf hr => exact h

/-- the element at position `k` of a list with one more element -/
theorem append_singleton_get {α} (l : List α) (a b : α) (k : Nat) (h : (l ++ [a])[k]? = some b) :
    l[k]? = some b ∨ (k = l.length ∧ b = a) := by
  rcases Nat.lt_or_ge k l.length with hk | hk
  · rw [List.getElem?_append_left hk] at h; exact .inl h
  · rw [List.getElem?_append_right hk] at h
    have hlt := getElem?_lt _ _ _ h
    simp only [List.length_singleton] at hlt
    have hk0 : k - l.length = 0 := by omega
    rw [hk0] at h
    simp only [List.getElem?_cons_zero, Option.some.injEq] at h
    exact .inr ⟨by omega, h.symm⟩

/-! ### `run` -/

theorem run_nil (w : World) : run w [] = (w, []) := rfl

theorem run_cons (w : World) (op : Op) (ops : List Op) :
    run w (op :: ops) = ((run (step w op).1 ops).1, (step w op).2 :: (run (step w op).1 ops).2) := rfl

theorem run_append_fst (w : World) (ops1 ops2 : List Op) :
    (run w (ops1 ++ ops2)).1 = (run (run w ops1).1 ops2).1 := by
  induction ops1 generalizing w with
  | nil => rfl
  | cons op ops ih => simp only [List.cons_append, run_cons]; exact ih _

theorem run_snoc_fst (w : World) (ops : List Op) (op : Op) :
    (run w (ops ++ [op])).1 = (step (run w ops).1 op).1 := by
  rw [run_append_fst]; rfl

theorem run_length (w : World) (ops : List Op) : (run w ops).2.length = ops.length := by
  induction ops generalizing w with
  | nil => rfl
  | cons op ops ih => simp only [run_cons, List.length_cons, ih]

end MlsVerif.Pending
