/-
Helper lemmas for C11 (`MlsVerif.Model.Pending`): the invariant `Inv`, the behaviour of `epochOf` under
fuel changes and appended commits, and one equation per branch of `step`.
Core only.
-/
import MlsVerif.Model.Pending

namespace MlsVerif.Pending

/-! ### `epochOf` -/

/-- every commit was built on a state that existed before it -/
def CommitsWF (cs : List Commit) : Prop :=
  ∀ (k : Nat) (c : Commit), cs[k]? = some c → c.base ≤ k

/-- fuel sufficiency: any fuel above the state number gives the same epoch -/
theorem epochOf_fuel (cs : List Commit) (h : CommitsWF cs) :
    ∀ f1 f2 s, s < f1 → s < f2 → epochOf cs f1 s = epochOf cs f2 s
  | 0, _, _, h1, _ => absurd h1 (Nat.not_lt_zero _)
  | _ + 1, 0, _, _, h2 => absurd h2 (Nat.not_lt_zero _)
  | f1 + 1, f2 + 1, 0, _, _ => by simp [epochOf]
  | f1 + 1, f2 + 1, s + 1, h1, h2 => by
    simp only [epochOf]
    cases hc : cs[s]? with
    | none => rfl
    | some c =>
      have := h s c hc
      simp only []
      rw [epochOf_fuel cs h f1 f2 c.base (by omega) (by omega)]

/-- appending a commit does not change the epoch of the states that already exist -/
theorem epochOf_append (cs : List Commit) (c0 : Commit) (h : CommitsWF cs) :
    ∀ f s, s ≤ cs.length → epochOf (cs ++ [c0]) f s = epochOf cs f s
  | 0, _, _ => by simp [epochOf]
  | f + 1, 0, _ => by simp [epochOf]
  | f + 1, s + 1, hs => by
    have hlt : s < cs.length := hs
    simp only [epochOf]
    rw [List.getElem?_append_left hlt]
    cases hc : cs[s]? with
    | none => rfl
    | some c =>
      have := h s c hc
      simp only []
      rw [epochOf_append cs c0 h f c.base (by omega)]

/-- the state reached by commit `k` is one epoch after the state the commit was built on -/
theorem epoch_succ (w : World) (h : CommitsWF w.commits) (k : Nat) (c : Commit)
    (hk : w.commits[k]? = some c) : w.epoch (k + 1) = w.epoch c.base + 1 := by
  have hb := h k c hk
  simp only [World.epoch, epochOf, hk]
  rw [epochOf_fuel w.commits h (k + 1) (c.base + 1) c.base (by omega) (by omega)]

theorem epoch_zero (w : World) : w.epoch 0 = 0 := by simp [World.epoch, epochOf]

/-! ### worlds -/

/-- the world with one more commit -/
def addCommit (w : World) (c : Commit) : World := { w with commits := w.commits ++ [c] }

@[simp] theorem addCommit_members (w : World) (c : Commit) : (addCommit w c).members = w.members := rfl
@[simp] theorem addCommit_commits (w : World) (c : Commit) :
    (addCommit w c).commits = w.commits ++ [c] := rfl
@[simp] theorem setMember_commits (w : World) (m : Nat) (x : Member) :
    (setMember w m x).commits = w.commits := rfl
@[simp] theorem setMember_members (w : World) (m : Nat) (x : Member) :
    (setMember w m x).members = w.members.set m x := rfl
@[simp] theorem setMember_epoch (w : World) (m : Nat) (x : Member) (s : Nat) :
    (setMember w m x).epoch s = w.epoch s := rfl

theorem addCommit_epoch (w : World) (c : Commit) (h : CommitsWF w.commits) (s : Nat)
    (hs : s ≤ w.commits.length) : (addCommit w c).epoch s = w.epoch s :=
  epochOf_append w.commits c h (s + 1) s hs

theorem setMember_get_self (w : World) (m : Nat) (x y : Member) (h : w.members[m]? = some y) :
    (setMember w m x).members[m]? = some x := by
  have hlt : m < w.members.length := by
    rcases Nat.lt_or_ge m w.members.length with h' | h'
    · exact h'
    · rw [List.getElem?_eq_none h'] at h; cases h
  simp [hlt]

theorem setMember_get_ne (w : World) (m r : Nat) (x : Member) (h : r ≠ m) :
    (setMember w m x).members[r]? = w.members[r]? := by
  have : m ≠ r := fun e => h e.symm
  simp [this]

/-- looking a member up after `setMember`: either it is the one that was set, or nothing changed -/
theorem setMember_get_cases (w : World) (m r : Nat) (x z : Member)
    (h : (setMember w m x).members[r]? = some z) :
    (r = m ∧ z = x) ∨ (r ≠ m ∧ w.members[r]? = some z) := by
  by_cases hr : r = m
  · subst hr
    left
    simp only [setMember_members, List.getElem?_set] at h
    simp only [if_true] at h
    split at h
    · exact ⟨rfl, (Option.some.inj h).symm⟩
    · cases h
  · right; rw [setMember_get_ne w m r x hr] at h; exact ⟨hr, h⟩

theorem setMember_same (w : World) (m : Nat) (x : Member) (h : w.members[m]? = some x) :
    (setMember w m x).members = w.members := by
  simp only [setMember_members]
  apply List.ext_getElem?
  intro i
  rw [List.getElem?_set]
  by_cases hi : m = i
  · subst hi
    have hlt : m < w.members.length := by
      rcases Nat.lt_or_ge m w.members.length with h' | h'
      · exact h'
      · rw [List.getElem?_eq_none h'] at h; cases h
    rw [List.getElem?_eq_getElem hlt] at h
    simp [hlt, Option.some.inj h]
  · simp [hi]

theorem getElem?_lt {α} (l : List α) (i : Nat) (x : α) (h : l[i]? = some x) : i < l.length := by
  rcases Nat.lt_or_ge i l.length with h' | h'
  · exact h'
  · rw [List.getElem?_eq_none h'] at h; cases h

/-! ### the invariant -/

structure Inv (w : World) : Prop where
  /-- states are created after their base; authors are members -/
  commit_wf : ∀ (k : Nat) (c : Commit), w.commits[k]? = some c → c.base ≤ k ∧ c.author < w.members.length
  /-- every member is in an existing state -/
  cur_le : ∀ (m : Nat) (x : Member), w.members[m]? = some x → x.cur ≤ w.commits.length
  /-- a pending commit is the member's own commit built on its current state -/
  pending_wf : ∀ (m : Nat) (x : Member) (k : Nat), w.members[m]? = some x → x.pending = some k →
    ∃ c, w.commits[k]? = some c ∧ c.author = m ∧ c.base = x.cur

theorem Inv.commitsWF {w : World} (hi : Inv w) : CommitsWF w.commits :=
  fun k c h => (hi.commit_wf k c h).1

theorem Inv.setMember {w : World} (hi : Inv w) (m : Nat) (y : Member)
    (hcur : y.cur ≤ w.commits.length)
    (hp : ∀ k, y.pending = some k → ∃ c, w.commits[k]? = some c ∧ c.author = m ∧ c.base = y.cur) :
    Inv (setMember w m y) where
  commit_wf k c h := by
    have := hi.commit_wf k c h
    simpa using this
  cur_le r z h := by
    rcases setMember_get_cases w m r y z h with ⟨_, rfl⟩ | ⟨_, h'⟩
    · exact hcur
    · exact hi.cur_le r z h'
  pending_wf r z k h hk := by
    rcases setMember_get_cases w m r y z h with ⟨rfl, rfl⟩ | ⟨_, h'⟩
    · exact hp k hk
    · exact hi.pending_wf r z k h' hk

theorem Inv.addCommit {w : World} (hi : Inv w) (c : Commit) (hb : c.base ≤ w.commits.length)
    (ha : c.author < w.members.length) : Inv (addCommit w c) where
  commit_wf k c' h := by
    simp only [addCommit_commits, addCommit_members] at h ⊢
    rcases Nat.lt_or_ge k w.commits.length with hk | hk
    · rw [List.getElem?_append_left hk] at h; exact hi.commit_wf k c' h
    · rw [List.getElem?_append_right hk] at h
      have hlt := getElem?_lt _ _ _ h
      simp only [List.length_singleton] at hlt
      have hk0 : k - w.commits.length = 0 := by omega
      rw [hk0] at h
      simp only [List.getElem?_cons_zero, Option.some.injEq] at h
      subst h
      exact ⟨by omega, ha⟩
  cur_le m x h := by
    have := hi.cur_le m x h
    simp only [addCommit_commits, List.length_append, List.length_singleton]; omega
  pending_wf m x k h hk := by
    obtain ⟨c', h1, h2, h3⟩ := hi.pending_wf m x k h hk
    refine ⟨c', ?_, h2, h3⟩
    simp only [addCommit_commits]
    rw [List.getElem?_append_left (getElem?_lt _ _ _ h1)]; exact h1

theorem addCommit_get_last (w : World) (c : Commit) :
    (addCommit w c).commits[w.commits.length]? = some c := by
  simp [addCommit_commits]

theorem addCommit_get_old (w : World) (c c' : Commit) (k : Nat) (h : w.commits[k]? = some c') :
    (addCommit w c).commits[k]? = some c' := by
  simp only [addCommit_commits]
  rw [List.getElem?_append_left (getElem?_lt _ _ _ h)]; exact h

/-! ### `step`, branch by branch -/

section step
variable (w : World) (m k : Nat) (x : Member) (c : Commit)

theorem step_build_bad (d : Bool) (h : w.members[m]? = none) :
    step w (.build m d) = (w, .badOp) := by
  simp [step, h]

theorem step_build_pending (d : Bool) (h : w.members[m]? = some x) (hp : x.pending = some k) :
    step w (.build m d) = (w, .existingPendingCommit) := by
  simp [step, h, hp]

theorem step_build_detached (h : w.members[m]? = some x) (hp : x.pending = none) :
    step w (.build m true) = (addCommit w ⟨m, x.cur⟩, .ok) := by
  simp [step, h, hp, addCommit]

theorem step_build_attached (h : w.members[m]? = some x) (hp : x.pending = none) :
    step w (.build m false) =
      (setMember (addCommit w ⟨m, x.cur⟩) m { x with pending := some w.commits.length }, .ok) := by
  simp [step, h, hp, addCommit]

theorem step_clear_bad (h : w.members[m]? = none) : step w (.clear m) = (w, .badOp) := by
  simp [step, h]

theorem step_clear_ok (h : w.members[m]? = some x) :
    step w (.clear m) = (setMember w m { x with pending := none }, .ok) := by
  simp [step, h]

theorem step_apply_bad (h : w.members[m]? = none) : step w (.apply m) = (w, .badOp) := by
  simp [step, h]

theorem step_apply_none (h : w.members[m]? = some x) (hp : x.pending = none) :
    step w (.apply m) = (w, .pendingCommitNotFound) := by
  simp [step, h, hp]

theorem step_apply_ok (h : w.members[m]? = some x) (hp : x.pending = some k) :
    step w (.apply m) = (setMember w m { cur := k + 1, pending := none }, .ok) := by
  simp [step, h, hp]

theorem step_applyDet_bad (h : w.members[m]? = none ∨ w.commits[k]? = none) :
    step w (.applyDet m k) = (w, .badOp) := by
  simp only [step]
  split
  · rename_i h1 h2; rcases h with h | h <;> simp_all
  · rfl

theorem step_applyDet_author (h : w.members[m]? = some x) (hc : w.commits[k]? = some c)
    (ha : c.author ≠ m) : step w (.applyDet m k) = (w, .badOp) := by
  simp [step, h, hc, ha]

theorem step_applyDet_stale (h : w.members[m]? = some x) (hc : w.commits[k]? = some c)
    (ha : c.author = m) (he : w.epoch c.base ≠ w.epoch x.cur) :
    step w (.applyDet m k) = (w, .invalidEpoch) := by
  simp [step, h, hc, ha, he]

theorem step_applyDet_ok (h : w.members[m]? = some x) (hc : w.commits[k]? = some c)
    (ha : c.author = m) (he : w.epoch c.base = w.epoch x.cur) :
    step w (.applyDet m k) = (setMember w m { cur := k + 1, pending := none }, .ok) := by
  simp [step, h, hc, ha, he]

theorem step_deliver_bad (h : w.members[m]? = none ∨ w.commits[k]? = none) :
    step w (.deliver m k) = (w, .badOp) := by
  simp only [step]
  split
  · rename_i h1 h2; rcases h with h | h <;> simp_all
  · rfl

theorem step_deliver_echo (h : w.members[m]? = some x) (hc : w.commits[k]? = some c)
    (hp : x.pending = some k) :
    step w (.deliver m k) = (setMember w m { cur := k + 1, pending := none }, .ok) := by
  simp [step, h, hc, hp]

theorem step_deliver_stale (h : w.members[m]? = some x) (hc : w.commits[k]? = some c)
    (hp : x.pending ≠ some k) (he : w.epoch c.base ≠ w.epoch x.cur) :
    step w (.deliver m k) = (w, .invalidEpoch) := by
  simp [step, h, hc, hp, he]

theorem step_deliver_self (h : w.members[m]? = some x) (hc : w.commits[k]? = some c)
    (hp : x.pending ≠ some k) (he : w.epoch c.base = w.epoch x.cur) (ha : c.author = m) :
    step w (.deliver m k) = (w, .cantProcessMessageFromSelf) := by
  simp [step, h, hc, hp, he, ha]

theorem step_deliver_branch (h : w.members[m]? = some x) (hc : w.commits[k]? = some c)
    (hp : x.pending ≠ some k) (he : w.epoch c.base = w.epoch x.cur) (ha : c.author ≠ m)
    (hb : c.base ≠ x.cur) : step w (.deliver m k) = (w, .invalidEpoch) := by
  simp [step, h, hc, hp, he, ha, hb]

theorem step_deliver_ok (h : w.members[m]? = some x) (hc : w.commits[k]? = some c)
    (hp : x.pending ≠ some k) (ha : c.author ≠ m) (hb : c.base = x.cur) :
    step w (.deliver m k) = (setMember w m { cur := k + 1, pending := none }, .ok) := by
  simp [step, h, hc, hp, ha, hb]

end step

/-- the shape of every step: an error leaves the world alone; a success is one of four updates -/
inductive StepShape (w : World) (op : Op) : World × Res → Prop
  | err (r : Res) (h : r ≠ .ok) : StepShape w op (w, r)
  | buildDet (m : Nat) (x : Member) (hop : op = .build m true) (hm : w.members[m]? = some x)
      (hp : x.pending = none) : StepShape w op (addCommit w ⟨m, x.cur⟩, .ok)
  | buildAtt (m : Nat) (x : Member) (hop : op = .build m false) (hm : w.members[m]? = some x)
      (hp : x.pending = none) :
      StepShape w op
        (setMember (addCommit w ⟨m, x.cur⟩) m { x with pending := some w.commits.length }, .ok)
  | clear (m : Nat) (x : Member) (hop : op = .clear m) (hm : w.members[m]? = some x) :
      StepShape w op (setMember w m { x with pending := none }, .ok)
  /-- own commit: `apply`, or `deliver` of the echo -/
  | own (m k : Nat) (x : Member) (hop : op = .apply m ∨ op = .deliver m k)
      (hm : w.members[m]? = some x) (hp : x.pending = some k) :
      StepShape w op (setMember w m { cur := k + 1, pending := none }, .ok)
  /-- `applyDet`, or `deliver` of somebody else's commit: accepted on the epoch number -/
  | move (m k : Nat) (x : Member) (c : Commit) (hop : op = .applyDet m k ∨ op = .deliver m k)
      (hm : w.members[m]? = some x) (hc : w.commits[k]? = some c)
      (he : w.epoch c.base = w.epoch x.cur) (hcase : c.author = m ∨ c.base = x.cur) :
      StepShape w op (setMember w m { cur := k + 1, pending := none }, .ok)

theorem step_shape (w : World) (op : Op) : StepShape w op (step w op) := by
  cases op with
  | build m d =>
    cases hm : w.members[m]? with
    | none => rw [step_build_bad w m d hm]; exact .err _ (by decide)
    | some x =>
      cases hp : x.pending with
      | some k => rw [step_build_pending w m k x d hm hp]; exact .err _ (by decide)
      | none =>
        cases d
        · rw [step_build_attached w m x hm hp]; exact .buildAtt m x rfl hm hp
        · rw [step_build_detached w m x hm hp]; exact .buildDet m x rfl hm hp
  | clear m =>
    cases hm : w.members[m]? with
    | none => rw [step_clear_bad w m hm]; exact .err _ (by decide)
    | some x => rw [step_clear_ok w m x hm]; exact .clear m x rfl hm
  | apply m =>
    cases hm : w.members[m]? with
    | none => rw [step_apply_bad w m hm]; exact .err _ (by decide)
    | some x =>
      cases hp : x.pending with
      | none => rw [step_apply_none w m x hm hp]; exact .err _ (by decide)
      | some k => rw [step_apply_ok w m k x hm hp]; exact .own m k x (.inl rfl) hm hp
  | applyDet m k =>
    cases hm : w.members[m]? with
    | none => rw [step_applyDet_bad w m k (.inl hm)]; exact .err _ (by decide)
    | some x =>
      cases hc : w.commits[k]? with
      | none => rw [step_applyDet_bad w m k (.inr hc)]; exact .err _ (by decide)
      | some c =>
        by_cases ha : c.author = m
        · by_cases he : w.epoch c.base = w.epoch x.cur
          · rw [step_applyDet_ok w m k x c hm hc ha he]; exact .move m k x c (.inl rfl) hm hc he (.inl ha)
          · rw [step_applyDet_stale w m k x c hm hc ha he]; exact .err _ (by decide)
        · rw [step_applyDet_author w m k x c hm hc ha]; exact .err _ (by decide)
  | deliver m k =>
    cases hm : w.members[m]? with
    | none => rw [step_deliver_bad w m k (.inl hm)]; exact .err _ (by decide)
    | some x =>
      cases hc : w.commits[k]? with
      | none => rw [step_deliver_bad w m k (.inr hc)]; exact .err _ (by decide)
      | some c =>
        by_cases hp : x.pending = some k
        · rw [step_deliver_echo w m k x c hm hc hp]; exact .own m k x (.inr rfl) hm hp
        · by_cases he : w.epoch c.base = w.epoch x.cur
          · by_cases ha : c.author = m
            · rw [step_deliver_self w m k x c hm hc hp he ha]; exact .err _ (by decide)
            · by_cases hb : c.base = x.cur
              · rw [step_deliver_ok w m k x c hm hc hp ha hb]
                exact .move m k x c (.inr rfl) hm hc he (.inr hb)
              · rw [step_deliver_branch w m k x c hm hc hp he ha hb]; exact .err _ (by decide)
          · rw [step_deliver_stale w m k x c hm hc hp he]; exact .err _ (by decide)

/-! ### history: a member's own commits are built on states it went through -/

/-- `Anc cs a s`: state `a` is `s` or one of the states below `s` in the tree of states -/
inductive Anc (cs : List Commit) : Nat → Nat → Prop
  | refl (s : Nat) : Anc cs s s
  | up (a k : Nat) (c : Commit) (hk : cs[k]? = some c) (h : Anc cs a c.base) : Anc cs a (k + 1)

theorem Anc.trans {cs : List Commit} {a b s : Nat} (h1 : Anc cs a b) (h2 : Anc cs b s) :
    Anc cs a s := by
  induction h2 with
  | refl => exact h1
  | up k c hk _ ih => exact .up a k c hk ih

theorem Anc.append {cs : List Commit} (c0 : Commit) {a s : Nat} (h : Anc cs a s) :
    Anc (cs ++ [c0]) a s := by
  induction h with
  | refl => exact .refl _
  | up k c hk _ ih =>
    exact .up a k c (by rw [List.getElem?_append_left (getElem?_lt _ _ _ hk)]; exact hk) ih

/-- a proper ancestor has a strictly smaller epoch -/
theorem Anc.eq_or_lt (w : World) (hwf : CommitsWF w.commits) {a s : Nat}
    (h : Anc w.commits a s) : a = s ∨ w.epoch a < w.epoch s := by
  induction h with
  | refl => exact .inl rfl
  | up k c hk _ ih =>
    right
    rw [epoch_succ w hwf k c hk]
    rcases ih with e | e
    · rw [e]; omega
    · omega

/-- every commit was built on a state that its author's current state descends from -/
def Hist (w : World) : Prop :=
  ∀ (k : Nat) (c : Commit) (x : Member), w.commits[k]? = some c → w.members[c.author]? = some x →
    Anc w.commits c.base x.cur

theorem Hist.setMember {w : World} (hh : Hist w) (m : Nat) (x y : Member)
    (hm : w.members[m]? = some x) (hanc : Anc w.commits x.cur y.cur) : Hist (setMember w m y) := by
  intro k c z hc hz
  simp only [setMember_commits] at hc ⊢
  rcases setMember_get_cases w m c.author y z hz with ⟨ha, rfl⟩ | ⟨_, hz'⟩
  · exact (hh k c x hc (by rw [ha]; exact hm)).trans hanc
  · exact hh k c z hc hz'

theorem Hist.addCommit {w : World} (hh : Hist w) (m : Nat) (x : Member)
    (hm : w.members[m]? = some x) : Hist (addCommit w ⟨m, x.cur⟩) := by
  intro k c z hc hz
  simp only [addCommit_commits, addCommit_members] at hc hz ⊢
  rcases Nat.lt_or_ge k w.commits.length with hk | hk
  · rw [List.getElem?_append_left hk] at hc
    exact (hh k c z hc hz).append _
  · rw [List.getElem?_append_right hk] at hc
    have hlt := getElem?_lt _ _ _ hc
    simp only [List.length_singleton] at hlt
    have hk0 : k - w.commits.length = 0 := by omega
    rw [hk0] at hc
    simp only [List.getElem?_cons_zero, Option.some.injEq] at hc
    subst hc
    simp only at hz ⊢
    rw [hm] at hz; cases hz
    exact .refl _

/-! ### `run` -/

theorem run_nil (w : World) : run w [] = (w, []) := rfl

theorem run_cons (w : World) (op : Op) (ops : List Op) :
    run w (op :: ops) = ((run (step w op).1 ops).1, (step w op).2 :: (run (step w op).1 ops).2) := rfl

theorem run_append_fst (w : World) (ops1 ops2 : List Op) :
    (run w (ops1 ++ ops2)).1 = (run (run w ops1).1 ops2).1 := by
  induction ops1 generalizing w with
  | nil => rfl
  | cons op ops ih => simp only [List.cons_append, run_cons]; exact ih _

theorem run_snoc_fst (w : World) (ops : List Op) (op : Op) :
    (run w (ops ++ [op])).1 = (step (run w ops).1 op).1 := by
  rw [run_append_fst]; rfl

theorem run_length (w : World) (ops : List Op) : (run w ops).2.length = ops.length := by
  induction ops generalizing w with
  | nil => rfl
  | cons op ops ih => simp only [run_cons, List.length_cons, ih]

end MlsVerif.Pending
