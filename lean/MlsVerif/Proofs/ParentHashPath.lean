import MlsVerif.Proofs.ParentHashBasic
/-
The committer's path update (`encap`) and the receivers' `apply_update_path` keep the tree
parent-hash valid (`PHInv`), and a receiver accepts exactly the leaf parent hash the sender computed.
-/
namespace MlsVerif.ParentHash
open MlsVerif.TreeMath MlsVerif.Tree MlsVerif.TreeHash

namespace Path

/-! ### closed form of `phDown` -/

/-- the parent hash handed down to the entry below the list `L` (bottom-up list of
(path node, copath node)) -/
def hUp (t : Tree) : List (Nat × Nat) → PH
  | [] => .empty
  | cp :: rest =>
    if isResolutionEmpty t cp.2 then hUp t rest
    else match get t cp.1 with
      | some (.parent P) => .node P.key (hUp t rest) (treeHashSpec t [] cp.2)
      | _ => hUp t rest

/-- the layer after the loop of `parent_hash_for_leaf` -/
def phAssign (t : Tree) : List (Nat × Nat) → PhLayer → PhLayer
  | [], ph => ph
  | cp :: rest, ph =>
    if isResolutionEmpty t cp.2 then phAssign t rest ph
    else phSet (phAssign t rest ph) cp.1 (some (hUp t rest))

@[simp] theorem length_phAssign (t : Tree) (L : List (Nat × Nat)) (ph : PhLayer) :
    (phAssign t L ph).length = ph.length := by
  induction L with
  | nil => rfl
  | cons cp rest ih =>
    rw [phAssign]; split
    · exact ih
    · rw [length_phSet]; exact ih

theorem phDown_append (t : Tree) (l1 l2 : List (Nat × Nat)) (ph : PhLayer) (h : PH) :
    phDown t (l1 ++ l2) ph h =
      match phDown t l1 ph h with
      | .ok (ph1, h1) => phDown t l2 ph1 h1
      | .error e => .error e := by
  induction l1 generalizing ph h with
  | nil => rfl
  | cons cp rest ih =>
    rw [List.cons_append, phDown, phDown]
    split
    · exact ih _ _
    · split
      · exact ih _ _
      · rfl

/-- every unfiltered entry holds a parent -/
def ParentsOk (t : Tree) (L : List (Nat × Nat)) : Prop :=
  ∀ cp ∈ L, isResolutionEmpty t cp.2 = false → ∃ P, get t cp.1 = some (.parent P)

theorem phDown_reverse (t : Tree) (L : List (Nat × Nat)) (ph : PhLayer) (hp : ParentsOk t L) :
    phDown t L.reverse ph .empty = .ok (phAssign t L ph, hUp t L) := by
  induction L with
  | nil => rfl
  | cons cp rest ih =>
    rw [List.reverse_cons, phDown_append, ih (fun c hc => hp c (List.mem_cons_of_mem _ hc))]
    simp only
    rw [phDown, phAssign, hUp]
    by_cases hf : isResolutionEmpty t cp.2 = true
    · rw [if_pos hf, if_pos hf, if_pos hf]; rfl
    · rw [if_neg hf, if_neg hf, if_neg hf]
      obtain ⟨P, hP⟩ := hp cp (List.mem_cons_self) (by simpa using hf)
      rw [hP]; rfl

theorem phGet_phAssign_notin (t : Tree) (L : List (Nat × Nat)) (ph : PhLayer) (y : Nat)
    (hy : y ∉ L.map (·.1)) : phGet (phAssign t L ph) y = phGet ph y := by
  induction L with
  | nil => rfl
  | cons cp rest ih =>
    rw [List.map_cons, List.mem_cons, not_or] at hy
    rw [phAssign]; split
    · exact ih hy.2
    · rw [phGet_phSet_ne _ _ _ _ (Ne.symm hy.1)]; exact ih hy.2

theorem phGet_phAssign_mem (t : Tree) (L : List (Nat × Nat)) (ph : PhLayer)
    (hnd : (L.map (·.1)).Nodup) {j : Nat} {cp : Nat × Nat} (hj : L[j]? = some cp)
    (hlt : isResolutionEmpty t cp.2 = false → cp.1 < ph.length) :
    phGet (phAssign t L ph) cp.1 =
      if isResolutionEmpty t cp.2 then phGet ph cp.1 else some (hUp t (L.drop (j + 1))) := by
  induction L generalizing j with
  | nil => simp at hj
  | cons c rest ih =>
    rw [List.map_cons, List.nodup_cons] at hnd
    cases j with
    | zero =>
      simp only [List.getElem?_cons_zero, Option.some.injEq] at hj
      subst hj
      rw [phAssign]
      by_cases hf : isResolutionEmpty t c.2 = true
      · rw [if_pos hf, if_pos hf]; exact phGet_phAssign_notin t rest ph _ hnd.1
      · rw [if_neg hf, if_neg hf, phGet_phSet_self]
        · rfl
        · rw [length_phAssign]; exact hlt (by simpa using hf)
    | succ j =>
      rw [List.getElem?_cons_succ] at hj
      have hne : c.1 ≠ cp.1 := by
        intro he
        apply hnd.1
        rw [he]
        exact List.mem_map.2 ⟨cp, List.mem_of_getElem? hj, rfl⟩
      rw [phAssign]
      have := ih hnd.2 hj
      split
      · rw [this]; rfl
      · rw [phGet_phSet_ne _ _ _ _ hne, this]; rfl

theorem phGet_phAssign_congr (t : Tree) (L : List (Nat × Nat)) (ph1 ph2 : PhLayer) (y : Nat)
    (hl : ph1.length = ph2.length) (hy : phGet ph1 y = phGet ph2 y) :
    phGet (phAssign t L ph1) y = phGet (phAssign t L ph2) y := by
  induction L with
  | nil => exact hy
  | cons cp rest ih =>
    rw [phAssign, phAssign]; split
    · exact ih
    · rw [phGet_phSet, phGet_phSet, length_phAssign, length_phAssign, hl, ih]

theorem layer_ext {ph1 ph2 : PhLayer} (hl : ph1.length = ph2.length)
    (h : ∀ i, i < ph1.length → phGet ph1 i = phGet ph2 i) : ph1 = ph2 := by
  apply List.ext_getElem hl
  intro i h1 h2
  have := h i h1
  unfold phGet at this
  rw [List.getElem?_eq_getElem h1, List.getElem?_eq_getElem h2] at this
  simpa using this

/-! ### the tree after the path update -/

/-- the common hypotheses about the trees -/
structure Ctx (t t' : Tree) (s : Nat) (nl : Leaf) (pk : List (Option Nat)) (k : Nat) : Prop where
  hw : WF t
  hw' : WF t'
  hpu : PathUpdated t t' s nl pk
  hlen : t'.length = t.length
  hL : ∃ L, get t (2 * s) = some (.leaf L)
  hf : FilterOk t s pk
  hk : leafCount t = 2 ^ k
  hs : s < 2 ^ k
  hbound : t.length ≤ 2 ^ (k + 1) - 1

theorem Ctx.mk' {t t' : Tree} {s : Nat} {nl : Leaf} {pk : List (Option Nat)}
    (hw : WF t) (hw' : WF t') (hpu : PathUpdated t t' s nl pk) (hlen : t'.length = t.length)
    (hL : ∃ L, get t (2 * s) = some (.leaf L)) (hf : FilterOk t s pk) :
    ∃ k, Ctx t t' s nl pk k := by
  obtain ⟨k, hk, hs, hb⟩ := Upd.ctx hL
  exact ⟨k, ⟨hw, hw', hpu, hlen, hL, hf, hk, hs, hb⟩⟩

section
variable {t t' : Tree} {s : Nat} {nl : Leaf} {pk : List (Option Nat)} {k : Nat}

theorem Ctx.dc (c : Ctx t t' s nl pk k) : directCopathOf t' s = directCopathOf t s := by
  unfold directCopathOf; rw [c.hpu.leafCount_eq]

theorem Ctx.dc_len (c : Ctx t t' s nl pk k) : (directCopathOf t s).length = k := by
  rw [directCopathOf_length t k s c.hk, if_pos c.hs]

theorem Ctx.pk_cases (c : Ctx t t' s nl pk k) {j : Nat} (hj : j < k) :
    pk[j]? = some none ∨ ∃ k', pk[j]? = some (some k') := by
  have hlen := Upd.pk_length c.hf c.hk c.hs
  cases h : pk[j]? with
  | none => rw [List.getElem?_eq_none_iff] at h; omega
  | some o =>
    cases o with
    | none => left; rfl
    | some k' => right; exact ⟨k', rfl⟩

theorem Ctx.leaf_lt (c : Ctx t t' s nl pk k) : 2 * s < t'.length := lt_of_get_some c.hpu.leaf

/-- an unfiltered position -/
theorem Ctx.unf (c : Ctx t t' s nl pk k) {j k' : Nat} (hj : j < k) (hp : pk[j]? = some (some k')) :
    get t' (pathEntry s j).1 = some (.parent { key := k', unmerged := [] }) ∧
    isResolutionEmpty t' (pathEntry s j).2 = false := by
  have h := c.hpu.onPath j (pathEntry s j) (Upd.dc_get c.hk c.hs hj)
  rw [hp] at h
  refine ⟨h, ?_⟩
  have := Upd.unfiltered_res c.hf c.hk c.hs hj hp
  rw [← Upd.copath_resolution c.hpu c.hk c.hs j] at this
  unfold isResolutionEmpty
  cases hr : resolution t' (pathEntry s j).2 with
  | nil => exact absurd hr this
  | cons a b => rfl

/-- a filtered position -/
theorem Ctx.fil (c : Ctx t t' s nl pk k) {j : Nat} (hj : j < k) (hp : pk[j]? = some none) :
    get t' (pathEntry s j).1 = none ∧ get t (pathEntry s j).1 = none ∧
    isResolutionEmpty t' (pathEntry s j).2 = true ∧ resolution t' (pathEntry s j).2 = [] := by
  have h := c.hpu.onPath j (pathEntry s j) (Upd.dc_get c.hk c.hs hj)
  rw [hp] at h
  have hb := Upd.filtered_pos_blank c.hf c.hw.1.1 c.hw.2.2.2 c.hk c.hs hj
    (fun k' hk' => by rw [hp] at hk'; simp at hk')
  have h2 := congrArg (fun l => l[j]?) c.hf
  simp only [List.getElem?_map, hp, filtered_getElem?, Upd.dc_get c.hk c.hs hj, Option.map_some,
    Option.isNone_none, Option.some.injEq] at h2
  have h3 : isResolutionEmpty t' (pathEntry s j).2 = true := by
    unfold isResolutionEmpty at h2 ⊢
    rw [Upd.copath_resolution c.hpu c.hk c.hs j]; exact h2.symm
  refine ⟨by rw [h, hb], hb, h3, ?_⟩
  simpa [isResolutionEmpty] using h3

/-- the hash handed down to position `j - 1` (to the leaf for `j = 0`) -/
def hA (t t' : Tree) (s j : Nat) : PH := hUp t' ((directCopathOf t s).drop j)

theorem Ctx.drop (c : Ctx t t' s nl pk k) {j : Nat} (hj : j < k) :
    (directCopathOf t s).drop j = pathEntry s j :: (directCopathOf t s).drop (j + 1) := by
  have hl : j < (directCopathOf t s).length := by rw [c.dc_len]; exact hj
  rw [List.drop_eq_getElem_cons hl]
  congr 1
  have := Upd.dc_get c.hk c.hs hj
  rw [List.getElem?_eq_getElem hl] at this
  simpa using this

theorem Ctx.hA_ge (c : Ctx t t' s nl pk k) {j : Nat} (hj : k ≤ j) : hA t t' s j = .empty := by
  unfold hA
  rw [List.drop_eq_nil_of_le (by rw [c.dc_len]; exact hj)]; rfl

theorem Ctx.hA_unf (c : Ctx t t' s nl pk k) {j k' : Nat} (hj : j < k) (hp : pk[j]? = some (some k')) :
    hA t t' s j = .node k' (hA t t' s (j + 1)) (treeHashSpec t' [] (pathEntry s j).2) := by
  unfold hA
  rw [c.drop hj, hUp, (c.unf hj hp).2, (c.unf hj hp).1]; rfl

theorem Ctx.hA_fil (c : Ctx t t' s nl pk k) {j : Nat} (hj : j < k) (hp : pk[j]? = some none) :
    hA t t' s j = hA t t' s (j + 1) := by
  unfold hA
  rw [c.drop hj, hUp, (c.fil hj hp).2.2.1]; rfl

/-- the top key of `hA j` is the announced key of the next unfiltered position at or above `j` -/
theorem Ctx.hA_key (c : Ctx t t' s nl pk k) (d : Nat) : ∀ (j k'' : Nat), k - j = d →
    (hA t t' s j).key? = some k'' →
    ∃ j', j ≤ j' ∧ j' < k ∧ pk[j']? = some (some k'') ∧ ∀ i, j ≤ i → i < j' → pk[i]? = some none := by
  induction d with
  | zero =>
    intro j k'' hd h
    rw [c.hA_ge (by omega)] at h; cases h
  | succ d ih =>
    intro j k'' hd h
    have hj : j < k := by omega
    rcases c.pk_cases hj with hp | ⟨k', hp⟩
    · rw [c.hA_fil hj hp] at h
      obtain ⟨j', h1, h2, h3, h4⟩ := ih (j + 1) k'' (by omega) h
      refine ⟨j', by omega, h2, h3, ?_⟩
      intro i hi1 hi2
      by_cases he : i = j
      · rw [he]; exact hp
      · exact h4 i (by omega) hi2
    · rw [c.hA_unf hj hp] at h
      simp only [PH.key?, Option.some.injEq] at h
      subst h
      exact ⟨j, Nat.le_refl _, hj, hp, fun i h1 h2 => by omega⟩

theorem Ctx.parentsOk (c : Ctx t t' s nl pk k) : ParentsOk t' (directCopathOf t s) := by
  intro cp hcp hr
  obtain ⟨_, j, hj, rfl⟩ := mem_directCopathOf c.hk hcp
  rcases c.pk_cases hj with hp | ⟨k', hp⟩
  · rw [(c.fil hj hp).2.2.1] at hr; cases hr
  · exact ⟨_, (c.unf hj hp).1⟩

end

/-! ### `update_parent_hashes` after the path update -/

/-- the layer after the sender's `update_parent_hashes(s, false)` -/
def phFin (ph : PhLayer) (t t' : Tree) (s : Nat) : PhLayer :=
  phSet (phAssign t' (directCopathOf t s) (pathPh0 ph t' s none)) (2 * s) (some (hA t t' s 0))

section
variable {t t' : Tree} {s : Nat} {nl : Leaf} {pk : List (Option Nat)} {k : Nat}

theorem Ctx.leaf_notin (c : Ctx t t' s nl pk k) : 2 * s ∉ (directCopathOf t s).map (·.1) := by
  rw [Add.mem_path t k s _ c.hk]
  rintro ⟨_, j, _, h⟩
  have := pathEntry_fst_odd s j
  omega

theorem phGet_pathPh0_ne (ph : PhLayer) (t' : Tree) (s : Nat) (l1 l2 : Option PH) {i : Nat}
    (h : i ≠ 2 * s) : phGet (pathPh0 ph t' s l1) i = phGet (pathPh0 ph t' s l2) i := by
  unfold pathPh0
  rw [phGet_phOf, phGet_phOf]
  simp only [if_neg h]

theorem phGet_pathPh0 (ph : PhLayer) (t' : Tree) (s : Nat) (l : Option PH) {i : Nat}
    (h : i ≠ 2 * s) : phGet (pathPh0 ph t' s l) i =
      match get t' i with
      | none => none
      | some (.leaf _) => phGet ph i
      | some (.parent _) => some ((phGet ph i).getD .empty) := by
  unfold pathPh0
  rw [phGet_phOf, if_neg h]
  split
  · rfl
  · rw [get_of_le (by omega)]

theorem Ctx.uph (c : Ctx t t' s nl pk k) (ph : PhLayer) (lph : Option PH) (verify : Bool) :
    updateParentHashes ⟨t', pathPh0 ph t' s lph⟩ s verify =
      if verify then
        match lph with
        | some h' =>
          if hA t t' s 0 = h' then
            .ok ⟨t', phAssign t' (directCopathOf t s) (pathPh0 ph t' s lph)⟩
          else .error .parentHashMismatch
        | none => .error .invalidLeafNodeSource
      else .ok ⟨t', phSet (phAssign t' (directCopathOf t s) (pathPh0 ph t' s lph)) (2 * s)
        (some (hA t t' s 0))⟩ := by
  unfold updateParentHashes parentHashForLeaf
  simp only
  rw [c.dc, phDown_reverse _ _ _ c.parentsOk]
  simp only
  rw [c.hpu.leaf]
  simp only
  have : phGet (phAssign t' (directCopathOf t s) (pathPh0 ph t' s lph)) (2 * s) = lph := by
    rw [phGet_phAssign_notin _ _ _ _ c.leaf_notin]
    unfold pathPh0
    rw [phGet_phOf, if_pos c.leaf_lt, if_pos rfl]
  rw [this]
  rfl

theorem Ctx.fin_false (c : Ctx t t' s nl pk k) (ph : PhLayer) (lph : Option PH) :
    phSet (phAssign t' (directCopathOf t s) (pathPh0 ph t' s lph)) (2 * s) (some (hA t t' s 0)) =
      phFin ph t t' s := by
  unfold phFin
  apply layer_ext
  · simp [pathPh0]
  · intro i _
    rw [phGet_phSet, phGet_phSet, length_phAssign, length_phAssign]
    have hl : (pathPh0 ph t' s lph).length = (pathPh0 ph t' s none).length := by simp [pathPh0]
    rw [hl]
    split
    · rfl
    · rename_i hne
      apply phGet_phAssign_congr _ _ _ _ _ hl
      apply phGet_pathPh0_ne
      intro h; apply hne
      exact ⟨h.symm, by simp only [pathPh0, length_phOf]; exact c.leaf_lt⟩

theorem Ctx.fin_true (c : Ctx t t' s nl pk k) (ph : PhLayer) :
    phAssign t' (directCopathOf t s) (pathPh0 ph t' s (some (hA t t' s 0))) = phFin ph t t' s := by
  unfold phFin
  have hl : (pathPh0 ph t' s (some (hA t t' s 0))).length = (pathPh0 ph t' s none).length := by
    simp [pathPh0]
  apply layer_ext
  · simp [pathPh0]
  · intro i _
    rw [phGet_phSet, length_phAssign]
    split
    · rename_i h
      rw [← h.1, phGet_phAssign_notin _ _ _ _ c.leaf_notin]
      unfold pathPh0
      rw [phGet_phOf, if_pos c.leaf_lt, if_pos rfl]
    · rename_i hne
      apply phGet_phAssign_congr _ _ _ _ _ hl
      apply phGet_pathPh0_ne
      intro h; apply hne
      exact ⟨h.symm, by simp only [pathPh0, length_phOf]; exact c.leaf_lt⟩

theorem length_phFin (ph : PhLayer) (t t' : Tree) (s : Nat) : (phFin ph t t' s).length = t'.length := by
  simp [phFin, pathPh0]

/-- entries of the final layer: the leaf -/
theorem Ctx.fin_leaf (c : Ctx t t' s nl pk k) (ph : PhLayer) :
    phGet (phFin ph t t' s) (2 * s) = some (hA t t' s 0) := by
  unfold phFin
  rw [phGet_phSet_self]
  simp only [length_phAssign, pathPh0, length_phOf]; exact c.leaf_lt

/-- entries of the final layer: an unfiltered path node -/
theorem Ctx.fin_unf (c : Ctx t t' s nl pk k) (ph : PhLayer) {j k' : Nat} (hj : j < k)
    (hp : pk[j]? = some (some k')) :
    phGet (phFin ph t t' s) (pathEntry s j).1 = some (hA t t' s (j + 1)) := by
  unfold phFin
  have := pathEntry_fst_odd s j
  rw [phGet_phSet_ne _ _ _ _ (by omega)]
  rw [phGet_phAssign_mem t' _ _ (Add.path_nodup t s) (Upd.dc_get c.hk c.hs hj)]
  · rw [(c.unf hj hp).2]; rfl
  · intro _
    simp only [pathPh0, length_phOf]
    exact lt_of_get_some (c.unf hj hp).1

/-- entries of the final layer: any other node -/
theorem Ctx.fin_other (c : Ctx t t' s nl pk k) (ph : PhLayer) {y : Nat} (hy : y ≠ 2 * s)
    (hn : ∀ j, j < k → y = (pathEntry s j).1 → pk[j]? = some none) :
    phGet (phFin ph t t' s) y =
      match get t' y with
      | none => none
      | some (.leaf _) => phGet ph y
      | some (.parent _) => some ((phGet ph y).getD .empty) := by
  unfold phFin
  rw [phGet_phSet_ne _ _ _ _ (Ne.symm hy), ← phGet_pathPh0 ph t' s none hy]
  by_cases hm : y ∈ (directCopathOf t s).map (·.1)
  · rw [Add.mem_path t k s _ c.hk] at hm
    obtain ⟨_, j, hj, rfl⟩ := hm
    rw [phGet_phAssign_mem t' _ _ (Add.path_nodup t s) (Upd.dc_get c.hk c.hs hj)]
    · rw [(c.fil hj (hn j hj rfl)).2.2.1]; rfl
    · intro h; rw [(c.fil hj (hn j hj rfl)).2.2.1] at h; cases h
  · exact phGet_phAssign_notin _ _ _ _ hm

end

/-! ### the top-level keys of the final layer -/

/-- node `y` is the sender's leaf (`m = 0`) or the unfiltered path node `m - 1`: its new entry is
`hA m` -/
def IsNew (pk : List (Option Nat)) (s k y m : Nat) : Prop :=
  (m = 0 ∧ y = 2 * s) ∨
  ∃ j k', m = j + 1 ∧ j < k ∧ y = (pathEntry s j).1 ∧ pk[j]? = some (some k')

section
variable {t t' : Tree} {s : Nat} {nl : Leaf} {pk : List (Option Nat)} {k : Nat}

theorem Ctx.fin_new (c : Ctx t t' s nl pk k) (ph : PhLayer) {y m : Nat} (h : IsNew pk s k y m) :
    phGet (phFin ph t t' s) y = some (hA t t' s m) := by
  rcases h with ⟨rfl, rfl⟩ | ⟨j, k', rfl, hj, rfl, hp⟩
  · exact c.fin_leaf ph
  · exact c.fin_unf ph hj hp

theorem topKey_getD (v : Option PH) : (some (v.getD .empty)).bind PH.key? = v.bind PH.key? := by
  cases v <;> rfl

theorem Ctx.fin_class (c : Ctx t t' s nl pk k) (ph : PhLayer) (y : Nat) :
    (∃ m, IsNew pk s k y m) ∨
    ((y ≠ 2 * s ∧ ∀ j, j < k → y = (pathEntry s j).1 → pk[j]? = some none) ∧
     (topKey (phFin ph t t' s) y = none ∨ topKey (phFin ph t t' s) y = topKey ph y)) := by
  by_cases hy : y = 2 * s
  · left; exact ⟨0, Or.inl ⟨rfl, hy⟩⟩
  · by_cases hn : ∃ j k', j < k ∧ y = (pathEntry s j).1 ∧ pk[j]? = some (some k')
    · obtain ⟨j, k', hj, he, hp⟩ := hn
      left; exact ⟨j + 1, Or.inr ⟨j, k', rfl, hj, he, hp⟩⟩
    · right
      have hn' : ∀ j, j < k → y = (pathEntry s j).1 → pk[j]? = some none := by
        intro j hj he
        rcases c.pk_cases hj with hp | ⟨k', hp⟩
        · exact hp
        · exact absurd ⟨j, k', hj, he, hp⟩ hn
      refine ⟨⟨hy, hn'⟩, ?_⟩
      unfold topKey
      rw [c.fin_other ph hy hn']
      split
      · left; rfl
      · right; rfl
      · right; exact topKey_getD _

/-- the top key of a new entry is an announced key of a position `≥ m`, all positions between
being filtered -/
theorem Ctx.new_key (c : Ctx t t' s nl pk k) (ph : PhLayer) {y m k'' : Nat} (h : IsNew pk s k y m)
    (hk : topKey (phFin ph t t' s) y = some k'') :
    ∃ j', m ≤ j' ∧ j' < k ∧ pk[j']? = some (some k'') ∧ ∀ i, m ≤ i → i < j' → pk[i]? = some none := by
  unfold topKey at hk
  rw [c.fin_new ph h] at hk
  exact c.hA_key (k - m) m k'' rfl hk

theorem isNew_lt_absurd {m m' j' y' : Nat} (h' : IsNew pk s k y' m')
    (hlt : m < m') (h1 : m' ≤ j') (h2 : ∀ i, m ≤ i → i < j' → pk[i]? = some none) : False := by
  rcases h' with ⟨rfl, _⟩ | ⟨j, k', rfl, _, _, hp⟩
  · omega
  · rw [h2 j (by omega) (by omega)] at hp; cases hp

theorem isNew_inj {m y y' : Nat} (h : IsNew pk s k y m) (h' : IsNew pk s k y' m) : y = y' := by
  rcases h with ⟨rfl, rfl⟩ | ⟨j, k', rfl, _, rfl, _⟩
  · rcases h' with ⟨_, rfl⟩ | ⟨j, k', h0, _⟩
    · rfl
    · omega
  · rcases h' with ⟨h0, _⟩ | ⟨j2, k2, h0, _, rfl, _⟩
    · omega
    · have : j = j2 := by omega
      rw [this]

theorem Ctx.fin_keys (c : Ctx t t' s nl pk k) {ph : PhLayer}
    (hold : ∀ d d' k'', topKey ph d = some k'' → topKey ph d' = some k'' → d = d')
    (hk1 : ∀ (j k' : Nat), pk[j]? = some (some k') → ∀ i, topKey ph i ≠ some k')
    (hk2 : ∀ (j j' k' : Nat), pk[j]? = some (some k') → pk[j']? = some (some k') → j = j')
    {d d' k'' : Nat} (h1 : topKey (phFin ph t t' s) d = some k'')
    (h2 : topKey (phFin ph t t' s) d' = some k'') : d = d' := by
  rcases c.fin_class ph d with ⟨m, hm⟩ | ⟨_, hB⟩
  · obtain ⟨j1, a1, a2, a3, a4⟩ := c.new_key ph hm h1
    rcases c.fin_class ph d' with ⟨m', hm'⟩ | ⟨_, hB'⟩
    · obtain ⟨j2, b1, b2, b3, b4⟩ := c.new_key ph hm' h2
      have hj := hk2 j1 j2 k'' a3 b3
      subst hj
      rcases Nat.lt_trichotomy m m' with hlt | heq | hlt
      · exact (isNew_lt_absurd hm' hlt b1 a4).elim
      · subst heq; exact isNew_inj hm hm'
      · exact (isNew_lt_absurd hm hlt a1 b4).elim
    · rcases hB' with hB' | hB'
      · rw [hB'] at h2; cases h2
      · rw [hB'] at h2; exact absurd h2 (hk1 j1 k'' a3 d')
  · rcases hB with hB | hB
    · rw [hB] at h1; cases h1
    · rw [hB] at h1
      rcases c.fin_class ph d' with ⟨m', hm'⟩ | ⟨_, hB'⟩
      · obtain ⟨j2, b1, b2, b3, b4⟩ := c.new_key ph hm' h2
        exact absurd h1 (hk1 j2 k'' b3 d)
      · rcases hB' with hB' | hB'
        · rw [hB'] at h2; cases h2
        · rw [hB'] at h2; exact hold d d' k'' h1 h2

theorem Ctx.fin_below (c : Ctx t t' s nl pk k) {ph : PhLayer} {b : Nat} (hb : PhKeysBelow ph b)
    (hpk : ∀ (j k' : Nat), pk[j]? = some (some k') → k' < b) : PhKeysBelow (phFin ph t t' s) b := by
  intro i _ k'' hk
  rw [Option.mem_def] at hk
  rcases c.fin_class ph i with ⟨m, hm⟩ | ⟨_, hB⟩
  · obtain ⟨j1, _, _, a3, _⟩ := c.new_key ph hm hk
    exact hpk j1 k'' a3
  · rcases hB with hB | hB
    · rw [hB] at hk; cases hk
    · rw [hB] at hk; exact hb.lt hk

end

/-! ### the witnesses of the final layer -/

theorem resolution_blank {t : Tree} {x l r : Nat} (hg : get t x = none) (hl : left? x = some l)
    (hr : right? x = some r) : resolution t x = resolution t l ++ resolution t r := by
  have e := eq_nd x
  cases hlv : level x with
  | zero => rw [e, hlv, left?_nd_zero] at hl; cases hl
  | succ lv =>
    rw [hlv] at e
    obtain ⟨q, hq⟩ : ∃ q, x = nd (lv + 1) q := ⟨_, e⟩
    subst hq
    rw [left?_nd] at hl; rw [right?_nd] at hr
    cases hl; cases hr
    rw [resolution_nd, resolution_nd, resolution_nd, resCF, hg]

theorem children_not_below {s x l r : Nat} (hz : ¬ below s x) (hl : left? x = some l)
    (hr : right? x = some r) : ¬ below s l ∧ ¬ below s r := by
  have e := eq_nd x
  cases hlv : level x with
  | zero => rw [e, hlv, left?_nd_zero] at hl; cases hl
  | succ lv =>
    rw [hlv] at e
    obtain ⟨q, hq⟩ : ∃ q, x = nd (lv + 1) q := ⟨_, e⟩
    subst hq
    rw [left?_nd] at hl; rw [right?_nd] at hr
    cases hl; cases hr
    exact ⟨fun h => hz (below_left h), fun h => hz (below_right h)⟩

section
variable {t t' : Tree} {s : Nat} {nl : Leaf} {pk : List (Option Nat)} {k : Nat}

/-- from the own-side child of path position `j` down: the resolution is a single node, which
stores `hA j` -/
theorem Ctx.down (c : Ctx t t' s nl pk k) (ph : PhLayer) : ∀ j, j ≤ k →
    ∃ d, resolution t' (nd j (s / 2 ^ j)) = [d] ∧ phGet (phFin ph t t' s) d = some (hA t t' s j) := by
  intro j
  induction j with
  | zero =>
    intro _
    refine ⟨2 * s, ?_, c.fin_leaf ph⟩
    rw [resolution_nd, resCF, own_child_zero, c.hpu.leaf]
    simp [resHead]
  | succ j ih =>
    intro hj
    have hj' : j < k := by omega
    obtain ⟨d, hd1, hd2⟩ := ih (by omega)
    rw [own_child_succ]
    rcases c.pk_cases hj' with hp | ⟨k', hp⟩
    · refine ⟨d, ?_, by rw [← c.hA_fil hj' hp]; exact hd2⟩
      obtain ⟨h1, _, _, h4⟩ := c.fil hj' hp
      rcases pathEntry_children s j with ⟨e1, e2⟩ | ⟨e1, e2⟩
      · rw [resolution_blank h1 e1 e2, hd1, h4]; rfl
      · rw [resolution_blank h1 e1 e2, hd1, h4]; rfl
    · refine ⟨(pathEntry s j).1, ?_, c.fin_unf ph hj' hp⟩
      show resolution t' (nd (j + 1) (s / 2 ^ (j + 1))) = _
      rw [resolution_nd, resCF]
      have := (c.unf hj' hp).1
      rw [← own_child_succ] at this
      rw [this]
      simp only [resHead, List.map_nil]
      rfl

/-- the subtree of a node that is not above the sender is untouched -/
theorem Ctx.untouched (c : Ctx t t' s nl pk k) {z y : Nat} (hz : ¬ below s z)
    (hy : inSub y z ∨ Desc y z) : get t' y = get t y ∧ y ≠ 2 * s ∧ ∀ j, y ≠ (pathEntry s j).1 := by
  have h2 : y ≠ 2 * s := by
    rintro rfl
    rcases hy with hy | hy
    · exact hz (below_of_inSub hy)
    · exact hz ((desc_leaf_iff_below s z).1 hy)
  have h3 : ∀ j, y ≠ (pathEntry s j).1 := by
    rintro j rfl
    rcases hy with hy | hy
    · exact hz (Upd.below_of_inSub_below hy (below_self_pathEntry s j))
    · exact hz (below_trans_desc (below_self_pathEntry s j) hy)
  refine ⟨?_, h2, h3⟩
  apply c.hpu.offPath y h2
  intro cp hcp he
  obtain ⟨_, j, _, rfl⟩ := mem_directCopathOf c.hk hcp
  exact h3 j he.symm

theorem Ctx.wit_new (c : Ctx t t' s nl pk k) (ph : PhLayer) {j k' d : Nat} (hj : j < k)
    (hp : pk[j]? = some (some k')) (hd1 : resolution t' (nd j (s / 2 ^ j)) = [d])
    (hd2 : phGet (phFin ph t t' s) d = some (hA t t' s j)) :
    d ∈ resolution t' (nd j (s / 2 ^ j)) ∧
    Wit ⟨t', phFin ph t t' s⟩ (pathEntry s j).1 { key := k', unmerged := [] } (nd j (s / 2 ^ j))
      (pathEntry s j).2 d := by
  refine ⟨by rw [hd1]; exact List.mem_singleton.2 rfl, ?_, ?_⟩
  · unfold linkHash
    simp only
    rw [c.fin_unf ph hj hp, hd2, c.hA_unf hj hp]; rfl
  · unfold SideCond
    simp only
    rw [hd1]
    simp

theorem Ctx.wit_old {p : PTree} (c : Ctx p.t t' s nl pk k) {x a b d : Nat} {P : Parent}
    (hg : get p.t x = some (.parent P)) (hg' : get t' x = get p.t x) (hx : x ≠ 2 * s)
    (hxn : ∀ j, j < k → x = (pathEntry s j).1 → pk[j]? = some none)
    (ha : ¬ below s a) (hb : ¬ below s b) (hd : d ∈ resolution p.t a) (hw : Wit p x P a b d) :
    d ∈ resolution t' a ∧ Wit ⟨t', phFin p.ph p.t t' s⟩ x P a b d := by
  have hres : resolution t' a = resolution p.t a :=
    resolution_congr fun y hy => (c.untouched ha (Or.inl hy)).1
  have hsub : inSub d a := resolution_in_subtree' c.hw.2.2.1 hd
  have hdne : get p.t d ≠ none := resolution_nonblank' c.hw.2.2.1 hd
  obtain ⟨e1, e2, e3⟩ := c.untouched ha (Or.inl hsub)
  have hlink : linkHash ⟨t', phFin p.ph p.t t' s⟩ x b P = linkHash p x b P := by
    unfold linkHash
    simp only
    rw [c.fin_other p.ph hx hxn, hg', hg]
    simp only [Option.getD_some]
    rw [spec_congr P.unmerged fun y hy => (c.untouched hb (Or.inr hy)).1]
  refine ⟨by rw [hres]; exact hd, ?_, ?_⟩
  · rw [hlink]
    show phGet (phFin p.ph p.t t' s) d = _
    rw [c.fin_other p.ph e2 (fun j _ he => absurd he (e3 j)), e1]
    have h1 := hw.1
    cases hgd : get p.t d with
    | none => exact absurd hgd hdne
    | some n =>
      cases n with
      | leaf L => exact h1
      | parent Q => simp only; rw [h1]; rfl
  · have h2 := hw.2
    unfold SideCond at h2 ⊢
    show _ ∈ resolution t' a ∧ (∀ a_1 ∈ resolution t' a, _) ∧ (∀ u ∈ P.unmerged, below u a → _ ∈ resolution t' a ∧ _)
    rw [hres]; exact h2

theorem Ctx.fin_linked {p : PTree} (c : Ctx p.t t' s nl pk k) (hi : PHInv p) :
    ∀ x < t'.length, ∀ P ∈ parentOf? (get t' x), ∀ l ∈ left? x, ∀ r ∈ right? x,
      (∃ d ∈ resolution t' l, Wit ⟨t', phFin p.ph p.t t' s⟩ x P l r d) ∨
      (∃ d ∈ resolution t' r, Wit ⟨t', phFin p.ph p.t t' s⟩ x P r l d) := by
  intro x _ P hP l hl r hr
  rw [Option.mem_def] at hP hl hr
  rw [parentOf?_eq_some] at hP
  rcases Upd.classify c.hpu c.hk c.hs x with ⟨_, h1⟩ | ⟨j, k', hj, rfl, hp, h1⟩ | ⟨hne, h1, hnp⟩
  · rw [h1] at hP; cases hP
  · rw [h1] at hP
    simp only [Option.some.injEq, Node.parent.injEq] at hP
    subst hP
    obtain ⟨d, hd1, hd2⟩ := c.down p.ph j (Nat.le_of_lt hj)
    have hw := c.wit_new p.ph hj hp hd1 hd2
    rcases pathEntry_children s j with ⟨e1, e2⟩ | ⟨e1, e2⟩
    · rw [e1] at hl; rw [e2] at hr; cases hl; cases hr
      exact Or.inl ⟨d, hw.1, hw.2⟩
    · rw [e1] at hl; rw [e2] at hr; cases hl; cases hr
      exact Or.inr ⟨d, hw.1, hw.2⟩
  · have hg : get p.t x = some (.parent P) := by rw [← h1]; exact hP
    have hxt : x < p.t.length := lt_of_get_some hg
    have hodd : x % 2 = 1 := by
      apply Classical.byContradiction
      intro hc
      have := (c.hw.1.1.1 x hxt).1 (by omega)
      rw [hg] at this; simp at this
    have hxn : ∀ j, j < k → x = (pathEntry s j).1 → pk[j]? = some none := by
      intro j hj he
      rcases c.pk_cases hj with hp | ⟨k', hp⟩
      · exact hp
      · exact absurd hp (hnp j hj he k')
    have hnb : ¬ below s x := by
      intro hb
      have hbd := c.hbound
      obtain ⟨j, hj, rfl⟩ := Upd.path_of_below (by omega : x < 2 ^ (k + 1) - 1) hodd hb
      have := (c.fil hj (hxn j hj rfl)).2.1
      rw [hg] at this; cases this
    obtain ⟨hnl, hnr⟩ := children_not_below hnb hl hr
    rcases hi.linked x hxt P (by rw [hg]; rfl) l hl r hr with ⟨d, hd, hw⟩ | ⟨d, hd, hw⟩
    · have := c.wit_old hg h1 hne hxn hnl hnr hd hw
      exact Or.inl ⟨d, this.1, this.2⟩
    · have := c.wit_old hg h1 hne hxn hnr hnl hd hw
      exact Or.inr ⟨d, this.1, this.2⟩

end

end Path
/-! ### the path update on `PTree` -/

section PathUpdate
variable {p : PTree} {t' : Tree} {s : Nat} {nl : Leaf} {pk : List (Option Nat)}

/-- the sender's `update_parent_hashes(s, false)`, evaluated -/
theorem sender_eval (hw : WF p.t) (hw' : WF t') (hpu : PathUpdated p.t t' s nl pk)
    (hlen : t'.length = p.t.length) (hL : ∃ L, get p.t (2 * s) = some (.leaf L))
    (hf : FilterOk p.t s pk) (lph : Option PH) :
    updateParentHashes ⟨t', pathPh0 p.ph t' s lph⟩ s false = .ok ⟨t', Path.phFin p.ph p.t t' s⟩ := by
  obtain ⟨k, c⟩ := Path.Ctx.mk' hw hw' hpu hlen hL hf
  rw [c.uph p.ph lph false, c.fin_false p.ph lph]
  rfl

/-- (S1) the sender's `update_parent_hashes(s, false)` succeeds, and its result does not depend on
the previous parent hash of the own leaf -/
theorem sender_ok (hw : WF p.t) (hw' : WF t') (hpu : PathUpdated p.t t' s nl pk)
    (hlen : t'.length = p.t.length) (hL : ∃ L, get p.t (2 * s) = some (.leaf L))
    (hf : FilterOk p.t s pk) :
    ∃ p', ∀ lph, updateParentHashes ⟨t', pathPh0 p.ph t' s lph⟩ s false = .ok p' :=
  ⟨_, sender_eval hw hw' hpu hlen hL hf⟩

/-- a receiver's `update_parent_hashes(s, true)`, evaluated: success with the sender's result when
the new leaf carries the value the sender computed, `ParentHashMismatch` for any other value,
`InvalidLeafNodeSource` for a leaf without parent hash -/
theorem receiver_eval (hw : WF p.t) (hw' : WF t') (hpu : PathUpdated p.t t' s nl pk)
    (hlen : t'.length = p.t.length) (hL : ∃ L, get p.t (2 * s) = some (.leaf L))
    (hf : FilterOk p.t s pk) {p' : PTree} {lph0 : Option PH}
    (hs : updateParentHashes ⟨t', pathPh0 p.ph t' s lph0⟩ s false = .ok p') (lph : Option PH) :
    (phGet p'.ph (2 * s)).isSome ∧
    updateParentHashes ⟨t', pathPh0 p.ph t' s lph⟩ s true =
      if lph = phGet p'.ph (2 * s) then .ok p'
      else match lph with
        | some _ => .error .parentHashMismatch
        | none => .error .invalidLeafNodeSource := by
  obtain ⟨k, c⟩ := Path.Ctx.mk' hw hw' hpu hlen hL hf
  rw [sender_eval hw hw' hpu hlen hL hf lph0] at hs
  simp only [Except.ok.injEq] at hs
  subst hs
  simp only
  rw [c.fin_leaf p.ph, c.uph p.ph lph true]
  refine ⟨rfl, ?_⟩
  simp only [if_true]
  cases lph with
  | none => simp
  | some h' =>
    simp only [Option.some.injEq]
    by_cases he : Path.hA p.t t' s 0 = h'
    · subst he
      rw [if_pos rfl, if_pos rfl, c.fin_true p.ph]
    · rw [if_neg he, if_neg (fun h => he h.symm)]

/-- (S2) a receiver's `update_parent_hashes(s, true)` succeeds exactly when the new leaf carries the
value the sender computed, and then both hold the same tree and layer -/
theorem receiver_iff (hw : WF p.t) (hw' : WF t') (hpu : PathUpdated p.t t' s nl pk)
    (hlen : t'.length = p.t.length) (hL : ∃ L, get p.t (2 * s) = some (.leaf L))
    (hf : FilterOk p.t s pk) {p' : PTree} {lph0 : Option PH}
    (hs : updateParentHashes ⟨t', pathPh0 p.ph t' s lph0⟩ s false = .ok p') (lph : Option PH)
    (p'' : PTree) :
    updateParentHashes ⟨t', pathPh0 p.ph t' s lph⟩ s true = .ok p'' ↔
      (lph = phGet p'.ph (2 * s) ∧ p'' = p') := by
  rw [(receiver_eval hw hw' hpu hlen hL hf hs lph).2]
  by_cases he : lph = phGet p'.ph (2 * s)
  · rw [if_pos he]
    simp only [Except.ok.injEq, he, true_and]
    exact eq_comm
  · rw [if_neg he]
    constructor
    · intro h; split at h <;> cases h
    · intro h; exact absurd h.1 he

/-- (S3) the invariant after the path update -/
theorem pathUpdate_phinv (hw : WF p.t) (hw' : WF t') (hi : PHInv p)
    (hpu : PathUpdated p.t t' s nl pk) (hlen : t'.length = p.t.length)
    (hL : ∃ L, get p.t (2 * s) = some (.leaf L)) (hf : FilterOk p.t s pk)
    (hk1 : ∀ (j k : Nat), pk[j]? = some (some k) → ∀ i, topKey p.ph i ≠ some k)
    (hk2 : ∀ (j j' k : Nat), pk[j]? = some (some k) → pk[j']? = some (some k) → j = j')
    {lph0 : Option PH} {p' : PTree}
    (hs : updateParentHashes ⟨t', pathPh0 p.ph t' s lph0⟩ s false = .ok p') :
    PHInv p' ∧ p'.t = t' := by
  obtain ⟨k, c⟩ := Path.Ctx.mk' hw hw' hpu hlen hL hf
  rw [sender_eval hw hw' hpu hlen hL hf lph0] at hs
  simp only [Except.ok.injEq] at hs
  subst hs
  refine ⟨⟨c.fin_linked hi, ?_⟩, rfl⟩
  intro d _ d' _ k'' h1 h2
  exact c.fin_keys (fun a b x ha hb => hi.keys' ha hb) hk1 hk2 h1 h2

/-- keys of the new layer: below `b` if the old ones and the announced keys are -/
theorem pathUpdate_phKeysBelow (hw : WF p.t) (hw' : WF t')
    (hpu : PathUpdated p.t t' s nl pk) (hlen : t'.length = p.t.length)
    (hL : ∃ L, get p.t (2 * s) = some (.leaf L)) (hf : FilterOk p.t s pk)
    {b : Nat} (hb : PhKeysBelow p.ph b) (hpk : ∀ (j k : Nat), pk[j]? = some (some k) → k < b)
    {lph0 : Option PH} {p' : PTree}
    (hs : updateParentHashes ⟨t', pathPh0 p.ph t' s lph0⟩ s false = .ok p') :
    PhKeysBelow p'.ph b := by
  obtain ⟨k, c⟩ := Path.Ctx.mk' hw hw' hpu hlen hL hf
  rw [sender_eval hw hw' hpu hlen hL hf lph0] at hs
  simp only [Except.ok.injEq] at hs
  subst hs
  exact c.fin_below hb hpk

end PathUpdate

/-! ### the model operations `PTree.encap` / `PTree.applyUpdatePath` -/

theorem PhKeysBelow.mono {ph : PhLayer} {b b' : Nat} (h : PhKeysBelow ph b) (hbb : b ≤ b') :
    PhKeysBelow ph b' := fun i hi k hk => Nat.lt_of_lt_of_le (h i hi k hk) hbb

section Encap
variable {p p' : PTree} {self fresh : Nat} {nl : Leaf} {excl : List Nat} {o : EncapOut}

theorem encap_ok_iff :
    p.encap self nl excl fresh = .ok (o, p') ↔
      Tree.encap p.t self nl excl fresh = .ok o ∧
      updateParentHashes ⟨o.tree, pathPh0 p.ph o.tree self (phGet p.ph (2 * self))⟩ self false
        = .ok p' := by
  unfold PTree.encap
  cases h1 : Tree.encap p.t self nl excl fresh with
  | error e => simp
  | ok o1 =>
    simp only
    cases h2 : updateParentHashes ⟨o1.tree, pathPh0 p.ph o1.tree self (phGet p.ph (2 * self))⟩
        self false with
    | error e => simp only [reduceCtorEq, false_iff]; rintro ⟨h, h'⟩; cases h; rw [h2] at h'; cases h'
    | ok p1 =>
      simp only [Except.ok.injEq, Prod.mk.injEq]
      constructor
      · rintro ⟨rfl, rfl⟩; exact ⟨rfl, h2⟩
      · rintro ⟨rfl, h⟩; rw [h2] at h; exact ⟨rfl, by simpa using h⟩

/-- the hypotheses of the path-update theorems, from `encap_spec` -/
theorem Path.encap_hyps (hw : WF p.t) (hL : ∃ L, get p.t (2 * self) = some (.leaf L))
    (hb : StampsBelow p.t fresh) (hpb : PhKeysBelow p.ph fresh)
    (hnl : nl.hpke ∉ keyStamps p.t) (hnl2 : nl.hpke < fresh)
    (hid : ∀ x L, x ≠ 2 * self → get p.t x = some (.leaf L) → L.ident ≠ nl.ident ∧ L.sig ≠ nl.sig)
    (ht : Tree.encap p.t self nl excl fresh = .ok o) :
    WF o.tree ∧ PathUpdated p.t o.tree self nl o.pathKeys ∧ o.tree.length = p.t.length ∧
    FilterOk p.t self o.pathKeys ∧
    (∀ (j k : Nat), o.pathKeys[j]? = some (some k) → ∀ i, topKey p.ph i ≠ some k) ∧
    (∀ (j j' k : Nat), o.pathKeys[j]? = some (some k) → o.pathKeys[j']? = some (some k) → j = j') ∧
    (∀ (j k : Nat), o.pathKeys[j]? = some (some k) → k < fresh + o.pathKeys.length) := by
  have hself := self_lt_of_leaf hL
  obtain ⟨hpu, hf, _, hk, hinj⟩ := encap_spec ht hself
  refine ⟨wf_encap hw hL hb hnl hnl2 hid ht, hpu, encap_length hw.1.1 hself ht, hf, ?_, hinj,
    fun j k h => (hk j k h).2⟩
  intro j k h i hi
  have := (hk j k h).1
  have := hpb.lt hi
  omega

theorem encap_phinv (hw : WF p.t) (hi : PHInv p) (hL : ∃ L, get p.t (2 * self) = some (.leaf L))
    (hb : StampsBelow p.t fresh) (hpb : PhKeysBelow p.ph fresh)
    (hnl : nl.hpke ∉ keyStamps p.t) (hnl2 : nl.hpke < fresh)
    (hid : ∀ x L, x ≠ 2 * self → get p.t x = some (.leaf L) → L.ident ≠ nl.ident ∧ L.sig ≠ nl.sig)
    (h : p.encap self nl excl fresh = .ok (o, p')) :
    PHInv p' ∧ p'.t = o.tree ∧ Tree.encap p.t self nl excl fresh = .ok o ∧
      PhKeysBelow p'.ph (fresh + o.pathKeys.length) := by
  obtain ⟨ht, hs⟩ := encap_ok_iff.1 h
  obtain ⟨hw', hpu, hlen, hf, hk1, hk2, hk3⟩ := Path.encap_hyps hw hL hb hpb hnl hnl2 hid ht
  obtain ⟨h1, h2⟩ := pathUpdate_phinv hw hw' hi hpu hlen hL hf hk1 hk2 hs
  exact ⟨h1, h2, ht,
    pathUpdate_phKeysBelow hw hw' hpu hlen hL hf (hpb.mono (Nat.le_add_right _ _)) hk3 hs⟩

/-- the committer's `encap` never fails in the parent-hash part -/
theorem encap_ok_of_tree (hw : WF p.t) (hL : ∃ L, get p.t (2 * self) = some (.leaf L))
    (hb : StampsBelow p.t fresh) (hpb : PhKeysBelow p.ph fresh)
    (hnl : nl.hpke ∉ keyStamps p.t) (hnl2 : nl.hpke < fresh)
    (hid : ∀ x L, x ≠ 2 * self → get p.t x = some (.leaf L) → L.ident ≠ nl.ident ∧ L.sig ≠ nl.sig)
    (ht : Tree.encap p.t self nl excl fresh = .ok o) :
    ∃ p', p.encap self nl excl fresh = .ok (o, p') := by
  obtain ⟨hw', hpu, hlen, hf, _, _, _⟩ := Path.encap_hyps hw hL hb hpb hnl hnl2 hid ht
  exact ⟨_, encap_ok_iff.2 ⟨ht, sender_eval hw hw' hpu hlen hL hf _⟩⟩

theorem applyUpdatePath_of_tree {t' : Tree} {pk : List (Option Nat)} (lph : Option PH)
    (ht : Tree.applyUpdatePath p.t self nl pk = .ok t') :
    p.applyUpdatePath self nl lph pk =
      updateParentHashes ⟨t', pathPh0 p.ph t' self lph⟩ self true := by
  unfold PTree.applyUpdatePath
  rw [ht]

/-- a receiver accepts the committer's path exactly with the parent hash the committer computed,
and then holds the committer's tree and layer -/
theorem receiver_accepts_iff (hw : WF p.t) (hL : ∃ L, get p.t (2 * self) = some (.leaf L))
    (hb : StampsBelow p.t fresh) (hpb : PhKeysBelow p.ph fresh)
    (hnl : nl.hpke ∉ keyStamps p.t) (hnl2 : nl.hpke < fresh)
    (hid : ∀ x L, x ≠ 2 * self → get p.t x = some (.leaf L) → L.ident ≠ nl.ident ∧ L.sig ≠ nl.sig)
    (h : p.encap self nl excl fresh = .ok (o, p')) (lph : Option PH) (p'' : PTree) :
    p.applyUpdatePath self nl lph o.pathKeys = .ok p'' ↔
      (lph = phGet p'.ph (2 * self) ∧ p'' = p') := by
  obtain ⟨ht, hs⟩ := encap_ok_iff.1 h
  obtain ⟨hw', hpu, hlen, hf, _, _, _⟩ := Path.encap_hyps hw hL hb hpb hnl hnl2 hid ht
  rw [applyUpdatePath_of_tree lph (encap_applyUpdatePath_agree hL ht)]
  exact receiver_iff hw hw' hpu hlen hL hf hs lph p''

/-- what a receiver returns otherwise -/
theorem receiver_rejects (hw : WF p.t) (hL : ∃ L, get p.t (2 * self) = some (.leaf L))
    (hb : StampsBelow p.t fresh) (hpb : PhKeysBelow p.ph fresh)
    (hnl : nl.hpke ∉ keyStamps p.t) (hnl2 : nl.hpke < fresh)
    (hid : ∀ x L, x ≠ 2 * self → get p.t x = some (.leaf L) → L.ident ≠ nl.ident ∧ L.sig ≠ nl.sig)
    (h : p.encap self nl excl fresh = .ok (o, p')) (lph : Option PH)
    (hne : lph ≠ phGet p'.ph (2 * self)) :
    p.applyUpdatePath self nl lph o.pathKeys =
      match (generalizing := false) lph with
      | some _ => .error .parentHashMismatch
      | none => .error .invalidLeafNodeSource := by
  obtain ⟨ht, hs⟩ := encap_ok_iff.1 h
  obtain ⟨hw', hpu, hlen, hf, _, _, _⟩ := Path.encap_hyps hw hL hb hpb hnl hnl2 hid ht
  rw [applyUpdatePath_of_tree lph (encap_applyUpdatePath_agree hL ht),
    (receiver_eval hw hw' hpu hlen hL hf hs lph).2, if_neg hne]

theorem sender_receiver_agree (hw : WF p.t) (hL : ∃ L, get p.t (2 * self) = some (.leaf L))
    (hb : StampsBelow p.t fresh) (hpb : PhKeysBelow p.ph fresh)
    (hnl : nl.hpke ∉ keyStamps p.t) (hnl2 : nl.hpke < fresh)
    (hid : ∀ x L, x ≠ 2 * self → get p.t x = some (.leaf L) → L.ident ≠ nl.ident ∧ L.sig ≠ nl.sig)
    (h : p.encap self nl excl fresh = .ok (o, p')) :
    p.applyUpdatePath self nl (phGet p'.ph (2 * self)) o.pathKeys = .ok p' ∧
      (phGet p'.ph (2 * self)).isSome := by
  refine ⟨(receiver_accepts_iff hw hL hb hpb hnl hnl2 hid h _ _).2 ⟨rfl, rfl⟩, ?_⟩
  obtain ⟨ht, hs⟩ := encap_ok_iff.1 h
  obtain ⟨hw', hpu, hlen, hf, _, _, _⟩ := Path.encap_hyps hw hL hb hpb hnl hnl2 hid ht
  exact (receiver_eval hw hw' hpu hlen hL hf hs none).1

end Encap

end MlsVerif.ParentHash
