import MlsVerif.Model.TreeHash
import MlsVerif.Proofs.Tree.Path
/-
Proofs about the incremental tree-hash cache (`Model/TreeHash.lean`): the from-scratch computation
is the spec, `update_hashes` keeps the cache coherent, and the cache stays coherent along every
history of tree operations.  Statements for the outside live in `Props/C08Hash.lean`.
-/
namespace MlsVerif.TreeHash
open MlsVerif.TreeMath MlsVerif.Tree

/-! ### §1 descendants, arithmetically -/

/-- `y` lies in the subtree of `x` (descendant or `x` itself): not higher than `x`, and in the same
aligned index block of size `2^(level x + 1)` -/
def Desc (y x : Nat) : Prop := level y ≤ level x ∧ y / 2 ^ (level x + 1) = x / 2 ^ (level x + 1)

theorem desc_refl (x : Nat) : Desc x x := ⟨Nat.le_refl _, rfl⟩

theorem desc_trans {y x z : Nat} (h1 : Desc y x) (h2 : Desc x z) : Desc y z := by
  refine ⟨Nat.le_trans h1.1 h2.1, ?_⟩
  rw [div_pow_mono y x (level x + 1) (level z + 1) (by have := h2.1; omega) h1.2]
  exact h2.2

theorem desc_leaf_iff_below (l x : Nat) : Desc (2 * l) x ↔ below l x := by
  unfold Desc
  rw [below_iff, div_pow_succ (2 * l) (level x)]
  have h0 : level (2 * l) = 0 := (level_eq_zero_iff _).2 (by omega)
  have h1 : 2 * l / 2 = l := by omega
  rw [h0, h1]
  constructor
  · intro h; exact h.2
  · intro h; exact ⟨Nat.zero_le _, h⟩

theorem desc_eq_of_level_eq {y x : Nat} (h : Desc y x) (hl : level y = level x) : y = x := by
  have e1 := eq_nd y
  have e2 := eq_nd x
  rw [hl, h.2] at e1
  rw [e1]; exact e2.symm

theorem nd_div_succ (l q : Nat) : nd l q / 2 ^ (l + 1 + 1) = q / 2 := by
  rw [pow_succ' (l + 1), Nat.mul_comm, ← Nat.div_div_eq_div_mul, nd_div]

theorem desc_left_nd (l q : Nat) : Desc (nd l (2 * q)) (nd (l + 1) q) := by
  refine ⟨by rw [level_nd, level_nd]; omega, ?_⟩
  rw [level_nd, nd_div, nd_div_succ]; omega

theorem desc_right_nd (l q : Nat) : Desc (nd l (2 * q + 1)) (nd (l + 1) q) := by
  refine ⟨by rw [level_nd, level_nd]; omega, ?_⟩
  rw [level_nd, nd_div, nd_div_succ]; omega

/-- a proper descendant's parent is still a descendant -/
theorem desc_parent {x z : Nat} (h : Desc x z) (hne : x ≠ z) :
    level x < level z ∧ Desc (psClosed x).1 z := by
  have hlt : level x < level z := by
    rcases Nat.lt_or_ge (level x) (level z) with h' | h'
    · exact h'
    · exact absurd (desc_eq_of_level_eq h (Nat.le_antisymm h.1 h')) hne
  refine ⟨hlt, ?_⟩
  have e := eq_nd x
  generalize level x = j at e hlt
  generalize x / 2 ^ (j + 1) = q at e
  subst e
  rw [psClosed_nd]
  refine ⟨by rw [level_nd]; omega, ?_⟩
  have h3 : nd (j + 1) (q / 2) / 2 ^ (j + 1 + 1) = nd j q / 2 ^ (j + 1 + 1) := by
    rw [nd_div, nd_div_succ]
  rw [div_pow_mono _ _ (j + 1 + 1) (level z + 1) (by omega) h3]
  exact h.2

theorem nd_lt_iff (k l q : Nat) : nd l q < 2 ^ (k + 1) - 1 ↔ l ≤ k ∧ q < 2 ^ (k - l) := by
  constructor
  · intro h
    have hl : l ≤ k := by have := level_le k _ h; rwa [level_nd] at this
    refine ⟨hl, ?_⟩
    obtain ⟨d, rfl⟩ : ∃ d, k = l + d := ⟨k - l, by omega⟩
    rw [Nat.add_sub_cancel_left]
    have e : 2 ^ (l + d + 1) = 2 ^ (l + 1) * 2 ^ d := by
      rw [show l + d + 1 = l + 1 + d by omega, Nat.pow_add]
    unfold nd at h
    have h2 : 2 ^ (l + 1) * q < 2 ^ (l + 1) * 2 ^ d := by omega
    exact Nat.lt_of_mul_lt_mul_left h2
  · intro ⟨h1, h2⟩; exact nd_lt k l q h1 h2

theorem level_root_pow (k : Nat) : level (2 ^ (k + 1) - 1) = k + 1 := by
  have : 2 ^ (k + 1) - 1 = nd (k + 1) 0 := by simp [nd]
  rw [this, level_nd]

/-- descendants of a node of the tree with `2^k` leaves are in that tree -/
theorem desc_lt_bound {y x k : Nat} (h : Desc y x) (hx : x < 2 ^ (k + 1) - 1) :
    y < 2 ^ (k + 1) - 1 := by
  have hj := level_le k x hx
  obtain ⟨h1, h2⟩ := h
  generalize level x = j at h1 h2 hj
  obtain ⟨d, rfl⟩ : ∃ d, k = j + d := ⟨k - j, by omega⟩
  have e : 2 ^ (j + d + 1) = 2 ^ (j + 1) * 2 ^ d := by
    rw [show j + d + 1 = j + 1 + d by omega, Nat.pow_add]
  have hp := Nat.two_pow_pos (j + 1)
  have mx := Nat.div_add_mod x (2 ^ (j + 1))
  have my := Nat.div_add_mod y (2 ^ (j + 1))
  have ry := Nat.mod_lt y hp
  rw [h2] at my
  generalize x / 2 ^ (j + 1) = a at mx my
  have ha : a < 2 ^ d := by
    have : 2 ^ (j + 1) * a < 2 ^ (j + 1) * 2 ^ d := by omega
    exact Nat.lt_of_mul_lt_mul_left this
  have h3 : 2 ^ (j + 1) * (a + 1) ≤ 2 ^ (j + 1) * 2 ^ d := Nat.mul_le_mul_left _ ha
  rw [Nat.mul_succ] at h3
  rcases Nat.lt_or_ge y (2 ^ (j + d + 1) - 1) with hy | hy
  · exact hy
  · exfalso
    have : y = 2 ^ (j + d + 1) - 1 := by omega
    have hl := level_root_pow (j + d)
    rw [← this] at hl
    omega

/-- the leaf `(y+1)/2` lies below `y` (the middle-right leaf; `y/2` itself for a leaf) -/
theorem below_mid (y : Nat) : below ((y + 1) / 2) y := by
  have e := eq_nd y
  generalize level y = j at e
  generalize y / 2 ^ (j + 1) = q at e
  subst e
  rw [below_nd]
  cases j with
  | zero =>
    rw [nd_zero]; simp; omega
  | succ j =>
    unfold nd
    have e1 := pow_succ' j
    have e2 : 2 ^ (j + 1 + 1) * q = 2 * (2 ^ (j + 1) * q) := by rw [pow_succ' (j + 1), Nat.mul_assoc]
    have hp := Nat.two_pow_pos j
    have : (2 ^ (j + 1) - 1 + 2 ^ (j + 1 + 1) * q + 1) / 2 = 2 ^ j + 2 ^ (j + 1) * q := by omega
    rw [this, Nat.add_mul_div_left _ _ (Nat.two_pow_pos _), Nat.div_eq_of_lt (by omega)]
    omega

theorem below_self_leaf (l : Nat) : below l (2 * l) := by
  rw [← nd_zero, below_nd]; simp

theorem le_two_mid (y : Nat) : y ≤ 2 * ((y + 1) / 2) := by omega

theorem below_lt {l x k : Nat} (h : below l x) (hx : x < 2 ^ (k + 1) - 1) : l < 2 ^ k := by
  have := desc_lt_bound ((desc_leaf_iff_below l x).2 h) hx
  rw [pow_succ'] at this
  omega

theorem below_trans_desc {l y x : Nat} (h1 : below l y) (h2 : Desc y x) : below l x :=
  (desc_leaf_iff_below l x).1 (desc_trans ((desc_leaf_iff_below l y).2 h1) h2)

/-! ### §2 the specification -/

theorem spec_leaf (t : Tree) (f : List Nat) (l : Nat) :
    treeHashSpec t f (2 * l) = hashForLeaf t f l := by
  unfold treeHashSpec
  have h0 : level (2 * l) = 0 := (level_eq_zero_iff _).2 (by omega)
  rw [h0, specAux]
  have : 2 * l / 2 = l := by omega
  rw [this]

theorem spec_nd_zero (t : Tree) (f : List Nat) (q : Nat) :
    treeHashSpec t f (nd 0 q) = hashForLeaf t f q := by rw [nd_zero, spec_leaf]

theorem spec_nd_succ (t : Tree) (f : List Nat) (j q : Nat) :
    treeHashSpec t f (nd (j + 1) q) =
      hashForParent (parentAt t (nd (j + 1) q)) f (treeHashSpec t f (nd j (2 * q)))
        (treeHashSpec t f (nd j (2 * q + 1))) := by
  unfold treeHashSpec
  rw [level_nd, level_nd, level_nd, specAux, left?_nd, right?_nd]

/-- the tree hash of `x` only depends on the nodes of the subtree of `x` -/
theorem spec_congr {t t' : Tree} (f : List Nat) {x : Nat}
    (h : ∀ y, Desc y x → get t y = get t' y) : treeHashSpec t f x = treeHashSpec t' f x := by
  have e := eq_nd x
  generalize level x = j at e
  generalize x / 2 ^ (j + 1) = q at e
  subst e
  induction j generalizing q with
  | zero =>
    rw [spec_nd_zero, spec_nd_zero]
    have := h _ (desc_refl _)
    rw [nd_zero] at this
    unfold hashForLeaf leafAt
    rw [this]
  | succ j ih =>
    rw [spec_nd_succ, spec_nd_succ]
    have h0 := h _ (desc_refl _)
    have hl := ih (2 * q) (fun y hy => h y (desc_trans hy (desc_left_nd j q)))
    have hr := ih (2 * q + 1) (fun y hy => h y (desc_trans hy (desc_right_nd j q)))
    rw [hl, hr]
    unfold parentAt
    rw [h0]

/-! ### §3 the implementation -/

theorem length_resize (c : List HT) (m : Nat) : (resize c m).length = m := by
  unfold resize
  split
  · rw [List.length_take]; omega
  · rw [List.length_append, List.length_replicate]; omega

theorem getElem?_resize (c : List HT) (m x : Nat) (hx : x < m) (hc : x < c.length) :
    (resize c m)[x]? = c[x]? := by
  unfold resize
  split
  · rw [List.getElem?_take]; simp [hx]
  · rw [List.getElem?_append_left hc]

/-- what the leaf loop did -/
theorem leafLoop_spec (t : Tree) (f : List Nat) (n : Nat) : ∀ (ls : List Nat) (h : List HT) (q : List Nat),
    (leafLoop t f n ls h q).1.length = h.length ∧
    (∀ x, (∀ l ∈ ls, x ≠ 2 * l) → (leafLoop t f n ls h q).1[x]? = h[x]?) ∧
    (∀ l ∈ ls, 2 * l < h.length → (leafLoop t f n ls h q).1[2 * l]? = some (hashForLeaf t f l)) ∧
    (∀ y, y ∈ (leafLoop t f n ls h q).2 ↔
      (y ∈ q ∨ ∃ l ∈ ls, ∃ ps, parentSibling? (2 * l) n = some ps ∧ ps.1 = y)) := by
  intro ls
  induction ls with
  | nil =>
    intro h q
    simp [leafLoop]
  | cons l ls ih =>
    intro h q
    rw [leafLoop]
    obtain ⟨a1, a2, a3, a4⟩ := ih (h.set (2 * l) (hashForLeaf t f l)) (pushParent q (2 * l) n)
    refine ⟨by rw [a1, List.length_set], ?_, ?_, ?_⟩
    · intro x hx
      rw [a2 x (fun l' hl' => hx l' (List.mem_cons_of_mem _ hl'))]
      rw [List.getElem?_set_ne]
      exact Ne.symm (hx l List.mem_cons_self)
    · intro l' hl' hlt
      by_cases hm : l' ∈ ls
      · exact a3 l' hm (by rw [List.length_set]; exact hlt)
      · have : l' = l := by
          rcases List.mem_cons.1 hl' with h' | h'
          · exact h'
          · exact absurd h' hm
        subst this
        have hne' : ∀ l'' ∈ ls, 2 * l' ≠ 2 * l'' := by
          intro l'' hl'' e
          have : l' = l'' := by omega
          exact hm (this ▸ hl'')
        rw [a2 _ hne', List.getElem?_set_self hlt]
    · intro y
      rw [a4 y]
      constructor
      · rintro (hy | ⟨l', hl', ps, hps, rfl⟩)
        · unfold pushParent at hy
          cases hps : parentSibling? (2 * l) n with
          | none => rw [hps] at hy; exact Or.inl hy
          | some ps =>
            rw [hps] at hy
            rcases List.mem_append.1 hy with hy | hy
            · exact Or.inl hy
            · right
              refine ⟨l, List.mem_cons_self, ps, hps, ?_⟩
              exact (List.mem_singleton.1 hy).symm
        · exact Or.inr ⟨l', List.mem_cons_of_mem _ hl', ps, hps, rfl⟩
      · rintro (hy | ⟨l', hl', ps, hps, rfl⟩)
        · left
          unfold pushParent
          cases hps : parentSibling? (2 * l) n with
          | none => exact hy
          | some ps => exact List.mem_append_left _ hy
        · rcases List.mem_cons.1 hl' with rfl | hl'
          · left
            unfold pushParent
            rw [hps]
            exact List.mem_append_right _ (by simp)
          · exact Or.inr ⟨l', hl', ps, hps, rfl⟩

/-- entry `x` of `h` is the from-scratch hash -/
def Good (t : Tree) (f : List Nat) (h : List HT) (x : Nat) : Prop :=
  h[x]? = some (treeHashSpec t f x)

/-- remaining work of the parent queue in the tree of `2^k` leaves -/
def mu (k : Nat) (q : List Nat) : Nat := (q.map fun y => k + 1 - level y).sum

theorem mu_cons (k x : Nat) (q : List Nat) : mu k (x :: q) = (k + 1 - level x) + mu k q := by
  simp [mu]

theorem mu_snoc (k p : Nat) (q : List Nat) : mu k (q ++ [p]) = mu k q + (k + 1 - level p) := by
  simp [mu, List.sum_append]

/-- invariant of the parent loop in the tree of `2^k` leaves: the queue holds parents of the tree,
sorted by level with at most two adjacent levels present, and every entry of `h` that is not yet the
spec hash has a descendant-or-self waiting in the queue -/
structure QInv (t : Tree) (f : List Nat) (k : Nat) (h : List HT) (q : List Nat) : Prop where
  len : h.length = 2 ^ (k + 1) - 1
  inTree : ∀ y ∈ q, 1 ≤ level y ∧ y < 2 ^ (k + 1) - 1
  sorted : q.Pairwise (fun a b => level a ≤ level b)
  near : ∀ a ∈ q, ∀ b ∈ q, level b ≤ level a + 1
  cover : ∀ z, z < 2 ^ (k + 1) - 1 → ¬ Good t f h z → ∃ y ∈ q, Desc y z

theorem QInv.done {t : Tree} {f : List Nat} {k : Nat} {h : List HT} (inv : QInv t f k h []) :
    ∀ z, z < 2 ^ (k + 1) - 1 → Good t f h z := by
  intro z hz
  apply Classical.byContradiction
  intro hb
  obtain ⟨y, hy, _⟩ := inv.cover z hz hb
  cases hy

/-- one iteration of the parent loop on the head `nd (j+1) a` of the queue -/
theorem qinv_step {t : Tree} {f : List Nat} {k j a : Nat} {h : List HT} {tl : List Nat}
    (inv : QInv t f k h (nd (j + 1) a :: tl)) :
    h.getD (nd j (2 * a)) .dflt = treeHashSpec t f (nd j (2 * a)) ∧
    h.getD (nd j (2 * a + 1)) .dflt = treeHashSpec t f (nd j (2 * a + 1)) ∧
    QInv t f k (h.set (nd (j + 1) a) (treeHashSpec t f (nd (j + 1) a)))
      (pushParent tl (nd (j + 1) a) (2 ^ k)) ∧
    mu k (pushParent tl (nd (j + 1) a) (2 ^ k)) + 1 ≤ mu k (nd (j + 1) a :: tl) := by
  have hx := (inv.inTree _ List.mem_cons_self).2
  have hjk : j + 1 ≤ k := ((nd_lt_iff k (j + 1) a).1 hx).1
  have hsorted := List.pairwise_cons.1 inv.sorted
  -- children are final
  have child : ∀ c, Desc c (nd (j + 1) a) → level c = j → h.getD c .dflt = treeHashSpec t f c := by
    intro c hd hlc
    have hc := desc_lt_bound hd hx
    have hg : Good t f h c := by
      apply Classical.byContradiction
      intro hb
      obtain ⟨y, hy, hyd⟩ := inv.cover c hc hb
      have h1 : level y ≤ j := by rw [← hlc]; exact hyd.1
      rcases List.mem_cons.1 hy with rfl | hy
      · rw [level_nd] at h1; omega
      · have := hsorted.1 y hy
        rw [level_nd] at this; omega
    unfold Good at hg
    rw [List.getD_eq_getElem?_getD, hg]; rfl
  refine ⟨child _ (desc_left_nd j a) (level_nd _ _), child _ (desc_right_nd j a) (level_nd _ _), ?_, ?_⟩
  · -- the invariant after the step
    have hxl : nd (j + 1) a < h.length := by rw [inv.len]; exact hx
    have hgood : ∀ z, ¬ Good t f (h.set (nd (j + 1) a) (treeHashSpec t f (nd (j + 1) a))) z →
        z ≠ nd (j + 1) a ∧ ¬ Good t f h z := by
      intro z hz
      have hne : z ≠ nd (j + 1) a := by
        rintro rfl
        apply hz
        unfold Good
        rw [List.getElem?_set_self hxl]
      refine ⟨hne, ?_⟩
      intro hg; apply hz
      unfold Good at hg ⊢
      rw [List.getElem?_set_ne (Ne.symm hne)]; exact hg
    unfold pushParent
    rw [parentSibling?_eq, root_pow]
    by_cases hr : nd (j + 1) a = nd k 0
    · rw [if_pos hr]
      simp only
      have hjk' : j + 1 = k := (nd_inj hr).1
      refine ⟨by rw [List.length_set]; exact inv.len,
        fun y hy => inv.inTree y (List.mem_cons_of_mem _ hy), hsorted.2,
        fun a' ha' b hb => inv.near a' (List.mem_cons_of_mem _ ha') b (List.mem_cons_of_mem _ hb), ?_⟩
      intro z hz hb
      obtain ⟨hne, hb'⟩ := hgood z hb
      obtain ⟨y, hy, hyd⟩ := inv.cover z hz hb'
      rcases List.mem_cons.1 hy with rfl | hy
      · exfalso
        have := (desc_parent hyd (Ne.symm hne)).1
        rw [level_nd] at this
        have := level_le k z hz
        omega
      · exact ⟨y, hy, hyd⟩
    · rw [if_neg hr]
      simp only
      rw [psClosed_nd]
      simp only
      have hjk' : j + 1 < k := by
        rcases Nat.lt_or_ge (j + 1) k with h' | h'
        · exact h'
        · exfalso
          have e : j + 1 = k := by omega
          have ha := ((nd_lt_iff k (j + 1) a).1 hx).2
          rw [e, Nat.sub_self] at ha
          have : a = 0 := by simpa using ha
          subst this
          exact hr (by rw [e])
      have hp : nd (j + 1 + 1) (a / 2) < 2 ^ (k + 1) - 1 := by
        apply (nd_lt_iff k _ _).2
        refine ⟨by omega, ?_⟩
        have ha := ((nd_lt_iff k (j + 1) a).1 hx).2
        have : k - (j + 1) = (k - (j + 1 + 1)) + 1 := by omega
        rw [this, pow_succ'] at ha
        omega
      refine ⟨by rw [List.length_set]; exact inv.len, ?_, ?_, ?_, ?_⟩
      · intro y hy
        rcases List.mem_append.1 hy with hy | hy
        · exact inv.inTree y (List.mem_cons_of_mem _ hy)
        · have : y = nd (j + 1 + 1) (a / 2) := by simpa using hy
          subst this
          exact ⟨by rw [level_nd]; omega, hp⟩
      · rw [List.pairwise_append]
        refine ⟨hsorted.2, List.pairwise_singleton _ _, ?_⟩
        intro a' ha' b hb
        have : b = nd (j + 1 + 1) (a / 2) := by simpa using hb
        subst this
        have := inv.near _ List.mem_cons_self a' (List.mem_cons_of_mem _ ha')
        rw [level_nd] at this ⊢
        exact this
      · intro a' ha' b hb
        rcases List.mem_append.1 ha' with ha' | ha' <;> rcases List.mem_append.1 hb with hb | hb
        · exact inv.near a' (List.mem_cons_of_mem _ ha') b (List.mem_cons_of_mem _ hb)
        · have : b = nd (j + 1 + 1) (a / 2) := by simpa using hb
          subst this
          have := hsorted.1 a' ha'
          rw [level_nd] at this ⊢
          omega
        · have : a' = nd (j + 1 + 1) (a / 2) := by simpa using ha'
          subst this
          have := inv.near _ List.mem_cons_self b (List.mem_cons_of_mem _ hb)
          rw [level_nd] at this ⊢
          omega
        · have e1 : a' = nd (j + 1 + 1) (a / 2) := by simpa using ha'
          have e2 : b = nd (j + 1 + 1) (a / 2) := by simpa using hb
          rw [e1, e2]; omega
      · intro z hz hb
        obtain ⟨hne, hb'⟩ := hgood z hb
        obtain ⟨y, hy, hyd⟩ := inv.cover z hz hb'
        rcases List.mem_cons.1 hy with rfl | hy
        · have := (desc_parent hyd (Ne.symm hne)).2
          rw [psClosed_nd] at this
          exact ⟨_, List.mem_append_right _ (by simp), this⟩
        · exact ⟨y, List.mem_append_left _ hy, hyd⟩
  · unfold pushParent
    rw [mu_cons, level_nd, parentSibling?_eq]
    by_cases hr : nd (j + 1) a = root (2 ^ k)
    · rw [if_pos hr]
      simp only
      omega
    · rw [if_neg hr]
      simp only
      rw [mu_snoc, psClosed_nd]
      simp only
      rw [level_nd]; omega

/-- the parent loop, started from a state satisfying `QInv` with enough fuel, ends with every
entry equal to the from-scratch hash -/
theorem parentLoop_correct (t : Tree) (f : List Nat) (k : Nat) : ∀ (fuel : Nat) (h : List HT) (q : List Nat),
    QInv t f k h q → mu k q ≤ fuel →
    (parentLoop t f (2 ^ k) fuel h q).length = 2 ^ (k + 1) - 1 ∧
    ∀ z, z < 2 ^ (k + 1) - 1 → Good t f (parentLoop t f (2 ^ k) fuel h q) z := by
  intro fuel
  induction fuel with
  | zero =>
    intro h q inv hmu
    cases q with
    | nil => rw [parentLoop]; exact ⟨inv.len, inv.done⟩
    | cons y q =>
      exfalso
      have := level_le k y (inv.inTree y List.mem_cons_self).2
      rw [mu_cons] at hmu
      omega
  | succ fuel ih =>
    intro h q inv hmu
    cases q with
    | nil => rw [parentLoop]; exact ⟨inv.len, inv.done⟩
    | cons x tl =>
      have hl := (inv.inTree x List.mem_cons_self).1
      have e := eq_nd x
      obtain ⟨j, hj⟩ : ∃ j, level x = j + 1 := ⟨level x - 1, by omega⟩
      rw [hj] at e
      generalize x / 2 ^ (j + 1 + 1) = a at e
      subst e
      obtain ⟨c1, c2, inv', hmu'⟩ := qinv_step inv
      rw [parentLoop, left?_nd, right?_nd]
      simp only
      rw [c1, c2, ← spec_nd_succ]
      exact ih _ _ inv' (Nat.le_of_succ_le_succ (Nat.le_trans hmu' hmu))

theorem mu_le (k : Nat) (q : List Nat) : mu k q ≤ q.length * (k + 1) := by
  induction q with
  | nil => simp [mu]
  | cons x q ih =>
    rw [mu_cons, List.length_cons, Nat.succ_mul]
    omega

/-- the parent pushed for leaf `l` of the tree with `2^k` leaves -/
theorem leaf_parent {k l : Nat} (hl : l < 2 ^ k) {ps : Nat × Nat}
    (h : parentSibling? (2 * l) (2 ^ k) = some ps) :
    ps.1 = nd 1 (l / 2) ∧ 1 ≤ level ps.1 ∧ ps.1 < 2 ^ (k + 1) - 1 ∧ level ps.1 = 1 := by
  rw [parentSibling?_eq] at h
  split at h
  · cases h
  · rename_i hne
    simp only [Option.some.injEq] at h
    subst h
    have e : psClosed (2 * l) = (nd 1 (l / 2), nd 0 (sib l)) := by rw [← nd_zero, psClosed_nd]
    rw [e]
    show nd 1 (l / 2) = nd 1 (l / 2) ∧ 1 ≤ level (nd 1 (l / 2)) ∧
      nd 1 (l / 2) < 2 ^ (k + 1) - 1 ∧ level (nd 1 (l / 2)) = 1
    refine ⟨rfl, by rw [level_nd]; omega, ?_, level_nd _ _⟩
    have hk : 1 ≤ k := by
      rcases Nat.lt_or_ge 0 k with h' | h'
      · exact h'
      · exfalso
        have : k = 0 := by omega
        subst this
        apply hne
        simp [root] at hl ⊢
        omega
    apply (nd_lt_iff k 1 (l / 2)).2
    refine ⟨hk, ?_⟩
    obtain ⟨k', rfl⟩ : ∃ k', k = k' + 1 := ⟨k - 1, by omega⟩
    rw [Nat.add_sub_cancel]
    rw [pow_succ'] at hl
    omega

/-- core correctness of `tree_hash` in the tree of `2^k` leaves: if every entry of the resized
cache that does not lie above one of the (valid) leaves to update is already the from-scratch hash,
all entries are afterwards -/
theorem treeHashWith_correct (rs : List HT → Nat → List HT) (c : List HT) (t : Tree)
    (ls : Option (List Nat)) (f : List Nat) (k : Nat)
    (hlen : (rs c (2 * 2 ^ k - 1)).length = 2 * 2 ^ k - 1)
    (hpre : ∀ z, z < 2 * 2 ^ k - 1 →
      (∀ l ∈ ls.getD (List.range (2 ^ k)), l < 2 ^ k → ¬ below l z) →
      (rs c (2 * 2 ^ k - 1))[z]? = some (treeHashSpec t f z)) :
    (treeHashWith rs c t ls f (2 ^ k)).length = 2 * 2 ^ k - 1 ∧
    ∀ z, z < 2 * 2 ^ k - 1 → (treeHashWith rs c t ls f (2 ^ k))[z]? = some (treeHashSpec t f z) := by
  have e2 : 2 * 2 ^ k - 1 = 2 ^ (k + 1) - 1 := by rw [pow_succ']
  unfold treeHashWith
  simp only
  generalize hU : (ls.getD (List.range (2 ^ k))).filter (· < 2 ^ k) = U
  have hUm : ∀ l, l ∈ U ↔ l ∈ ls.getD (List.range (2 ^ k)) ∧ l < 2 ^ k := by
    intro l; rw [← hU, List.mem_filter]; simp
  generalize hh0 : rs c (2 * 2 ^ k - 1) = h0 at hlen hpre
  obtain ⟨a1, a2, a3, a4⟩ := leafLoop_spec t f (2 ^ k) U h0 []
  have hq : ∀ y ∈ (leafLoop t f (2 ^ k) U h0 []).2, ∃ l ∈ U, ∃ ps,
      parentSibling? (2 * l) (2 ^ k) = some ps ∧ ps.1 = y := by
    intro y hy
    rcases (a4 y).1 hy with h' | h'
    · cases h'
    · exact h'
  have hlv : ∀ y ∈ (leafLoop t f (2 ^ k) U h0 []).2, level y = 1 ∧ y < 2 ^ (k + 1) - 1 := by
    intro y hy
    obtain ⟨l, hl, ps, hps, rfl⟩ := hq y hy
    obtain ⟨_, _, b3, b4⟩ := leaf_parent ((hUm l).1 hl).2 hps
    exact ⟨b4, b3⟩
  have inv : QInv t f k (leafLoop t f (2 ^ k) U h0 []).1 (leafLoop t f (2 ^ k) U h0 []).2 := by
    refine ⟨by rw [a1, hlen, e2], fun y hy => ⟨by rw [(hlv y hy).1]; omega, (hlv y hy).2⟩, ?_, ?_, ?_⟩
    · apply List.pairwise_of_forall_mem_list
      intro a ha b hb
      rw [(hlv a ha).1, (hlv b hb).1]; omega
    · intro a ha b hb
      rw [(hlv a ha).1, (hlv b hb).1]; omega
    · intro z hz hbad
      have hex : ∃ l ∈ U, below l z := by
        apply Classical.byContradiction
        intro hno
        apply hbad
        unfold Good
        rw [a2 z, hpre z (by rw [e2]; exact hz)]
        · intro l hl hlk hb
          exact hno ⟨l, (hUm l).2 ⟨hl, hlk⟩, hb⟩
        · intro l hl e
          apply hno
          exact ⟨l, hl, by rw [e]; exact below_self_leaf l⟩
      obtain ⟨l, hl, hb⟩ := hex
      have hd := (desc_leaf_iff_below l z).2 hb
      have hne : 2 * l ≠ z := by
        rintro rfl
        apply hbad
        unfold Good
        rw [a3 l hl (by rw [hlen, e2]; exact hz), spec_leaf]
      obtain ⟨hlt, hdp⟩ := desc_parent hd hne
      refine ⟨(psClosed (2 * l)).1, ?_, hdp⟩
      apply (a4 _).2
      right
      refine ⟨l, hl, psClosed (2 * l), ?_, rfl⟩
      rw [parentSibling?_eq, if_neg]
      rw [root_pow]
      intro e
      have h0 : level (2 * l) = 0 := (level_eq_zero_iff _).2 (by omega)
      have h1 := level_le k z hz
      rw [e, level_nd] at h0
      omega
  have hfuel : mu k (leafLoop t f (2 ^ k) U h0 []).2 ≤
      (leafLoop t f (2 ^ k) U h0 []).2.length * (level (root (2 ^ k)) + 1) := by
    rw [root_pow, level_nd]; exact mu_le _ _
  obtain ⟨r1, r2⟩ := parentLoop_correct t f k _ _ _ inv hfuel
  rw [e2]
  exact ⟨r1, r2⟩

/-! ### §4 (a) the full computation is the spec -/

/-- `tree_hash(hashes, nodes, None, filtered, 2^k)`: from any old cache, all `2·2^k − 1` entries are
the from-scratch hashes -/
theorem treeHashImpl_full (c : List HT) (t : Tree) (f : List Nat) (k : Nat) :
    (treeHashImpl c t none f (2 ^ k)).length = 2 * 2 ^ k - 1 ∧
    ∀ z, z < 2 * 2 ^ k - 1 → (treeHashImpl c t none f (2 ^ k))[z]? = some (treeHashSpec t f z) := by
  apply treeHashWith_correct resize c t none f k (length_resize _ _)
  intro z hz hno
  exfalso
  have e2 : 2 * 2 ^ k - 1 = 2 ^ (k + 1) - 1 := by rw [pow_succ']
  have hl := below_lt (below_mid z) (by rw [← e2]; exact hz)
  exact hno ((z + 1) / 2) (by simp [List.mem_range]; exact hl) hl (below_mid z)

theorem leafCount_pow (t : Tree) : ∃ k, leafCount t = 2 ^ k := by
  obtain ⟨k, hk, _⟩ := leafCount_spec t
  exact ⟨k, hk⟩

theorem tree_hash_full (c : List HT) (t : Tree) : Coherent t (treeHashImpl c t none [] (leafCount t)) := by
  obtain ⟨k, hk⟩ := leafCount_pow t
  unfold Coherent
  rw [hk]
  exact treeHashImpl_full c t [] k

/-! ### §5 (b) `update_hashes` -/

theorem mem_takeWhile_range_rev (p : Nat → Bool) (hp : ∀ a b, a ≤ b → p a = true → p b = true)
    (n l : Nat) : l ∈ (List.range n).reverse.takeWhile p ↔ l < n ∧ p l = true := by
  induction n with
  | zero => simp
  | succ n ih =>
    rw [List.range_succ, List.reverse_append, List.reverse_singleton, List.singleton_append,
      List.takeWhile_cons]
    by_cases hn : p n = true
    · rw [if_pos hn, List.mem_cons, ih]
      constructor
      · rintro (rfl | ⟨h1, h2⟩)
        · exact ⟨by omega, hn⟩
        · exact ⟨by omega, h2⟩
      · rintro ⟨h1, h2⟩
        by_cases e : l = n
        · exact Or.inl e
        · exact Or.inr ⟨by omega, h2⟩
    · rw [if_neg hn]
      constructor
      · intro h; cases h
      · rintro ⟨h1, h2⟩
        exact absurd (hp l n (by omega) h2) hn

theorem mem_scanMissing (c : List HT) (n l : Nat) :
    l ∈ scanMissing c n ↔ l < n ∧ c.length ≤ 2 * l := by
  unfold scanMissing
  rw [mem_takeWhile_range_rev]
  · simp
  · intro a b hab h
    simp at h ⊢
    omega

/-- (b) the key refinement lemma.  `t0`/`c0`: tree and coherent cache before an operation; `t`: the
tree after it.  If every node index of the new full tree at which the two trees differ (beyond-the-end
positions read as blank) either has no cache entry yet or lies on the direct path of (or is the leaf
of) one of the `updated` leaves of the new tree, then `update_hashes(updated)` makes the cache
coherent with `t`.  Covers same size, growth (missing entries are found by the scan) and shrink
(the cache is truncated). -/
theorem updateHashes_coherent {t0 t : Tree} {c0 : List HT} {updated : List Nat}
    (hc : Coherent t0 c0)
    (hdiff : ∀ x, x < 2 * leafCount t - 1 → get t x ≠ get t0 x →
      c0.length ≤ x ∨ ∃ l ∈ updated, l < leafCount t ∧ below l x) :
    Coherent t (updateHashes c0 t updated) := by
  obtain ⟨k, hk⟩ := leafCount_pow t
  unfold Coherent updateHashes updateHashesWith
  simp only
  rw [hk] at hdiff ⊢
  have e2 : 2 * 2 ^ k - 1 = 2 ^ (k + 1) - 1 := by rw [pow_succ']
  apply treeHashWith_correct resize c0 t _ [] k (length_resize _ _)
  intro z hz hno
  simp only [Option.getD_some] at hno
  have hzb : z < 2 ^ (k + 1) - 1 := by rw [← e2]; exact hz
  -- the scan did not pick the middle leaf of `z`, so `z` has a cache entry
  have hzc : z < c0.length := by
    have hl := below_lt (below_mid z) hzb
    rcases Nat.lt_or_ge (2 * ((z + 1) / 2)) c0.length with h' | h'
    · have := le_two_mid z; omega
    · exact absurd (below_mid z) (hno _ (List.mem_append_right _
        ((mem_scanMissing c0 _ _).2 ⟨hl, h'⟩)) hl)
  rw [getElem?_resize c0 _ z hz hzc, hc.2 z (by rw [← hc.1]; exact hzc)]
  congr 1
  apply spec_congr
  intro y hy
  apply Classical.byContradiction
  intro hne
  have hyb := desc_lt_bound hy hzb
  rcases hdiff y (by rw [e2]; exact hyb) (fun e => hne e.symm) with h' | ⟨l, hl, hlk, hb⟩
  · have hl := below_lt (below_mid y) hyb
    refine hno _ (List.mem_append_right _ ((mem_scanMissing c0 _ _).2 ⟨hl, ?_⟩)) hl
      (below_trans_desc (below_mid y) hy)
    have := le_two_mid y; omega
  · exact hno l (List.mem_append_left _ hl) hlk (below_trans_desc hb hy)

/-- `update_hashes` on an empty (not yet initialised) cache is a full computation: the scan finds
every leaf -/
theorem updateHashes_nil (t : Tree) (updated : List Nat) : Coherent t (updateHashes [] t updated) := by
  obtain ⟨k, hk⟩ := leafCount_pow t
  unfold Coherent updateHashes updateHashesWith
  simp only
  rw [hk]
  have e2 : 2 * 2 ^ k - 1 = 2 ^ (k + 1) - 1 := by rw [pow_succ']
  apply treeHashWith_correct resize [] t _ [] k (length_resize _ _)
  intro z hz hno
  exfalso
  simp only [Option.getD_some] at hno
  have hl := below_lt (below_mid z) (by rw [← e2]; exact hz)
  exact hno _ (List.mem_append_right _ ((mem_scanMissing [] _ _).2 ⟨hl, by simp⟩)) hl (below_mid z)

end MlsVerif.TreeHash
