/-
Lawfulness of the codec combinators of `Model/CodecCustom.lean`.
-/
import MlsVerif.Model.CodecCustom
import MlsVerif.Proofs.CodecErr

namespace MlsVerif.Codec
open Codec

/-- What C12 asks of a codec: encode/decode round trip consuming exactly the bytes written, exact
size, decoded values are well typed and the remainder is a suffix of the input, and the `ne` flag
is sound on both sides. -/
structure Lawful (c : Codec) : Prop where
  rt : ∀ v b r, c.wf v = true → c.enc v = .ok b → c.dec (b ++ r) = .ok (v, r)
  sz : ∀ v b, c.wf v = true → c.enc v = .ok b → c.size v = b.length
  dwf : ∀ b v r, c.dec b = .ok (v, r) →
    c.wf v = true ∧ ∃ x, b = x ++ r ∧ (c.ne = true → 0 < x.length)
  nepos : ∀ v b, c.ne = true → c.wf v = true → c.enc v = .ok b → 0 < b.length

theorem lawful_ofSchema (s : Schema) (hp : Progress s = true) : Lawful (ofSchema s) where
  rt v b r hw he := (encSpec_all s v b hw he).2 hp r
  sz v b hw he := (encSpec_all s v b hw he).1
  dwf b v r h := by
    obtain ⟨hw, x, hx, _, _, hpos⟩ := decSpec_all s b v r h
    exact ⟨hw, x, hx, hpos⟩
  nepos v b hn hw he := nonEmpty_pos s v b hn hw he

/-! ## seq -/

theorem seq_enc_spec : ∀ (cs : List Codec), (∀ c, c ∈ cs → Lawful c) →
    ∀ vs b, seqWF cs vs = true → seqEnc cs vs = .ok b →
    (∀ r, seqDec cs (b ++ r) = .ok (vs, r)) ∧ seqSize cs vs = b.length ∧
    (seqNe cs = true → 0 < b.length) := by
  intro cs
  induction cs with
  | nil =>
    intro _ vs b hw he
    cases vs with
    | nil => simp [seqEnc] at he; subst he; simp [seqDec, seqSize, seqNe]
    | cons v vs => simp [seqWF] at hw
  | cons c cs ih =>
    intro hc vs b hw he
    cases vs with
    | nil => simp [seqWF] at hw
    | cons v vs =>
      simp only [seqWF, Bool.and_eq_true] at hw
      simp only [seqEnc] at he
      split at he
      · cases he
      · rename_i b1 h1
        split at he
        · cases he
        · rename_i b2 h2
          injection he with he; subst he
          have L := hc c List.mem_cons_self
          obtain ⟨d2, s2, n2⟩ := ih (fun g hg => hc g (List.mem_cons_of_mem _ hg)) vs b2 hw.2 h2
          refine ⟨fun r => ?_, ?_, ?_⟩
          · simp only [seqDec, List.append_assoc, L.rt v b1 (b2 ++ r) hw.1 h1, d2 r]
          · simp [seqSize, L.sz v b1 hw.1 h1, s2]
          · intro hne
            simp only [seqNe, Bool.or_eq_true] at hne
            rw [List.length_append]
            rcases hne with hne | hne
            · have := L.nepos v b1 hne hw.1 h1; omega
            · have := n2 hne; omega

theorem seq_dec_spec : ∀ (cs : List Codec), (∀ c, c ∈ cs → Lawful c) →
    ∀ b vs r, seqDec cs b = .ok (vs, r) →
    seqWF cs vs = true ∧ ∃ x, b = x ++ r ∧ (seqNe cs = true → 0 < x.length) := by
  intro cs
  induction cs with
  | nil =>
    intro _ b vs r h
    simp only [seqDec] at h
    injection h with h; injection h with h1 h2; subst h1 h2
    exact ⟨rfl, [], rfl, fun h => by simp [seqNe] at h⟩
  | cons c cs ih =>
    intro hc b vs r h
    simp only [seqDec] at h
    split at h
    · cases h
    · rename_i v1 r1 h1
      split at h
      · cases h
      · rename_i vs2 r2 h2
        injection h with h; injection h with e1 e2; subst e1 e2
        obtain ⟨w1, x1, hb1, n1⟩ := (hc c List.mem_cons_self).dwf b v1 r1 h1
        obtain ⟨w2, x2, hb2, n2⟩ := ih (fun g hg => hc g (List.mem_cons_of_mem _ hg)) r1 vs2 r2 h2
        refine ⟨by simp [seqWF, w1, w2], x1 ++ x2, by rw [hb1, hb2, List.append_assoc], ?_⟩
        intro hne
        simp only [seqNe, Bool.or_eq_true] at hne
        rw [List.length_append]
        rcases hne with hne | hne
        · have := n1 hne; omega
        · have := n2 hne; omega

theorem lawful_seq (cs : List Codec) (hc : ∀ c, c ∈ cs → Lawful c) : Lawful (seq cs) where
  rt v b r hw he := by
    cases v <;> simp only [seq] at hw he <;> try (cases hw; done)
    rename_i vs
    simp [seq, (seq_enc_spec cs hc vs b hw he).1 r]
  sz v b hw he := by
    cases v <;> simp only [seq] at hw he <;> try (cases hw; done)
    rename_i vs
    simp [seq, (seq_enc_spec cs hc vs b hw he).2.1]
  dwf b v r h := by
    simp only [seq] at h
    split at h
    · cases h
    · rename_i vs r' hd
      injection h with h; injection h with e1 e2; subst e1 e2
      exact seq_dec_spec cs hc b vs r' hd
  nepos v b hn hw he := by
    cases v <;> simp only [seq] at hw he <;> try (cases hw; done)
    rename_i vs
    exact (seq_enc_spec cs hc vs b hw he).2.2 hn

/-! ## dep -/

theorem dep_wf_inv {c1 : Codec} {f : Value → Codec} {v : Value} (h : (dep c1 f).wf v = true) :
    ∃ v1 v2, v = .tuple [v1, v2] ∧ c1.wf v1 = true ∧ (f v1).wf v2 = true := by
  simp only [dep] at h
  split at h
  · rename_i v1 v2; simp only [Bool.and_eq_true] at h; exact ⟨v1, v2, rfl, h.1, h.2⟩
  · cases h

theorem lawful_dep (c1 : Codec) (f : Value → Codec) (h1 : Lawful c1) (h2 : ∀ v, Lawful (f v)) :
    Lawful (dep c1 f) where
  rt v b r hw he := by
    obtain ⟨v1, v2, rfl, w1, w2⟩ := dep_wf_inv hw
    simp only [dep] at he
    split at he
    · cases he
    · rename_i b1 e1
      split at he
      · cases he
      · rename_i b2 e2
        injection he with he; subst he
        simp only [dep, List.append_assoc, h1.rt v1 b1 (b2 ++ r) w1 e1, (h2 v1).rt v2 b2 r w2 e2]
  sz v b hw he := by
    obtain ⟨v1, v2, rfl, w1, w2⟩ := dep_wf_inv hw
    simp only [dep] at he
    split at he
    · cases he
    · rename_i b1 e1
      split at he
      · cases he
      · rename_i b2 e2
        injection he with he; subst he
        simp [dep, h1.sz v1 b1 w1 e1, (h2 v1).sz v2 b2 w2 e2]
  dwf b v r h := by
    simp only [dep] at h
    split at h
    · cases h
    · rename_i v1 r1 d1
      split at h
      · cases h
      · rename_i v2 r2 d2
        injection h with h; injection h with e1 e2; subst e1 e2
        obtain ⟨w1, x1, hb1, n1⟩ := h1.dwf b v1 r1 d1
        obtain ⟨w2, x2, hb2, _⟩ := (h2 v1).dwf r1 v2 r2 d2
        refine ⟨by simp [dep, w1, w2], x1 ++ x2, by rw [hb1, hb2, List.append_assoc], ?_⟩
        intro hne
        have := n1 hne
        rw [List.length_append]; omega
  nepos v b hn hw he := by
    obtain ⟨v1, v2, rfl, w1, w2⟩ := dep_wf_inv hw
    simp only [dep] at he
    split at he
    · cases he
    · rename_i b1 e1
      split at he
      · cases he
      · rename_i b2 e2
        injection he with he; subst he
        have := h1.nepos v1 b1 hn w1 e1
        rw [List.length_append]; omega

/-! ## optIf, opt, refine -/

theorem lawful_optIf (p : Bool) (c : Codec) (hc : Lawful c) : Lawful (optIf p c) where
  rt v b r hw he := by
    cases v <;> simp only [optIf] at hw he <;> try (cases hw; done)
    · simp at hw; subst hw
      injection he with he; subst he
      simp [optIf]
    · rename_i x
      simp only [Bool.and_eq_true] at hw
      simp [optIf, hw.1, hc.rt x b r hw.2 he]
  sz v b hw he := by
    cases v <;> simp only [optIf] at hw he <;> try (cases hw; done)
    · injection he with he; subst he; rfl
    · rename_i x
      simp only [Bool.and_eq_true] at hw
      simp [optIf, hc.sz x b hw.2 he]
  dwf b v r h := by
    simp only [optIf] at h
    split at h
    · rename_i hp
      split at h
      · cases h
      · rename_i x r' hd
        injection h with h; injection h with e1 e2; subst e1 e2
        obtain ⟨w, y, hy, _⟩ := hc.dwf b x r' hd
        exact ⟨by simp [optIf, hp, w], y, hy, fun h => by simp [optIf] at h⟩
    · rename_i hp
      injection h with h; injection h with e1 e2; subst e1 e2
      exact ⟨by simp [optIf, hp], [], rfl, fun h => by simp [optIf] at h⟩
  nepos v b hn := by simp [optIf] at hn

theorem lawful_opt (c : Codec) (hc : Lawful c) : Lawful (opt c) where
  rt v b r hw he := by
    cases v <;> simp only [opt] at hw he <;> try (cases hw; done)
    · injection he with he; subst he; simp [opt]
    · rename_i x
      split at he
      · cases he
      · rename_i b1 e1
        injection he with he; subst he
        simp [opt, hc.rt x b1 r hw e1]
  sz v b hw he := by
    cases v <;> simp only [opt] at hw he <;> try (cases hw; done)
    · injection he with he; subst he; rfl
    · rename_i x
      split at he
      · cases he
      · rename_i b1 e1
        injection he with he; subst he
        simp [opt, hc.sz x b1 hw e1]; omega
  dwf b v r h := by
    simp only [opt] at h
    split at h
    · cases h
    · rename_i x r'
      split at h
      · injection h with h; injection h with e1 e2; subst e1 e2
        rename_i hx; subst hx
        exact ⟨rfl, [0], rfl, fun _ => by simp⟩
      · split at h
        · rename_i hx
          split at h
          · cases h
          · rename_i y r'' hd
            injection h with h; injection h with e1 e2; subst e1 e2 hx
            obtain ⟨w, z, hz, _⟩ := hc.dwf r' y r'' hd
            exact ⟨by simp [opt, w], 1 :: z, by simp [hz], fun _ => by simp⟩
        · cases h
  nepos v b _ hw he := by
    cases v <;> simp only [opt] at hw he <;> try (cases hw; done)
    · injection he with he; subst he; simp
    · split at he
      · cases he
      · injection he with he; subst he; simp

theorem lawful_refine (c : Codec) (p : Value → Bool) (err : UInt8) (hc : Lawful c) :
    Lawful (refine c p err) where
  rt v b r hw he := by
    simp only [refine, Bool.and_eq_true] at hw he
    simp [refine, hc.rt v b r hw.1 he, hw.2]
  sz v b hw he := by
    simp only [refine, Bool.and_eq_true] at hw he
    exact hc.sz v b hw.1 he
  dwf b v r h := by
    simp only [refine] at h
    split at h
    · cases h
    · rename_i x r' hd
      split at h
      · rename_i hp
        injection h with h; injection h with e1 e2; subst e1 e2
        obtain ⟨w, y, hy, hn⟩ := hc.dwf b x r' hd
        exact ⟨by simp [refine, w, hp], y, hy, hn⟩
      · cases h
  nepos v b hn hw he := by
    simp only [refine, Bool.and_eq_true] at hw he hn
    exact hc.nepos v b hn hw.1 he

/-! ## vec -/

theorem vec_wf_inv {c : Codec} {v : Value} (h : (vec c).wf v = true) :
    ∃ vs, v = .list vs ∧ ∀ x, x ∈ vs → c.wf x = true := by
  cases v <;> simp only [vec] at h <;> try (cases h; done)
  rename_i vs
  exact ⟨vs, rfl, by simpa [List.all_eq_true] using h⟩

theorem lawful_vec (c : Codec) (hc : Lawful c) (hne : c.ne = true) : Lawful (vec c) where
  rt v b r hw he := by
    obtain ⟨vs, rfl, hx⟩ := vec_wf_inv hw
    simp only [vec] at he
    split at he
    · cases he
    · rename_i buf hbuf
      obtain ⟨h1, rfl⟩ := encodeLenPrefixed_ok he
      have hl : LoopRel c.dec buf vs :=
        LoopRel_of_encodeList vs buf
          (fun x hm bx hb =>
            ⟨fun r => hc.rt x bx r (hx x hm) hb, hc.nepos x bx hne (hx x hm) hb⟩) hbuf
      simp [vec, decodeCollection, decodeSplit_append buf r h1, decodeLoop_of_rel hl]
  sz v b hw he := by
    obtain ⟨vs, rfl, hx⟩ := vec_wf_inv hw
    simp only [vec] at he
    split at he
    · cases he
    · rename_i buf hbuf
      have hsz : sumBy c.size vs = buf.length :=
        encodeList_length vs buf (fun x hm bx hb => hc.sz x bx (hx x hm) hb) hbuf
      simp only [vec, hsz]; exact encodeLenPrefixed_length he
  dwf b v r h := by
    simp only [vec] at h
    split at h
    · cases h
    · rename_i vs r' hd
      injection h with h; injection h with e1 e2; subst e1 e2
      obtain ⟨data, _, hb, hi⟩ := decodeCollection_ok hd
      have hrel := decodeLoop_ok_iff.1 hi
      have hwf : ∀ x, x ∈ vs → c.wf x = true :=
        LoopRel_all (fun x => c.wf x = true) hrel (fun d x r hx => (hc.dwf d x r hx).1)
      refine ⟨by simp only [vec, List.all_eq_true]; exact hwf, _, hb, fun _ => ?_⟩
      have := encodeVarint_length_pos data.length
      rw [List.length_append]; omega
  nepos v b _ hw he := by
    obtain ⟨vs, rfl, hx⟩ := vec_wf_inv hw
    simp only [vec] at he
    split at he
    · cases he
    · exact encodeLenPrefixed_pos he

/-! ## tagged -/

theorem caseOfC_mem {cs : List (Nat × Option Codec)} {tag : Nat} {o : Option Codec}
    (h : caseOfC cs tag = some o) : (tag, o) ∈ cs := by
  induction cs with
  | nil => cases h
  | cons c cs ih =>
    obtain ⟨t, o'⟩ := c
    simp only [caseOfC] at h
    split at h
    · rename_i ht; injection h with h; subst ht h; exact List.mem_cons_self
    · exact List.mem_cons_of_mem _ (ih h)

theorem lawful_tagged (w : Nat) (cases : List (Nat × Option Codec)) (dflt : Option Codec)
    (reserved : Nat → Bool) (err : UInt8)
    (hc : ∀ t c, (t, some c) ∈ cases → Lawful c) (hd : ∀ d, dflt = some d → Lawful d) :
    Lawful (tagged w cases dflt reserved err) where
  rt v b r hw he := by
    cases v <;> simp only [tagged] at hw he <;> try (cases hw; done)
    rename_i tag p
    simp only [Bool.and_eq_true, decide_eq_true_eq] at hw
    obtain ⟨ht, hw⟩ := hw
    simp only [ht, if_true] at he
    cases hco : caseOfC cases tag with
    | none =>
      rw [hco] at hw he
      cases p with
      | none => simp at hw
      | some x =>
        cases hdf : dflt with
        | none => simp [hdf] at hw
        | some d =>
          simp only [hdf, Bool.and_eq_true, Bool.not_eq_true'] at hw he
          obtain ⟨hr, hw⟩ := hw
          simp only [hr, Bool.false_eq_true, if_false] at he
          split at he
          · cases he
          · rename_i b1 e1
            injection he with he; subst he
            simp [tagged, List.append_assoc, decodeU_append w tag (b1 ++ r) ht, hco, hr,
              (hd d hdf).rt x b1 r hw e1]
    | some o =>
      rw [hco] at hw he
      cases o with
      | none =>
        cases p with
        | some x => simp at hw
        | none =>
          simp only at he
          injection he with he; subst he
          simp [tagged, decodeU_append w tag r ht, hco]
      | some c =>
        cases p with
        | none => simp at hw
        | some x =>
          simp only at hw he
          split at he
          · cases he
          · rename_i b1 e1
            injection he with he; subst he
            simp [tagged, List.append_assoc, decodeU_append w tag (b1 ++ r) ht, hco,
              (hc tag c (caseOfC_mem hco)).rt x b1 r hw e1]
  sz v b hw he := by
    cases v <;> simp only [tagged] at hw he <;> try (cases hw; done)
    rename_i tag p
    simp only [Bool.and_eq_true, decide_eq_true_eq] at hw
    obtain ⟨ht, hw⟩ := hw
    simp only [ht, if_true] at he
    cases hco : caseOfC cases tag with
    | none =>
      rw [hco] at hw he
      cases p with
      | none => simp at hw
      | some x =>
        cases hdf : dflt with
        | none => simp [hdf] at hw
        | some d =>
          simp only [hdf, Bool.and_eq_true, Bool.not_eq_true'] at hw he
          obtain ⟨hr, hw⟩ := hw
          simp only [hr, Bool.false_eq_true, if_false] at he
          split at he
          · cases he
          · rename_i b1 e1
            injection he with he; subst he
            simp [tagged, hco, (hd d hdf).sz x b1 hw e1, toBE_length]
    | some o =>
      rw [hco] at hw he
      cases o with
      | none =>
        cases p with
        | some x => simp at hw
        | none =>
          simp only at he
          injection he with he; subst he
          simp [tagged, hco, toBE_length]
      | some c =>
        cases p with
        | none => simp at hw
        | some x =>
          simp only at hw he
          split at he
          · cases he
          · rename_i b1 e1
            injection he with he; subst he
            simp [tagged, hco, (hc tag c (caseOfC_mem hco)).sz x b1 hw e1, toBE_length]
  dwf b v r h := by
    simp only [tagged] at h
    split at h
    · cases h
    · rename_i tag r1 hu
      obtain ⟨ht, hb⟩ := decodeU_ok hu
      have hlen : ∀ x : Bytes, (tagged w cases dflt reserved err).ne = true →
          0 < (toBE w tag ++ x).length := by
        intro x hn
        have : 0 < w := by simpa [tagged] using hn
        rw [List.length_append, toBE_length]; omega
      split at h
      · rename_i hco
        injection h with h; injection h with e1 e2; subst e1 e2
        exact ⟨by simp [tagged, ht, hco], toBE w tag, hb, fun hn => by simpa using hlen [] hn⟩
      · rename_i c hco
        split at h
        · cases h
        · rename_i x r2 hx
          injection h with h; injection h with e1 e2; subst e1 e2
          obtain ⟨wx, y, hy, _⟩ := (hc tag c (caseOfC_mem hco)).dwf r1 x r2 hx
          exact ⟨by simp [tagged, ht, hco, wx], toBE w tag ++ y,
            by rw [hb, hy, List.append_assoc], hlen y⟩
      · rename_i hco
        split at h
        · rename_i _ d
          split at h
          · cases h
          · rename_i hr
            split at h
            · cases h
            · rename_i x r2 hx
              injection h with h; injection h with e1 e2; subst e1 e2
              obtain ⟨wx, y, hy, _⟩ := (hd d rfl).dwf r1 x r2 hx
              exact ⟨by simp [tagged, ht, hco, hr, wx], toBE w tag ++ y,
                by rw [hb, hy, List.append_assoc], hlen y⟩
        · cases h
  nepos v b hn hw he := by
    have hw0 : 0 < w := by simpa [tagged] using hn
    cases v <;> simp only [tagged] at hw he <;> try (cases hw; done)
    rename_i tag p
    simp only [Bool.and_eq_true, decide_eq_true_eq] at hw
    obtain ⟨ht, hw⟩ := hw
    simp only [ht, if_true] at he
    have key : ∀ x : Bytes, 0 < (toBE w tag ++ x).length := by
      intro x; rw [List.length_append, toBE_length]; omega
    split at he
    · injection he with he; subst he; simpa using key []
    · split at he
      · cases he
      · injection he with he; subst he; exact key _
    · split at he
      · split at he
        · cases he
        · split at he
          · cases he
          · injection he with he; subst he; exact key _
      · cases he
    · cases he

/-- a reserved discriminant without a case of its own is refused before the payload is read -/
theorem tagged_dec_reserved (w : Nat) (cases : List (Nat × Option Codec)) (d : Codec)
    (reserved : Nat → Bool) (err : UInt8) (tag : Nat) (r : Bytes) (ht : tag < 256 ^ w)
    (hco : caseOfC cases tag = none) (hr : reserved tag = true) :
    (tagged w cases (some d) reserved err).dec (toBE w tag ++ r) = .error (.custom err) := by
  simp [tagged, decodeU_append w tag r ht, hco, hr]

/-- The tagged layer never refuses a well-formed value: its encoder succeeds unless the encoder of
the selected payload codec fails on the (well-formed) payload, and then returns that error. -/
theorem tagged_enc_wf (w : Nat) (cases : List (Nat × Option Codec)) (dflt : Option Codec)
    (reserved : Nat → Bool) (err : UInt8) (v : Value)
    (hw : (tagged w cases dflt reserved err).wf v = true) :
    (∃ b, (tagged w cases dflt reserved err).enc v = .ok b) ∨
    ∃ tag x c e, v = .variant tag (some x) ∧
      (caseOfC cases tag = some (some c) ∨ (caseOfC cases tag = none ∧ dflt = some c)) ∧
      c.wf x = true ∧ c.enc x = .error e ∧
      (tagged w cases dflt reserved err).enc v = .error e := by
  cases v <;> simp only [tagged] at hw <;> try (cases hw; done)
  rename_i tag p
  simp only [Bool.and_eq_true, decide_eq_true_eq] at hw
  obtain ⟨ht, hw⟩ := hw
  cases hco : caseOfC cases tag with
  | none =>
    rw [hco] at hw
    cases p with
    | none => simp at hw
    | some x =>
      cases hdf : dflt with
      | none => simp [hdf] at hw
      | some d =>
        simp only [hdf, Bool.and_eq_true, Bool.not_eq_true'] at hw
        obtain ⟨hr, hw⟩ := hw
        cases he : d.enc x with
        | ok b1 => exact .inl ⟨toBE w tag ++ b1, by simp [tagged, ht, hco, hr, he]⟩
        | error e =>
          exact .inr ⟨tag, x, d, e, rfl, .inr ⟨hco, rfl⟩, hw, he, by simp [tagged, ht, hco, hr, he]⟩
  | some o =>
    rw [hco] at hw
    cases o with
    | none =>
      cases p with
      | some x => simp at hw
      | none => exact .inl ⟨toBE w tag, by simp [tagged, ht, hco]⟩
    | some c =>
      cases p with
      | none => simp at hw
      | some x =>
        simp only at hw
        cases he : c.enc x with
        | ok b1 => exact .inl ⟨toBE w tag ++ b1, by simp [tagged, ht, hco, he]⟩
        | error e =>
          exact .inr ⟨tag, x, c, e, rfl, .inl hco, hw, he, by simp [tagged, ht, hco, he]⟩

/-! ## Decoded values can be encoded again -/

/-- every value the decoder yields is accepted by the encoder -/
def Reenc (c : Codec) : Prop := ∀ b v r, c.dec b = .ok (v, r) → ∃ x, c.enc v = .ok x

theorem reenc_ofSchema (s : Schema) (hc : Canon s = true) : Reenc (ofSchema s) := by
  intro b v r h
  obtain ⟨_, c, _, _, he, _⟩ := decSpec_all s b v r h
  exact ⟨c, he hc⟩

theorem reenc_refine (c : Codec) (p : Value → Bool) (err : UInt8) (hc : Reenc c) :
    Reenc (refine c p err) := by
  intro b v r h
  simp only [refine] at h
  split at h
  · cases h
  · rename_i x r' hd
    split at h
    · injection h with h; injection h with e1 e2; subst e1 e2
      exact hc b x r' hd
    · cases h

theorem reenc_tagged (w : Nat) (cases : List (Nat × Option Codec)) (dflt : Option Codec)
    (reserved : Nat → Bool) (err : UInt8)
    (hc : ∀ t c, (t, some c) ∈ cases → Reenc c) (hd : ∀ d, dflt = some d → Reenc d) :
    Reenc (tagged w cases dflt reserved err) := by
  intro b v r h
  simp only [tagged] at h
  split at h
  · cases h
  · rename_i tag r1 hu
    obtain ⟨ht, _⟩ := decodeU_ok hu
    split at h
    · rename_i hco
      injection h with h; injection h with e1 e2; subst e1 e2
      exact ⟨toBE w tag, by simp [tagged, ht, hco]⟩
    · rename_i c hco
      split at h
      · cases h
      · rename_i x r2 hx
        injection h with h; injection h with e1 e2; subst e1 e2
        obtain ⟨y, hy⟩ := hc tag c (caseOfC_mem hco) r1 x r2 hx
        exact ⟨toBE w tag ++ y, by simp [tagged, ht, hco, hy]⟩
    · rename_i hco
      split at h
      · rename_i _ d
        split at h
        · cases h
        · rename_i hr
          split at h
          · cases h
          · rename_i x r2 hx
            injection h with h; injection h with e1 e2; subst e1 e2
            obtain ⟨y, hy⟩ := hd d rfl r1 x r2 hx
            exact ⟨toBE w tag ++ y, by simp [tagged, ht, hco, hr, hy]⟩
      · cases h

/-! ## zeroPadded -/

theorem zeroPadded_rt (c : Codec) (err : UInt8) (hc : Lawful c) (v : Value) (b r : Bytes)
    (hw : c.wf v = true) (he : c.enc v = .ok b) (hr : r.any (· != 0) = false) :
    (zeroPadded c err).dec (b ++ r) = .ok (v, r) := by
  simp only [zeroPadded, hc.rt v b r hw he]
  rw [hr]; rfl

theorem zeroPadded_reject (c : Codec) (err : UInt8) (hc : Lawful c) (v : Value) (b r : Bytes)
    (hw : c.wf v = true) (he : c.enc v = .ok b) (hr : r.any (· != 0) = true) :
    (zeroPadded c err).dec (b ++ r) = .error (.custom err) := by
  simp only [zeroPadded, hc.rt v b r hw he]
  rw [hr]; rfl

theorem zeroPadded_dwf (c : Codec) (err : UInt8) (hc : Lawful c) (b : Bytes) (v : Value)
    (r : Bytes) (h : (zeroPadded c err).dec b = .ok (v, r)) :
    c.wf v = true ∧ (∃ x, b = x ++ r) ∧ r.any (· != 0) = false := by
  simp only [zeroPadded] at h
  split at h
  · cases h
  · rename_i x r' hd
    split at h
    · cases h
    · rename_i hz
      injection h with h; injection h with e1 e2; subst e1 e2
      obtain ⟨w, y, hy, _⟩ := hc.dwf b x r' hd
      exact ⟨w, ⟨y, hy⟩, by cases hh : (r'.any (· != 0)) <;> simp_all⟩

/-! ## Loops without guard -/

def stepAll {σ} (step : σ → Value → Except CodecErr σ) : σ → List Value → Except CodecErr σ
  | acc, [] => .ok acc
  | acc, x :: xs =>
    match step acc x with
    | .error e => .error e
    | .ok acc' => stepAll step acc' xs

theorem loopNG_of_rel {σ} {f : Dec Value} {hf} {step : σ → Value → Except CodecErr σ}
    {data : Bytes} {xs : List Value} (h : LoopRel f data xs) :
    ∀ acc s, stepAll step acc xs = .ok s → loopNG f hf step acc data = .ok s := by
  induction h with
  | nil => intro acc s hs; rw [loopNG]; simp [stepAll] at hs; simp [hs]
  | @cons data v rest vs hne hv hlt _ ih =>
    intro acc s hs
    rw [loopNG]
    have : data.isEmpty = false := by cases data <;> simp_all
    simp only [stepAll] at hs
    split at hs
    · cases hs
    · rename_i acc' ha
      rw [if_neg (by simp [this])]
      split
      · rename_i e he; rw [hv] at he; cases he
      · rename_i x rest' hx
        rw [hv] at hx; injection hx with hx; injection hx with e1 e2; subst e1 e2
        simp [ha, ih acc' s hs]

theorem rel_of_loopNG {σ} {f : Dec Value} {hf} {step : σ → Value → Except CodecErr σ} :
    ∀ (n : Nat) (data : Bytes) (acc s : σ), data.length ≤ n →
    loopNG f hf step acc data = .ok s →
    ∃ xs, LoopRel f data xs ∧ stepAll step acc xs = .ok s := by
  intro n
  induction n with
  | zero =>
    intro data acc s hn h
    have : data = [] := List.eq_nil_of_length_eq_zero (by omega)
    subst this
    rw [loopNG] at h
    simp at h; subst h; exact ⟨[], .nil, rfl⟩
  | succ n ih =>
    intro data acc s hn h
    rw [loopNG] at h
    split at h
    · rename_i he
      have : data = [] := by cases data <;> simp_all
      subst this
      injection h with h; subst h; exact ⟨[], .nil, rfl⟩
    · rename_i he
      split at h
      · cases h
      · rename_i x rest hx
        split at h
        · cases h
        · rename_i acc' ha
          have hlt := hf _ _ _ hx
          obtain ⟨xs, hr, hs⟩ := ih rest acc' s (by omega) h
          refine ⟨x :: xs, .cons (by intro hd; subst hd; simp at he) hx hlt hr, ?_⟩
          simp [stepAll, ha, hs]

/-! ## ExtensionList -/

theorem extTypesDistinct_snoc (acc : List Value) (x : Value) :
    extTypesDistinct (acc ++ [x]) =
      (extTypesDistinct acc && !acc.any (fun e => extType e == extType x)) := by
  induction acc with
  | nil => simp [extTypesDistinct]
  | cons a acc ih =>
    simp only [List.cons_append, extTypesDistinct, ih, List.any_append, List.any_cons,
      List.any_nil, Bool.or_false, Bool.not_or]
    have : (extType x == extType a) = (extType a == extType x) := BEq.comm
    rw [this]
    cases (acc.any fun y => extType y == extType a) <;> cases (extType a == extType x) <;>
      cases extTypesDistinct acc <;> cases (acc.any fun e => extType e == extType x) <;> rfl

theorem stepAll_ext_of_distinct : ∀ (xs acc : List Value), extTypesDistinct (acc ++ xs) = true →
    stepAll extStep acc xs = .ok (acc ++ xs) := by
  intro xs
  induction xs with
  | nil => intro acc _; simp [stepAll]
  | cons x xs ih =>
    intro acc h
    have e : acc ++ x :: xs = (acc ++ [x]) ++ xs := by simp
    rw [e] at h ⊢
    have hd : extTypesDistinct (acc ++ [x]) = true := by
      have : ∀ (l m : List Value), extTypesDistinct (l ++ m) = true → extTypesDistinct l = true := by
        intro l
        induction l with
        | nil => intro _ _; rfl
        | cons a l ihl =>
          intro m hm
          simp only [List.cons_append, extTypesDistinct, Bool.and_eq_true, List.any_append,
            Bool.not_or, Bool.not_eq_true'] at hm ⊢
          exact ⟨hm.1.1, ihl m hm.2⟩
      exact this _ xs h
    rw [extTypesDistinct_snoc, Bool.and_eq_true] at hd
    have hany : (acc.any fun e => extType e == extType x) = false := by simpa using hd.2
    simp only [stepAll, extStep, hany]
    exact ih (acc ++ [x]) h

theorem stepAll_ext_inv : ∀ (xs acc s : List Value), stepAll extStep acc xs = .ok s →
    s = acc ++ xs ∧ (extTypesDistinct acc = true → extTypesDistinct s = true) := by
  intro xs
  induction xs with
  | nil => intro acc s h; simp [stepAll] at h; subst h; simp
  | cons x xs ih =>
    intro acc s h
    simp only [stepAll, extStep] at h
    split at h
    · cases h
    · rename_i acc' ha
      split at ha
      · cases ha
      · rename_i hany
        injection ha with ha; subst ha
        obtain ⟨h1, h2⟩ := ih (acc ++ [x]) s h
        refine ⟨by rw [h1]; simp, fun hd => h2 ?_⟩
        rw [extTypesDistinct_snoc, hd]
        simpa using hany

theorem extensionList_wf_inv {v : Value} (h : extensionList.wf v = true) :
    ∃ es, v = .list es ∧ WF (.vec extensionSchema) (.list es) = true ∧
      extTypesDistinct es = true := by
  simp only [extensionList, Bool.and_eq_true] at h
  obtain ⟨h1, h2⟩ := h
  split at h2
  · rename_i es; exact ⟨es, rfl, h1, h2⟩
  · cases h2

theorem lawful_extensionList : Lawful extensionList where
  rt v b r hw he := by
    obtain ⟨es, rfl, hwf, hd⟩ := extensionList_wf_inv hw
    have hrt := (encSpec_all (.vec extensionSchema) (.list es) b hwf he).2 (by decide) r
    simp only [decode] at hrt
    split at hrt
    · cases hrt
    · rename_i vs r' hcol
      injection hrt with hrt; injection hrt with e1 e2
      injection e1 with e1; subst e1 e2
      unfold decodeCollection at hcol
      split at hcol
      · cases hcol
      · rename_i data rest hs
        split at hcol
        · cases hcol
        · rename_i items hi
          injection hcol with hcol; injection hcol with e1 e2; subst e1 e2
          have hrel := decodeLoop_ok_iff.1 hi
          have hng := loopNG_of_rel (hf := extension_progress) (step := extStep) hrel [] items
            (by simpa using stepAll_ext_of_distinct items [] (by simpa using hd))
          simp [extensionList, decodeCollection, hs, hng]
  sz v b hw he := by
    obtain ⟨es, rfl, hwf, _⟩ := extensionList_wf_inv hw
    exact (encSpec_all (.vec extensionSchema) (.list es) b hwf he).1
  dwf b v r h := by
    simp only [extensionList] at h
    split at h
    · cases h
    · rename_i es r' hd
      injection h with h; injection h with e1 e2; subst e1 e2
      obtain ⟨data, _, hb, hi⟩ := decodeCollection_ok hd
      obtain ⟨xs, hrel, hs⟩ := rel_of_loopNG data.length data [] es (Nat.le_refl _) hi
      obtain ⟨h1, h2⟩ := stepAll_ext_inv xs [] es hs
      simp only [List.nil_append] at h1; subst h1
      have hwf : ∀ x, x ∈ es → WF extensionSchema x = true :=
        LoopRel_all (fun x => WF extensionSchema x = true) hrel
          (fun d x r hx => (decSpec_all extensionSchema d x r hx).1)
      refine ⟨?_, _, hb, fun _ => ?_⟩
      · simp only [extensionList, WF, List.all_eq_true, Bool.and_eq_true]
        exact ⟨hwf, h2 rfl⟩
      · have := encodeVarint_length_pos data.length
        rw [List.length_append]; omega
  nepos v b _ hw he := by
    obtain ⟨es, rfl, hwf, _⟩ := extensionList_wf_inv hw
    exact nonEmpty_pos (.vec extensionSchema) (.list es) b (by decide) hwf he

/-- whatever `ExtensionList::mls_decode` accepts, the derived decoder accepts with the same result,
hence (the schema is canonical) the derived encoder writes it back -/
theorem reenc_extensionList : Reenc extensionList := by
  intro b v r h
  simp only [extensionList] at h
  split at h
  · cases h
  · rename_i es r' hd
    injection h with h; injection h with e1 e2; subst e1 e2
    obtain ⟨data, hlen, hb, hi⟩ := decodeCollection_ok hd
    obtain ⟨xs, hrel, hs⟩ := rel_of_loopNG data.length data [] es (Nat.le_refl _) hi
    obtain ⟨h1, _⟩ := stepAll_ext_inv xs [] es hs
    simp only [List.nil_append] at h1; subst h1
    have hdec : decode (.vec extensionSchema) b = .ok (.list es, r') := by
      subst hb
      simp [decode, decodeCollection, List.append_assoc, decodeSplit_append data r' hlen,
        decodeLoop_of_rel hrel]
    exact reenc_ofSchema (.vec extensionSchema) (by decide) b _ r' hdec

/-! ## SecretKeyRatchet history -/

theorem gensAscending_cons {x : Value} {rest : List Value}
    (h : gensAscending (x :: rest) = true) :
    (∀ y, y ∈ rest → mkdGeneration x < mkdGeneration y) ∧ gensAscending rest = true := by
  induction rest generalizing x with
  | nil => exact ⟨fun y hy => (by cases hy), rfl⟩
  | cons b rest ih =>
    simp only [gensAscending, Bool.and_eq_true, decide_eq_true_eq] at h
    obtain ⟨h1, h2⟩ := h
    obtain ⟨h3, _⟩ := ih h2
    refine ⟨fun y hy => ?_, h2⟩
    rcases List.mem_cons.1 hy with rfl | hy
    · exact h1
    · exact Nat.lt_trans h1 (h3 y hy)

theorem insertOverwrite_append (g : Nat) (item : Value) : ∀ acc : List (Nat × Value),
    (∀ p, p ∈ acc → p.1 < g) → insertOverwrite g item acc = acc ++ [(g, item)] := by
  intro acc
  induction acc with
  | nil => intro _; rfl
  | cons a acc ih =>
    intro h
    obtain ⟨g', i'⟩ := a
    have h1 : g' < g := h (g', i') List.mem_cons_self
    have n1 : ¬ g < g' := by omega
    have n2 : ¬ g = g' := by omega
    simp only [insertOverwrite, n1, n2, if_false, List.cons_append]
    rw [ih (fun p hp => h p (List.mem_cons_of_mem _ hp))]

theorem stepAll_history_asc : ∀ (xs : List Value) (acc : List (Nat × Value)),
    (∀ p, p ∈ acc → ∀ x, x ∈ xs → p.1 < mkdGeneration x) → gensAscending xs = true →
    stepAll historyStep acc xs = .ok (acc ++ xs.map (fun x => (mkdGeneration x, x))) := by
  intro xs
  induction xs with
  | nil => intro acc _ _; simp [stepAll]
  | cons x xs ih =>
    intro acc hacc hasc
    obtain ⟨h1, h2⟩ := gensAscending_cons hasc
    simp only [stepAll, historyStep]
    rw [insertOverwrite_append _ _ acc (fun p hp => hacc p hp x List.mem_cons_self)]
    rw [ih (acc ++ [(mkdGeneration x, x)]) ?_ h2]
    · simp
    · intro p hp y hy
      rcases List.mem_append.1 hp with hp | hp
      · exact hacc p hp y (List.mem_cons_of_mem _ hy)
      · simp only [List.mem_singleton] at hp; subst hp; exact h1 y hy

def HistOK (m : List (Nat × Value)) : Prop :=
  List.Pairwise (fun a b => a.1 < b.1) m ∧ ∀ p, p ∈ m → p.1 = mkdGeneration p.2

theorem insertOverwrite_mem (g : Nat) (item : Value) : ∀ (acc : List (Nat × Value)) p,
    p ∈ insertOverwrite g item acc → p = (g, item) ∨ p ∈ acc := by
  intro acc
  induction acc with
  | nil => intro p hp; simp [insertOverwrite] at hp; exact .inl hp
  | cons a acc ih =>
    intro p hp
    obtain ⟨g', i'⟩ := a
    simp only [insertOverwrite] at hp
    split at hp
    · rcases List.mem_cons.1 hp with h | h
      · exact .inl h
      · exact .inr h
    · split at hp
      · rcases List.mem_cons.1 hp with h | h
        · exact .inl h
        · exact .inr (List.mem_cons_of_mem _ h)
      · rcases List.mem_cons.1 hp with h | h
        · exact .inr (h ▸ List.mem_cons_self)
        · rcases ih p h with h | h
          · exact .inl h
          · exact .inr (List.mem_cons_of_mem _ h)

theorem insertOverwrite_sorted (g : Nat) (item : Value) : ∀ (acc : List (Nat × Value)),
    List.Pairwise (fun a b : Nat × Value => a.1 < b.1) acc →
    List.Pairwise (fun a b : Nat × Value => a.1 < b.1) (insertOverwrite g item acc) := by
  intro acc
  induction acc with
  | nil => intro _; simp [insertOverwrite]
  | cons a acc ih =>
    intro hp
    obtain ⟨g', i'⟩ := a
    rw [List.pairwise_cons] at hp
    simp only [insertOverwrite]
    split
    · rename_i hlt
      rw [List.pairwise_cons, List.pairwise_cons]
      refine ⟨fun p hm => ?_, hp⟩
      rcases List.mem_cons.1 hm with rfl | hm
      · exact hlt
      · exact Nat.lt_trans hlt (hp.1 p hm)
    · split
      · rename_i heq
        rw [List.pairwise_cons]
        exact ⟨fun p hm => by subst heq; exact hp.1 p hm, hp.2⟩
      · rename_i h1 h2
        rw [List.pairwise_cons]
        refine ⟨fun p hm => ?_, ih hp.2⟩
        rcases insertOverwrite_mem g item acc p hm with rfl | hm
        · show g' < g; omega
        · exact hp.1 p hm

theorem stepAll_history_inv : ∀ (xs : List Value) (acc s : List (Nat × Value)),
    stepAll historyStep acc xs = .ok s → HistOK acc →
    HistOK s ∧ ∀ p, p ∈ s → p.2 ∈ xs ∨ p ∈ acc := by
  intro xs
  induction xs with
  | nil => intro acc s h hok; simp [stepAll] at h; subst h; exact ⟨hok, fun p hp => .inr hp⟩
  | cons x xs ih =>
    intro acc s h hok
    simp only [stepAll, historyStep] at h
    have hok' : HistOK (insertOverwrite (mkdGeneration x) x acc) := by
      refine ⟨insertOverwrite_sorted _ _ acc hok.1, fun p hp => ?_⟩
      rcases insertOverwrite_mem _ _ acc p hp with rfl | hp
      · rfl
      · exact hok.2 p hp
    obtain ⟨h1, h2⟩ := ih _ s h hok'
    refine ⟨h1, fun p hp => ?_⟩
    rcases h2 p hp with hm | hm
    · exact .inl (List.mem_cons_of_mem _ hm)
    · rcases insertOverwrite_mem _ _ acc p hm with rfl | hm
      · exact .inl List.mem_cons_self
      · exact .inr hm

theorem gensAscending_of_histOK : ∀ (m : List (Nat × Value)), HistOK m →
    gensAscending (m.map (·.2)) = true := by
  intro m
  induction m with
  | nil => intro _; rfl
  | cons a m ih =>
    intro hok
    have hp := hok.1
    rw [List.pairwise_cons] at hp
    have hm : HistOK m := ⟨hp.2, fun p h => hok.2 p (List.mem_cons_of_mem _ h)⟩
    cases m with
    | nil => rfl
    | cons b m =>
      simp only [List.map_cons, gensAscending, Bool.and_eq_true, decide_eq_true_eq]
      refine ⟨?_, by simpa using ih hm⟩
      rw [← hok.2 a List.mem_cons_self, ← hok.2 b (List.mem_cons_of_mem _ List.mem_cons_self)]
      exact hp.1 b List.mem_cons_self

theorem ratchetHistory_wf_inv {v : Value} (h : ratchetHistory.wf v = true) :
    ∃ es, v = .list es ∧ WF (.vec messageKeyDataSchema) (.list es) = true ∧
      gensAscending es = true := by
  simp only [ratchetHistory, Bool.and_eq_true] at h
  obtain ⟨h1, h2⟩ := h
  split at h2
  · rename_i es; exact ⟨es, rfl, h1, h2⟩
  · cases h2

theorem lawful_ratchetHistory : Lawful ratchetHistory where
  rt v b r hw he := by
    obtain ⟨es, rfl, hwf, hd⟩ := ratchetHistory_wf_inv hw
    have hrt := (encSpec_all (.vec messageKeyDataSchema) (.list es) b hwf he).2 (by decide) r
    simp only [decode] at hrt
    split at hrt
    · cases hrt
    · rename_i vs r' hcol
      injection hrt with hrt; injection hrt with e1 e2
      injection e1 with e1; subst e1 e2
      unfold decodeCollection at hcol
      split at hcol
      · cases hcol
      · rename_i data rest hs
        split at hcol
        · cases hcol
        · rename_i items hi
          injection hcol with hcol; injection hcol with e1 e2; subst e1 e2
          have hrel := decodeLoop_ok_iff.1 hi
          have hng := loopNG_of_rel (hf := messageKeyData_progress) (step := historyStep) hrel []
            _ (stepAll_history_asc items [] (fun p hp => by cases hp) hd)
          simp [ratchetHistory, decodeCollection, hs, hng, Function.comp_def]
  sz v b hw he := by
    obtain ⟨es, rfl, hwf, _⟩ := ratchetHistory_wf_inv hw
    exact (encSpec_all (.vec messageKeyDataSchema) (.list es) b hwf he).1
  dwf b v r h := by
    simp only [ratchetHistory] at h
    split at h
    · cases h
    · rename_i m r' hd
      injection h with h; injection h with e1 e2; subst e1 e2
      obtain ⟨data, _, hb, hi⟩ := decodeCollection_ok hd
      obtain ⟨xs, hrel, hs⟩ := rel_of_loopNG data.length data [] m (Nat.le_refl _) hi
      obtain ⟨h1, h2⟩ := stepAll_history_inv xs [] m hs ⟨List.Pairwise.nil, fun p hp => by cases hp⟩
      have hwf : ∀ x, x ∈ xs → WF messageKeyDataSchema x = true :=
        LoopRel_all (fun x => WF messageKeyDataSchema x = true) hrel
          (fun d x r hx => (decSpec_all messageKeyDataSchema d x r hx).1)
      refine ⟨?_, _, hb, fun _ => ?_⟩
      · simp only [ratchetHistory, WF, List.all_eq_true, Bool.and_eq_true]
        refine ⟨fun x hx => ?_, gensAscending_of_histOK m h1⟩
        obtain ⟨p, hp, rfl⟩ := List.mem_map.1 hx
        rcases h2 p hp with hm | hm
        · exact hwf _ hm
        · cases hm
      · have := encodeVarint_length_pos data.length
        rw [List.length_append]; omega
  nepos v b _ hw he := by
    obtain ⟨es, rfl, hwf, _⟩ := ratchetHistory_wf_inv hw
    exact nonEmpty_pos (.vec messageKeyDataSchema) (.list es) b (by decide) hwf he

end MlsVerif.Codec
