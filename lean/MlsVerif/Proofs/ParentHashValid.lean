import MlsVerif.Proofs.ParentHashBasic
import MlsVerif.Proofs.ParentHashOrig
/-
From the invariant `PHInv` to the validity predicate `PHValid` of the model.
-/
namespace MlsVerif.ParentHash
open MlsVerif.TreeMath MlsVerif.Tree MlsVerif.TreeHash

/-- the Boolean resolution check of `validate_chain` is the set-level side condition (for a
sorted unmerged list, as `unmerged_in_subtree` takes a slice) -/
theorem sideOk_iff {t : Tree} {P : Parent} (hp : P.unmerged.Pairwise (· < ·)) (c d : Nat) :
    sideOk t P c d = true ↔ SideCond t P c d := by
  unfold sideOk SideCond sameSet
  simp only [Bool.and_eq_true, List.contains_iff_mem, List.all_eq_true, List.mem_filter,
    List.mem_map, bne_iff_ne, ne_eq, Orig.mem_unmergedInSubtree hp]
  constructor
  · rintro ⟨hd, h1, h2⟩
    refine ⟨hd, ?_, ?_⟩
    · intro a ha hne
      obtain ⟨u, ⟨hu, hb⟩, rfl⟩ := h1 a ⟨ha, hne⟩
      exact ⟨u, hu, hb, rfl⟩
    · intro u hu hb
      exact h2 (2 * u) ⟨u, ⟨hu, hb⟩, rfl⟩
  · rintro ⟨hd, h1, h2⟩
    refine ⟨hd, ?_, ?_⟩
    · rintro a ⟨ha, hne⟩
      obtain ⟨u, hu, hb, rfl⟩ := h1 a ha hne
      exact ⟨u, ⟨hu, hb⟩, rfl⟩
    · rintro a ⟨u, ⟨hu, hb⟩, rfl⟩
      exact h2 u hu hb

end MlsVerif.ParentHash

namespace MlsVerif.ParentHash
open MlsVerif.TreeMath MlsVerif.Tree MlsVerif.TreeHash

namespace Valid

theorem desc_of_inSub_nd {x : Nat} (l : Nat) : ∀ q, inSub x (nd l q) → Desc x (nd l q) := by
  induction l with
  | zero => intro q h; rw [Upd.inSub_zero h]; exact desc_refl _
  | succ l ih =>
    intro q h
    rcases Upd.inSub_succ_cases h with rfl | h | h
    · exact desc_refl _
    · exact desc_trans (ih _ h) (desc_left_nd l q)
    · exact desc_trans (ih _ h) (desc_right_nd l q)

theorem desc_of_inSub {x y : Nat} (h : inSub x y) : Desc x y := by
  rw [eq_nd y] at h ⊢
  exact desc_of_inSub_nd _ _ h

/-- a node is a descendant of its parent -/
theorem desc_psClosed (x : Nat) : Desc x (psClosed x).1 := by
  have e := eq_nd x
  generalize level x = j at e
  generalize x / 2 ^ (j + 1) = q at e
  subst e
  rw [psClosed_nd]
  obtain ⟨m, rfl | rfl⟩ : ∃ m, q = 2 * m ∨ q = 2 * m + 1 := ⟨q / 2, by omega⟩
  · have : 2 * m / 2 = m := by omega
    rw [this]; exact desc_left_nd j m
  · have : (2 * m + 1) / 2 = m := by omega
    rw [this]; exact desc_right_nd j m

/-- what `climb` returns: the parent `q` and sibling `s` of the last node `c` of a chain upwards
from `x` -/
theorem climb_spec (t : Tree) (n : Nat) : ∀ (fuel x q s : Nat), climb t n fuel x = some (q, s) →
    ∃ c, psClosed c = (q, s) ∧ Desc x c ∧ c ≠ root n := by
  intro fuel
  induction fuel with
  | zero => intro x q s h; simp [climb] at h
  | succ f ih =>
    intro x q s h
    rw [climb, parentSibling?_eq] at h
    split at h
    · simp at h
    · rename_i q' s' hne
      split at hne
      · cases hne
      · rename_i hroot
        have hps : psClosed x = (q', s') := Option.some.inj hne
        split at h
        · obtain ⟨c, h1, h2, h3⟩ := ih q' q s h
          refine ⟨c, h1, desc_trans ?_ h2, h3⟩
          have := desc_psClosed x
          rw [hps] at this
          exact this
        · simp only [Option.some.injEq, Prod.mk.injEq] at h
          obtain ⟨rfl, rfl⟩ := h
          exact ⟨x, hps, desc_refl _, hroot⟩

/-- the two children of a node: `c` with parent `q` and sibling `s` -/
theorem child_cases {c q s : Nat} (h : psClosed c = (q, s)) :
    ∃ j m, q = nd (j + 1) m ∧
      ((c = nd j (2 * m) ∧ s = nd j (2 * m + 1)) ∨ (c = nd j (2 * m + 1) ∧ s = nd j (2 * m))) := by
  have e := eq_nd c
  generalize level c = j at e
  generalize c / 2 ^ (j + 1) = a at e
  subst e
  rw [psClosed_nd] at h
  simp only [Prod.mk.injEq] at h
  obtain ⟨rfl, rfl⟩ := h
  refine ⟨j, a / 2, rfl, ?_⟩
  unfold sib
  obtain ⟨m, rfl | rfl⟩ : ∃ m, a = 2 * m ∨ a = 2 * m + 1 := ⟨a / 2, by omega⟩
  · left
    have h1 : 2 * m / 2 = m := by omega
    have h2 : 2 * m % 2 = 0 := by omega
    rw [h1, if_pos h2]; exact ⟨rfl, rfl⟩
  · right
    have h1 : (2 * m + 1) / 2 = m := by omega
    have h2 : ¬ (2 * m + 1) % 2 = 0 := by omega
    rw [h1, if_neg h2]; exact ⟨rfl, rfl⟩

theorem psClosed_left (j m : Nat) : psClosed (nd j (2 * m)) = (nd (j + 1) m, nd j (2 * m + 1)) := by
  rw [psClosed_nd]; unfold sib
  have h1 : 2 * m / 2 = m := by omega
  have h2 : 2 * m % 2 = 0 := by omega
  rw [h1, if_pos h2]

theorem psClosed_right (j m : Nat) : psClosed (nd j (2 * m + 1)) = (nd (j + 1) m, nd j (2 * m)) := by
  rw [psClosed_nd]; unfold sib
  have h1 : (2 * m + 1) / 2 = m := by omega
  have h2 : ¬ (2 * m + 1) % 2 = 0 := by omega
  rw [h1, if_neg h2]; rfl

theorem desc_children_disjoint {d j m : Nat} (h1 : Desc d (nd j (2 * m)))
    (h2 : Desc d (nd j (2 * m + 1))) : False := by
  have e1 := h1.2
  have e2 := h2.2
  rw [level_nd, nd_div] at e1 e2
  omega

/-- `d` below the child `c0` of `x`, and `climb` from `d` ends at `x`: the sibling returned is the
other child, and its own sibling is `c0` -/
theorem climb_side {t : Tree} {n fuel d x s c0 s0 : Nat}
    (hc : climb t n fuel d = some (x, s)) (hd : Desc d c0)
    (hch : (left? x = some c0 ∧ right? x = some s0) ∨ (left? x = some s0 ∧ right? x = some c0)) :
    s = s0 ∧ psClosed s = (x, c0) := by
  obtain ⟨c, h1, h2, _⟩ := climb_spec t n fuel d x s hc
  obtain ⟨j, m, rfl, hcs⟩ := child_cases h1
  rw [left?_nd, right?_nd] at hch
  simp only [Option.some.injEq] at hch
  rcases hcs with ⟨rfl, rfl⟩ | ⟨rfl, rfl⟩
  · rcases hch with ⟨rfl, rfl⟩ | ⟨rfl, rfl⟩
    · exact ⟨rfl, psClosed_right j m⟩
    · exact (desc_children_disjoint h2 hd).elim
  · rcases hch with ⟨rfl, rfl⟩ | ⟨rfl, rfl⟩
    · exact (desc_children_disjoint hd h2).elim
    · exact ⟨rfl, psClosed_left j m⟩

end Valid

/-- the invariant of honest histories implies parent-hash validity as `validate_parent_hashes`
checks it -/
theorem phinv_valid {p : PTree} (hu : UnmergedInv p.t) (hi : PHInv p) : PHValid p := by
  have sorted : ∀ {x : Nat} {P : Parent}, parentOf? (get p.t x) = some P →
      P.unmerged.Pairwise (· < ·) := by
    intro x P hP
    have hg := parentOf?_eq_some.1 hP
    exact (hu x (lt_of_get_some hg) P hP).1
  constructor
  · -- PHLinked
    intro x hx P hP l hl r hr
    rw [parentAt_eq] at hP
    have hs := sorted hP
    rcases hi.linked x hx P hP l hl r hr with ⟨d, hd, h1, h2⟩ | ⟨d, hd, h1, h2⟩
    · exact Or.inl ⟨d, hd, h1, (sideOk_iff hs _ _).2 h2⟩
    · exact Or.inr ⟨d, hd, h1, (sideOk_iff hs _ _).2 h2⟩
  · -- NoFalseLink
    intro d hd hdn qs hqs P hP hm
    obtain ⟨x, s⟩ := qs
    simp only at hP hm ⊢
    have hqs : climb p.t (leafCount p.t) (p.t.length + 1) d = some (x, s) := hqs
    rw [parentAt_eq] at hP
    have hg := parentOf?_eq_some.1 hP
    have hx := lt_of_get_some hg
    have hs := sorted hP
    -- the children of `x`
    obtain ⟨c1, h1, _⟩ := Valid.climb_spec _ _ _ _ _ _ hqs
    obtain ⟨j, m, rfl, _⟩ := Valid.child_cases h1
    have hl := left?_nd j m
    have hr := right?_nd j m
    -- every node matching `x` is the witness
    have key : ∀ d' s', climb p.t (leafCount p.t) (p.t.length + 1) d' = some (nd (j + 1) m, s') →
        phGet p.ph d' = some (linkHash p (nd (j + 1) m) s' P) →
        ∃ c0 s0 d0, ((left? (nd (j + 1) m) = some c0 ∧ right? (nd (j + 1) m) = some s0) ∨
            (left? (nd (j + 1) m) = some s0 ∧ right? (nd (j + 1) m) = some c0)) ∧
          d0 ∈ resolution p.t c0 ∧ Wit p (nd (j + 1) m) P c0 s0 d0 ∧ d' = d0 := by
      intro d' s' _ hm'
      have hk' : topKey p.ph d' = some P.key := topKey_eq_some.2 ⟨_, _, hm'⟩
      rcases hi.linked _ hx P hP _ hl _ hr with ⟨d0, hd0, hw⟩ | ⟨d0, hd0, hw⟩
      · have hk0 : topKey p.ph d0 = some P.key := topKey_eq_some.2 ⟨_, _, hw.1⟩
        exact ⟨_, _, d0, Or.inl ⟨hl, hr⟩, hd0, hw, hi.keys' hk' hk0⟩
      · have hk0 : topKey p.ph d0 = some P.key := topKey_eq_some.2 ⟨_, _, hw.1⟩
        exact ⟨_, _, d0, Or.inr ⟨hl, hr⟩, hd0, hw, hi.keys' hk' hk0⟩
    obtain ⟨c0, s0, d0, hch, hd0, hw, rfl⟩ := key d s hqs hm
    have hdesc : Desc d c0 := Valid.desc_of_inSub (resolution_in_subtree' hu hd0)
    obtain ⟨rfl, hps⟩ := Valid.climb_side hqs hdesc hch
    constructor
    · intro qc hqc
      rw [parentSibling?_eq] at hqc
      split at hqc
      · cases hqc
      · have : qc = psClosed s := (Option.some.inj hqc).symm
        rw [this, hps]
        exact (sideOk_iff hs _ _).2 hw.2
    · intro d' _ _ qs' hqs' he hm'
      obtain ⟨x', s'⟩ := qs'
      simp only at he hm'
      subst he
      obtain ⟨_, _, d0', _, _, hw', rfl⟩ := key d' s' hqs' hm'
      have hk0 : topKey p.ph d = some P.key := topKey_eq_some.2 ⟨_, _, hw.1⟩
      have hk0' : topKey p.ph d' = some P.key := topKey_eq_some.2 ⟨_, _, hw'.1⟩
      exact hi.keys' hk0' hk0

end MlsVerif.ParentHash

namespace MlsVerif.ParentHash
open MlsVerif.TreeMath MlsVerif.Tree MlsVerif.TreeHash

/-- node `x` is authenticated by a leaf: a non-blank leaf, or a parent with a parent-hash witness
(RFC 9420 §7.9.2) that is itself authenticated — "L's signature authenticates P" -/
inductive Chained (p : PTree) : Nat → Prop
  | leaf (i : Nat) (L : Leaf) : get p.t (2 * i) = some (.leaf L) → Chained p (2 * i)
  | step (x : Nat) (P : Parent) (c s d : Nat) : get p.t x = some (.parent P) →
      ((left? x = some c ∧ right? x = some s) ∨ (left? x = some s ∧ right? x = some c)) →
      d ∈ resolution p.t c → Witness p x P c s d → Chained p d → Chained p x

namespace Valid

theorem level_lt_of_child {x c : Nat} (h : left? x = some c ∨ right? x = some c) :
    level c < level x := by
  have e := eq_nd x
  generalize level x = j at e
  generalize x / 2 ^ (j + 1) = q at e
  subst e
  cases j with
  | zero =>
    rw [left?_nd_zero, right?_nd_zero] at h
    rcases h with h | h <;> cases h
  | succ j =>
    rw [left?_nd, right?_nd] at h
    rcases h with h | h
    · have := Option.some.inj h; subst this; simp only [level_nd]; omega
    · have := Option.some.inj h; subst this; simp only [level_nd]; omega

end Valid

/-- in a tree whose parents all have witnesses, every non-blank node chains back to a leaf -/
theorem chained_of_linked {p : PTree} (hs : PreShape p.t) (hu : UnmergedInv p.t)
    (hl : PHLinked p) : ∀ (n x : Nat), level x < n → get p.t x ≠ none → Chained p x := by
  intro n
  induction n with
  | zero => intro x h; omega
  | succ n ih =>
    intro x hlv hne
    have hx : x < p.t.length := lt_of_get_ne hne
    cases hg : get p.t x with
    | none => exact absurd hg hne
    | some nd' =>
      cases nd' with
      | leaf L =>
        have hev : x % 2 = 0 := by
          apply Classical.byContradiction; intro hc
          have := (hs.1 x hx).2 (by omega)
          rw [hg] at this; cases this
        obtain ⟨i, rfl⟩ : ∃ i, x = 2 * i := ⟨x / 2, by omega⟩
        exact .leaf i L hg
      | parent P =>
        have hodd : x % 2 = 1 := by
          apply Classical.byContradiction; intro hc
          have := (hs.1 x hx).1 (by omega)
          rw [hg] at this; cases this
        have hlev : level x ≠ 0 := by
          intro h0; rw [level_eq_zero_iff] at h0; omega
        -- children exist
        have e := eq_nd x
        obtain ⟨j, hj⟩ : ∃ j, level x = j + 1 := ⟨level x - 1, by omega⟩
        rw [hj] at e
        have hle : left? x = some (nd j (2 * (x / 2 ^ (j + 1 + 1)))) := by
          conv => lhs; rw [e]
          exact left?_nd _ _
        have hri : right? x = some (nd j (2 * (x / 2 ^ (j + 1 + 1)) + 1)) := by
          conv => lhs; rw [e]
          exact right?_nd _ _
        have hP : P ∈ parentAt p.t x := by
          rw [parentAt_eq, hg]; rfl
        have main : ∀ c s d, ((left? x = some c ∧ right? x = some s) ∨
            (left? x = some s ∧ right? x = some c)) → d ∈ resolution p.t c →
            Witness p x P c s d → Chained p x := by
          intro c s d hch hd hw
          have hdn := resolution_nonblank' hu hd
          have hdl : level d ≤ level c := (Valid.desc_of_inSub (resolution_in_subtree' hu hd)).1
          have hcl : level c < level x := by
            apply Valid.level_lt_of_child
            rcases hch with h | h
            · exact Or.inl h.1
            · exact Or.inr h.2
          exact .step x P c s d hg hch hd hw (ih d (by omega) hdn)
        rcases hl x hx P hP _ hle _ hri with ⟨d, hd, hw⟩ | ⟨d, hd, hw⟩
        · exact main _ _ d (Or.inl ⟨hle, hri⟩) hd hw
        · exact main _ _ d (Or.inr ⟨hle, hri⟩) hd hw

/-- every populated node of a parent-hash valid tree is authenticated by a leaf -/
theorem valid_chained {p : PTree} (hs : PreShape p.t) (hu : UnmergedInv p.t) (hv : PHValid p)
    {x : Nat} (hx : get p.t x ≠ none) : Chained p x :=
  chained_of_linked hs hu hv.1 (level x + 1) x (by omega) hx

end MlsVerif.ParentHash
