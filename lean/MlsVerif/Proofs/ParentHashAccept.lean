import MlsVerif.Proofs.ParentHashDefs
/-
`PHValid p → validateParentHashes p = true`: the declarative parent-hash validity of
`Model/ParentHash.lean` implies acceptance by the model of `validate_parent_hashes`.

Method: `Link p x q` ("the parent hash stored at the non-blank node `x` matches its first non-blank
ancestor `q`") is a partial injective function that strictly raises the level; under `PHLinked`
every non-blank parent has a `Link`-predecessor, so the non-blank parents are partitioned into
chains that start at non-blank leaves, and `validateLeaves` removes exactly these chains.
-/
namespace MlsVerif.ParentHash
open MlsVerif.TreeMath MlsVerif.Tree MlsVerif.TreeHash

namespace Acc

/-! ### blank paths upward and `climb` -/

/-- `Up t x c`: `c` is `x` or an ancestor of `x`, and every node on the way from `x` (exclusive) to
`c` (inclusive) is blank -/
inductive Up (t : Tree) : Nat → Nat → Prop
  | refl (c : Nat) : Up t c c
  | step {x c : Nat} : get t (psClosed x).1 = none → Up t (psClosed x).1 c → Up t x c

theorem Up.snoc {t : Tree} {x y : Nat} (h : Up t x y) (hb : get t (psClosed y).1 = none) :
    Up t x (psClosed y).1 := by
  induction h with
  | refl c => exact .step hb (.refl _)
  | step h1 _ ih => exact .step h1 (ih hb)

theorem Up.level_le {t : Tree} {x c : Nat} (h : Up t x c) : level x ≤ level c := by
  induction h with
  | refl => exact Nat.le_refl _
  | @step x c _ _ ih => have := level_psClosed x; omega

theorem Up.desc {t : Tree} {x c : Nat} (h : Up t x c) : Desc x c := by
  induction h with
  | refl => exact desc_refl _
  | @step x c _ _ ih =>
    refine desc_trans ?_ ih
    have e := eq_nd x
    generalize level x = j at e
    generalize x / 2 ^ (j + 1) = q at e
    subst e
    rw [psClosed_nd]
    simp only
    obtain ⟨m, rfl | rfl⟩ : ∃ m, q = 2 * m ∨ q = 2 * m + 1 := ⟨q / 2, by omega⟩
    · rw [show 2 * m / 2 = m by omega]; exact desc_left_nd j m
    · rw [show (2 * m + 1) / 2 = m by omega]; exact desc_right_nd j m

/-- what a successful `climb` returns: a non-blank node strictly above `x`, together with the
sibling of the child through which it was reached -/
theorem climb_some {t : Tree} {n : Nat} : ∀ {fuel x q s : Nat}, climb t n fuel x = some (q, s) →
    isBlank t q = false ∧ level x < level q ∧ ∃ c, psClosed c = (q, s) ∧ Up t x c := by
  intro fuel
  induction fuel with
  | zero => intro x q s h; simp [climb] at h
  | succ f ih =>
    intro x q s h
    rw [climb, parentSibling?_eq] at h
    split at h
    · cases h
    · rename_i q0 s0 heq
      split at heq
      · cases heq
      · have e : psClosed x = (q0, s0) := Option.some.inj heq
        have hl := level_psClosed x
        rw [e] at hl
        simp only at hl
        split at h
        · rename_i hb
          obtain ⟨h1, h2, c, h3, h4⟩ := ih h
          refine ⟨h1, by omega, c, h3, ?_⟩
          refine .step ?_ (by rw [e]; exact h4)
          rw [e]
          simpa [isBlank] using hb
        · rename_i hb
          cases h
          exact ⟨by simpa using hb, by omega, x, e, .refl _⟩

/-- a blank path from `x` to `c` whose end has a non-blank parent makes `climb` stop there -/
theorem climb_of_up {t : Tree} {k : Nat} {x c : Nat} (h : Up t x c) :
    ∀ fuel, level c < k → isBlank t (psClosed c).1 = false → level c - level x < fuel →
      climb t (2 ^ k) fuel x = some (psClosed c) := by
  induction h with
  | refl c =>
    intro fuel hc hb hf
    obtain ⟨f, rfl⟩ : ∃ f, fuel = f + 1 := ⟨fuel - 1, by omega⟩
    have hne : c ≠ root (2 ^ k) := by
      rw [root_pow]; intro h; rw [h, level_nd] at hc; omega
    rw [climb, parentSibling?_eq, if_neg hne]
    cases hps : psClosed c with
    | mk q0 s0 =>
      rw [hps] at hb
      simp only at hb ⊢
      rw [hb]; rfl
  | @step x c hbl hup ih =>
    intro fuel hc hb hf
    have hlv := hup.level_le
    have hl := level_psClosed x
    obtain ⟨f, rfl⟩ : ∃ f, fuel = f + 1 := ⟨fuel - 1, by omega⟩
    have hne : x ≠ root (2 ^ k) := by
      rw [root_pow]; intro h
      have : level x = k := by rw [h, level_nd]
      omega
    rw [climb, parentSibling?_eq, if_neg hne]
    have := ih f hc hb (by omega)
    cases hps : psClosed x with
    | mk q0 s0 =>
      rw [hps] at hbl this
      simp only at hbl this ⊢
      have : isBlank t q0 = true := by simp [isBlank, hbl]
      rw [this]; simpa

/-! ### resolution heads -/

theorem parent_odd {t : Tree} (hs : PreShape t) {y : Nat} {P : Parent}
    (hg : get t y = some (.parent P)) : y % 2 = 1 := by
  have hy := lt_of_get_some hg
  rcases Nat.mod_two_eq_zero_or_one y with h | h
  · have := (hs.1 y hy).1 h
    rw [hg] at this; simp at this
  · exact h

theorem odd_parent {t : Tree} (hs : PreShape t) {y : Nat} (hg : get t y ≠ none) (ho : y % 2 = 1) :
    ∃ P, get t y = some (.parent P) := by
  have hy := lt_of_get_ne hg
  have := (hs.1 y hy).2 ho
  cases h : get t y with
  | none => exact absurd h hg
  | some n =>
    cases n with
    | leaf L => rw [h] at this; simp at this
    | parent P => exact ⟨P, rfl⟩

theorem even_leaf {t : Tree} (hs : PreShape t) {y : Nat} (hg : get t y ≠ none) (he : y % 2 = 0) :
    ∃ L, get t y = some (.leaf L) := by
  have hy := lt_of_get_ne hg
  have := (hs.1 y hy).1 he
  cases h : get t y with
  | none => exact absurd h hg
  | some n =>
    cases n with
    | leaf L => exact ⟨L, rfl⟩
    | parent P => rw [h] at this; simp at this

theorem mem_resHead_up {t : Tree} {x r : Nat} {n : Node} (hg : get t x = some n)
    (h : r ∈ resHead x n) :
    (get t r ≠ none ∧ Up t r x) ∨ (r % 2 = 0 ∧ ∃ P, get t x = some (.parent P)) := by
  rcases mem_resHead h with rfl | ⟨P, i, rfl, _, rfl⟩
  · left; exact ⟨by rw [hg]; simp, .refl _⟩
  · right; exact ⟨by omega, P, hg⟩

/-- a member of a resolution is a *head* (a non-blank node reached from the top through blank nodes
only) or an unmerged leaf (even index) listed by a head that is a parent -/
theorem mem_resCF_up {t : Tree} {l q r : Nat} (h : r ∈ resCF t l q) :
    (get t r ≠ none ∧ Up t r (nd l q)) ∨
    (r % 2 = 0 ∧ ∃ y P, y ∈ resCF t l q ∧ get t y = some (.parent P)) := by
  induction l generalizing q with
  | zero =>
    rw [resCF] at h
    cases hg : get t (nd 0 q) with
    | none => rw [hg] at h; simp at h
    | some n =>
      rw [hg] at h
      rcases mem_resHead_up hg h with h' | ⟨h1, P, h2⟩
      · exact .inl h'
      · refine .inr ⟨h1, _, P, ?_, h2⟩
        rw [resCF, h2]; simp [resHead]
  | succ l ih =>
    rw [resCF] at h
    cases hg : get t (nd (l + 1) q) with
    | some n =>
      rw [hg] at h
      rcases mem_resHead_up hg h with h' | ⟨h1, P, h2⟩
      · exact .inl h'
      · refine .inr ⟨h1, _, P, ?_, h2⟩
        rw [resCF, h2]; simp [resHead]
    | none =>
      rw [hg] at h
      simp only [List.mem_append] at h
      have e1 : (psClosed (nd l (2 * q))).1 = nd (l + 1) q := by
        rw [psClosed_nd]; simp
      have e2 : (psClosed (nd l (2 * q + 1))).1 = nd (l + 1) q := by
        rw [psClosed_nd]; simp only; rw [show (2 * q + 1) / 2 = q by omega]
      rcases h with h | h
      · rcases ih h with ⟨h1, h2⟩ | ⟨h1, y, P, h2, h3⟩
        · left; refine ⟨h1, ?_⟩
          have := h2.snoc (by rw [e1]; exact hg)
          rwa [e1] at this
        · right; refine ⟨h1, y, P, ?_, h3⟩
          rw [resCF, hg]; exact List.mem_append_left _ h2
      · rcases ih h with ⟨h1, h2⟩ | ⟨h1, y, P, h2, h3⟩
        · left; refine ⟨h1, ?_⟩
          have := h2.snoc (by rw [e2]; exact hg)
          rwa [e2] at this
        · right; refine ⟨h1, y, P, ?_, h3⟩
          rw [resCF, hg]; exact List.mem_append_right _ h2

theorem mem_resolution_up {t : Tree} {c r : Nat} (h : r ∈ resolution t c) :
    (get t r ≠ none ∧ Up t r c) ∨
    (r % 2 = 0 ∧ ∃ y P, y ∈ resolution t c ∧ get t y = some (.parent P)) := by
  rw [resolution_eq_resCF] at h ⊢
  have := mem_resCF_up h
  rwa [← eq_nd] at this

/-- what `sideOk` says about the resolution (one direction) -/
theorem sideOk_mem {t : Tree} {P : Parent} {c d : Nat} (h : sideOk t P c d = true) :
    d ∈ resolution t c ∧ ∀ y ∈ resolution t c, y ≠ d → y % 2 = 0 := by
  unfold sideOk sameSet at h
  simp only [Bool.and_eq_true, List.contains_iff_mem, List.all_eq_true, List.mem_filter,
    List.mem_map, bne_iff_ne, ne_eq, and_imp] at h
  refine ⟨h.1, fun y hy hne => ?_⟩
  obtain ⟨u, _, hu⟩ := h.2.1 y hy hne
  omega

/-- the witness of `sideOk` is a head of the resolution: `climb` from it stops at the parent -/
theorem climb_of_side {p : PTree} (hs : PreShape p.t) {q c s d : Nat} {P : Parent}
    (hq : get p.t q = some (.parent P)) (hc : psClosed c = (q, s))
    (hside : sideOk p.t P c d = true) :
    get p.t d ≠ none ∧ climb p.t (leafCount p.t) (p.t.length + 1) d = some (q, s) := by
  obtain ⟨hd, hev⟩ := sideOk_mem hside
  rcases mem_resolution_up hd with ⟨h1, h2⟩ | ⟨h1, y, P', h2, h3⟩
  · refine ⟨h1, ?_⟩
    obtain ⟨k, hk, hk1, hk2⟩ := leafCount_spec p.t
    have hL := tree_length_le p.t k hk
    have hqL := lt_of_get_some hq
    have hlq := level_le k q (by omega)
    have hlc := level_psClosed c
    rw [hc] at hlc
    simp only at hlc
    have hkk := @Nat.lt_two_pow_self k
    rw [hk, ← hc]
    apply climb_of_up h2
    · omega
    · rw [hc]; simp [isBlank, hq]
    · omega
  · exfalso
    have ho := parent_odd hs h3
    have := hev y h2 (by intro h; omega)
    omega

/-! ### the link relation -/

/-- the parent hash stored at the non-blank node `x` is the parent hash of its first non-blank
ancestor `q` (with the copath child found by `climb`) -/
def Link (p : PTree) (x q : Nat) : Prop :=
  get p.t x ≠ none ∧ ∃ s P, climb p.t (leafCount p.t) (p.t.length + 1) x = some (q, s) ∧
    get p.t q = some (.parent P) ∧ phGet p.ph x = some (linkHash p q s P)

theorem Link.fun {p : PTree} {x q q' : Nat} (h : Link p x q) (h' : Link p x q') : q = q' := by
  obtain ⟨_, s, P, h1, _⟩ := h
  obtain ⟨_, s', P', h1', _⟩ := h'
  rw [h1] at h1'
  cases h1'; rfl

theorem Link.target {p : PTree} {x q : Nat} (h : Link p x q) :
    (∃ P, get p.t q = some (.parent P)) ∧ level x < level q ∧ q % 2 = 1 := by
  obtain ⟨_, s, P, h1, h2, _⟩ := h
  obtain ⟨_, hl, _⟩ := climb_some h1
  refine ⟨⟨P, h2⟩, hl, ?_⟩
  rcases Nat.mod_two_eq_zero_or_one q with h | h
  · have := (level_eq_zero_iff q).2 h; omega
  · exact h

/-- (B) `NoFalseLink`: at most one node links to a given parent -/
theorem Link.inj {p : PTree} (hn : NoFalseLink p) {x x' q : Nat} (h : Link p x q)
    (h' : Link p x' q) : x' = x := by
  obtain ⟨hx, s, P, h1, h2, h3⟩ := h
  obtain ⟨hx', s', P', h1', h2', h3'⟩ := h'
  rw [h2] at h2'
  cases h2'
  have := (hn x (lt_of_get_ne hx) hx (q, s) (by rw [h1]; rfl) P (by simp [parentAt, h2]) h3).2
  exact this x' (lt_of_get_ne hx') hx' (q, s') (by rw [h1']; rfl) rfl h3'

/-- (C) `PHLinked`: every non-blank parent is linked to by some node -/
theorem linked_pred {p : PTree} (hs : PreShape p.t) (hl : PHLinked p) {q : Nat} {P : Parent}
    (hq : get p.t q = some (.parent P)) : ∃ d, Link p d q := by
  have hqL := lt_of_get_some hq
  have ho := parent_odd hs hq
  have hlv : level q ≠ 0 := by
    intro h; have := (level_eq_zero_iff q).1 h; omega
  have e := eq_nd q
  obtain ⟨j, hj⟩ : ∃ j, level q = j + 1 := ⟨level q - 1, by omega⟩
  rw [hj] at e
  generalize q / 2 ^ (j + 1 + 1) = m at e
  have hP : P ∈ parentAt p.t q := by simp [parentAt, hq]
  have hlr := hl q hqL P hP (nd j (2 * m)) (by rw [e, left?_nd]; rfl)
    (nd j (2 * m + 1)) (by rw [e, right?_nd]; rfl)
  have e1 : psClosed (nd j (2 * m)) = (q, nd j (2 * m + 1)) := by
    rw [psClosed_nd, e]; simp [sib]
  have e2 : psClosed (nd j (2 * m + 1)) = (q, nd j (2 * m)) := by
    rw [psClosed_nd, e, show (2 * m + 1) / 2 = m by omega]
    simp [sib]
  rcases hlr with ⟨d, _, hw, hside⟩ | ⟨d, _, hw, hside⟩
  · obtain ⟨h1, h2⟩ := climb_of_side hs hq e1 hside
    exact ⟨d, h1, _, P, h2, hq, hw⟩
  · obtain ⟨h1, h2⟩ := climb_of_side hs hq e2 hside
    exact ⟨d, h1, _, P, h2, hq, hw⟩

/-- (D) one step of `validate_chain` at a non-blank node of a valid tree: the chain ends if the
node links to nothing, and continues (or fails) according to `todo` if it does -/
theorem chainStep_spec {p : PTree} (hs : PreShape p.t) (hn : NoFalseLink p) {x : Nat}
    (hx : get p.t x ≠ none) (todo : List Nat) :
    (chainStep p (leafCount p.t) x todo = .stop ∧ ∀ q, ¬ Link p x q) ∨
    (∃ q, Link p x q ∧
      chainStep p (leafCount p.t) x todo = if todo.contains q then .next q else .fail) := by
  unfold chainStep
  cases hc : climb p.t (leafCount p.t) (p.t.length + 1) x with
  | none =>
    left
    refine ⟨rfl, ?_⟩
    rintro q ⟨_, s, P, h1, _⟩
    rw [hc] at h1; cases h1
  | some qs =>
    obtain ⟨q, s⟩ := qs
    obtain ⟨hb, hl, c, hps, _⟩ := climb_some hc
    have hqn : get p.t q ≠ none := by
      intro h; simp [isBlank, h] at hb
    have hqo : q % 2 = 1 := by
      rcases Nat.mod_two_eq_zero_or_one q with h | h
      · have := (level_eq_zero_iff q).2 h; omega
      · exact h
    obtain ⟨P, hP⟩ := odd_parent hs hqn hqo
    simp only [hP]
    by_cases hh : phGet p.ph x = some (linkHash p q s P)
    · right
      refine ⟨q, ⟨hx, s, P, hc, hP, hh⟩, ?_⟩
      rw [if_pos hh]
      -- the sibling `s` is not the root
      obtain ⟨k, hk, hk1, hk2⟩ := leafCount_spec p.t
      have hL := tree_length_le p.t k hk
      have hqL := lt_of_get_ne hqn
      have hlq := level_le k q (by omega)
      have hls : level s + 1 = level q := by
        have e := eq_nd c
        generalize level c = j at e
        generalize c / 2 ^ (j + 1) = m at e
        rw [e, psClosed_nd] at hps
        cases hps
        rw [level_nd, level_nd]
      have hsr : s ≠ root (leafCount p.t) := by
        rw [hk, root_pow]; intro h
        have : level s = k := by rw [h, level_nd]
        omega
      rw [parentSibling?_eq, if_neg hsr]
      have hside := (hn x (lt_of_get_ne hx) hx (q, s) (by rw [hc]; rfl) P
        (by simp [parentAt, hP]) hh).1 (psClosed s) (by rw [parentSibling?_eq, if_neg hsr]; rfl)
      simp only [hside, Bool.true_and]
    · left
      refine ⟨by rw [if_neg hh], ?_⟩
      rintro q' ⟨_, s', P', h1, h2, h3⟩
      rw [hc] at h1
      cases h1
      rw [hP] at h2
      cases h2
      exact hh h3

/-! ### chains -/

/-- `q` is reached from `x` by one or more links -/
inductive Chain (p : PTree) : Nat → Nat → Prop
  | one {x q : Nat} : Link p x q → Chain p x q
  | snoc {x y q : Nat} : Chain p x y → Link p y q → Chain p x q

theorem Chain.cons {p : PTree} {x y q : Nat} (h : Link p x y) (c : Chain p y q) : Chain p x q := by
  induction c with
  | one h' => exact .snoc (.one h) h'
  | snoc _ h' ih => exact .snoc ih h'

theorem Chain.target {p : PTree} {x q : Nat} (c : Chain p x q) :
    (∃ P, get p.t q = some (.parent P)) ∧ level x < level q ∧ q % 2 = 1 := by
  induction c with
  | one h => exact h.target
  | snoc _ h ih =>
    obtain ⟨h1, h2, h3⟩ := h.target
    exact ⟨h1, by omega, h3⟩

theorem Chain.iff_of_link {p : PTree} {x y : Nat} (h : Link p x y) (q : Nat) :
    Chain p x q ↔ q = y ∨ Chain p y q := by
  constructor
  · intro c
    induction c with
    | one h' => left; exact h'.fun h
    | snoc _ h' ih =>
      rcases ih with rfl | ih
      · right; exact .one h'
      · right; exact .snoc ih h'
  · rintro (rfl | c)
    · exact .one h
    · exact c.cons h

theorem Chain.of_no_link {p : PTree} {x q : Nat} (h : ∀ y, ¬ Link p x y) : ¬ Chain p x q := by
  intro c
  induction c with
  | one h' => exact h _ h'
  | snoc _ _ ih => exact ih

/-- two chains into the same node that start at even nodes (leaves) start at the same node -/
theorem Chain.origin_unique {p : PTree} (hn : NoFalseLink p) {l l' q : Nat}
    (c : Chain p l q) (c' : Chain p l' q) (he : l % 2 = 0) (he' : l' % 2 = 0) : l = l' := by
  induction c generalizing l' with
  | one h =>
    cases c' with
    | one h' => exact (h.inj hn h').symm
    | snoc c'' h' =>
      have := h.inj hn h'
      have := c''.target.2.2
      omega
  | snoc c1 h ih =>
    cases c' with
    | one h' =>
      have := h'.inj hn h
      have := c1.target.2.2
      omega
    | snoc c'' h' =>
      have := h.inj hn h'
      subst this
      exact ih c'' he'

theorem mem_nonEmptyParents {t : Tree} {q : Nat} :
    q ∈ nonEmptyParents t ↔ q % 2 = 1 ∧ ∃ P, get t q = some (.parent P) := by
  unfold nonEmptyParents
  simp only [List.mem_filter, List.mem_range, Bool.and_eq_true, beq_iff_eq]
  constructor
  · rintro ⟨_, h1, h2⟩
    refine ⟨h1, ?_⟩
    unfold parentAt at h2
    split at h2
    · exact ⟨_, by assumption⟩
    · simp at h2
  · rintro ⟨h1, P, h2⟩
    exact ⟨lt_of_get_some h2, h1, by simp [parentAt, h2]⟩

theorem mem_nonEmptyLeaves {t : Tree} {l : Nat} :
    l ∈ nonEmptyLeaves t ↔ l % 2 = 0 ∧ ∃ L, get t l = some (.leaf L) := by
  unfold nonEmptyLeaves
  simp only [List.mem_filter, List.mem_range, Bool.and_eq_true, beq_iff_eq]
  constructor
  · rintro ⟨_, h1, h2⟩
    refine ⟨h1, ?_⟩
    unfold leafAt at h2
    rw [show 2 * (l / 2) = l by omega] at h2
    split at h2
    · exact ⟨_, by assumption⟩
    · simp at h2
  · rintro ⟨h1, L, h2⟩
    refine ⟨lt_of_get_some h2, h1, ?_⟩
    unfold leafAt
    rw [show 2 * (l / 2) = l by omega, h2]; rfl

theorem nonEmptyParents_nodup (t : Tree) : (nonEmptyParents t).Nodup :=
  List.Nodup.sublist List.filter_sublist List.nodup_range

theorem nonEmptyLeaves_nodup (t : Tree) : (nonEmptyLeaves t).Nodup :=
  List.Nodup.sublist List.filter_sublist List.nodup_range

/-- every non-blank parent lies on the chain of some non-blank leaf -/
theorem chain_exists {p : PTree} (hs : PreShape p.t) (hl : PHLinked p) :
    ∀ (j q : Nat) (P : Parent), level q ≤ j → get p.t q = some (.parent P) →
      ∃ l ∈ nonEmptyLeaves p.t, Chain p l q := by
  intro j
  induction j with
  | zero =>
    intro q P hj hq
    have := parent_odd hs hq
    have := (level_eq_zero_iff q).1 (by omega)
    omega
  | succ j ih =>
    intro q P hj hq
    obtain ⟨d, hd⟩ := linked_pred hs hl hq
    have hlt := hd.target.2.1
    rcases Nat.mod_two_eq_zero_or_one d with he | ho
    · obtain ⟨L, hL⟩ := even_leaf hs hd.1 he
      exact ⟨d, mem_nonEmptyLeaves.2 ⟨he, L, hL⟩, .one hd⟩
    · obtain ⟨P', hP'⟩ := odd_parent hs hd.1 ho
      obtain ⟨l, h1, h2⟩ := ih d P' (by omega) hP'
      exact ⟨l, h1, .snoc h2 hd⟩

/-! ### the algorithm -/

/-- `validate_chain` from a non-blank node, all of whose chain is still to be validated, removes
exactly that chain -/
theorem validateChain_spec {p : PTree} (hs : PreShape p.t) (hn : NoFalseLink p) (k : Nat)
    (hk : ∀ x, get p.t x ≠ none → level x ≤ k) :
    ∀ (fuel x : Nat) (todo : List Nat), get p.t x ≠ none → k < level x + fuel → todo.Nodup →
      (∀ q, Chain p x q → q ∈ todo) →
      ∃ todo', validateChain p (leafCount p.t) fuel x todo = some todo' ∧ todo'.Nodup ∧
        ∀ q, q ∈ todo' ↔ q ∈ todo ∧ ¬ Chain p x q := by
  intro fuel
  induction fuel with
  | zero =>
    intro x todo hx hf _ _
    have := hk x hx
    omega
  | succ f ih =>
    intro x todo hx hf hnd hall
    rw [validateChain]
    rcases chainStep_spec hs hn hx todo with ⟨h1, h2⟩ | ⟨q, h1, h2⟩
    · rw [h1]
      exact ⟨todo, rfl, hnd, fun q => ⟨fun h => ⟨h, Chain.of_no_link h2⟩, fun h => h.1⟩⟩
    · have hq : q ∈ todo := hall q (.one h1)
      rw [h2, if_pos (List.contains_iff_mem.2 hq)]
      obtain ⟨⟨P, hP⟩, hlv, _⟩ := h1.target
      have hqn : get p.t q ≠ none := by rw [hP]; simp
      obtain ⟨todo', e1, e2, e3⟩ := ih q (todo.erase q) hqn (by omega) (hnd.erase q) (by
        intro q' c
        rw [hnd.mem_erase_iff]
        refine ⟨?_, hall q' (c.cons h1)⟩
        intro h
        have := c.target.2.1
        rw [h] at this; omega)
      refine ⟨todo', e1, e2, fun q' => ?_⟩
      rw [e3, hnd.mem_erase_iff, Chain.iff_of_link h1]
      constructor
      · rintro ⟨⟨h3, h4⟩, h5⟩
        exact ⟨h4, fun h => h.elim h3 h5⟩
      · rintro ⟨h3, h4⟩
        exact ⟨⟨fun h => h4 (.inl h), h3⟩, fun h => h4 (.inr h)⟩

theorem validateLeaves_spec {p : PTree} (hs : PreShape p.t) (hn : NoFalseLink p) :
    ∀ (ls todo : List Nat), ls.Nodup → (∀ l ∈ ls, l ∈ nonEmptyLeaves p.t) → todo.Nodup →
      (∀ l ∈ ls, ∀ q, Chain p l q → q ∈ todo) →
      ∃ todo', validateLeaves p (leafCount p.t) ls todo = some todo' ∧ todo'.Nodup ∧
        ∀ q, q ∈ todo' ↔ q ∈ todo ∧ ∀ l ∈ ls, ¬ Chain p l q := by
  obtain ⟨k, hk, hk1, hk2⟩ := leafCount_spec p.t
  have hL := tree_length_le p.t k hk
  have hkk := @Nat.lt_two_pow_self k
  have hlev : ∀ x, get p.t x ≠ none → level x ≤ k := fun x hx =>
    level_le k x (by have := lt_of_get_ne hx; omega)
  intro ls
  induction ls with
  | nil =>
    intro todo _ _ hnd _
    exact ⟨todo, rfl, hnd, fun q => by simp⟩
  | cons l ls ih =>
    intro todo hls hmem hnd hall
    rw [validateLeaves]
    obtain ⟨hle, L, hLf⟩ := mem_nonEmptyLeaves.1 (hmem l List.mem_cons_self)
    have hln : get p.t l ≠ none := by rw [hLf]; simp
    obtain ⟨todo1, e1, e2, e3⟩ := validateChain_spec hs hn k hlev (p.t.length + 1) l todo hln
      (by omega) hnd (hall l List.mem_cons_self)
    rw [e1]
    simp only
    rw [List.nodup_cons] at hls
    obtain ⟨todo', f1, f2, f3⟩ := ih todo1 hls.2 (fun l' h => hmem l' (List.mem_cons_of_mem _ h)) e2
      (by
        intro l' hl' q c
        rw [e3]
        refine ⟨hall l' (List.mem_cons_of_mem _ hl') q c, fun c' => ?_⟩
        have hle' := (mem_nonEmptyLeaves.1 (hmem l' (List.mem_cons_of_mem _ hl'))).1
        have := Chain.origin_unique hn c c' hle' hle
        subst this
        exact hls.1 hl')
    refine ⟨todo', f1, f2, fun q => ?_⟩
    rw [f3, e3]
    simp only [List.mem_cons, forall_eq_or_imp]
    constructor
    · rintro ⟨⟨h1, h2⟩, h3⟩; exact ⟨h1, h2, h3⟩
    · rintro ⟨h1, h2, h3⟩; exact ⟨⟨h1, h2⟩, h3⟩

/-! ### the converse: acceptance implies validity -/

/-- the resolution condition checked by `validate_chain` when `x` links to `q` -/
def SideAt (p : PTree) (x q : Nat) : Prop :=
  ∀ s P, climb p.t (leafCount p.t) (p.t.length + 1) x = some (q, s) →
    get p.t q = some (.parent P) →
    ∀ qc ∈ parentSibling? s (leafCount p.t), sideOk p.t P qc.2 x = true

theorem chainStep_stop {p : PTree} {x : Nat} {todo : List Nat}
    (h : chainStep p (leafCount p.t) x todo = .stop) : ∀ q, ¬ Link p x q := by
  rintro q ⟨_, s, P, h1, h2, h3⟩
  unfold chainStep at h
  rw [h1] at h
  simp only [h2, if_pos h3] at h
  split at h
  · cases h
  · split at h <;> cases h

theorem chainStep_next {p : PTree} {x q : Nat} {todo : List Nat} (hx : get p.t x ≠ none)
    (h : chainStep p (leafCount p.t) x todo = .next q) :
    Link p x q ∧ SideAt p x q ∧ q ∈ todo := by
  unfold chainStep at h
  split at h
  · cases h
  · rename_i q0 s0 hc
    split at h
    · rename_i P hP
      split at h
      · rename_i hh
        split at h
        · cases h
        · rename_i q1 c hps
          split at h
          · rename_i hcond
            cases h
            rw [Bool.and_eq_true, List.contains_iff_mem] at hcond
            refine ⟨⟨hx, s0, P, hc, hP, hh⟩, ?_, hcond.2⟩
            intro s P' h1 h2 qc hqc
            rw [hc] at h1; cases h1
            rw [hP] at h2; cases h2
            rw [hps] at hqc
            cases hqc
            exact hcond.1
          · cases h
      · cases h
    · cases h

structure Inv (p : PTree) (todo V : List Nat) : Prop where
  nodup : todo.Nodup
  mem : ∀ q, q ∈ todo ↔ q ∈ nonEmptyParents p.t ∧ ∀ x ∈ V, ¬ Link p x q
  good : ∀ x ∈ V, ∀ q, Link p x q → SideAt p x q ∧ ∀ x' ∈ V, Link p x' q → x' = x

theorem validateChain_inv {p : PTree} (k : Nat) (hk : ∀ x, get p.t x ≠ none → level x ≤ k) :
    ∀ (fuel x : Nat) (todo V todo' : List Nat), get p.t x ≠ none → k < level x + fuel →
      Inv p todo V → (∀ y ∈ V, ∀ q, Link p y q → q ∈ V ∨ q = x) →
      validateChain p (leafCount p.t) fuel x todo = some todo' →
      ∃ V', Inv p todo' V' ∧ (∀ y ∈ V', ∀ q, Link p y q → q ∈ V') ∧ x ∈ V' ∧ ∀ y ∈ V, y ∈ V' := by
  intro fuel
  induction fuel with
  | zero =>
    intro x _ _ _ hx hf
    have := hk x hx
    omega
  | succ f ih =>
    intro x todo V todo' hx hf inv hcl h
    rw [validateChain] at h
    cases hcs : chainStep p (leafCount p.t) x todo with
    | fail => rw [hcs] at h; cases h
    | stop =>
      rw [hcs] at h
      cases h
      have hno := chainStep_stop hcs
      refine ⟨x :: V, ⟨inv.nodup, ?_, ?_⟩, ?_, List.mem_cons_self, fun y hy => List.mem_cons_of_mem _ hy⟩
      · intro q
        rw [inv.mem]
        simp only [List.mem_cons, forall_eq_or_imp]
        exact ⟨fun ⟨h1, h2⟩ => ⟨h1, hno q, h2⟩, fun ⟨h1, _, h2⟩ => ⟨h1, h2⟩⟩
      · intro y hy q hl
        rcases List.mem_cons.1 hy with rfl | hy
        · exact absurd hl (hno q)
        · obtain ⟨h1, h2⟩ := inv.good y hy q hl
          refine ⟨h1, fun x' hx' hl' => ?_⟩
          rcases List.mem_cons.1 hx' with rfl | hx'
          · exact absurd hl' (hno q)
          · exact h2 x' hx' hl'
      · intro y hy q hl
        rcases List.mem_cons.1 hy with rfl | hy
        · exact absurd hl (hno q)
        · rcases hcl y hy q hl with h1 | rfl
          · exact List.mem_cons_of_mem _ h1
          · exact List.mem_cons_self
    | next q =>
      rw [hcs] at h
      simp only at h
      obtain ⟨hl, hside, hq⟩ := chainStep_next hx hcs
      obtain ⟨⟨P, hP⟩, hlv, _⟩ := hl.target
      have hqn : get p.t q ≠ none := by rw [hP]; simp
      have hqV : ∀ y ∈ V, ¬ Link p y q := ((inv.mem q).1 hq).2
      have inv1 : Inv p (todo.erase q) (x :: V) := by
        refine ⟨inv.nodup.erase q, ?_, ?_⟩
        · intro q'
          rw [inv.nodup.mem_erase_iff, inv.mem]
          simp only [List.mem_cons, forall_eq_or_imp]
          constructor
          · rintro ⟨h1, h2, h3⟩
            exact ⟨h2, fun hl' => h1 (hl'.fun hl), h3⟩
          · rintro ⟨h1, h2, h3⟩
            exact ⟨fun e => h2 (e ▸ hl), h1, h3⟩
        · intro y hy q' hl'
          rcases List.mem_cons.1 hy with rfl | hy
          · have := hl'.fun hl
            subst this
            refine ⟨hside, fun x' hx' hl'' => ?_⟩
            rcases List.mem_cons.1 hx' with rfl | hx'
            · rfl
            · exact absurd hl'' (hqV x' hx')
          · obtain ⟨h1, h2⟩ := inv.good y hy q' hl'
            have hyV := hqV y hy
            refine ⟨h1, fun x' hx' hl'' => ?_⟩
            rcases List.mem_cons.1 hx' with rfl | hx'
            · have := hl''.fun hl
              subst this
              exact absurd hl' hyV
            · exact h2 x' hx' hl''
      obtain ⟨V', i1, i2, i3, i4⟩ := ih q (todo.erase q) (x :: V) todo' hqn (by omega) inv1 (by
        intro y hy q' hl'
        rcases List.mem_cons.1 hy with rfl | hy
        · right; exact hl'.fun hl
        · rcases hcl y hy q' hl' with h1 | rfl
          · left; exact List.mem_cons_of_mem _ h1
          · left; exact List.mem_cons_self) h
      exact ⟨V', i1, i2, i4 x List.mem_cons_self, fun y hy => i4 y (List.mem_cons_of_mem _ hy)⟩

theorem validateLeaves_inv {p : PTree} (k : Nat) (hk : ∀ x, get p.t x ≠ none → level x ≤ k)
    (hkL : k < p.t.length + 1) :
    ∀ (ls todo V todo' : List Nat), (∀ l ∈ ls, get p.t l ≠ none) →
      Inv p todo V → (∀ y ∈ V, ∀ q, Link p y q → q ∈ V) →
      validateLeaves p (leafCount p.t) ls todo = some todo' →
      ∃ V', Inv p todo' V' ∧ (∀ y ∈ V', ∀ q, Link p y q → q ∈ V') ∧ (∀ l ∈ ls, l ∈ V') ∧
        ∀ y ∈ V, y ∈ V' := by
  intro ls
  induction ls with
  | nil =>
    intro todo V todo' _ inv hcl h
    rw [validateLeaves] at h
    cases h
    exact ⟨V, inv, hcl, by simp, fun _ h => h⟩
  | cons l ls ih =>
    intro todo V todo' hne inv hcl h
    rw [validateLeaves] at h
    cases hvc : validateChain p (leafCount p.t) (p.t.length + 1) l todo with
    | none => rw [hvc] at h; cases h
    | some todo1 =>
      rw [hvc] at h
      simp only at h
      obtain ⟨V1, i1, i2, i3, i4⟩ := validateChain_inv k hk (p.t.length + 1) l todo V todo1
        (hne l List.mem_cons_self) (by omega) inv (fun y hy q hl => .inl (hcl y hy q hl)) hvc
      obtain ⟨V', j1, j2, j3, j4⟩ := ih todo1 V1 todo'
        (fun l' h' => hne l' (List.mem_cons_of_mem _ h')) i1 i2 h
      refine ⟨V', j1, j2, ?_, fun y hy => j4 y (i4 y hy)⟩
      intro l' hl'
      rcases List.mem_cons.1 hl' with rfl | hl'
      · exact j4 _ i3
      · exact j3 l' hl'

/-- the sibling returned by `climb` is below the root, and its own sibling is the child through
which `climb` arrived -/
theorem climb_sibling {p : PTree} {x q s : Nat}
    (h : climb p.t (leafCount p.t) (p.t.length + 1) x = some (q, s)) :
    ∃ c, psClosed c = (q, s) ∧ parentSibling? s (leafCount p.t) = some (q, c) ∧
      ((left? q = some c ∧ right? q = some s) ∨ (left? q = some s ∧ right? q = some c)) := by
  obtain ⟨hb, _, c, hps, _⟩ := climb_some h
  have hqn : get p.t q ≠ none := by
    intro h; simp [isBlank, h] at hb
  obtain ⟨k, hk, hk1, hk2⟩ := leafCount_spec p.t
  have hL := tree_length_le p.t k hk
  have hqL := lt_of_get_ne hqn
  have hlq := level_le k q (by omega)
  refine ⟨c, hps, ?_⟩
  have e := eq_nd c
  generalize level c = j at e
  generalize c / 2 ^ (j + 1) = m at e
  rw [e, psClosed_nd] at hps
  cases hps
  rw [level_nd] at hlq
  have hsr : nd j (sib m) ≠ root (leafCount p.t) := by
    rw [hk, root_pow]; intro h
    have := (nd_inj h).1
    omega
  rw [parentSibling?_eq, if_neg hsr, psClosed_nd, left?_nd, right?_nd, e]
  unfold sib
  obtain ⟨a, rfl | rfl⟩ : ∃ a, m = 2 * a ∨ m = 2 * a + 1 := ⟨m / 2, by omega⟩
  · have h1 : 2 * a % 2 = 0 := by omega
    have h3 : (2 * a + 1) / 2 = a := by omega
    have h4 : 2 * a / 2 = a := by omega
    simp [h1, h3, h4]
  · have h2 : 2 * a % 2 = 0 := by omega
    have h3 : (2 * a + 1) / 2 = a := by omega
    have h4 : 2 * a / 2 = a := by omega
    simp [h2, h3, h4]

end Acc

/-- declarative parent-hash validity implies acceptance by `validate_parent_hashes`
(only `PreShape` is needed of the tree invariants) -/
theorem valid_accepts_of_preShape {p : PTree} (hs : PreShape p.t) (hv : PHValid p) :
    validateParentHashes p = true := by
  obtain ⟨hl, hn⟩ := hv
  unfold validateParentHashes
  obtain ⟨todo', e1, _, e3⟩ := Acc.validateLeaves_spec hs hn (nonEmptyLeaves p.t)
    (nonEmptyParents p.t) (Acc.nonEmptyLeaves_nodup _) (fun _ h => h) (Acc.nonEmptyParents_nodup _)
    (by
      intro l _ q c
      obtain ⟨h1, _, h3⟩ := c.target
      exact Acc.mem_nonEmptyParents.2 ⟨h3, h1⟩)
  rw [e1]
  simp only [List.isEmpty_iff]
  rw [List.eq_nil_iff_forall_not_mem]
  intro q hq
  obtain ⟨hq1, hq2⟩ := (e3 q).1 hq
  obtain ⟨_, P, hP⟩ := Acc.mem_nonEmptyParents.1 hq1
  obtain ⟨l, hl1, hl2⟩ := Acc.chain_exists hs hl (level q) q P (Nat.le_refl _) hP
  exact hq2 l hl1 hl2

/-- acceptance by `validate_parent_hashes` implies the declarative validity
(only `PreShape` is needed of the tree invariants) -/
theorem accepts_valid_of_preShape {p : PTree} (hs : PreShape p.t)
    (h : validateParentHashes p = true) :
    PHValid p := by
  unfold validateParentHashes at h
  obtain ⟨k, hk, hk1, hk2⟩ := leafCount_spec p.t
  have hL := tree_length_le p.t k hk
  have hkk := @Nat.lt_two_pow_self k
  have hlev : ∀ x, get p.t x ≠ none → level x ≤ k := fun x hx =>
    level_le k x (by have := lt_of_get_ne hx; omega)
  cases hvl : validateLeaves p (leafCount p.t) (nonEmptyLeaves p.t) (nonEmptyParents p.t) with
  | none => rw [hvl] at h; cases h
  | some todo' =>
    rw [hvl] at h
    simp only [List.isEmpty_iff] at h
    subst h
    obtain ⟨V, inv, hcl, hlv, _⟩ := Acc.validateLeaves_inv k hlev (by omega) (nonEmptyLeaves p.t)
      (nonEmptyParents p.t) [] [] (by
        intro l hl
        obtain ⟨_, L, hL⟩ := Acc.mem_nonEmptyLeaves.1 hl
        rw [hL]; simp)
      ⟨Acc.nonEmptyParents_nodup _, fun q => by simp, fun x hx => by simp at hx⟩
      (fun y hy => by simp at hy) hvl
    -- every non-blank parent is linked to by a visited node
    have hpar : ∀ q P, get p.t q = some (.parent P) → ∃ d ∈ V, Acc.Link p d q := by
      intro q P hq
      have hq' : q ∈ nonEmptyParents p.t := Acc.mem_nonEmptyParents.2 ⟨Acc.parent_odd hs hq, P, hq⟩
      apply Classical.byContradiction
      intro hc
      have := (inv.mem q).2 ⟨hq', fun x hx hl => hc ⟨x, hx, hl⟩⟩
      simp at this
    -- every non-blank node has been visited
    have hall : ∀ x, get p.t x ≠ none → x ∈ V := by
      intro x hx
      rcases Nat.mod_two_eq_zero_or_one x with he | ho
      · obtain ⟨L, hL⟩ := Acc.even_leaf hs hx he
        exact hlv x (Acc.mem_nonEmptyLeaves.2 ⟨he, L, hL⟩)
      · obtain ⟨P, hP⟩ := Acc.odd_parent hs hx ho
        obtain ⟨d, hd, hl⟩ := hpar x P hP
        exact hcl d hd x hl
    constructor
    · -- PHLinked
      intro x _ P hP l hl r hr
      have hq : get p.t x = some (.parent P) := by
        unfold parentAt at hP
        split at hP
        · rename_i P' h'; cases hP; exact h'
        · cases hP
      obtain ⟨d, hd, hlk⟩ := hpar x P hq
      have hside := (inv.good d hd x hlk).1
      obtain ⟨hdn, s, P', h1, h2, h3⟩ := hlk
      rw [hq] at h2; cases h2
      obtain ⟨c, _, hps, hch⟩ := Acc.climb_sibling h1
      have hso := hside s P h1 hq (x, c) (by rw [hps]; rfl)
      simp only at hso
      have hmem := (Acc.sideOk_mem hso).1
      rw [Option.mem_def] at hl hr
      rcases hch with ⟨e1, e2⟩ | ⟨e1, e2⟩
      · rw [e1] at hl; rw [e2] at hr
        cases hl; cases hr
        exact .inl ⟨d, hmem, h3, hso⟩
      · rw [e1] at hl; rw [e2] at hr
        cases hl; cases hr
        exact .inr ⟨d, hmem, h3, hso⟩
    · -- NoFalseLink
      intro d _ hdn qs hqs P hP hh
      obtain ⟨q, s⟩ := qs
      rw [Option.mem_def] at hqs
      have hq : get p.t q = some (.parent P) := by
        unfold parentAt at hP
        split at hP
        · rename_i P' h'; cases hP; exact h'
        · cases hP
      have hlk : Acc.Link p d q := ⟨hdn, s, P, hqs, hq, hh⟩
      obtain ⟨g1, g2⟩ := inv.good d (hall d hdn) q hlk
      refine ⟨g1 s P hqs hq, ?_⟩
      intro d' _ hdn' qs' hqs' heq hh'
      obtain ⟨q', s'⟩ := qs'
      rw [Option.mem_def] at hqs'
      simp only at heq hh'
      subst heq
      exact g2 d' (hall d' hdn') ⟨hdn', s', P, hqs', hq, hh'⟩

/-- on a tree with leaves at even and parents at odd indices, `validate_parent_hashes` decides
`PHValid` -/
theorem accepts_iff_valid {p : PTree} (hs : PreShape p.t) :
    validateParentHashes p = true ↔ PHValid p :=
  ⟨accepts_valid_of_preShape hs, valid_accepts_of_preShape hs⟩

/-- the two directions with the hypotheses of the callers (`UnmergedInv` is not used) -/
theorem valid_accepts {p : PTree} (hs : PreShape p.t) (_hu : UnmergedInv p.t) (hv : PHValid p) :
    validateParentHashes p = true := valid_accepts_of_preShape hs hv

theorem accepts_valid {p : PTree} (hs : PreShape p.t) (_hu : UnmergedInv p.t)
    (h : validateParentHashes p = true) : PHValid p := accepts_valid_of_preShape hs h

theorem accepts_linked {p : PTree} (hs : PreShape p.t) (h : validateParentHashes p = true) :
    PHLinked p := (accepts_valid_of_preShape hs h).1

end MlsVerif.ParentHash
