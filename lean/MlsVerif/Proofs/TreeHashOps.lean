import MlsVerif.Proofs.TreeHash
import MlsVerif.Proofs.Tree
/-
(c) Composition of the cache refinement lemma (`updateHashes_coherent`) with the tree operations of
`Model/Tree.lean`: each operation changes the tree only above the leaves that the Rust code passes to
`update_hashes`, hence the cache stays coherent along every history.
-/
namespace MlsVerif.TreeHash
open MlsVerif.TreeMath MlsVerif.Tree

/-- every node at which `t'` differs from `t` (positions beyond the end read as blank) is the leaf
node of, or lies on the direct path of, a leaf of `S` -/
def Diff (t t' : Tree) (S : List Nat) : Prop := ∀ x, get t' x ≠ get t x → ∃ l ∈ S, below l x

theorem Diff.of_get_eq {t t' : Tree} {S : List Nat} (h : ∀ x, get t' x = get t x) : Diff t t' S :=
  fun x hx => absurd (h x) hx

theorem Diff.trans {t t1 t2 : Tree} {S1 S2 : List Nat} (h1 : Diff t t1 S1) (h2 : Diff t1 t2 S2) :
    Diff t t2 (S1 ++ S2) := by
  intro x hx
  by_cases e : get t1 x = get t x
  · obtain ⟨l, hl, hb⟩ := h2 x (by rw [e]; exact hx)
    exact ⟨l, List.mem_append_right _ hl, hb⟩
  · obtain ⟨l, hl, hb⟩ := h1 x e
    exact ⟨l, List.mem_append_left _ hl, hb⟩

theorem Diff.mono {t t' : Tree} {S S' : List Nat} (h : Diff t t' S) (hs : ∀ l ∈ S, l ∈ S') :
    Diff t t' S' := by
  intro x hx
  obtain ⟨l, hl, hb⟩ := h x hx
  exact ⟨l, hs l hl, hb⟩

/-! ### the phases of `batchEdit` -/

theorem applyRemoves_diff {t t' : Tree} {rs : List Nat} (h : applyRemoves t rs = .ok t') :
    Diff t t' rs := by
  obtain ⟨_, _, _, h4⟩ := applyRemoves_spec h
  intro x hx
  rw [h4 x] at hx
  split at hx
  · rename_i hc
    obtain ⟨r, hr, hc⟩ := hc
    rcases hc with rfl | hc
    · exact ⟨r, hr, (Add.below_leaf r r).2 rfl⟩
    · exact ⟨r, hr, hc.2⟩
  · exact absurd rfl hx

theorem applyUpdates_diff {t t' : Tree} {us : List (Nat × Leaf)} (h : applyUpdates t us = .ok t') :
    Diff t t' (us.map (·.1)) := by
  obtain ⟨_, _, _, _, h5⟩ := applyUpdates_spec h
  intro x hx
  by_cases hu : ∃ u ∈ us, x = 2 * u.1
  · obtain ⟨u, hu, rfl⟩ := hu
    exact ⟨u.1, List.mem_map.2 ⟨u, hu, rfl⟩, (Add.below_leaf _ _).2 rfl⟩
  · rw [h5 x (fun u hu' e => hu ⟨u, hu', e⟩)] at hx
    split at hx
    · rename_i hc
      obtain ⟨u, hu', _, hb⟩ := hc
      exact ⟨u.1, List.mem_map.2 ⟨u, hu', rfl⟩, hb⟩
    · exact absurd rfl hx

theorem get_insertLeaf_ne (t : Tree) (i : Nat) (l : Leaf) (x : Nat) (hx : x ≠ 2 * i) :
    get (insertLeaf t i l) x = get t x := by
  unfold insertLeaf
  simp only
  rw [get_set_ne _ _ _ _ (Ne.symm hx)]
  split
  · exact get_append_replicate t 2 x
  · split
    · rename_i h
      have ht : t = [] := by simpa using h
      subst ht
      unfold Tree.get
      cases x <;> simp
    · rfl

theorem addLeaf_diff {t t' : Tree} {l : Leaf} {start i : Nat} (h : addLeaf t l start = .ok (i, t')) :
    Diff t t' [i] := by
  unfold addLeaf at h
  simp only at h
  split at h
  · cases h
  · split at h
    · rename_i t1 hu
      simp only [Except.ok.injEq, Prod.mk.injEq] at h
      obtain ⟨rfl, rfl⟩ := h
      rw [Add.updateUnmerged_eq] at hu
      obtain ⟨_, h2, _, _⟩ := Add.um_fold _ _ _ _ (Add.path_nodup _ _) hu
      intro x hx
      refine ⟨_, List.mem_singleton.2 rfl, ?_⟩
      by_cases hp : x ∈ (directCopathOf (insertLeaf t (nextEmptyLeaf t start) l)
          (nextEmptyLeaf t start)).map (·.1)
      · exact Add.below_of_mem_path hp
      · rw [h2 x hp] at hx
        by_cases e : x = 2 * nextEmptyLeaf t start
        · rw [e]; exact (Add.below_leaf _ _).2 rfl
        · exact absurd (get_insertLeaf_ne t _ l x e) hx
    · cases h

theorem applyAdds_diff : ∀ (ls : List Leaf) (t t' : Tree) (start : Nat) (acc added : List Nat),
    applyAdds t ls start acc = .ok (added, t') →
    ∃ new, added = acc.reverse ++ new ∧ Diff t t' new := by
  intro ls
  induction ls with
  | nil =>
    intro t t' start acc added h
    rw [applyAdds] at h
    simp only [Except.ok.injEq, Prod.mk.injEq] at h
    obtain ⟨rfl, rfl⟩ := h
    exact ⟨[], by simp, Diff.of_get_eq fun _ => rfl⟩
  | cons l ls ih =>
    intro t t' start acc added h
    obtain ⟨i, t1, ha, h⟩ := Add.applyAdds_cons h
    obtain ⟨new, e, hd⟩ := ih t1 t' i (i :: acc) added h
    refine ⟨i :: new, by rw [e]; simp, ?_⟩
    exact (addLeaf_diff ha).trans hd

/-- `batch_edit` changes the tree only above the leaves it passes to `update_hashes`:
`removes ++ updated_indices ++ added` -/
theorem batchEdit_diff {t t' : Tree} {e : Edits} {added : List Nat}
    (h : batchEdit t e = .ok (added, t')) :
    Diff t t' (e.removes ++ e.updates.map (·.1) ++ added) := by
  obtain ⟨t1, t2, t3, h1, h2, h3, rfl⟩ := batchEdit_ok h
  obtain ⟨new, e3, d3⟩ := applyAdds_diff _ _ _ _ _ _ h3
  simp only [List.reverse_nil, List.nil_append] at e3
  subst e3
  have d4 : Diff t3 (trim t3) [] := Diff.of_get_eq (get_trim t3)
  have := (((applyRemoves_diff h1).trans (applyUpdates_diff h2)).trans d3).trans d4
  apply this.mono
  intro l hl
  simp only [List.mem_append, List.mem_reverse, List.append_nil] at hl ⊢
  rcases hl with (hl | hl) | hl
  · exact Or.inl (Or.inl hl)
  · exact Or.inl (Or.inr hl)
  · exact Or.inr hl

/-! ### path updates (`encap`, `apply_update_path`) -/

theorem pathUpdated_diff {t t' : Tree} {s : Nat} {nl : Leaf} {pk : List (Option Nat)}
    (h : PathUpdated t t' s nl pk) : Diff t t' [s] := by
  intro x hx
  refine ⟨s, List.mem_singleton.2 rfl, ?_⟩
  by_cases e : x = 2 * s
  · rw [e]; exact (Add.below_leaf _ _).2 rfl
  · by_cases hp : ∃ cp ∈ directCopathOf t s, cp.1 = x
    · obtain ⟨cp, hcp, rfl⟩ := hp
      exact Add.below_of_mem_path (List.mem_map.2 ⟨cp, hcp, rfl⟩)
    · exact absurd (h.offPath x e (fun cp hcp e' => hp ⟨cp, hcp, e'⟩)) hx

theorem encap_diff {t : Tree} {self fresh : Nat} {nl : Leaf} {excl : List Nat} {o : EncapOut}
    (hL : ∃ L, get t (2 * self) = some (.leaf L)) (h : encap t self nl excl fresh = .ok o) :
    Diff t o.tree [self] :=
  pathUpdated_diff (encap_spec h (self_lt_of_leaf hL)).1

theorem applyUpdatePath_diff {t t' : Tree} {sender : Nat} {nl : Leaf} {pk : List (Option Nat)}
    (h : applyUpdatePath t sender nl pk = .ok t') : Diff t t' [sender] :=
  pathUpdated_diff (applyUpdatePath_spec h).1

/-! ### coherence is preserved -/

/-- an operation that changes the tree only above the leaves of `S`, followed by
`update_hashes(upd)` with `S ⊆ upd`, keeps the cache coherent -/
theorem coherent_of_diff {t0 t : Tree} {c0 : List HT} {S upd : List Nat} (hc : Coherent t0 c0)
    (hd : Diff t0 t S) (hS : ∀ l ∈ S, l ∈ upd) : Coherent t (updateHashes c0 t upd) := by
  apply updateHashes_coherent hc
  intro x hx hne
  right
  obtain ⟨l, hl, hb⟩ := hd x hne
  obtain ⟨k, hk⟩ := leafCount_pow t
  rw [hk] at hx ⊢
  exact ⟨l, hS l hl, below_lt hb (by rw [pow_succ']; exact hx), hb⟩

theorem coherent_batchEdit {t t' : Tree} {c : List HT} {e : Edits} {added : List Nat}
    (hc : Coherent t c) (h : batchEdit t e = .ok (added, t')) :
    Coherent t' (updateHashes c t' (e.removes ++ e.updates.map (·.1) ++ added)) :=
  coherent_of_diff hc (batchEdit_diff h) (fun _ hl => hl)

theorem coherent_encap {t : Tree} {c : List HT} {self fresh : Nat} {nl : Leaf} {excl : List Nat}
    {o : EncapOut} (hc : Coherent t c) (hL : ∃ L, get t (2 * self) = some (.leaf L))
    (h : encap t self nl excl fresh = .ok o) : Coherent o.tree (updateHashes c o.tree [self]) :=
  coherent_of_diff hc (encap_diff hL h) (fun _ hl => hl)

theorem coherent_applyUpdatePath {t t' : Tree} {c : List HT} {sender : Nat} {nl : Leaf}
    {pk : List (Option Nat)} (hc : Coherent t c) (h : applyUpdatePath t sender nl pk = .ok t') :
    Coherent t' (updateHashes c t' [sender]) :=
  coherent_of_diff hc (applyUpdatePath_diff h) (fun _ hl => hl)

/-- re-running `update_hashes` with any leaf list on an unchanged tree keeps the cache coherent
(the code calls it several times per commit) -/
theorem coherent_rehash {t : Tree} {c : List HT} (hc : Coherent t c) (ls : List Nat) :
    Coherent t (updateHashes c t ls) :=
  coherent_of_diff (S := []) hc (Diff.of_get_eq fun _ => rfl) (fun _ hl => by cases hl)

/-! ### histories -/

/-- Tree and tree-hash cache after a history: a tree is created or imported (empty cache, then
`initialize_hashes`); proposals are applied (`batch_edit`, which passes
`removes ++ updated ++ added` to `update_hashes`); a committer runs `encap`, a receiver
`apply_update_path` (both pass `[sender]`); `update_hashes` may be re-run at any time with any list. -/
inductive CReach : Tree → List HT → Prop
  | init (t : Tree) : CReach t (initializeHashes [] t)
  | edit {t t' : Tree} {c : List HT} {e : Edits} {added : List Nat} : CReach t c →
      batchEdit t e = .ok (added, t') →
      CReach t' (updateHashes c t' (e.removes ++ e.updates.map (·.1) ++ added))
  | encap {t : Tree} {c : List HT} {self fresh : Nat} {nl : Leaf} {excl : List Nat} {o : EncapOut} :
      CReach t c → (∃ L, get t (2 * self) = some (.leaf L)) →
      encap t self nl excl fresh = .ok o → CReach o.tree (updateHashes c o.tree [self])
  | recv {t t' : Tree} {c : List HT} {sender : Nat} {nl : Leaf} {pk : List (Option Nat)} :
      CReach t c → applyUpdatePath t sender nl pk = .ok t' →
      CReach t' (updateHashes c t' [sender])
  | rehash {t : Tree} {c : List HT} (ls : List Nat) : CReach t c → CReach t (updateHashes c t ls)

theorem initializeHashes_nil (t : Tree) :
    initializeHashes [] t = treeHashImpl [] t none [] (leafCount t) := rfl

theorem creach_coherent {t : Tree} {c : List HT} (h : CReach t c) : Coherent t c := by
  induction h with
  | init t => rw [initializeHashes_nil]; exact tree_hash_full [] t
  | edit _ hb ih => exact coherent_batchEdit ih hb
  | encap _ hL he ih => exact coherent_encap ih hL he
  | recv _ ha ih => exact coherent_applyUpdatePath ih ha
  | rehash ls _ ih => exact coherent_rehash ih ls

/-- with a coherent cache, `TreeKemPublic::tree_hash` leaves the cache alone and returns the
from-scratch hash of the root -/
theorem treeHash_of_coherent {t : Tree} {c : List HT} (hc : Coherent t c) :
    treeHash c t = (c, treeHashSpec t [] (root (leafCount t))) := by
  obtain ⟨k, hk⟩ := leafCount_pow t
  have hp := Nat.two_pow_pos k
  have hne : c.isEmpty = false := by
    cases c with
    | nil => have := hc.1; rw [hk] at this; simp at this; omega
    | cons a c => rfl
  unfold treeHash initializeHashes
  simp only [hne, Bool.false_eq_true, if_false]
  rw [List.getD_eq_getElem?_getD, hc.2 _ (by rw [hk]; unfold root; omega)]
  rfl

/-- every tree of `Props/C08`'s `Reachable` comes with a history of caches -/
theorem reachable_has_cache {t : Tree} (h : Reachable t) : ∃ c, CReach t c := by
  induction h with
  | init l => exact ⟨_, .init _⟩
  | edit _ _ hb ih => obtain ⟨c, hc⟩ := ih; exact ⟨_, .edit hc hb⟩
  | path _ hL _ _ _ _ he ih => obtain ⟨c, hc⟩ := ih; exact ⟨_, .encap hc hL he⟩

end MlsVerif.TreeHash
