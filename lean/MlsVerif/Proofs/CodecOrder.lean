/-
The order `Value.cmp` is a strict total order on the well-typed values of each schema
(`CmpOK`), and the consequences for `insertKv` / `sortedKeys`.
-/
import MlsVerif.Proofs.Codec

namespace MlsVerif.Codec

/-! ## Looking up an enum case -/

/-- first case with the given discriminant -/
def caseOf : List (Nat × Option Schema) → Nat → Option (Option Schema)
  | [], _ => none
  | (t, o) :: cs, tag => if t = tag then some o else caseOf cs tag

theorem caseOf_mem {cs : List (Nat × Option Schema)} {tag : Nat} {o : Option Schema}
    (h : caseOf cs tag = some o) : (tag, o) ∈ cs := by
  induction cs with
  | nil => cases h
  | cons c cs ih =>
    obtain ⟨t, o'⟩ := c
    simp only [caseOf] at h
    split at h
    · rename_i ht; injection h with h; subst ht h; exact List.mem_cons_self
    · exact List.mem_cons_of_mem _ (ih h)

theorem WFCases_eq (cs : List (Nat × Option Schema)) (tag : Nat) (p : Option Value) :
    WFCases cs tag p =
      match caseOf cs tag, p with
      | some none, none => true
      | some (some s), some v => WF s v
      | _, _ => false := by
  induction cs with
  | nil => simp [WFCases, caseOf]
  | cons c cs ih =>
    obtain ⟨t, o⟩ := c
    cases o with
    | none =>
      simp only [WFCases, caseOf]
      split
      · cases p <;> simp
      · exact ih
    | some s =>
      simp only [WFCases, caseOf]
      split
      · cases p <;> simp
      · exact ih

theorem encodeCases_eq (cs : List (Nat × Option Schema)) (tag : Nat) (p : Option Value) :
    encodeCases cs tag p =
      match caseOf cs tag, p with
      | some none, none => .ok []
      | some (some s), some v => encode s v
      | _, _ => .error .illTyped := by
  induction cs with
  | nil => simp [encodeCases, caseOf]
  | cons c cs ih =>
    obtain ⟨t, o⟩ := c
    cases o with
    | none =>
      simp only [encodeCases, caseOf]
      split
      · cases p <;> simp
      · exact ih
    | some s =>
      simp only [encodeCases, caseOf]
      split
      · cases p <;> simp
      · exact ih

theorem encodeCasesP_eq (cs : List (Nat × Option Schema)) (tag : Nat) (p : Option Value) :
    encodeCasesP cs tag p =
      match caseOf cs tag, p with
      | some none, none => .ok []
      | some (some s), some v => encodeP s v
      | _, _ => .error .illTyped := by
  induction cs with
  | nil => simp [encodeCasesP, caseOf]
  | cons c cs ih =>
    obtain ⟨t, o⟩ := c
    cases o with
    | none =>
      simp only [encodeCasesP, caseOf]
      split
      · cases p <;> simp
      · exact ih
    | some s =>
      simp only [encodeCasesP, caseOf]
      split
      · cases p <;> simp
      · exact ih

theorem sizeCases_eq (cs : List (Nat × Option Schema)) (tag : Nat) (p : Option Value) :
    sizeCases cs tag p =
      match caseOf cs tag, p with
      | some (some s), some v => size s v
      | _, _ => 0 := by
  induction cs with
  | nil => simp [sizeCases, caseOf]
  | cons c cs ih =>
    obtain ⟨t, o⟩ := c
    cases o with
    | none =>
      simp only [sizeCases, caseOf]
      split
      · cases p <;> simp
      · exact ih
    | some s =>
      simp only [sizeCases, caseOf]
      split
      · cases p <;> simp
      · exact ih

theorem tooBigCases_eq (cs : List (Nat × Option Schema)) (tag : Nat) (p : Option Value) :
    tooBigCases cs tag p =
      match caseOf cs tag, p with
      | some (some s), some v => tooBig s v
      | _, _ => false := by
  induction cs with
  | nil => simp [tooBigCases, caseOf]
  | cons c cs ih =>
    obtain ⟨t, o⟩ := c
    cases o with
    | none =>
      simp only [tooBigCases, caseOf]
      split
      · cases p <;> simp
      · exact ih
    | some s =>
      simp only [tooBigCases, caseOf]
      split
      · cases p <;> simp
      · exact ih

theorem decodeCases_eq (cs : List (Nat × Option Schema)) (tag : Nat) (b : Bytes) :
    decodeCases cs tag b =
      match caseOf cs tag with
      | none => .error .unsupportedEnumDiscriminant
      | some none => .ok (none, b)
      | some (some s) =>
        match decode s b with
        | .error e => .error e
        | .ok (v, r) => .ok (some v, r) := by
  induction cs with
  | nil => simp [decodeCases, caseOf]
  | cons c cs ih =>
    obtain ⟨t, o⟩ := c
    cases o with
    | none =>
      simp only [decodeCases, caseOf]
      split
      · rfl
      · exact ih
    | some s =>
      simp only [decodeCases, caseOf]
      split
      · rfl
      · exact ih

/-! ## WF inversion -/

theorem WF_u {n : Nat} {v : Value} (h : WF (.u n) v = true) : ∃ x, v = .nat x ∧ x < 256 ^ n := by
  cases v <;> simp [WF] at h; exact ⟨_, rfl, h⟩

theorem WF_bool {v : Value} (h : WF .bool v = true) : ∃ x, v = .bool x := by
  cases v <;> simp [WF] at h; exact ⟨_, rfl⟩

theorem WF_fixed {n : Nat} {v : Value} (h : WF (.fixed n) v = true) :
    ∃ x, v = .bytes x ∧ x.length = n := by
  cases v <;> simp [WF] at h; exact ⟨_, rfl, h⟩

theorem WF_bytes {v : Value} (h : WF .bytes v = true) : ∃ x, v = .bytes x := by
  cases v <;> simp [WF] at h; exact ⟨_, rfl⟩

theorem WF_varint {v : Value} (h : WF .varint v = true) : ∃ x, v = .nat x ∧ x ≤ varintMax := by
  cases v <;> simp [WF] at h; exact ⟨_, rfl, h⟩

theorem WF_str {v : Value} (h : WF .str v = true) : ∃ x, v = .bytes x ∧ utf8Valid x = true := by
  cases v <;> simp [WF] at h; exact ⟨_, rfl, h⟩

theorem WF_vec {e : Schema} {v : Value} (h : WF (.vec e) v = true) :
    ∃ vs, v = .list vs ∧ ∀ x, x ∈ vs → WF e x = true := by
  cases v <;> simp [WF] at h; exact ⟨_, rfl, h⟩

theorem WF_opt {e : Schema} {v : Value} (h : WF (.opt e) v = true) :
    v = .none ∨ ∃ x, v = .some x ∧ WF e x = true := by
  cases v <;> simp [WF] at h
  · exact .inl rfl
  · exact .inr ⟨_, rfl, h⟩

theorem WF_struct {fs : List Schema} {v : Value} (h : WF (.struct fs) v = true) :
    ∃ vs, v = .tuple vs ∧ WFFields fs vs = true := by
  cases v <;> simp [WF] at h; exact ⟨_, rfl, h⟩

theorem WF_enum {w : Nat} {cs : List (Nat × Option Schema)} {v : Value}
    (h : WF (.enum w cs) v = true) :
    ∃ tag p, v = .variant tag p ∧ tag < 256 ^ w ∧ WFCases cs tag p = true := by
  cases v <;> simp [WF] at h; exact ⟨_, _, rfl, h.1, h.2⟩

theorem WF_map {k v : Schema} {x : Value} (h : WF (.map k v) x = true) :
    ∃ kvs, x = .map kvs ∧ (∀ kv, kv ∈ kvs → WF k kv.1 = true ∧ WF v kv.2 = true) ∧
      sortedKeys kvs = true := by
  cases x <;> simp [WF] at h
  exact ⟨_, rfl, fun kv hkv => h.1 kv.1 kv.2 hkv, h.2⟩

theorem WFCases_inv {cs : List (Nat × Option Schema)} {tag : Nat} {p : Option Value}
    (h : WFCases cs tag p = true) :
    (caseOf cs tag = some none ∧ p = none) ∨
    ∃ s v, caseOf cs tag = some (some s) ∧ p = some v ∧ WF s v = true := by
  rw [WFCases_eq] at h
  split at h
  · rename_i h1; exact .inl ⟨h1, rfl⟩
  · rename_i s v h1; exact .inr ⟨s, v, h1, rfl, h⟩
  · cases h

/-! ## Order axioms -/

def OK2 (a b : Value) : Prop := (a.cmp b = .eq ↔ a = b) ∧ b.cmp a = (a.cmp b).swap

def OK3 (a b c : Value) : Prop := a.cmp b = .lt → b.cmp c = .lt → a.cmp c = .lt

def CmpOK (s : Schema) : Prop :=
  (∀ a b, WF s a = true → WF s b = true → OK2 a b) ∧
  (∀ a b c, WF s a = true → WF s b = true → WF s c = true → OK3 a b c)

theorem cmpBytes_eq_iff : ∀ a b : Bytes, cmpBytes a b = .eq ↔ a = b := by
  intro a
  induction a with
  | nil => intro b; cases b <;> simp [cmpBytes]
  | cons x xs ih =>
    intro b
    cases b with
    | nil => simp [cmpBytes]
    | cons y ys =>
      simp [cmpBytes, Ordering.then_eq_eq, ih ys, UInt8.toNat_inj]

theorem cmpBytes_swap : ∀ a b : Bytes, cmpBytes b a = (cmpBytes a b).swap := by
  intro a
  induction a with
  | nil => intro b; cases b <;> simp [cmpBytes]
  | cons x xs ih =>
    intro b
    cases b with
    | nil => simp [cmpBytes]
    | cons y ys =>
      simp [cmpBytes, Ordering.swap_then, ih ys, Nat.compare_swap]

theorem cmpBytes_trans : ∀ a b c : Bytes, cmpBytes a b = .lt → cmpBytes b c = .lt →
    cmpBytes a c = .lt := by
  intro a
  induction a with
  | nil => intro b c h1 h2; cases b <;> cases c <;> simp_all [cmpBytes]
  | cons x xs ih =>
    intro b c h1 h2
    cases b with
    | nil => simp [cmpBytes] at h1
    | cons y ys =>
      cases c with
      | nil => simp [cmpBytes] at h2
      | cons z zs =>
        simp only [cmpBytes, Ordering.then_eq_lt, Nat.compare_eq_lt, Nat.compare_eq_eq] at *
        rcases h1 with h1 | ⟨h1, h1'⟩ <;> rcases h2 with h2 | ⟨h2, h2'⟩
        · left; omega
        · left; omega
        · left; omega
        · right; exact ⟨by omega, ih ys zs h1' h2'⟩

/-- positional hypotheses for lexicographic comparison of two lists -/
theorem cmpList_ok2 : ∀ l1 l2 : List Value,
    (∀ p, p ∈ l1.zip l2 → OK2 p.1 p.2) →
    (cmpList l1 l2 = .eq ↔ l1 = l2) ∧ cmpList l2 l1 = (cmpList l1 l2).swap := by
  intro l1
  induction l1 with
  | nil => intro l2 _; cases l2 <;> simp [cmpList]
  | cons a as ih =>
    intro l2 h
    cases l2 with
    | nil => simp [cmpList]
    | cons b bs =>
      have hab := h (a, b) (by simp)
      have ih' := ih bs (fun p hp => h p (by simp only [List.zip_cons_cons]; exact List.mem_cons_of_mem _ hp))
      simp only [cmpList, Ordering.then_eq_eq, Ordering.swap_then, List.cons.injEq]
      exact ⟨by rw [hab.1, ih'.1], by rw [hab.2, ih'.2]⟩

theorem cmpList_ok3 : ∀ l1 l2 l3 : List Value,
    (∀ p, p ∈ l1.zip l2 → OK2 p.1 p.2) → (∀ p, p ∈ l2.zip l3 → OK2 p.1 p.2) →
    (∀ t, t ∈ l1.zip (l2.zip l3) → OK3 t.1 t.2.1 t.2.2) →
    cmpList l1 l2 = .lt → cmpList l2 l3 = .lt → cmpList l1 l3 = .lt := by
  intro l1
  induction l1 with
  | nil => intro l2 l3 _ _ _ h1 h2; cases l2 <;> cases l3 <;> simp_all [cmpList]
  | cons a as ih =>
    intro l2 l3 h12 h23 h123 h1 h2
    cases l2 with
    | nil => simp [cmpList] at h1
    | cons b bs =>
      cases l3 with
      | nil => simp [cmpList] at h2
      | cons c cs =>
        have hab := h12 (a, b) (by simp)
        have hbc := h23 (b, c) (by simp)
        have habc := h123 (a, b, c) (by simp)
        have ih' := ih bs cs
          (fun p hp => h12 p (by simp only [List.zip_cons_cons]; exact List.mem_cons_of_mem _ hp))
          (fun p hp => h23 p (by simp only [List.zip_cons_cons]; exact List.mem_cons_of_mem _ hp))
          (fun p hp => h123 p (by simp only [List.zip_cons_cons]; exact List.mem_cons_of_mem _ hp))
        simp only [cmpList, Ordering.then_eq_lt] at *
        rcases h1 with h1 | ⟨h1, h1'⟩ <;> rcases h2 with h2 | ⟨h2, h2'⟩
        · exact .inl (habc h1 h2)
        · have := hbc.1.1 h2; subst this; exact .inl h1
        · have := hab.1.1 h1; subst this; exact .inl h2
        · have e1 := hab.1.1 h1; subst e1
          exact .inr ⟨h2, ih' h1' h2'⟩

theorem cmpKvs_ok2 : ∀ l1 l2 : List (Value × Value),
    (∀ p, p ∈ l1.zip l2 → OK2 p.1.1 p.2.1 ∧ OK2 p.1.2 p.2.2) →
    (cmpKvs l1 l2 = .eq ↔ l1 = l2) ∧ cmpKvs l2 l1 = (cmpKvs l1 l2).swap := by
  intro l1
  induction l1 with
  | nil => intro l2 _; cases l2 <;> simp [cmpKvs]
  | cons a as ih =>
    intro l2 h
    cases l2 with
    | nil => simp [cmpKvs]
    | cons b bs =>
      obtain ⟨ak, av⟩ := a
      obtain ⟨bk, bv⟩ := b
      have hab := h ((ak, av), (bk, bv)) (by simp)
      have ih' := ih bs (fun p hp => h p (by simp only [List.zip_cons_cons]; exact List.mem_cons_of_mem _ hp))
      simp only [cmpKvs, Ordering.then_eq_eq, Ordering.swap_then, List.cons.injEq, Prod.mk.injEq]
      refine ⟨by rw [hab.1.1, hab.2.1, ih'.1, and_assoc], by rw [hab.1.2, hab.2.2, ih'.2]⟩

theorem cmpKvs_ok3 : ∀ l1 l2 l3 : List (Value × Value),
    (∀ p, p ∈ l1.zip l2 → OK2 p.1.1 p.2.1 ∧ OK2 p.1.2 p.2.2) →
    (∀ p, p ∈ l2.zip l3 → OK2 p.1.1 p.2.1 ∧ OK2 p.1.2 p.2.2) →
    (∀ t, t ∈ l1.zip (l2.zip l3) → OK3 t.1.1 t.2.1.1 t.2.2.1 ∧ OK3 t.1.2 t.2.1.2 t.2.2.2) →
    cmpKvs l1 l2 = .lt → cmpKvs l2 l3 = .lt → cmpKvs l1 l3 = .lt := by
  intro l1
  induction l1 with
  | nil => intro l2 l3 _ _ _ h1 h2; cases l2 <;> cases l3 <;> simp_all [cmpKvs]
  | cons a as ih =>
    intro l2 l3 h12 h23 h123 h1 h2
    cases l2 with
    | nil => simp [cmpKvs] at h1
    | cons b bs =>
      cases l3 with
      | nil => simp [cmpKvs] at h2
      | cons c cs =>
        obtain ⟨ak, av⟩ := a
        obtain ⟨bk, bv⟩ := b
        obtain ⟨ck, cv⟩ := c
        have hab := h12 ((ak, av), (bk, bv)) (by simp)
        have hbc := h23 ((bk, bv), (ck, cv)) (by simp)
        have habc := h123 ((ak, av), (bk, bv), (ck, cv)) (by simp)
        have ih' := ih bs cs
          (fun p hp => h12 p (by simp only [List.zip_cons_cons]; exact List.mem_cons_of_mem _ hp))
          (fun p hp => h23 p (by simp only [List.zip_cons_cons]; exact List.mem_cons_of_mem _ hp))
          (fun p hp => h123 p (by simp only [List.zip_cons_cons]; exact List.mem_cons_of_mem _ hp))
        simp only [cmpKvs, Ordering.then_eq_lt] at *
        rcases h1 with h1 | ⟨e1, p1 | ⟨ve1, r1⟩⟩ <;> rcases h2 with h2 | ⟨e2, p2 | ⟨ve2, r2⟩⟩
        · exact .inl (habc.1 h1 h2)
        · have := hbc.1.1.1 e2; subst this; exact .inl h1
        · have := hbc.1.1.1 e2; subst this; exact .inl h1
        · have := hab.1.1.1 e1; subst this; exact .inl h2
        · have := hab.1.1.1 e1; subst this; exact .inr ⟨e2, .inl (habc.2 p1 p2)⟩
        · have := hab.1.1.1 e1; subst this
          have := hbc.2.1.1 ve2; subst this
          exact .inr ⟨e2, .inl p1⟩
        · have := hab.1.1.1 e1; subst this; exact .inl h2
        · have := hab.1.1.1 e1; subst this
          have := hab.2.1.1 ve1; subst this
          exact .inr ⟨e2, .inl p2⟩
        · have := hab.1.1.1 e1; subst this
          have := hab.2.1.1 ve1; subst this
          exact .inr ⟨e2, .inr ⟨ve2, ih' r1 r2⟩⟩

theorem WFFields_zip_ok2 : ∀ (fs : List Schema) (l1 l2 : List Value),
    (∀ f, f ∈ fs → CmpOK f) → WFFields fs l1 = true → WFFields fs l2 = true →
    ∀ p, p ∈ l1.zip l2 → OK2 p.1 p.2 := by
  intro fs
  induction fs with
  | nil => intro l1 l2 _ h1 h2; cases l1 <;> cases l2 <;> simp_all [WFFields]
  | cons f fs ih =>
    intro l1 l2 hf h1 h2 p hp
    cases l1 with
    | nil => simp at hp
    | cons a as =>
      cases l2 with
      | nil => simp at hp
      | cons b bs =>
        simp only [WFFields, Bool.and_eq_true] at h1 h2
        simp only [List.zip_cons_cons, List.mem_cons] at hp
        rcases hp with hp | hp
        · subst hp; exact (hf f List.mem_cons_self).1 a b h1.1 h2.1
        · exact ih as bs (fun g hg => hf g (List.mem_cons_of_mem _ hg)) h1.2 h2.2 p hp

theorem WFFields_zip_ok3 : ∀ (fs : List Schema) (l1 l2 l3 : List Value),
    (∀ f, f ∈ fs → CmpOK f) → WFFields fs l1 = true → WFFields fs l2 = true →
    WFFields fs l3 = true → ∀ t, t ∈ l1.zip (l2.zip l3) → OK3 t.1 t.2.1 t.2.2 := by
  intro fs
  induction fs with
  | nil => intro l1 l2 l3 _ h1 h2 h3; cases l1 <;> cases l2 <;> cases l3 <;> simp_all [WFFields]
  | cons f fs ih =>
    intro l1 l2 l3 hf h1 h2 h3 p hp
    cases l1 with
    | nil => simp at hp
    | cons a as =>
      cases l2 with
      | nil => simp at hp
      | cons b bs =>
        cases l3 with
        | nil => simp at hp
        | cons c cs =>
          simp only [WFFields, Bool.and_eq_true] at h1 h2 h3
          simp only [List.zip_cons_cons, List.mem_cons] at hp
          rcases hp with hp | hp
          · subst hp; exact (hf f List.mem_cons_self).2 a b c h1.1 h2.1 h3.1
          · exact ih as bs cs (fun g hg => hf g (List.mem_cons_of_mem _ hg)) h1.2 h2.2 h3.2 p hp

theorem mem_zip3 {α} {l1 l2 l3 : List α} {t : α × α × α} (h : t ∈ l1.zip (l2.zip l3)) :
    t.1 ∈ l1 ∧ t.2.1 ∈ l2 ∧ t.2.2 ∈ l3 := by
  obtain ⟨a, b, c⟩ := t
  have h1 := List.of_mem_zip h
  have h2 := List.of_mem_zip h1.2
  exact ⟨h1.1, h2.1, h2.2⟩

theorem natCmp_ok2 (x y : Nat) : OK2 (.nat x) (.nat y) := by
  simp [OK2, Value.cmp, Nat.compare_swap]

theorem natCmp_ok3 (x y z : Nat) : OK3 (.nat x) (.nat y) (.nat z) := by
  simp only [OK3, Value.cmp, Nat.compare_eq_lt]; omega

theorem bytesCmp_ok2 (x y : Bytes) : OK2 (.bytes x) (.bytes y) := by
  simp [OK2, Value.cmp, cmpBytes_eq_iff, cmpBytes_swap x y]

theorem bytesCmp_ok3 (x y z : Bytes) : OK3 (.bytes x) (.bytes y) (.bytes z) := by
  simp only [OK3, Value.cmp]; exact cmpBytes_trans x y z

theorem cmpOK_all : ∀ s, CmpOK s := by
  intro s
  induction s using Schema.ind with
  | u n =>
    refine ⟨fun a b ha hb => ?_, fun a b c ha hb hc => ?_⟩
    · obtain ⟨x, rfl, _⟩ := WF_u ha; obtain ⟨y, rfl, _⟩ := WF_u hb; exact natCmp_ok2 x y
    · obtain ⟨x, rfl, _⟩ := WF_u ha; obtain ⟨y, rfl, _⟩ := WF_u hb; obtain ⟨z, rfl, _⟩ := WF_u hc
      exact natCmp_ok3 x y z
  | bool =>
    refine ⟨fun a b ha hb => ?_, fun a b c ha hb hc => ?_⟩
    · obtain ⟨x, rfl⟩ := WF_bool ha; obtain ⟨y, rfl⟩ := WF_bool hb
      cases x <;> cases y <;> simp [OK2, Value.cmp] <;> decide
    · obtain ⟨x, rfl⟩ := WF_bool ha; obtain ⟨y, rfl⟩ := WF_bool hb; obtain ⟨z, rfl⟩ := WF_bool hc
      cases x <;> cases y <;> cases z <;> simp [OK3, Value.cmp] <;> decide
  | fixed n =>
    refine ⟨fun a b ha hb => ?_, fun a b c ha hb hc => ?_⟩
    · obtain ⟨x, rfl, _⟩ := WF_fixed ha; obtain ⟨y, rfl, _⟩ := WF_fixed hb; exact bytesCmp_ok2 x y
    · obtain ⟨x, rfl, _⟩ := WF_fixed ha; obtain ⟨y, rfl, _⟩ := WF_fixed hb
      obtain ⟨z, rfl, _⟩ := WF_fixed hc; exact bytesCmp_ok3 x y z
  | bytes =>
    refine ⟨fun a b ha hb => ?_, fun a b c ha hb hc => ?_⟩
    · obtain ⟨x, rfl⟩ := WF_bytes ha; obtain ⟨y, rfl⟩ := WF_bytes hb; exact bytesCmp_ok2 x y
    · obtain ⟨x, rfl⟩ := WF_bytes ha; obtain ⟨y, rfl⟩ := WF_bytes hb
      obtain ⟨z, rfl⟩ := WF_bytes hc; exact bytesCmp_ok3 x y z
  | varint =>
    refine ⟨fun a b ha hb => ?_, fun a b c ha hb hc => ?_⟩
    · obtain ⟨x, rfl, _⟩ := WF_varint ha; obtain ⟨y, rfl, _⟩ := WF_varint hb; exact natCmp_ok2 x y
    · obtain ⟨x, rfl, _⟩ := WF_varint ha; obtain ⟨y, rfl, _⟩ := WF_varint hb
      obtain ⟨z, rfl, _⟩ := WF_varint hc; exact natCmp_ok3 x y z
  | str =>
    refine ⟨fun a b ha hb => ?_, fun a b c ha hb hc => ?_⟩
    · obtain ⟨x, rfl, _⟩ := WF_str ha; obtain ⟨y, rfl, _⟩ := WF_str hb; exact bytesCmp_ok2 x y
    · obtain ⟨x, rfl, _⟩ := WF_str ha; obtain ⟨y, rfl, _⟩ := WF_str hb
      obtain ⟨z, rfl, _⟩ := WF_str hc; exact bytesCmp_ok3 x y z
  | vec e ih =>
    refine ⟨fun a b ha hb => ?_, fun a b c ha hb hc => ?_⟩
    · obtain ⟨x, rfl, hx⟩ := WF_vec ha; obtain ⟨y, rfl, hy⟩ := WF_vec hb
      have := cmpList_ok2 x y (fun p hp => ih.1 _ _ (hx _ (List.of_mem_zip hp).1)
        (hy _ (List.of_mem_zip hp).2))
      simp only [OK2, Value.cmp, Value.list.injEq]; exact this
    · obtain ⟨x, rfl, hx⟩ := WF_vec ha; obtain ⟨y, rfl, hy⟩ := WF_vec hb
      obtain ⟨z, rfl, hz⟩ := WF_vec hc
      simp only [OK3, Value.cmp]
      exact cmpList_ok3 x y z
        (fun p hp => ih.1 _ _ (hx _ (List.of_mem_zip hp).1) (hy _ (List.of_mem_zip hp).2))
        (fun p hp => ih.1 _ _ (hy _ (List.of_mem_zip hp).1) (hz _ (List.of_mem_zip hp).2))
        (fun t ht => ih.2 _ _ _ (hx _ (mem_zip3 ht).1) (hy _ (mem_zip3 ht).2.1)
          (hz _ (mem_zip3 ht).2.2))
  | opt e ih =>
    refine ⟨fun a b ha hb => ?_, fun a b c ha hb hc => ?_⟩
    · rcases WF_opt ha with rfl | ⟨x, rfl, hx⟩ <;> rcases WF_opt hb with rfl | ⟨y, rfl, hy⟩
      · simp [OK2, Value.cmp]
      · simp [OK2, Value.cmp]
      · simp [OK2, Value.cmp]
      · have := ih.1 x y hx hy
        simp only [OK2, Value.cmp, Value.some.injEq]; exact this
    · rcases WF_opt ha with rfl | ⟨x, rfl, hx⟩ <;> rcases WF_opt hb with rfl | ⟨y, rfl, hy⟩ <;>
        rcases WF_opt hc with rfl | ⟨z, rfl, hz⟩ <;> simp only [OK3, Value.cmp] <;>
        try (intros; simp_all; done)
      exact ih.2 x y z hx hy hz
  | struct fs ih =>
    refine ⟨fun a b ha hb => ?_, fun a b c ha hb hc => ?_⟩
    · obtain ⟨x, rfl, hx⟩ := WF_struct ha; obtain ⟨y, rfl, hy⟩ := WF_struct hb
      have := cmpList_ok2 x y (WFFields_zip_ok2 fs x y ih hx hy)
      simp only [OK2, Value.cmp, Value.tuple.injEq]; exact this
    · obtain ⟨x, rfl, hx⟩ := WF_struct ha; obtain ⟨y, rfl, hy⟩ := WF_struct hb
      obtain ⟨z, rfl, hz⟩ := WF_struct hc
      simp only [OK3, Value.cmp]
      exact cmpList_ok3 x y z (WFFields_zip_ok2 fs x y ih hx hy) (WFFields_zip_ok2 fs y z ih hy hz)
        (WFFields_zip_ok3 fs x y z ih hx hy hz)
  | enum w cs ih =>
    refine ⟨fun a b ha hb => ?_, fun a b c ha hb hc => ?_⟩
    · obtain ⟨t1, p1, rfl, _, h1⟩ := WF_enum ha; obtain ⟨t2, p2, rfl, _, h2⟩ := WF_enum hb
      simp only [OK2, Value.cmp, Value.variant.injEq, Ordering.then_eq_eq, Nat.compare_eq_eq,
        Ordering.swap_then, Nat.compare_swap]
      by_cases ht : t1 = t2
      · subst ht
        rcases WFCases_inv h1 with ⟨c1, rfl⟩ | ⟨s1, v1, c1, rfl, w1⟩ <;>
          rcases WFCases_inv h2 with ⟨c2, rfl⟩ | ⟨s2, v2, c2, rfl, w2⟩
        · simp [cmpOpt]
        · rw [c1] at c2; cases c2
        · rw [c1] at c2; cases c2
        · rw [c1] at c2; injection c2 with c2; injection c2 with c2; subst c2
          have := ih t1 s1 (caseOf_mem c1) |>.1 v1 v2 w1 w2
          simp only [cmpOpt, Option.some.injEq, true_and]
          exact ⟨this.1, by rw [this.2]⟩
      · have hne : compare t2 t1 ≠ .eq := by
          rw [Ne, Nat.compare_eq_eq]; exact fun h => ht h.symm
        refine ⟨by simp [ht], ?_⟩
        cases hc : compare t2 t1 <;> simp_all [Ordering.then]
    · obtain ⟨t1, p1, rfl, _, h1⟩ := WF_enum ha; obtain ⟨t2, p2, rfl, _, h2⟩ := WF_enum hb
      obtain ⟨t3, p3, rfl, _, h3⟩ := WF_enum hc
      simp only [OK3, Value.cmp, Ordering.then_eq_lt, Nat.compare_eq_lt, Nat.compare_eq_eq]
      intro g1 g2
      rcases g1 with g1 | ⟨e1, g1⟩ <;> rcases g2 with g2 | ⟨e2, g2⟩
      · left; omega
      · left; omega
      · left; omega
      · subst e1 e2
        right; refine ⟨rfl, ?_⟩
        rcases WFCases_inv h1 with ⟨c1, rfl⟩ | ⟨s1, v1, c1, rfl, w1⟩ <;>
          rcases WFCases_inv h2 with ⟨c2, rfl⟩ | ⟨s2, v2, c2, rfl, w2⟩ <;>
          rcases WFCases_inv h3 with ⟨c3, rfl⟩ | ⟨s3, v3, c3, rfl, w3⟩ <;>
          try (simp [cmpOpt] at g1 g2; done)
        all_goals try (rw [c1] at c2; cases c2; done)
        all_goals try (rw [c2] at c3; cases c3; done)
        rw [c1] at c2; injection c2 with c2; injection c2 with c2; subst c2
        rw [c1] at c3; injection c3 with c3; injection c3 with c3; subst c3
        exact ih t1 s1 (caseOf_mem c1) |>.2 v1 v2 v3 w1 w2 w3 g1 g2
  | map k v ihk ihv =>
    refine ⟨fun a b ha hb => ?_, fun a b c ha hb hc => ?_⟩
    · obtain ⟨x, rfl, hx, _⟩ := WF_map ha; obtain ⟨y, rfl, hy, _⟩ := WF_map hb
      have := cmpKvs_ok2 x y (fun p hp =>
        ⟨ihk.1 _ _ (hx _ (List.of_mem_zip hp).1).1 (hy _ (List.of_mem_zip hp).2).1,
         ihv.1 _ _ (hx _ (List.of_mem_zip hp).1).2 (hy _ (List.of_mem_zip hp).2).2⟩)
      simp only [OK2, Value.cmp, Value.map.injEq]; exact this
    · obtain ⟨x, rfl, hx, _⟩ := WF_map ha; obtain ⟨y, rfl, hy, _⟩ := WF_map hb
      obtain ⟨z, rfl, hz, _⟩ := WF_map hc
      simp only [OK3, Value.cmp]
      exact cmpKvs_ok3 x y z
        (fun p hp =>
          ⟨ihk.1 _ _ (hx _ (List.of_mem_zip hp).1).1 (hy _ (List.of_mem_zip hp).2).1,
           ihv.1 _ _ (hx _ (List.of_mem_zip hp).1).2 (hy _ (List.of_mem_zip hp).2).2⟩)
        (fun p hp =>
          ⟨ihk.1 _ _ (hy _ (List.of_mem_zip hp).1).1 (hz _ (List.of_mem_zip hp).2).1,
           ihv.1 _ _ (hy _ (List.of_mem_zip hp).1).2 (hz _ (List.of_mem_zip hp).2).2⟩)
        (fun t ht =>
          ⟨ihk.2 _ _ _ (hx _ (mem_zip3 ht).1).1 (hy _ (mem_zip3 ht).2.1).1 (hz _ (mem_zip3 ht).2.2).1,
           ihv.2 _ _ _ (hx _ (mem_zip3 ht).1).2 (hy _ (mem_zip3 ht).2.1).2 (hz _ (mem_zip3 ht).2.2).2⟩)

/-! ## Sorted association lists -/

def KeysWF (ks : Schema) (l : List (Value × Value)) : Prop := ∀ kv, kv ∈ l → WF ks kv.1 = true

def KLt (a b : Value × Value) : Prop := a.1.cmp b.1 = .lt

theorem sortedKeys_iff_pairwise (ks : Schema) : ∀ l : List (Value × Value), KeysWF ks l →
    (sortedKeys l = true ↔ List.Pairwise KLt l) := by
  intro l
  induction l with
  | nil => intro _; simp [sortedKeys]
  | cons a l ih =>
    intro hw
    obtain ⟨k, v⟩ := a
    cases l with
    | nil => simp [sortedKeys]
    | cons b rest =>
      obtain ⟨k', v'⟩ := b
      have hw' : KeysWF ks ((k', v') :: rest) := fun kv h => hw kv (List.mem_cons_of_mem _ h)
      have ih' := ih hw'
      simp only [sortedKeys, Bool.and_eq_true, beq_iff_eq, ih']
      rw [List.pairwise_cons (a := (k, v)), List.pairwise_cons (a := (k', v'))]
      constructor
      · rintro ⟨h1, h2, h3⟩
        refine ⟨?_, h2, h3⟩
        intro x hx
        rcases List.mem_cons.1 hx with rfl | hx
        · exact h1
        · exact (cmpOK_all ks).2 k k' x.1 (hw _ List.mem_cons_self)
            (hw _ (List.mem_cons_of_mem _ List.mem_cons_self))
            (hw _ (List.mem_cons_of_mem _ (List.mem_cons_of_mem _ hx))) h1 (h2 x hx)
      · rintro ⟨h1, h2⟩
        exact ⟨h1 _ List.mem_cons_self, h2⟩

theorem insertKv_spec (ks : Schema) (k v : Value) (hk : WF ks k = true) :
    ∀ (acc acc' : List (Value × Value)), KeysWF ks acc → List.Pairwise KLt acc →
    insertKv k v acc = some acc' →
    List.Pairwise KLt acc' ∧ (∀ kv, kv ∈ acc' ↔ kv = (k, v) ∨ kv ∈ acc) ∧
    weightKvs acc' = weight k + weight v + weightKvs acc := by
  intro acc
  induction acc with
  | nil =>
    intro acc' _ _ h
    simp only [insertKv] at h; injection h with h; subst h
    simp [weightKvs]
  | cons a rest ih =>
    intro acc' hw hp h
    obtain ⟨k', v'⟩ := a
    simp only [insertKv] at h
    have hk' : WF ks k' = true := hw _ List.mem_cons_self
    have hw' : KeysWF ks rest := fun kv h => hw kv (List.mem_cons_of_mem _ h)
    rw [List.pairwise_cons] at hp
    split at h
    · rename_i hlt
      injection h with h; subst h
      refine ⟨?_, by simp, by simp [weightKvs]⟩
      rw [List.pairwise_cons, List.pairwise_cons]
      refine ⟨?_, hp⟩
      intro x hx
      rcases List.mem_cons.1 hx with rfl | hx
      · exact hlt
      · exact (cmpOK_all ks).2 k k' x.1 hk hk' (hw' _ hx) hlt (hp.1 x hx)
    · cases h
    · rename_i hgt
      split at h
      · cases h
      · rename_i r hr
        injection h with h; subst h
        obtain ⟨h1, h2, h3⟩ := ih r hw' hp.2 hr
        refine ⟨?_, ?_, ?_⟩
        · rw [List.pairwise_cons]
          refine ⟨?_, h1⟩
          intro x hx
          rcases (h2 x).1 hx with rfl | hx
          · have := ((cmpOK_all ks).1 k k' hk hk').2
            show k'.cmp k = .lt
            rw [this, hgt]; rfl
          · exact hp.1 x hx
        · intro kv
          simp only [List.mem_cons, h2]
          constructor
          · rintro (h | h | h)
            · exact .inr (.inl h)
            · exact .inl h
            · exact .inr (.inr h)
          · rintro (h | h | h)
            · exact .inr (.inl h)
            · exact .inl h
            · exact .inr (.inr h)
        · simp only [weightKvs, h3]; omega

theorem insertKv_append (ks : Schema) (k v : Value) (hk : WF ks k = true) :
    ∀ (acc : List (Value × Value)), KeysWF ks acc → (∀ kv, kv ∈ acc → kv.1.cmp k = .lt) →
    insertKv k v acc = some (acc ++ [(k, v)]) := by
  intro acc
  induction acc with
  | nil => intro _ _; rfl
  | cons a rest ih =>
    intro hw hlt
    obtain ⟨k', v'⟩ := a
    have hk' : WF ks k' = true := hw _ List.mem_cons_self
    have h1 : k'.cmp k = .lt := hlt _ List.mem_cons_self
    have h2 : k.cmp k' = .gt := by
      rw [((cmpOK_all ks).1 k' k hk' hk).2, h1]; rfl
    simp only [insertKv, h2, List.cons_append]
    rw [ih (fun kv h => hw kv (List.mem_cons_of_mem _ h))
      (fun kv h => hlt kv (List.mem_cons_of_mem _ h))]

theorem insertAll_append (ks : Schema) : ∀ (kvs acc : List (Value × Value)),
    KeysWF ks (acc ++ kvs) → List.Pairwise KLt (acc ++ kvs) →
    insertAll kvs acc = some (acc ++ kvs) := by
  intro kvs
  induction kvs with
  | nil => intro acc _ _; simp [insertAll]
  | cons kv kvs ih =>
    intro acc hw hp
    obtain ⟨k, v⟩ := kv
    have hk : WF ks k = true := hw (k, v) (by simp)
    have hacc : KeysWF ks acc := fun x hx => hw x (by simp [hx])
    rw [List.pairwise_append] at hp
    have hlt : ∀ x, x ∈ acc → x.1.cmp k = .lt := fun x hx => hp.2.2 x hx (k, v) List.mem_cons_self
    simp only [insertAll, insertKv_append ks k v hk acc hacc hlt]
    have e : acc ++ (k, v) :: kvs = (acc ++ [(k, v)]) ++ kvs := by simp
    rw [e]
    apply ih
    · rw [← e]; exact hw
    · rw [← e, List.pairwise_append]; exact hp

theorem insertAll_spec (ks : Schema) : ∀ (kvs acc m : List (Value × Value)),
    KeysWF ks kvs → KeysWF ks acc → List.Pairwise KLt acc → insertAll kvs acc = some m →
    List.Pairwise KLt m ∧ (∀ kv, kv ∈ m ↔ kv ∈ kvs ∨ kv ∈ acc) ∧
    weightKvs m = weightKvs kvs + weightKvs acc := by
  intro kvs
  induction kvs with
  | nil => intro acc m _ _ hp h; simp [insertAll] at h; subst h; simp [hp, weightKvs]
  | cons kv kvs ih =>
    intro acc m hw hacc hp h
    obtain ⟨k, v⟩ := kv
    simp only [insertAll] at h
    split at h
    · cases h
    · rename_i acc' hi
      have hk : WF ks k = true := hw (k, v) List.mem_cons_self
      obtain ⟨h1, h2, h3⟩ := insertKv_spec ks k v hk acc acc' hacc hp hi
      have hacc' : KeysWF ks acc' := by
        intro x hx
        rcases (h2 x).1 hx with rfl | hx
        · exact hk
        · exact hacc x hx
      obtain ⟨g1, g2, g3⟩ := ih acc' m (fun x hx => hw x (List.mem_cons_of_mem _ hx)) hacc' h1 h
      refine ⟨g1, ?_, ?_⟩
      · intro x
        rw [g2, h2, List.mem_cons]
        constructor
        · rintro (h | h | h)
          · exact .inl (.inr h)
          · exact .inl (.inl h)
          · exact .inr h
        · rintro ((h | h) | h)
          · exact .inr (.inl h)
          · exact .inl h
          · exact .inr (.inr h)
      · rw [g3, h3]; simp only [weightKvs]; omega

end MlsVerif.Codec
