import MlsVerif.Model.Group
import MlsVerif.Proofs.Tree.World
/-
Basic facts about the composed group model (`Model/Group.lean`): the path-secret chain, the sealed
update-path nodes, `mapE`, and the inversion of `GroupWorld.commit`.
-/
namespace MlsVerif.Group
open MlsVerif.Tree MlsVerif.TreeMath

/-! ### the chain -/

theorem pathN_path (n : Nat) (s : Sec) : pathN n (.path s) = .path (pathN n s) := by
  induction n with
  | zero => rfl
  | succ n ih => simp only [pathN, ih]

theorem pathN_add (a b : Nat) (s : Sec) : pathN (a + b) s = pathN a (pathN b s) := by
  induction a with
  | zero => simp [pathN]
  | succ a ih => rw [Nat.succ_add]; simp only [pathN, ih]

theorem countSome_append (l m : List (Option Nat)) : countSome (l ++ m) = countSome l + countSome m := by
  induction l with
  | nil => simp [countSome]
  | cons a l ih =>
    cases a with
    | none => simpa [countSome] using ih
    | some k => simp only [List.cons_append, countSome, ih]; omega

theorem countSome_take_drop (l : List (Option Nat)) (c : Nat) :
    countSome (l.take c) + countSome (l.drop c) = countSome l := by
  rw [← countSome_append, List.take_append_drop]

theorem someKeys_length (l : List (Option Nat)) : (someKeys l).length = countSome l := by
  induction l with
  | nil => rfl
  | cons a l ih => cases a <;> simp [someKeys, countSome, ih]

theorem someKeys_append (l m : List (Option Nat)) : someKeys (l ++ m) = someKeys l ++ someKeys m := by
  induction l with
  | nil => rfl
  | cons a l ih => cases a <;> simp [someKeys, ih]

theorem mem_someKeys {l : List (Option Nat)} {k : Nat} : k ∈ someKeys l ↔ some k ∈ l := by
  induction l with
  | nil => simp [someKeys]
  | cons a l ih => cases a <;> simp [someKeys, ih]

/-- the key announced at position `c` is the `countSome (take c)`-th announced key -/
theorem someKeys_getElem? (l : List (Option Nat)) (c k : Nat) (h : l[c]? = some (some k)) :
    (someKeys l)[countSome (l.take c)]? = some k := by
  have hc : c < l.length := by
    apply Classical.byContradiction; intro hn
    rw [List.getElem?_eq_none (by omega)] at h; cases h
  have hsplit : l = l.take c ++ some k :: l.drop (c + 1) := by
    have h2 : l.drop c = some k :: l.drop (c + 1) := by
      rw [List.drop_eq_getElem_cons hc]
      rw [List.getElem?_eq_getElem hc] at h
      simp only [Option.some.injEq] at h
      rw [h]
    conv => lhs; rw [← List.take_append_drop c l, h2]
  conv => lhs; arg 1; arg 1; rw [hsplit]
  rw [someKeys_append, ← someKeys_length, List.getElem?_append_right (Nat.le_refl _), Nat.sub_self]
  rfl

/-! ### the sealed update-path nodes -/

theorem sealChain_getElem? (t : Tree) : ∀ (seals : List (Nat × List Nat)) (keys : List Nat) (s : Sec) (i : Nat),
    (sealChain t seals keys s)[i]? =
      match seals[i]?, keys[i]? with
      | some nrs, some k => some { node := nrs.1, secret := pathN i s, key := k,
                                   recips := nrs.2.map fun r => (r, (get t r).map Node.key) }
      | _, _ => none
  | [], keys, s, i => by simp [sealChain]
  | (n, rs) :: seals, [], s, i => by
    simp only [sealChain, List.getElem?_nil]
    split <;> simp_all
  | (n, rs) :: seals, k :: keys, s, i => by
    cases i with
    | zero => simp [sealChain, pathN]
    | succ i =>
      simp only [sealChain, List.getElem?_cons_succ]
      rw [sealChain_getElem? t seals keys (.path s) i, pathN_path]
      rfl

theorem sealChain_length (t : Tree) : ∀ (seals : List (Nat × List Nat)) (keys : List Nat) (s : Sec),
    (sealChain t seals keys s).length = min seals.length keys.length
  | [], keys, s => by simp [sealChain]
  | (n, rs) :: seals, [], s => by simp [sealChain]
  | (n, rs) :: seals, k :: keys, s => by
    simp only [sealChain, List.length_cons, sealChain_length t seals keys]
    omega

/-- the secret of the `i`-th sealed node is the `i`-th element of the chain -/
theorem sealChain_secret {t : Tree} {seals : List (Nat × List Nat)} {keys : List Nat} {s : Sec} {i : Nat}
    {ps : PathSeal} (h : (sealChain t seals keys s)[i]? = some ps) : ps.secret = pathN i s := by
  rw [sealChain_getElem?] at h
  split at h
  · simp only [Option.some.injEq] at h; rw [← h]
  · cases h

theorem chainMatches_iff (seals : List PathSeal) (idx : Nat) (opened : Sec) :
    chainMatches seals idx opened = true ↔
      ∀ i ps, seals[idx + i]? = some ps → ps.secret = pathN i opened := by
  unfold chainMatches
  rw [List.all_eq_true]
  constructor
  · intro h i ps hps
    have := h (ps, i) (by
      rw [List.mem_zipIdx_iff_getElem?]
      simpa [List.getElem?_drop] using hps)
    simpa using this
  · rintro h ⟨ps, i⟩ hm
    rw [List.mem_zipIdx_iff_getElem?] at hm
    simp only [List.getElem?_drop] at hm
    simpa using h i ps hm

/-! ### `mapE` -/

theorem mapE_ok {α β ε : Type} {f : α → Except ε β} : ∀ {l : List α} {bs : List β},
    mapE f l = .ok bs → (∀ b ∈ bs, ∃ a ∈ l, f a = .ok b) ∧ (∀ a ∈ l, ∃ b ∈ bs, f a = .ok b)
  | [], bs, h => by
    simp only [mapE] at h
    cases h; simp
  | a :: l, bs, h => by
    simp only [mapE] at h
    split at h
    · cases h
    · rename_i b hb
      split at h
      · cases h
      · rename_i bs' hbs
        cases h
        obtain ⟨h1, h2⟩ := mapE_ok hbs
        constructor
        · intro b' hb'
          rcases List.mem_cons.1 hb' with rfl | hb'
          · exact ⟨a, List.mem_cons_self .., hb⟩
          · obtain ⟨a', ha', hf⟩ := h1 b' hb'
            exact ⟨a', List.mem_cons_of_mem _ ha', hf⟩
        · intro a' ha'
          rcases List.mem_cons.1 ha' with rfl | ha'
          · exact ⟨b, List.mem_cons_self .., hb⟩
          · obtain ⟨b', hb', hf⟩ := h2 a' ha'
            exact ⟨b', List.mem_cons_of_mem _ hb', hf⟩

theorem mapE_progress {α β ε : Type} {f : α → Except ε β} : ∀ {l : List α},
    (∀ a ∈ l, ∃ b, f a = .ok b) → ∃ bs, mapE f l = .ok bs
  | [], _ => ⟨[], rfl⟩
  | a :: l, h => by
    obtain ⟨b, hb⟩ := h a (List.mem_cons_self ..)
    obtain ⟨bs, hbs⟩ := mapE_progress (l := l) (fun a' ha' => h a' (List.mem_cons_of_mem _ ha'))
    exact ⟨b :: bs, by simp only [mapE, hb, hbs]⟩

/-! ### the sender, joiners -/

theorem sender?_spec {w : GroupWorld} {sender : Nat} {cm : Member} (h : w.sender? sender = some cm) :
    cm ∈ w.members ∧ cm.epoch = w.epoch ∧ cm.priv.self = sender := by
  unfold GroupWorld.sender? at h
  have h1 := List.mem_of_find?_eq_some h
  have h2 := List.find?_some h
  simp only [Member.current, Bool.and_eq_true, beq_iff_eq] at h2
  exact ⟨h1, h2.1, h2.2⟩

theorem mem_joinersOf {e : Edits} {added deliverTo : List Nat} {j self : Nat} {L : Leaf} :
    (j, self, L) ∈ joinersOf e added deliverTo ↔
      added[j]? = some self ∧ e.adds[j]? = some L ∧ self ∈ deliverTo := by
  unfold joinersOf
  rw [List.mem_filter, List.mem_map]
  constructor
  · rintro ⟨⟨⟨⟨a, l⟩, i⟩, hm, heq⟩, hd⟩
    rw [List.mem_zipIdx_iff_getElem?, List.getElem?_zip_eq_some] at hm
    simp only [Prod.mk.injEq] at heq
    obtain ⟨rfl, rfl, rfl⟩ := heq
    exact ⟨hm.1, hm.2, by simpa using hd⟩
  · rintro ⟨h1, h2, h3⟩
    refine ⟨⟨((self, L), j), ?_, rfl⟩, by simpa using h3⟩
    rw [List.mem_zipIdx_iff_getElem?, List.getElem?_zip_eq_some]
    exact ⟨h1, h2⟩

theorem ownUpdate_none {e : Edits} {self : Nat} (h : ownUpdate e self = none) :
    self ∉ e.updates.map (·.1) := by
  unfold ownUpdate at h
  simp only [Option.map_eq_none_iff, List.find?_eq_none] at h
  intro hm
  obtain ⟨u, hu, rfl⟩ := List.mem_map.1 hm
  exact h u hu (by simp)

theorem ownUpdate_some {e : Edits} {self k : Nat} (h : ownUpdate e self = some k) :
    ∃ l : Leaf, (self, l) ∈ e.updates ∧ l.hpke = k := by
  unfold ownUpdate at h
  simp only [Option.map_eq_some_iff] at h
  obtain ⟨u, hu, rfl⟩ := h
  have h1 := List.mem_of_find?_eq_some hu
  have h2 := List.find?_some hu
  simp only [beq_iff_eq] at h2
  exact ⟨u.2, by rw [← h2]; exact h1, rfl⟩

/-! ### inversion of `commit` -/

/-- the checks every successful commit passed -/
structure CommitPre (w : GroupWorld) (sender : Nat) (e : Edits) (psk : Sec) (cm : Member)
    (added : List Nat) (t1 : Tree) : Prop where
  psk_ok : psk.isPskInput = true
  not_removed : sender ∉ e.removes
  hsender : w.sender? sender = some cm
  edit : batchEdit w.tree e = .ok (added, t1)
  leaf : ∃ L, get t1 (2 * sender) = some (.leaf L)

theorem commit_inv {w : GroupWorld} {sender : Nat} {e : Edits} {newLeaf : Option Leaf} {fresh : Nat}
    {psk : Sec} {ctx : Nat} {deliverTo : List Nat} {r : GroupWorld × Transcript}
    (h : w.commit sender e newLeaf fresh psk ctx deliverTo = .ok r) :
    ∃ cm added t1, CommitPre w sender e psk cm added t1 ∧
      (match newLeaf with
        | some nl => commitPath w sender e nl fresh psk ctx deliverTo cm added t1
        | none => commitNoPath w sender e psk ctx deliverTo cm added t1) = .ok r := by
  unfold GroupWorld.commit at h
  cases hpsk : psk.isPskInput with
  | false => simp [hpsk] at h
  | true =>
    by_cases hrm : sender ∈ e.removes
    · simp [hpsk, hrm] at h
    · cases hcm : w.sender? sender with
      | none => simp [hpsk, hrm, hcm] at h
      | some cm =>
        cases hb : batchEdit w.tree e with
        | error x => simp [hpsk, hrm, hcm, hb] at h
        | ok at1 =>
          obtain ⟨added, t1⟩ := at1
          simp only [hpsk, hrm, hcm, hb, Bool.not_true, Bool.false_eq_true, if_false,
            List.contains_eq_mem, decide_false] at h
          split at h
          · rename_i L hL
            exact ⟨cm, added, t1, ⟨hpsk, hrm, hcm, hb, ⟨L, hL⟩⟩, h⟩
          · cases h

/-- everything a successful commit with a path did -/
structure PathCommit (w : GroupWorld) (sender : Nat) (e : Edits) (nl : Leaf) (fresh : Nat) (psk : Sec)
    (ctx : Nat) (deliverTo : List Nat) (w' : GroupWorld) (tr : Transcript)
    (cm : Member) (added : List Nat) (t1 : Tree) (o : EncapOut) (ms js : List Member) : Prop where
  enc : encap t1 sender nl added fresh = .ok o
  recvTree : applyUpdatePath t1 sender nl o.pathKeys = .ok o.tree
  members : mapE (advPath w sender e deliverTo t1 o (pathSealsOf o (.fresh w.epoch)) added psk ctx
      (.epoch (.initOf cm.secret) (pathN (countSome o.pathKeys) (.fresh w.epoch)) psk ctx)) w.members = .ok ms
  joiners : joinAll o.tree true sender (w.epoch + 1) tr.welcome e added deliverTo = .ok js
  world : w' = { tree := o.tree, epoch := w.epoch + 1, members := ms ++ js }
  seals : tr.pathSeals = pathSealsOf o (.fresh w.epoch)
  welcome : tr.welcome = (added.zip e.adds).map fun x =>
      welcomeFor (some o) (pathSealsOf o (.fresh w.epoch)) sender
        (.epoch (.initOf cm.secret) (pathN (countSome o.pathKeys) (.fresh w.epoch)) psk ctx) x.1 x.2
  ext : tr.ext = none

theorem commitPath_inv {w : GroupWorld} {sender : Nat} {e : Edits} {nl : Leaf} {fresh : Nat} {psk : Sec}
    {ctx : Nat} {deliverTo : List Nat} {w' : GroupWorld} {tr : Transcript} {cm : Member}
    {added : List Nat} {t1 : Tree}
    (h : commitPath w sender e nl fresh psk ctx deliverTo cm added t1 = .ok (w', tr)) :
    ∃ o ms js, PathCommit w sender e nl fresh psk ctx deliverTo w' tr cm added t1 o ms js := by
  unfold commitPath at h
  split at h
  · cases h
  rename_i o ho
  split at h
  · cases h
  rename_i t' ht'
  split at h
  · cases h
  rename_i hteq
  simp only at h
  split at h
  · cases h
  rename_i ms hms
  split at h
  · cases h
  rename_i js hjs
  simp only [Except.ok.injEq, Prod.mk.injEq] at h
  obtain ⟨rfl, rfl⟩ := h
  have hteq' : t' = o.tree := by simpa using hteq
  exact ⟨o, ms, js,
    { enc := ho, recvTree := hteq' ▸ ht', members := hms, joiners := hjs,
      world := rfl, seals := rfl, welcome := rfl, ext := rfl }⟩

/-- everything a successful commit without a path did -/
structure NoPathCommit (w : GroupWorld) (sender : Nat) (e : Edits) (psk : Sec)
    (ctx : Nat) (deliverTo : List Nat) (w' : GroupWorld) (tr : Transcript)
    (cm : Member) (added : List Nat) (t1 : Tree) (js : List Member) : Prop where
  joiners : joinAll t1 false sender (w.epoch + 1) tr.welcome e added deliverTo = .ok js
  world : w' = { tree := t1, epoch := w.epoch + 1,
                 members := w.members.map (advNoPath w sender e deliverTo t1 psk ctx) ++ js }
  seals : tr.pathSeals = []
  welcome : tr.welcome = (added.zip e.adds).map fun x =>
      welcomeFor none [] sender (.epoch (.initOf cm.secret) .zero psk ctx) x.1 x.2
  ext : tr.ext = none

theorem commitNoPath_inv {w : GroupWorld} {sender : Nat} {e : Edits} {psk : Sec}
    {ctx : Nat} {deliverTo : List Nat} {w' : GroupWorld} {tr : Transcript} {cm : Member}
    {added : List Nat} {t1 : Tree}
    (h : commitNoPath w sender e psk ctx deliverTo cm added t1 = .ok (w', tr)) :
    ∃ js, NoPathCommit w sender e psk ctx deliverTo w' tr cm added t1 js := by
  unfold commitNoPath at h
  simp only at h
  split at h
  · cases h
  rename_i js hjs
  simp only [Except.ok.injEq, Prod.mk.injEq] at h
  obtain ⟨rfl, rfl⟩ := h
  exact ⟨js, { joiners := hjs, world := rfl, seals := rfl, welcome := rfl, ext := rfl }⟩

/-! ### inversion of `externalCommit` -/

/-- the new epoch secret of an external commit: the KEM shared secret as init secret, the end of the joiner's
path-secret chain as commit secret -/
def extSecret (w : GroupWorld) (o : EncapOut) (psk : Sec) (ctx : Nat) : Sec :=
  .epoch (.ext w.epoch) (pathN (countSome o.pathKeys) (.fresh w.epoch)) psk ctx

/-- the external committer as a member of the new epoch -/
def extJoiner (w : GroupWorld) (nl : Leaf) (self : Nat) (o : EncapOut) (psk : Sec) (ctx : Nat) : Member :=
  { id := nl.ident, priv := ⟨self, o.slots⟩, epoch := w.epoch + 1, secret := extSecret w o psk ctx }

/-- everything a successful external commit did -/
structure ExtCommit (w : GroupWorld) (gi : Nat) (remove : Option Nat) (L0 nl : Leaf) (fresh : Nat) (psk : Sec)
    (ctx : Nat) (deliverTo : List Nat) (w' : GroupWorld) (tr : Transcript)
    (gm : Member) (t1 : Tree) (jl : Nat) (t1x : Tree) (o : EncapOut) (ms : List Member) : Prop where
  psk_ok : psk.isPskInput = true
  hgi : w.sender? gi = some gm
  edit : ∃ a, batchEdit w.tree (extEdits remove) = .ok (a, t1)
  add : addLeaf t1 L0 0 = .ok (jl, t1x)
  noconf : conflicts t1 nl = false
  enc : encap t1x jl nl [] fresh = .ok o
  recvTree : applyUpdatePath t1x jl nl o.pathKeys = .ok o.tree
  members : mapE (advExt w remove deliverTo t1x o (pathSealsOf o (.fresh w.epoch)) jl psk ctx gm.secret)
      w.members = .ok ms
  world : w' = { tree := o.tree, epoch := w.epoch + 1, members := ms ++ [extJoiner w nl jl o psk ctx] }
  seals : tr.pathSeals = pathSealsOf o (.fresh w.epoch)
  welcome : tr.welcome = []
  ext : tr.ext = some (gm.secret, .ext w.epoch)

theorem externalCommit_inv {w : GroupWorld} {gi : Nat} {remove : Option Nat} {L0 nl : Leaf} {fresh : Nat}
    {psk : Sec} {ctx : Nat} {deliverTo : List Nat} {w' : GroupWorld} {tr : Transcript}
    (h : w.externalCommit gi remove L0 nl fresh psk ctx deliverTo = .ok (w', tr)) :
    ∃ gm t1 self t1x o ms,
      ExtCommit w gi remove L0 nl fresh psk ctx deliverTo w' tr gm t1 self t1x o ms := by
  unfold GroupWorld.externalCommit at h
  cases hpsk : psk.isPskInput with
  | false => simp [hpsk] at h
  | true =>
    simp only [hpsk, Bool.not_true, Bool.false_eq_true, if_false] at h
    split at h
    · cases h
    rename_i gm hgm
    split at h
    · cases h
    rename_i a t1 hb
    split at h
    · cases h
    rename_i self t1x hadd
    split at h
    · cases h
    rename_i hconf
    split at h
    · cases h
    rename_i o ho
    split at h
    · cases h
    rename_i t' ht'
    split at h
    · cases h
    rename_i hteq
    split at h
    · cases h
    rename_i ms hms
    simp only [Except.ok.injEq, Prod.mk.injEq] at h
    obtain ⟨rfl, rfl⟩ := h
    have hteq' : t' = o.tree := by simpa using hteq
    exact ⟨gm, t1, self, t1x, o, ms,
      { psk_ok := hpsk, hgi := hgm, edit := ⟨a, hb⟩, add := hadd, noconf := by simpa using hconf, enc := ho,
        recvTree := hteq' ▸ ht', members := hms, world := rfl, seals := rfl, welcome := rfl, ext := rfl }⟩

end MlsVerif.Group
