import MlsVerif.Model.TreeMath
import MlsVerif.Spec.TreeShape
/-
Helper lemmas for `Props/C20.lean`: the bit-level index arithmetic of `Model/TreeMath.lean`
equals the structurally recursive specification `Spec/TreeShape.lean`.  Core Lean only.
-/
namespace MlsVerif.TreeMath
open MlsVerif.TreeShape

/-! ### §1 bit operations with a single power of two -/

theorem xor_mod2 (a b : Nat) : (a ^^^ b) % 2 = (a % 2 + b % 2) % 2 := by
  have h := @Nat.xor_mod_two_eq_one a b
  omega

theorem or_mod2 (a b : Nat) : (a ||| b) % 2 = if a % 2 = 1 ∨ b % 2 = 1 then 1 else 0 := by
  have h := @Nat.or_mod_two_eq_one a b
  split <;> omega

theorem pow_succ' (k : Nat) : 2 ^ (k + 1) = 2 * 2 ^ k := by rw [Nat.pow_succ]; omega

theorem xor_two_pow (x i : Nat) :
    x ^^^ 2 ^ i = if x.testBit i then x - 2 ^ i else x + 2 ^ i := by
  induction i generalizing x with
  | zero =>
    have h1 : (x ^^^ 2 ^ 0) / 2 = x / 2 := by simp [Nat.xor_div_two]
    have h2 := xor_mod2 x (2 ^ 0)
    simp only [Nat.testBit_zero, decide_eq_true_eq]
    simp only [Nat.pow_zero] at *
    split <;> omega
  | succ i ih =>
    have h1 : (x ^^^ 2 ^ (i + 1)) / 2 = x / 2 ^^^ 2 ^ i := by
      rw [Nat.xor_div_two, Nat.pow_succ, Nat.mul_div_cancel _ (by decide)]
    have h2 := xor_mod2 x (2 ^ (i + 1))
    rw [ih] at h1
    rw [Nat.testBit_succ]
    have hp := Nat.two_pow_pos i
    have h4 : (x / 2).testBit i = true → 2 ^ i ≤ x / 2 := fun h => Nat.ge_two_pow_of_testBit h
    rw [pow_succ'] at h1 h2 ⊢
    split <;> rename_i hb <;> simp only [hb] at h1 <;> simp at h1
    · have := h4 hb; omega
    · omega

theorem or_two_pow (x i : Nat) :
    x ||| 2 ^ i = if x.testBit i then x else x + 2 ^ i := by
  induction i generalizing x with
  | zero =>
    have h1 : (x ||| 2 ^ 0) / 2 = x / 2 := by simp [Nat.or_div_two]
    have h2 : (x ||| 2 ^ 0) % 2 = 1 := by have := @Nat.or_mod_two_eq_one x (2 ^ 0); omega
    simp only [Nat.testBit_zero, decide_eq_true_eq]
    simp only [Nat.pow_zero] at *
    split <;> omega
  | succ i ih =>
    have h1 : (x ||| 2 ^ (i + 1)) / 2 = x / 2 ||| 2 ^ i := by
      rw [Nat.or_div_two, Nat.pow_succ, Nat.mul_div_cancel _ (by decide)]
    have h2 := or_mod2 x (2 ^ (i + 1))
    rw [ih] at h1
    rw [Nat.testBit_succ]
    have hp := Nat.two_pow_pos i
    rw [pow_succ'] at h1 h2 ⊢
    have h5 : ¬ ((2 * 2 ^ i) % 2 = 1) := by omega
    simp only [h5, or_false] at h2
    split <;> rename_i hb <;> simp only [hb] at h1 <;> simp at h1 <;> split at h2 <;> omega

/-- bit `i` of `r + 2^i * q` with `r < 2^i` is the parity of `q` -/
theorem testBit_decomp (r i q : Nat) (hr : r < 2 ^ i) :
    (r + 2 ^ i * q).testBit i = decide (q % 2 = 1) := by
  rw [Nat.testBit_eq_decide_div_mod_eq, Nat.add_mul_div_left _ _ (Nat.two_pow_pos i),
    Nat.div_eq_of_lt hr, Nat.zero_add]

/-! ### §2 `level` (= `trailing_ones`) -/

/-- every `x` is `2^l - 1 + 2^(l+1) * q` with `l = level x` -/
theorem level_decomp (x : Nat) : ∃ q, x = 2 ^ level x - 1 + 2 ^ (level x + 1) * q := by
  induction x using Nat.strongRecOn with
  | _ x ih =>
    rw [level]
    split
    · rename_i h
      obtain ⟨q, hq⟩ := ih (x / 2) (by omega)
      refine ⟨q, ?_⟩
      generalize level (x / 2) = L at *
      have hp := Nat.two_pow_pos L
      have e : 2 ^ (L + 1 + 1) * q = 2 * (2 ^ (L + 1) * q) := by
        rw [pow_succ' (L + 1), Nat.mul_assoc]
      have e2 := pow_succ' L
      omega
    · exact ⟨x / 2, by simp; omega⟩

theorem level_of_decomp (l q : Nat) : level (2 ^ l - 1 + 2 ^ (l + 1) * q) = l := by
  induction l with
  | zero => rw [level]; simp
  | succ l ih =>
    have hp := Nat.two_pow_pos l
    have e : 2 ^ (l + 1 + 1) * q = 2 * (2 ^ (l + 1) * q) := by
      rw [pow_succ' (l + 1), Nat.mul_assoc]
    have h1 : (2 ^ (l + 1) - 1 + 2 ^ (l + 1 + 1) * q) % 2 = 1 := by
      rw [e, pow_succ' l]; omega
    have h2 : (2 ^ (l + 1) - 1 + 2 ^ (l + 1 + 1) * q) / 2 = 2 ^ l - 1 + 2 ^ (l + 1) * q := by
      rw [e, pow_succ' l]; omega
    rw [level, dif_pos h1, h2, ih]

/-! ### §3 arithmetic forms of `left?`, `right?`, `parentSibling?`, `subtree` -/

theorem left?_eq (x : Nat) :
    left? x = if level x = 0 then none else some (x - 2 ^ (level x - 1)) := by
  unfold left?
  split
  · rfl
  · rename_i h
    obtain ⟨q, hq⟩ := level_decomp x
    generalize level x = l at *
    obtain ⟨j, rfl⟩ : ∃ j, l = j + 1 := ⟨l - 1, by omega⟩
    simp only [Nat.add_sub_cancel, Nat.one_shiftLeft]
    rw [xor_two_pow]
    have hp := Nat.two_pow_pos j
    have hb : x.testBit j = true := by
      have : x = (2 ^ j - 1) + 2 ^ j * (1 + 4 * q) := by
        have e1 : 2 ^ j * (1 + 4 * q) = 2 ^ j + 4 * (2 ^ j * q) := by grind
        have e2 : 2 ^ (j + 1 + 1) * q = 4 * (2 ^ j * q) := by grind
        have e3 := pow_succ' j
        omega
      rw [this, testBit_decomp _ _ _ (by omega)]
      simp; omega
    rw [hb]; rfl

theorem three_shiftLeft (j : Nat) : 3 <<< j = 2 ^ j ^^^ 2 ^ (j + 1) := by
  rw [xor_two_pow, Nat.testBit_two_pow, Nat.shiftLeft_eq, pow_succ']
  simp; omega

theorem right?_eq (x : Nat) :
    right? x = if level x = 0 then none else some (x + 2 ^ (level x - 1)) := by
  unfold right?
  split
  · rfl
  · rename_i h
    obtain ⟨q, hq⟩ := level_decomp x
    generalize level x = l at *
    obtain ⟨j, rfl⟩ : ∃ j, l = j + 1 := ⟨l - 1, by omega⟩
    simp only [Nat.add_sub_cancel]
    rw [three_shiftLeft, ← Nat.xor_assoc, xor_two_pow x j]
    have hp := Nat.two_pow_pos j
    have e2 : 2 ^ (j + 1 + 1) * q = 4 * (2 ^ j * q) := by grind
    have e3 := pow_succ' j
    have hb : x.testBit j = true := by
      have : x = (2 ^ j - 1) + 2 ^ j * (1 + 4 * q) := by
        have e1 : 2 ^ j * (1 + 4 * q) = 2 ^ j + 4 * (2 ^ j * q) := by grind
        omega
      rw [this, testBit_decomp _ _ _ (by omega)]
      simp; omega
    rw [hb, if_pos rfl, xor_two_pow]
    have hb2 : (x - 2 ^ j).testBit (j + 1) = false := by
      have : x - 2 ^ j = (2 ^ j - 1) + 2 ^ (j + 1) * (2 * q) := by
        have e1 : 2 ^ (j + 1) * (2 * q) = 4 * (2 ^ j * q) := by grind
        omega
      rw [this, testBit_decomp _ _ _ (by omega)]
      simp
    rw [hb2]
    simp; omega

/-- arithmetic form of (parent, sibling) of a non-root node -/
def psClosed (x : Nat) : Nat × Nat :=
  if x / 2 ^ (level x + 1) % 2 = 0 then (x + 2 ^ level x, x + 2 ^ (level x + 1))
  else (x - 2 ^ level x, x - 2 ^ (level x + 1))

theorem decomp_div (l q : Nat) : (2 ^ l - 1 + 2 ^ (l + 1) * q) / 2 ^ (l + 1) = q := by
  have hp := Nat.two_pow_pos l
  rw [Nat.add_mul_div_left _ _ (Nat.two_pow_pos _), Nat.div_eq_of_lt (by rw [pow_succ']; omega),
    Nat.zero_add]

theorem psClosed_decomp (l q : Nat) :
    psClosed (2 ^ l - 1 + 2 ^ (l + 1) * q) =
      if q % 2 = 0 then (2 ^ l - 1 + 2 ^ (l + 1) * q + 2 ^ l, 2 ^ l - 1 + 2 ^ (l + 1) * q + 2 ^ (l + 1))
      else (2 ^ l - 1 + 2 ^ (l + 1) * q - 2 ^ l, 2 ^ l - 1 + 2 ^ (l + 1) * q - 2 ^ (l + 1)) := by
  unfold psClosed
  rw [level_of_decomp, decomp_div]

theorem parentSibling?_eq (x n : Nat) :
    parentSibling? x n = if x = root n then none else some (psClosed x) := by
  unfold parentSibling?
  split
  · rfl
  · obtain ⟨q, hq⟩ := level_decomp x
    have hc := psClosed_decomp (level x) q
    rw [← hq] at hc
    rw [hc]
    generalize level x = l at *
    have hp := Nat.two_pow_pos l
    have e3 := pow_succ' l
    have e4 := pow_succ' (l + 1)
    simp only [Nat.one_shiftLeft]
    have hb : x.testBit (l + 1) = decide (q % 2 = 1) := by
      rw [hq, testBit_decomp _ _ _ (by omega)]
    obtain ⟨t, rfl | rfl⟩ : ∃ t, q = 2 * t ∨ q = 2 * t + 1 := ⟨q / 2, by omega⟩
    · have e1 : 2 ^ (l + 1) * (2 * t) = 4 * (2 ^ l * t) := by grind
      have hcl : clearBit x (l + 1) = x := by
        unfold clearBit; rw [hb]; simp
      have hb2 : x.testBit l = false := by
        have : x = (2 ^ l - 1) + 2 ^ l * (4 * t) := by
          have : 2 ^ l * (4 * t) = 4 * (2 ^ l * t) := by grind
          omega
        rw [this, testBit_decomp _ _ _ (by omega)]; simp; omega
      have hp' : x + 2 ^ l = 2 ^ (l + 1) - 1 + 2 ^ (l + 1 + 1) * t := by
        have : 2 ^ (l + 1 + 1) * t = 4 * (2 ^ l * t) := by grind
        omega
      rw [hcl, or_two_pow, hb2]
      simp only [Bool.false_eq_true, if_false]
      rw [if_pos (by omega), right?_eq, hp', level_of_decomp]
      simp
      omega
    · have e1 : 2 ^ (l + 1) * (2 * t + 1) = 4 * (2 ^ l * t) + 2 * 2 ^ l := by grind
      have hcl : clearBit x (l + 1) = x - 2 ^ (l + 1) := by
        unfold clearBit; rw [hb]; simp
      have hb2 : (x - 2 ^ (l + 1)).testBit l = false := by
        have : x - 2 ^ (l + 1) = (2 ^ l - 1) + 2 ^ l * (4 * t) := by
          have : 2 ^ l * (4 * t) = 4 * (2 ^ l * t) := by grind
          omega
        rw [this, testBit_decomp _ _ _ (by omega)]; simp; omega
      have hp' : x - 2 ^ (l + 1) + 2 ^ l = 2 ^ (l + 1) - 1 + 2 ^ (l + 1 + 1) * t := by
        have : 2 ^ (l + 1 + 1) * t = 4 * (2 ^ l * t) := by grind
        omega
      rw [hcl, or_two_pow, hb2]
      simp only [Bool.false_eq_true, if_false]
      rw [if_neg (by omega), left?_eq, hp', level_of_decomp]
      simp
      omega

theorem subtree_decomp (l q : Nat) :
    subtree (2 ^ l - 1 + 2 ^ (l + 1) * q) = (2 ^ l * q, 2 ^ l * q + 2 ^ l) := by
  unfold subtree
  rw [level_of_decomp]
  have hp := Nat.two_pow_pos l
  have e : 2 ^ (l + 1) * q = 2 * (2 ^ l * q) := by grind
  simp only [Nat.one_shiftLeft, e]
  cases l with
  | zero => simp; omega
  | succ j =>
    have := pow_succ' j
    have := Nat.two_pow_pos j
    simp only [Prod.mk.injEq]; omega

/-! ### §4 the specification, by induction on the height

Invariant: the subtree of height `k` sits at an offset `2^(k+1) * m`. -/

theorem rootAt_decomp (k m : Nat) : rootAt (2 ^ (k + 1) * m) k = 2 ^ k - 1 + 2 ^ (k + 1) * m := by
  have := Nat.two_pow_pos k
  unfold rootAt; omega

theorem off_left (k m : Nat) : 2 ^ (k + 1 + 1) * m = 2 ^ (k + 1) * (2 * m) := by grind

theorem off_right (k m : Nat) : rightOff (2 ^ (k + 1 + 1) * m) k = 2 ^ (k + 1) * (2 * m + 1) := by
  unfold rightOff; grind

/-- where `x` lies in the tree of height `k+1` at offset `2^(k+2) * m` -/
theorem step_cases (k m x : Nat) (h1 : 2 ^ (k + 1 + 1) * m ≤ x)
    (h2 : x < 2 ^ (k + 1 + 1) * m + 2 ^ (k + 1 + 1) - 1) :
    x = rootAt (2 ^ (k + 1 + 1) * m) (k + 1) ∨
    (x < rootAt (2 ^ (k + 1 + 1) * m) (k + 1) ∧
      2 ^ (k + 1) * (2 * m) ≤ x ∧ x < 2 ^ (k + 1) * (2 * m) + 2 ^ (k + 1) - 1) ∨
    (rootAt (2 ^ (k + 1 + 1) * m) (k + 1) < x ∧
      2 ^ (k + 1) * (2 * m + 1) ≤ x ∧ x < 2 ^ (k + 1) * (2 * m + 1) + 2 ^ (k + 1) - 1) := by
  have e1 := off_left k m
  have e2 : 2 ^ (k + 1) * (2 * m + 1) = 2 ^ (k + 1) * (2 * m) + 2 ^ (k + 1) := by grind
  have e3 := pow_succ' (k + 1)
  have := Nat.two_pow_pos (k + 1)
  unfold rootAt
  omega

theorem levelAt_eq (k m x : Nat) (h1 : 2 ^ (k + 1) * m ≤ x)
    (h2 : x < 2 ^ (k + 1) * m + 2 ^ (k + 1) - 1) : levelAt (2 ^ (k + 1) * m) k x = level x := by
  induction k generalizing m with
  | zero =>
    have : x = 2 ^ 0 - 1 + 2 ^ (0 + 1) * m := by omega
    rw [this, level_of_decomp]; rfl
  | succ k ih =>
    rw [levelAt]
    rcases step_cases k m x h1 h2 with h | ⟨h, h3, h4⟩ | ⟨h, h3, h4⟩
    · rw [if_pos h, h, rootAt_decomp, level_of_decomp]
    · rw [if_neg (by omega), if_pos h, off_left, ih _ h3 h4]
    · rw [if_neg (by omega), if_neg (by omega), off_right, ih _ h3 h4]

theorem leftAt_eq (k m x : Nat) (h1 : 2 ^ (k + 1) * m ≤ x)
    (h2 : x < 2 ^ (k + 1) * m + 2 ^ (k + 1) - 1) : leftAt (2 ^ (k + 1) * m) k x = left? x := by
  induction k generalizing m with
  | zero =>
    have : x = 2 ^ 0 - 1 + 2 ^ (0 + 1) * m := by omega
    rw [left?_eq, this, level_of_decomp]; rfl
  | succ k ih =>
    rw [leftAt]
    rcases step_cases k m x h1 h2 with h | ⟨h, h3, h4⟩ | ⟨h, h3, h4⟩
    · rw [if_pos h, left?_eq, h, rootAt_decomp, level_of_decomp, if_neg (by omega)]
      have := pow_succ' k
      have := Nat.two_pow_pos k
      simp only [rootAt, Nat.add_sub_cancel, Option.some.injEq]; omega
    · rw [if_neg (by omega), if_pos h, off_left, ih _ h3 h4]
    · rw [if_neg (by omega), if_neg (by omega), off_right, ih _ h3 h4]

theorem rightAt_eq (k m x : Nat) (h1 : 2 ^ (k + 1) * m ≤ x)
    (h2 : x < 2 ^ (k + 1) * m + 2 ^ (k + 1) - 1) : rightAt (2 ^ (k + 1) * m) k x = right? x := by
  induction k generalizing m with
  | zero =>
    have : x = 2 ^ 0 - 1 + 2 ^ (0 + 1) * m := by omega
    rw [right?_eq, this, level_of_decomp]; rfl
  | succ k ih =>
    rw [rightAt]
    rcases step_cases k m x h1 h2 with h | ⟨h, h3, h4⟩ | ⟨h, h3, h4⟩
    · rw [if_pos h, right?_eq, h, rootAt_decomp, level_of_decomp, if_neg (by omega)]
      have := pow_succ' k
      have := Nat.two_pow_pos k
      simp only [rootAt, rightOff, Nat.add_sub_cancel, Option.some.injEq]; omega
    · rw [if_neg (by omega), if_pos h, off_left, ih _ h3 h4]
    · rw [if_neg (by omega), if_neg (by omega), off_right, ih _ h3 h4]

theorem leafRangeAt_eq (k m x : Nat) (h1 : 2 ^ (k + 1) * m ≤ x)
    (h2 : x < 2 ^ (k + 1) * m + 2 ^ (k + 1) - 1) :
    leafRangeAt (2 ^ (k + 1) * m) k x = subtree x := by
  induction k generalizing m with
  | zero =>
    have : x = 2 ^ 0 - 1 + 2 ^ (0 + 1) * m := by omega
    rw [this, subtree_decomp, leafRangeAt]; simp
  | succ k ih =>
    rw [leafRangeAt]
    rcases step_cases k m x h1 h2 with h | ⟨h, h3, h4⟩ | ⟨h, h3, h4⟩
    · rw [if_pos h, h, rootAt_decomp, subtree_decomp]
      have : 2 ^ (k + 1 + 1) * m = 2 * (2 ^ (k + 1) * m) := by grind
      simp only [Prod.mk.injEq]; omega
    · rw [if_neg (by omega), if_pos h, off_left, ih _ h3 h4]
    · rw [if_neg (by omega), if_neg (by omega), off_right, ih _ h3 h4]

theorem parentSiblingAt_eq (k m x : Nat) (h1 : 2 ^ (k + 1) * m ≤ x)
    (h2 : x < 2 ^ (k + 1) * m + 2 ^ (k + 1) - 1) :
    parentSiblingAt (2 ^ (k + 1) * m) k x =
      if x = rootAt (2 ^ (k + 1) * m) k then none else some (psClosed x) := by
  induction k generalizing m with
  | zero =>
    have : x = rootAt (2 ^ (0 + 1) * m) 0 := by unfold rootAt; omega
    rw [if_pos this]; rfl
  | succ k ih =>
    rw [parentSiblingAt]
    have hp := Nat.two_pow_pos k
    have e3 := pow_succ' k
    have e4 := pow_succ' (k + 1)
    rcases step_cases k m x h1 h2 with h | ⟨h, h3, h4⟩ | ⟨h, h3, h4⟩
    · simp only [if_pos h]
    · simp only [if_neg (show ¬ x = rootAt (2 ^ (k + 1 + 1) * m) (k + 1) by omega), if_pos h]
      rw [off_left]
      split
      · rename_i hx
        rw [hx, rootAt_decomp k (2 * m), psClosed_decomp, if_pos (by omega), ← off_left, off_right]
        have e5 : 2 ^ (k + 1) * (2 * m + 1) = 2 ^ (k + 1 + 1) * m + 2 ^ (k + 1) := by grind
        simp only [rootAt, Option.some.injEq, Prod.mk.injEq]
        omega
      · rename_i hx
        rw [ih _ h3 h4, if_neg hx]
    · simp only [if_neg (show ¬ x = rootAt (2 ^ (k + 1 + 1) * m) (k + 1) by omega),
        if_neg (show ¬ x < rootAt (2 ^ (k + 1 + 1) * m) (k + 1) by omega)]
      rw [off_right]
      split
      · rename_i hx
        rw [hx, rootAt_decomp k (2 * m + 1), psClosed_decomp, if_neg (by omega)]
        have e5 : 2 ^ (k + 1) * (2 * m + 1) = 2 ^ (k + 1 + 1) * m + 2 ^ (k + 1) := by grind
        simp only [rootAt, Option.some.injEq, Prod.mk.injEq]
        omega
      · rename_i hx
        rw [ih _ h3 h4, if_neg hx]

/-! ### §5 direct path / copath -/

theorem parentSiblingAt_range (o k x : Nat) (ps : Nat × Nat)
    (h : parentSiblingAt o k x = some ps) :
    (o ≤ ps.1 ∧ ps.1 < o + 2 ^ (k + 1) - 1) ∧ (o ≤ ps.2 ∧ ps.2 < o + 2 ^ (k + 1) - 1) := by
  induction k generalizing o with
  | zero => simp [parentSiblingAt] at h
  | succ k ih =>
    have hp := Nat.two_pow_pos k
    have e3 := pow_succ' k
    have e4 := pow_succ' (k + 1)
    rw [parentSiblingAt] at h
    try simp only at h
    split at h
    · cases h
    · split at h
      · split at h
        · cases h; simp only [rootAt, rightOff]; omega
        · have := ih _ h; omega
      · split at h
        · cases h; simp only [rootAt]; omega
        · have := ih _ h; simp only [rightOff] at this; omega

theorem parentSiblingAt_isSome (o k x : Nat) (h1 : o ≤ x) (h2 : x < o + 2 ^ (k + 1) - 1)
    (hne : x ≠ rootAt o k) : ∃ ps, parentSiblingAt o k x = some ps := by
  induction k generalizing o with
  | zero => simp only [rootAt] at hne; omega
  | succ k ih =>
    have hp := Nat.two_pow_pos k
    have e3 := pow_succ' k
    have e4 := pow_succ' (k + 1)
    rw [parentSiblingAt]
    simp only [if_neg hne]
    split
    · rename_i h
      split
      · exact ⟨_, rfl⟩
      · rename_i hx
        exact ih o h1 (by simp only [rootAt] at h; omega) hx
    · rename_i h
      split
      · exact ⟨_, rfl⟩
      · rename_i hx
        exact ih _ (by simp only [rootAt, rightOff] at *; omega)
          (by simp only [rootAt, rightOff] at *; omega) hx

theorem pathAt_root (o k : Nat) : pathAt o k (rootAt o k) = [] := by
  cases k with
  | zero => rfl
  | succ k => rw [pathAt]; simp

theorem pathAt_length_le (o k x : Nat) : (pathAt o k x).length ≤ k := by
  induction k generalizing o with
  | zero => simp [pathAt]
  | succ k ih =>
    rw [pathAt]
    split
    · simp
    · split <;> simp only [List.length_append, List.length_singleton] <;>
        have := ih o <;> have := ih (rightOff o k) <;> omega

theorem pathAt_unfold (o k x : Nat) (h1 : o ≤ x) (h2 : x < o + 2 ^ (k + 1) - 1) :
    pathAt o k x =
      match parentSiblingAt o k x with
      | none => []
      | some ps => ps :: pathAt o k ps.1 := by
  induction k generalizing o with
  | zero => simp [pathAt, parentSiblingAt]
  | succ k ih =>
    have hp := Nat.two_pow_pos k
    have e3 := pow_succ' k
    have e4 := pow_succ' (k + 1)
    rw [pathAt, parentSiblingAt]
    by_cases hr : x = rootAt o (k + 1)
    · simp only [if_pos hr]
    · simp only [if_neg hr]
      by_cases hlt : x < rootAt o (k + 1)
      · simp only [if_pos hlt]
        by_cases hx : x = rootAt o k
        · simp only [if_pos hx]
          rw [hx, pathAt_root, pathAt_root]; rfl
        · simp only [if_neg hx]
          have h2' : x < o + 2 ^ (k + 1) - 1 := by simp only [rootAt] at hlt; omega
          obtain ⟨ps, hps⟩ := parentSiblingAt_isSome o k x h1 h2' hx
          have hrg := parentSiblingAt_range o k x ps hps
          rw [ih o h1 h2', hps]
          simp only [List.cons_append, List.cons.injEq, true_and]
          rw [pathAt]
          rw [if_neg (by simp only [rootAt]; omega), if_pos (by simp only [rootAt]; omega)]
      · simp only [if_neg hlt]
        have h1' : rightOff o k ≤ x := by simp only [rootAt, rightOff] at *; omega
        have h2' : x < rightOff o k + 2 ^ (k + 1) - 1 := by simp only [rootAt, rightOff] at *; omega
        by_cases hx : x = rootAt (rightOff o k) k
        · simp only [if_pos hx]
          rw [hx, pathAt_root, pathAt_root]; rfl
        · simp only [if_neg hx]
          obtain ⟨ps, hps⟩ := parentSiblingAt_isSome _ k x h1' h2' hx
          have hrg := parentSiblingAt_range _ k x ps hps
          rw [ih _ h1' h2', hps]
          simp only [List.cons_append, List.cons.injEq, true_and]
          rw [pathAt]
          rw [if_neg (by simp only [rootAt, rightOff] at *; omega),
            if_neg (by simp only [rootAt, rightOff] at *; omega)]

/-! ### §6 model = spec for the whole tree (height `k`, offset 0) -/

theorem root_eq (k : Nat) : root (2 ^ k) = rootAt 0 k := by
  unfold root rootAt; omega

theorem isInTree_iff' (k x : Nat) : isInTree x (root (2 ^ k)) = true ↔ x < 2 ^ (k + 1) - 1 := by
  have := Nat.two_pow_pos k
  have := pow_succ' k
  unfold isInTree root
  simp only [decide_eq_true_eq]; omega

theorem parentSibling?_eq_spec (k x : Nat) (h : x < 2 ^ (k + 1) - 1) :
    parentSibling? x (2 ^ k) = parentSiblingAt 0 k x := by
  have := parentSiblingAt_eq k 0 x (by simp) (by simpa using h)
  rw [Nat.mul_zero] at this
  rw [this, parentSibling?_eq, root_eq]

theorem directCopathAux_eq (k fuel x : Nat) (h : x < 2 ^ (k + 1) - 1)
    (hf : (pathAt 0 k x).length ≤ fuel) : directCopathAux (2 ^ k) fuel x = pathAt 0 k x := by
  induction fuel generalizing x with
  | zero =>
    rw [directCopathAux]
    exact (List.eq_nil_of_length_eq_zero (by omega)).symm
  | succ fuel ih =>
    rw [directCopathAux, parentSibling?_eq_spec k x h]
    have hu := pathAt_unfold 0 k x (by omega) (by omega)
    cases hps : parentSiblingAt 0 k x with
    | none => rw [hps] at hu; simp only; exact hu.symm
    | some ps =>
      rw [hps] at hu
      have hrg := parentSiblingAt_range 0 k x ps hps
      obtain ⟨p, s⟩ := ps
      simp only
      rw [hu]
      rw [hu] at hf
      simp only [List.length_cons] at hf
      rw [ih p (by simp only at hrg; omega) (by omega)]

theorem directCopath_eq (k x : Nat) (h : x < 2 ^ (k + 1) - 1) :
    directCopath x (2 ^ k) = pathAt 0 k x := by
  unfold directCopath
  rw [(isInTree_iff' k x).2 h]
  simp only [Bool.not_true, Bool.false_eq_true, if_false]
  apply directCopathAux_eq k _ x h
  have := pathAt_length_le 0 k x
  have := @Nat.lt_two_pow_self k
  omega

/-! ### §7 lowest common ancestor -/

theorem div_pow_succ (x j : Nat) : x / 2 ^ (j + 1) = x / 2 / 2 ^ j := by
  rw [Nat.div_div_eq_div_mul, pow_succ']

theorem div_pow_mono (i j a b : Nat) (hab : a ≤ b) (h : i / 2 ^ a = j / 2 ^ a) :
    i / 2 ^ b = j / 2 ^ b := by
  obtain ⟨d, rfl⟩ : ∃ d, b = a + d := ⟨b - a, by omega⟩
  rw [Nat.pow_add, ← Nat.div_div_eq_div_mul, ← Nat.div_div_eq_div_mul, h]

/-- `leaf_lca_level x y` is the least `L` with `x >> L = y >> L` -/
theorem leafLcaLevelAux_spec (fuel x y : Nat) (hf : x = y ∨ x + y < fuel) :
    x / 2 ^ leafLcaLevelAux fuel x y = y / 2 ^ leafLcaLevelAux fuel x y ∧
    ∀ t, t < leafLcaLevelAux fuel x y → x / 2 ^ t ≠ y / 2 ^ t := by
  induction fuel generalizing x y with
  | zero =>
    have : x = y := by omega
    subst this; simp [leafLcaLevelAux]
  | succ fuel ih =>
    rw [leafLcaLevelAux]
    split
    · rename_i h; subst h; simp
    · rename_i h
      have ih' := ih (x / 2) (y / 2) (by omega)
      refine ⟨by rw [div_pow_succ, div_pow_succ]; exact ih'.1, ?_⟩
      intro t ht
      cases t with
      | zero => simpa using h
      | succ t => rw [div_pow_succ, div_pow_succ]; exact ih'.2 t (by omega)

theorem leafLcaLevel_spec (x y : Nat) :
    x / 2 ^ leafLcaLevel x y = y / 2 ^ leafLcaLevel x y ∧
    ∀ t, t < leafLcaLevel x y → x / 2 ^ t ≠ y / 2 ^ t :=
  leafLcaLevelAux_spec _ x y (by omega)

theorem leafLcaLevel_pos (x y : Nat) (h : x ≠ y) : 1 ≤ leafLcaLevel x y := by
  have := (leafLcaLevel_spec x y).1
  cases hL : leafLcaLevel x y with
  | zero => rw [hL] at this; simp at this; exact absurd this h
  | succ n => omega

theorem leafLcaLevel_double (i j : Nat) (h : i ≠ j) :
    leafLcaLevel (2 * i) (2 * j) = leafLcaLevel i j + 1 := by
  have h2 := leafLcaLevel_spec (2 * i) (2 * j)
  have h1 := leafLcaLevel_spec i j
  have hp := leafLcaLevel_pos (2 * i) (2 * j) (by omega)
  have e : ∀ t, (2 * i) / 2 ^ (t + 1) = i / 2 ^ t ∧ (2 * j) / 2 ^ (t + 1) = j / 2 ^ t := by
    intro t; rw [div_pow_succ, div_pow_succ]; simp
  generalize leafLcaLevel (2 * i) (2 * j) = L2 at *
  generalize leafLcaLevel i j = L at *
  obtain ⟨L2', rfl⟩ : ∃ n, L2 = n + 1 := ⟨L2 - 1, by omega⟩
  rcases Nat.lt_trichotomy L2' L with hlt | heq | hgt
  · exfalso
    have := h1.2 L2' hlt
    rw [(e L2').1, (e L2').2] at h2
    exact this h2.1
  · rw [heq]
  · exfalso
    have := h2.2 (L + 1) (by omega)
    rw [(e L).1, (e L).2] at this
    exact this h1.1

theorem leaf_div (k m i : Nat) (h1 : 2 ^ (k + 1) * m ≤ 2 * i)
    (h2 : 2 * i < 2 ^ (k + 1) * m + 2 ^ (k + 1) - 1) : i / 2 ^ k = m := by
  have e1 : 2 ^ (k + 1) * m = 2 * (m * 2 ^ k) := by grind
  have e2 : (m + 1) * 2 ^ k = m * 2 ^ k + 2 ^ k := by grind
  have e3 := pow_succ' k
  exact Nat.div_eq_of_lt_le (by omega) (by omega)

theorem pathAt_leaf_length (k m i : Nat) (h1 : 2 ^ (k + 1) * m ≤ 2 * i)
    (h2 : 2 * i < 2 ^ (k + 1) * m + 2 ^ (k + 1) - 1) :
    (pathAt (2 ^ (k + 1) * m) k (2 * i)).length = k := by
  induction k generalizing m with
  | zero => rfl
  | succ k ih =>
    rw [pathAt]
    have e1 : 2 ^ (k + 1 + 1) * m = 2 * (2 ^ (k + 1) * m) := by grind
    have e3 := pow_succ' k
    have hp := Nat.two_pow_pos k
    have hne : 2 * i ≠ rootAt (2 ^ (k + 1 + 1) * m) (k + 1) := by unfold rootAt; omega
    rcases step_cases k m (2 * i) h1 h2 with h | ⟨h, h3, h4⟩ | ⟨h, h3, h4⟩
    · exact absurd h hne
    · rw [if_neg hne, if_pos h, off_left, List.length_append, ih _ h3 h4]; rfl
    · rw [if_neg hne, if_neg (by omega), off_right, List.length_append, ih _ h3 h4]; rfl

/-- In the spec: the LCA of leaves `i ≠ j` is the entry number `L - 1` of the direct path of
leaf `i`, where `L` is the least number with `i >> L = j >> L`. -/
theorem lcaAt_path (k m i j L : Nat)
    (hi1 : 2 ^ (k + 1) * m ≤ 2 * i) (hi2 : 2 * i < 2 ^ (k + 1) * m + 2 ^ (k + 1) - 1)
    (hj1 : 2 ^ (k + 1) * m ≤ 2 * j) (hj2 : 2 * j < 2 ^ (k + 1) * m + 2 ^ (k + 1) - 1)
    (hne : i ≠ j) (hL1 : i / 2 ^ L = j / 2 ^ L) (hL2 : ∀ t, t < L → i / 2 ^ t ≠ j / 2 ^ t) :
    ((pathAt (2 ^ (k + 1) * m) k (2 * i))[L - 1]?).map (·.1)
      = some (lcaAt (2 ^ (k + 1) * m) k (2 * i) (2 * j)) := by
  induction k generalizing m with
  | zero => exfalso; omega
  | succ k ih =>
    rw [pathAt, lcaAt]
    have e1 : 2 ^ (k + 1 + 1) * m = 2 * (2 ^ (k + 1) * m) := by grind
    have e3 := pow_succ' k
    have hp := Nat.two_pow_pos k
    have hnei : 2 * i ≠ rootAt (2 ^ (k + 1 + 1) * m) (k + 1) := by unfold rootAt; omega
    have hnej : 2 * j ≠ rootAt (2 ^ (k + 1 + 1) * m) (k + 1) := by unfold rootAt; omega
    have hdi := leaf_div (k + 1) m i hi1 hi2
    have hdj := leaf_div (k + 1) m j hj1 hj2
    -- when the two leaves are on different sides, `L = k + 1`
    have hsplit : i / 2 ^ k ≠ j / 2 ^ k → L = k + 1 := by
      intro hd
      have : k < L := by
        apply Classical.byContradiction; intro hc
        exact hd (div_pow_mono i j L k (by omega) hL1)
      have : ¬ (k + 1 < L) := fun hc => hL2 (k + 1) hc (by rw [hdi, hdj])
      omega
    simp only [if_neg hnei]
    rcases step_cases k m (2 * i) hi1 hi2 with h | ⟨h, h3, h4⟩ | ⟨h, h3, h4⟩
    · exact absurd h hnei
    · rcases step_cases k m (2 * j) hj1 hj2 with h' | ⟨h', h3', h4'⟩ | ⟨h', h3', h4'⟩
      · exact absurd h' hnej
      · rw [if_pos h, if_pos ⟨h, h'⟩, off_left]
        have := ih (2 * m) h3 h4 h3' h4'
        rw [← this]
        by_cases hlen : L - 1 < (pathAt (2 ^ (k + 1) * (2 * m)) k (2 * i)).length
        · rw [List.getElem?_append_left hlen]
        · rw [List.getElem?_eq_none (by omega)] at this
          simp at this
      · have hL := hsplit (by rw [leaf_div k _ i h3 h4, leaf_div k _ j h3' h4']; omega)
        rw [if_pos h, if_neg (by omega), if_neg (by omega), off_left]
        have hlen := pathAt_leaf_length k (2 * m) i h3 h4
        rw [List.getElem?_append_right (by omega), hlen, hL]
        simp
    · rcases step_cases k m (2 * j) hj1 hj2 with h' | ⟨h', h3', h4'⟩ | ⟨h', h3', h4'⟩
      · exact absurd h' hnej
      · have hL := hsplit (by rw [leaf_div k _ i h3 h4, leaf_div k _ j h3' h4']; omega)
        rw [if_neg (by omega), if_neg (by omega), if_neg (by omega), off_right]
        have hlen := pathAt_leaf_length k (2 * m + 1) i h3 h4
        rw [List.getElem?_append_right (by omega), hlen, hL]
        simp
      · rw [if_neg (by omega), if_neg (by omega), if_pos ⟨h, h'⟩, off_right]
        have := ih (2 * m + 1) h3 h4 h3' h4'
        rw [← this]
        by_cases hlen : L - 1 < (pathAt (2 ^ (k + 1) * (2 * m + 1)) k (2 * i)).length
        · rw [List.getElem?_append_left hlen]
        · rw [List.getElem?_eq_none (by omega)] at this
          simp at this

/-! ### §8 breadth-first order -/

/-- the `c`-th node (from the left) of height `L` -/
def rowf (L c : Nat) : Nat := c * 2 ^ (L + 1) + (2 ^ L - 1)

/-- all rows strictly below height-`L+1`... i.e. the rows of heights `L-1, …, 0`, where the row of
height `L` has `2^d` nodes -/
def belowRows : Nat → Nat → List Nat
  | 0, _ => []
  | L + 1, d => (List.range (2 ^ (d + 1))).map (rowf L) ++ belowRows L (d + 1)

theorem belowRows_length (L d : Nat) : (belowRows L d).length + 2 ^ (d + 1) = 2 ^ (d + L + 1) := by
  induction L generalizing d with
  | zero => simp [belowRows]
  | succ L ih =>
    have := ih (d + 1)
    have e : d + 1 + L + 1 = d + (L + 1) + 1 := by omega
    rw [e] at this
    have := pow_succ' (d + 1)
    simp only [belowRows, List.length_append, List.length_map, List.length_range]
    omega

theorem trailingZeros_two_pow (k : Nat) : trailingZeros (2 ^ k) = k := by
  induction k with
  | zero => rw [trailingZeros]; simp
  | succ k ih =>
    have hp := Nat.two_pow_pos k
    rw [trailingZeros, dif_neg (by rw [pow_succ']; omega), if_pos (by rw [pow_succ']; omega)]
    rw [pow_succ', Nat.mul_div_cancel_left _ (by decide), ih]

theorem bfs_emit (c L : Nat) : (c <<< (L + 1)) ||| (2 ^ L - 1) = rowf L c := by
  have hp := Nat.two_pow_pos L
  rw [← Nat.shiftLeft_add_eq_or_of_lt (by rw [pow_succ']; omega), Nat.shiftLeft_eq, rowf]

theorem bfs_levelEnd (d : Nat) : (((2 ^ d - 1) <<< 1) ||| 1) + 1 = 2 ^ (d + 1) := by
  have hp := Nat.two_pow_pos d
  rw [← Nat.shiftLeft_add_eq_or_of_lt (by decide), Nat.shiftLeft_eq, pow_succ']
  omega

theorem bfsAux_eq (L : Nat) : ∀ (n d c fuel : Nat), c + n = 2 ^ d →
    n + (belowRows L d).length < fuel →
    bfsAux fuel { level := L + 1, mask := 2 ^ L - 1, levelEnd := 2 ^ d, ctr := c } =
      (List.range' c n).map (rowf L) ++ belowRows L d := by
  induction L with
  | zero =>
    intro n
    induction n with
    | zero =>
      intro d c fuel hc hf
      obtain ⟨f, rfl⟩ : ∃ f, fuel = f + 1 := ⟨fuel - 1, by omega⟩
      simp only [bfsAux, Bfs.next, if_pos (show c = 2 ^ d by omega)]
      simp [belowRows]
    | succ n ihn =>
      intro d c fuel hc hf
      obtain ⟨f, rfl⟩ : ∃ f, fuel = f + 1 := ⟨fuel - 1, by omega⟩
      simp only [bfsAux, Bfs.next, if_neg (show ¬ c = 2 ^ d by omega)]
      rw [ihn d (c + 1) f (by omega) (by omega), List.range'_succ, bfs_emit]
      simp
  | succ L ihL =>
    intro n
    induction n with
    | zero =>
      intro d c fuel hc hf
      obtain ⟨f, rfl⟩ : ∃ f, fuel = f + 1 := ⟨fuel - 1, by omega⟩
      have hp := Nat.two_pow_pos (d + 1)
      have hm : (2 ^ (L + 1) - 1) >>> 1 = 2 ^ L - 1 := by
        have := Nat.two_pow_pos L
        rw [Nat.shiftRight_eq_div_pow, pow_succ']; omega
      simp only [bfsAux, Bfs.next, if_pos (show c = 2 ^ d by omega), Nat.add_sub_cancel,
        if_neg (show ¬ L + 1 + 1 = 1 by omega), hm]
      rw [show c = 2 ^ d by omega, bfs_levelEnd]
      simp only [belowRows, List.length_append, List.length_map, List.length_range] at hf
      rw [ihL (2 ^ (d + 1) - 1) (d + 1) 1 f (by omega) (by omega)]
      obtain ⟨w, hw⟩ : ∃ w, 2 ^ (d + 1) = w + 1 := ⟨2 ^ (d + 1) - 1, by omega⟩
      rw [belowRows, List.range_eq_range', hw, List.range'_succ]
      simp [rowf]
    | succ n ihn =>
      intro d c fuel hc hf
      obtain ⟨f, rfl⟩ : ∃ f, fuel = f + 1 := ⟨fuel - 1, by omega⟩
      simp only [bfsAux, Bfs.next, if_neg (show ¬ c = 2 ^ d by omega)]
      rw [ihn d (c + 1) f (by omega) (by omega), List.range'_succ, bfs_emit]
      simp

theorem depthNodesAt_eq (d e o : Nat) :
    depthNodesAt o (d + e) d =
      (List.range (2 ^ d)).map (fun c => o + c * 2 ^ (e + 1) + (2 ^ e - 1)) := by
  induction d generalizing o with
  | zero =>
    have hp := Nat.two_pow_pos e
    simp [depthNodesAt, rootAt]; omega
  | succ d ih =>
    rw [show d + 1 + e = (d + e) + 1 by omega, depthNodesAt, ih, ih]
    rw [show 2 ^ (d + 1) = 2 ^ d + 2 ^ d by rw [pow_succ']; omega, List.range_add,
      List.map_append, List.map_map]
    congr 1
    apply List.map_congr_left
    intro c _
    have e1 : (2 ^ d + c) * 2 ^ (e + 1) = 2 ^ (d + e + 1) + c * 2 ^ (e + 1) := by grind
    simp only [Function.comp, rightOff, e1]; omega

theorem flatMap_depthNodes (k L d : Nat) (h : d + L = k) :
    (List.range' (d + 1) L).flatMap (depthNodesAt 0 k) = belowRows L d := by
  induction L generalizing d with
  | zero => simp [belowRows]
  | succ L ih =>
    rw [List.range'_succ, List.flatMap_cons, ih (d + 1) (by omega), belowRows]
    congr 1
    subst h
    rw [show d + (L + 1) = (d + 1) + L by omega, depthNodesAt_eq]
    apply List.map_congr_left
    intro c _
    simp [rowf]

theorem specLevels_eq (k : Nat) : specLevels k = rowf k 0 :: belowRows k 0 := by
  unfold specLevels
  rw [List.range_eq_range', List.range'_succ, List.flatMap_cons, flatMap_depthNodes k k 0 (by omega)]
  simp [depthNodesAt, rowf, rootAt]

theorem bfsTopDown_eq (k : Nat) : bfsTopDown (2 ^ k) = specLevels k := by
  unfold bfsTopDown Bfs.new
  simp only [trailingZeros_two_pow, Nat.one_shiftLeft]
  have hl := belowRows_length k 0
  have := pow_succ' k
  simp only [Nat.zero_add] at hl
  have := bfsAux_eq k 1 0 0 (2 * 2 ^ k + 1) (by simp) (by omega)
  simp only [Nat.pow_zero] at this
  rw [this, specLevels_eq]
  simp

/-! ### §9 closure and bounds -/

theorem leftAt_range (o k x c : Nat) (h : leftAt o k x = some c) :
    o ≤ c ∧ c < o + 2 ^ (k + 1) - 1 := by
  induction k generalizing o with
  | zero => simp [leftAt] at h
  | succ k ih =>
    have hp := Nat.two_pow_pos k
    have e3 := pow_succ' k
    have e4 := pow_succ' (k + 1)
    rw [leftAt] at h
    split at h
    · cases h; simp only [rootAt]; omega
    · split at h
      · have := ih _ h; omega
      · have := ih _ h; simp only [rightOff] at this; omega

theorem rightAt_range (o k x c : Nat) (h : rightAt o k x = some c) :
    o ≤ c ∧ c < o + 2 ^ (k + 1) - 1 := by
  induction k generalizing o with
  | zero => simp [rightAt] at h
  | succ k ih =>
    have hp := Nat.two_pow_pos k
    have e3 := pow_succ' k
    have e4 := pow_succ' (k + 1)
    rw [rightAt] at h
    split at h
    · cases h; simp only [rootAt, rightOff]; omega
    · split at h
      · have := ih _ h; omega
      · have := ih _ h; simp only [rightOff] at this; omega

theorem pathAt_range (o k x : Nat) (ps : Nat × Nat) (h : ps ∈ pathAt o k x) :
    (o ≤ ps.1 ∧ ps.1 < o + 2 ^ (k + 1) - 1) ∧ (o ≤ ps.2 ∧ ps.2 < o + 2 ^ (k + 1) - 1) := by
  induction k generalizing o with
  | zero => simp [pathAt] at h
  | succ k ih =>
    have hp := Nat.two_pow_pos k
    have e3 := pow_succ' k
    have e4 := pow_succ' (k + 1)
    rw [pathAt] at h
    split at h
    · simp at h
    · split at h
      · rw [List.mem_append, List.mem_singleton] at h
        rcases h with h | h
        · have := ih _ h; omega
        · subst h; simp only [rootAt, rightOff]; omega
      · rw [List.mem_append, List.mem_singleton] at h
        rcases h with h | h
        · have := ih _ h; simp only [rightOff] at this; omega
        · subst h; simp only [rootAt]; omega

theorem level_le (k x : Nat) (h : x < 2 ^ (k + 1) - 1) : level x ≤ k := by
  obtain ⟨q, hq⟩ := level_decomp x
  have : 2 ^ level x < 2 ^ (k + 1) := by omega
  have := (Nat.pow_lt_pow_iff_right (by decide : 1 < 2)).1 this
  omega

theorem two_pow_level_le (x : Nat) : 2 ^ level x ≤ x + 1 := by
  obtain ⟨q, hq⟩ := level_decomp x
  have := Nat.two_pow_pos (level x)
  omega

theorem level_eq_zero_iff (x : Nat) : level x = 0 ↔ x % 2 = 0 := by
  rw [level]; split <;> omega

theorem clearBit_le (x i : Nat) : clearBit x i ≤ x := by
  unfold clearBit; split
  · exact Nat.sub_le _ _
  · exact Nat.le_refl _

/-- the parent is exactly one level above its child -/
theorem level_psClosed (x : Nat) : level (psClosed x).1 = level x + 1 := by
  obtain ⟨q, hq⟩ := level_decomp x
  have hc := psClosed_decomp (level x) q
  rw [← hq] at hc
  rw [hc]
  generalize level x = l at *
  have hp := Nat.two_pow_pos l
  have e3 := pow_succ' l
  obtain ⟨t, rfl | rfl⟩ : ∃ t, q = 2 * t ∨ q = 2 * t + 1 := ⟨q / 2, by omega⟩
  · have e1 : 2 ^ (l + 1) * (2 * t) = 4 * (2 ^ l * t) := by grind
    have hp' : x + 2 ^ l = 2 ^ (l + 1) - 1 + 2 ^ (l + 1 + 1) * t := by
      have : 2 ^ (l + 1 + 1) * t = 4 * (2 ^ l * t) := by grind
      omega
    rw [if_pos (by omega)]; simp only; rw [hp', level_of_decomp]
  · have e1 : 2 ^ (l + 1) * (2 * t + 1) = 4 * (2 ^ l * t) + 2 * 2 ^ l := by grind
    have hp' : x - 2 ^ l = 2 ^ (l + 1) - 1 + 2 ^ (l + 1 + 1) * t := by
      have : 2 ^ (l + 1 + 1) * t = 4 * (2 ^ l * t) := by grind
      omega
    rw [if_neg (by omega)]; simp only; rw [hp', level_of_decomp]

theorem level_parent (x n p s : Nat) (h : parentSibling? x n = some (p, s)) :
    level p = level x + 1 := by
  rw [parentSibling?_eq] at h
  split at h
  · cases h
  · have e : psClosed x = (p, s) := Option.some.inj h
    have : p = (psClosed x).1 := by rw [e]
    rw [this]; exact level_psClosed x

end MlsVerif.TreeMath
