/-
Helper lemmas for C17 (`MlsVerif.Model.Resumption`): a duplicate-free list contained in a list of the
same length has the same elements (pigeonhole), and the Bool/Prop reading of `checkSubgroup`.
Core only.
-/
import MlsVerif.Model.Resumption

namespace MlsVerif.Resumption

/-- pigeonhole: a duplicate-free `l₁ ⊆ l₂` is no longer than `l₂`, and if it is not shorter either
then `l₂ ⊆ l₁` -/
theorem nodup_subset_length : ∀ (l₁ l₂ : List Nat), l₁.Nodup → (∀ x, x ∈ l₁ → x ∈ l₂) →
    l₁.length ≤ l₂.length ∧ (l₂.length ≤ l₁.length → ∀ x, x ∈ l₂ → x ∈ l₁)
  | [], l₂, _, _ => by
    refine ⟨Nat.zero_le _, fun h x hx => ?_⟩
    have : l₂ = [] := List.eq_nil_of_length_eq_zero (Nat.le_zero.mp h)
    rw [this] at hx; exact hx
  | a :: t, l₂, hnd, hsub => by
    have hat : a ∉ t := (List.nodup_cons.mp hnd).1
    have hndt : t.Nodup := (List.nodup_cons.mp hnd).2
    have ha : a ∈ l₂ := hsub a (List.mem_cons_self ..)
    have hsub' : ∀ x, x ∈ t → x ∈ l₂.erase a := fun x hx => by
      have hne : x ≠ a := fun h => hat (h ▸ hx)
      exact (List.mem_erase_of_ne hne).2 (hsub x (List.mem_cons_of_mem _ hx))
    have hlen : (l₂.erase a).length = l₂.length - 1 := List.length_erase_of_mem ha
    have hpos : 0 < l₂.length := List.length_pos_of_mem ha
    obtain ⟨ih1, ih2⟩ := nodup_subset_length t (l₂.erase a) hndt hsub'
    refine ⟨by simp only [List.length_cons]; omega, fun h x hx => ?_⟩
    by_cases hxa : x = a
    · subst hxa; exact List.mem_cons_self ..
    · have : x ∈ l₂.erase a := (List.mem_erase_of_ne hxa).2 hx
      exact List.mem_cons_of_mem _ (ih2 (by simp only [List.length_cons] at h; omega) x this)

/-- two duplicate-free lists with the same elements have the same length -/
theorem nodup_same_elems_length (l₁ l₂ : List Nat) (h₁ : l₁.Nodup) (h₂ : l₂.Nodup)
    (h : ∀ x, x ∈ l₁ ↔ x ∈ l₂) : l₁.length = l₂.length :=
  Nat.le_antisymm (nodup_subset_length l₁ l₂ h₁ fun x => (h x).1).1
    (nodup_subset_length l₂ l₁ h₂ fun x => (h x).2).1

/-- the subset half of `checkSubgroup` -/
theorem all_contains_iff (oldIds newIds : List Nat) :
    (newIds.all fun i => oldIds.contains i) = true ↔ ∀ x, x ∈ newIds → x ∈ oldIds := by
  simp [List.all_eq_true]

theorem checkSubgroup_reinit_iff (oldIds newIds : List Nat) :
    checkSubgroup .reinit oldIds newIds = true ↔
      oldIds.length = newIds.length ∧ ∀ x, x ∈ newIds → x ∈ oldIds := by
  simp [checkSubgroup, List.all_eq_true]

theorem checkSubgroup_branch_iff (oldIds newIds : List Nat) :
    checkSubgroup .branch oldIds newIds = true ↔ ∀ x, x ∈ newIds → x ∈ oldIds := by
  simp [checkSubgroup, List.all_eq_true]

end MlsVerif.Resumption
