import MlsVerif.Model.Pipeline
/-! Lemmas about `Pipeline.runFrom`. -/
namespace MlsVerif.Pipeline

theorem runFrom_no_canFail (fails : Nat → Bool) (steps : List Step)
    (h : steps.all (fun r => !r.canFail) = true) (i : Nat) (s : State) :
    (runFrom fails i steps s).1 = true := by
  induction steps generalizing i s with
  | nil => simp [runFrom]
  | cons st rest ih =>
    simp only [List.all_cons, Bool.and_eq_true] at h
    cases st with
    | fallible l => simp [Step.canFail] at h
    | both l f => simp [Step.canFail] at h
    | mutate f => simp only [runFrom]; exact ih h.2 _ _

/-- a well-ordered pipeline that fails has not touched the state -/
theorem runFrom_atomic (fails : Nat → Bool) (steps : List Step) (h : wellOrdered steps = true)
    (i : Nat) (s : State) (hf : (runFrom fails i steps s).1 = false) :
    (runFrom fails i steps s).2 = s := by
  induction steps generalizing i s with
  | nil => simp [runFrom] at hf
  | cons st rest ih =>
    simp only [wellOrdered, Bool.and_eq_true] at h
    cases st with
    | fallible l =>
      simp only [runFrom] at hf ⊢
      split
      · rfl
      · rename_i hn
        simp only [hn] at hf
        exact ih h.2 _ _ (by simpa using hf)
    | mutate f =>
      -- after a mutation nothing can fail any more
      have hr : rest.all (fun r => !r.canFail) = true := by simpa [Step.mutates] using h.1
      have := runFrom_no_canFail fails rest hr (i + 1) (bump s f)
      simp only [runFrom] at hf
      rw [this] at hf
      cases hf
    | both l f =>
      have hr : rest.all (fun r => !r.canFail) = true := by simpa [Step.mutates] using h.1
      simp only [runFrom] at hf ⊢
      split
      · rfl
      · rename_i hn
        simp only [hn] at hf
        have := runFrom_no_canFail fails rest hr (i + 1) (bump s f)
        simp only [Bool.false_eq_true, ↓reduceIte] at hf
        rw [this] at hf
        cases hf

end MlsVerif.Pipeline
