/-
Encoder-side lemmas: `encode` followed by `decode` is the identity, `size` is exact.
-/
import MlsVerif.Proofs.CodecOrder

namespace MlsVerif.Codec

theorem encodeLen_ok {n : Nat} {h : Bytes} (he : encodeLen n = .ok h) :
    n ≤ varintMax ∧ h = encodeVarint n := by
  unfold encodeLen at he
  split at he
  · injection he with he; exact ⟨‹_›, he.symm⟩
  · cases he

theorem encodeLen_err {n : Nat} {e : CodecErr} (he : encodeLen n = .error e) :
    varintMax < n ∧ e = .varIntOutOfRange := by
  unfold encodeLen at he
  split at he
  · cases he
  · injection he with he; exact ⟨by omega, he.symm⟩

theorem encodeLenPrefixed_ok {p b : Bytes} (h : encodeLenPrefixed p = .ok b) :
    p.length ≤ varintMax ∧ b = encodeVarint p.length ++ p := by
  unfold encodeLenPrefixed at h
  split at h
  · cases h
  · rename_i hd he
    injection h with h
    obtain ⟨h1, h2⟩ := encodeLen_ok he
    exact ⟨h1, by rw [← h, h2]⟩

theorem encodeLenPrefixed_of_le {p : Bytes} (h : p.length ≤ varintMax) :
    encodeLenPrefixed p = .ok (encodeVarint p.length ++ p) := by
  simp [encodeLenPrefixed, encodeLen, h]

theorem encodeLenPrefixed_err {p : Bytes} {e : CodecErr} (h : encodeLenPrefixed p = .error e) :
    varintMax < p.length ∧ e = .varIntOutOfRange := by
  unfold encodeLenPrefixed at h
  split at h
  · rename_i e' he; injection h with h; subst h; exact encodeLen_err he
  · cases h

theorem decodeSplit_append (p r : Bytes) (h : p.length ≤ varintMax) :
    decodeSplit (encodeVarint p.length ++ (p ++ r)) = .ok (p, r) := by
  unfold decodeSplit
  rw [decodeVarint_encodeVarint _ _ h]
  exact splitN_append p r

theorem decodeSplit_ok {b h r : Bytes} (hd : decodeSplit b = .ok (h, r)) :
    h.length ≤ varintMax ∧ b = encodeVarint h.length ++ h ++ r := by
  unfold decodeSplit at hd
  split at hd
  · cases hd
  · rename_i len r' hv
    obtain ⟨h1, h2⟩ := decodeVarint_ok hv
    obtain ⟨h3, h4⟩ := splitN_ok hd
    subst h4
    exact ⟨h1, by rw [h2, h3, List.append_assoc]⟩

theorem encodeLenPrefixed_length {p b : Bytes} (h : encodeLenPrefixed p = .ok b) :
    hdrLen p.length + p.length = b.length := by
  obtain ⟨h1, h2⟩ := encodeLenPrefixed_ok h
  rw [h2, List.length_append, encodeVarint_length h1]

theorem encodeLenPrefixed_pos {p b : Bytes} (h : encodeLenPrefixed p = .ok b) : 0 < b.length := by
  have := encodeLenPrefixed_length h
  have := hdrLen_pos p.length
  omega

/-! ## Non-empty encodings -/

theorem nonEmptyFields_pos : ∀ (fs : List Schema),
    (∀ f, f ∈ fs → ∀ v b, nonEmpty f = true → WF f v = true → encode f v = .ok b → 0 < b.length) →
    ∀ vs b, nonEmptyFields fs = true → WFFields fs vs = true → encodeFields fs vs = .ok b →
    0 < b.length := by
  intro fs
  induction fs with
  | nil => intro _ vs b h; simp [nonEmptyFields] at h
  | cons f fs ih =>
    intro hf vs b hne hw he
    cases vs with
    | nil => simp [WFFields] at hw
    | cons v vs =>
      simp only [WFFields, Bool.and_eq_true] at hw
      simp only [encodeFields] at he
      split at he
      · cases he
      · rename_i b1 h1
        split at he
        · cases he
        · rename_i b2 h2
          injection he with he; subst he
          simp only [nonEmptyFields, Bool.or_eq_true] at hne
          rw [List.length_append]
          rcases hne with hne | hne
          · have := hf f List.mem_cons_self v b1 hne hw.1 h1; omega
          · have := ih (fun g hg => hf g (List.mem_cons_of_mem _ hg)) vs b2 hne hw.2 h2; omega

theorem nonEmpty_pos : ∀ s v b, nonEmpty s = true → WF s v = true → encode s v = .ok b →
    0 < b.length := by
  intro s
  induction s using Schema.ind with
  | u n =>
    intro v b hne hw he
    obtain ⟨x, rfl, hx⟩ := WF_u hw
    simp [encode, hx] at he; subst he
    simp [nonEmpty] at hne; rw [toBE_length]; exact hne
  | bool =>
    intro v b hne hw he
    obtain ⟨x, rfl⟩ := WF_bool hw
    simp [encode] at he; subst he; simp
  | fixed n =>
    intro v b hne hw he
    obtain ⟨x, rfl, hx⟩ := WF_fixed hw
    simp [encode, hx] at he; subst he
    simp [nonEmpty] at hne; omega
  | bytes =>
    intro v b hne hw he
    obtain ⟨x, rfl⟩ := WF_bytes hw
    simp only [encode] at he; exact encodeLenPrefixed_pos he
  | varint =>
    intro v b hne hw he
    obtain ⟨x, rfl, hx⟩ := WF_varint hw
    simp [encode, hx] at he; subst he; exact encodeVarint_length_pos x
  | str =>
    intro v b hne hw he
    obtain ⟨x, rfl, hx⟩ := WF_str hw
    simp only [encode, hx, if_true] at he; exact encodeLenPrefixed_pos he
  | vec e ih =>
    intro v b hne hw he
    obtain ⟨x, rfl, hx⟩ := WF_vec hw
    simp only [encode] at he
    split at he
    · cases he
    · exact encodeLenPrefixed_pos he
  | opt e ih =>
    intro v b hne hw he
    rcases WF_opt hw with rfl | ⟨x, rfl, hx⟩
    · simp [encode] at he; subst he; simp
    · simp only [encode] at he
      split at he
      · cases he
      · injection he with he; subst he; simp
  | struct fs ih =>
    intro v b hne hw he
    obtain ⟨x, rfl, hx⟩ := WF_struct hw
    simp only [encode] at he
    simp only [nonEmpty] at hne
    exact nonEmptyFields_pos fs ih x b hne hx he
  | enum w cs ih =>
    intro v b hne hw he
    obtain ⟨tag, p, rfl, ht, hp⟩ := WF_enum hw
    simp only [encode, ht, if_true] at he
    split at he
    · cases he
    · injection he with he; subst he
      simp [nonEmpty] at hne
      rw [List.length_append, toBE_length]; omega
  | map k v ihk ihv =>
    intro x b hne hw he
    obtain ⟨kvs, rfl, hx, hs⟩ := WF_map hw
    simp only [encode, hs, if_true] at he
    split at he
    · cases he
    · exact encodeLenPrefixed_pos he

/-! ## Round trip and size -/

def EncSpec (s : Schema) : Prop :=
  ∀ v b, WF s v = true → encode s v = .ok b →
    size s v = b.length ∧ (Progress s = true → ∀ r, decode s (b ++ r) = .ok (v, r))

theorem encSpec_fields : ∀ (fs : List Schema), (∀ f, f ∈ fs → EncSpec f) →
    ∀ vs b, WFFields fs vs = true → encodeFields fs vs = .ok b →
    sizeFields fs vs = b.length ∧
    (ProgressFields fs = true → ∀ r, decodeFields fs (b ++ r) = .ok (vs, r)) := by
  intro fs
  induction fs with
  | nil =>
    intro _ vs b hw he
    cases vs with
    | nil => simp [encodeFields] at he; subst he; simp [sizeFields, decodeFields]
    | cons v vs => simp [WFFields] at hw
  | cons f fs ih =>
    intro hf vs b hw he
    cases vs with
    | nil => simp [WFFields] at hw
    | cons v vs =>
      simp only [WFFields, Bool.and_eq_true] at hw
      simp only [encodeFields] at he
      split at he
      · cases he
      · rename_i b1 h1
        split at he
        · cases he
        · rename_i b2 h2
          injection he with he; subst he
          obtain ⟨s1, d1⟩ := hf f List.mem_cons_self v b1 hw.1 h1
          obtain ⟨s2, d2⟩ := ih (fun g hg => hf g (List.mem_cons_of_mem _ hg)) vs b2 hw.2 h2
          refine ⟨by simp [sizeFields, s1, s2], ?_⟩
          intro hp r
          simp only [ProgressFields, Bool.and_eq_true] at hp
          simp only [decodeFields, List.append_assoc, d1 hp.1 (b2 ++ r), d2 hp.2 r]

theorem encSpec_all : ∀ s, EncSpec s := by
  intro s
  induction s using Schema.ind with
  | u n =>
    intro v b hw he
    obtain ⟨x, rfl, hx⟩ := WF_u hw
    simp [encode, hx] at he; subst he
    refine ⟨by simp [size, toBE_length], fun _ r => ?_⟩
    simp [decode, decodeU_append n x r hx]
  | bool =>
    intro v b hw he
    obtain ⟨x, rfl⟩ := WF_bool hw
    simp [encode] at he; subst he
    refine ⟨by simp [size], fun _ r => ?_⟩
    cases x <;> simp [decode]
  | fixed n =>
    intro v b hw he
    obtain ⟨x, rfl, hx⟩ := WF_fixed hw
    simp [encode, hx] at he; subst he
    refine ⟨by simp [size, hx], fun _ r => ?_⟩
    subst hx
    simp [decode, splitN_append]
  | bytes =>
    intro v b hw he
    obtain ⟨x, rfl⟩ := WF_bytes hw
    simp only [encode] at he
    refine ⟨by simp only [size]; exact encodeLenPrefixed_length he, fun _ r => ?_⟩
    obtain ⟨h1, rfl⟩ := encodeLenPrefixed_ok he
    simp [decode, decodeSplit_append x r h1]
  | varint =>
    intro v b hw he
    obtain ⟨x, rfl, hx⟩ := WF_varint hw
    simp [encode, hx] at he; subst he
    refine ⟨?_, fun _ r => ?_⟩
    · simp only [size]
      rw [encodeVarint_length hx]
      simp [hdrLen, hx]
    · simp [decode, decodeVarint_encodeVarint x r hx]
  | str =>
    intro v b hw he
    obtain ⟨x, rfl, hx⟩ := WF_str hw
    simp only [encode, hx, if_true] at he
    refine ⟨by simp only [size]; exact encodeLenPrefixed_length he, fun _ r => ?_⟩
    obtain ⟨h1, rfl⟩ := encodeLenPrefixed_ok he
    simp [decode, decodeSplit_append x r h1, hx]
  | vec e ih =>
    intro v b hw he
    obtain ⟨xs, rfl, hx⟩ := WF_vec hw
    simp only [encode] at he
    split at he
    · cases he
    · rename_i buf hbuf
      have hsz : sumBy (size e) xs = buf.length :=
        encodeList_length xs buf (fun x hm bx hb => (ih x bx (hx x hm) hb).1) hbuf
      refine ⟨by simp only [size, hsz]; exact encodeLenPrefixed_length he, fun hp r => ?_⟩
      obtain ⟨h1, rfl⟩ := encodeLenPrefixed_ok he
      simp only [Progress, Bool.and_eq_true] at hp
      have hl : LoopRel (decode e) buf xs :=
        LoopRel_of_encodeList xs buf
          (fun x hm bx hb => ⟨(ih x bx (hx x hm) hb).2 hp.2, nonEmpty_pos e x bx hp.1 (hx x hm) hb⟩)
          hbuf
      simp [decode, decodeCollection, decodeSplit_append buf r h1, decodeLoop_of_rel hl]
  | opt e ih =>
    intro v b hw he
    rcases WF_opt hw with rfl | ⟨x, rfl, hx⟩
    · simp [encode] at he; subst he
      exact ⟨by simp [size], fun _ r => by simp [decode]⟩
    · simp only [encode] at he
      split at he
      · cases he
      · rename_i b1 h1
        injection he with he; subst he
        obtain ⟨s1, d1⟩ := ih x b1 hx h1
        refine ⟨by simp [size, s1]; omega, fun hp r => ?_⟩
        simp only [Progress] at hp
        simp [decode, d1 hp r]
  | struct fs ih =>
    intro v b hw he
    obtain ⟨xs, rfl, hx⟩ := WF_struct hw
    simp only [encode] at he
    obtain ⟨s1, d1⟩ := encSpec_fields fs ih xs b hx he
    refine ⟨by simp [size, s1], fun hp r => ?_⟩
    simp only [Progress] at hp
    simp [decode, d1 hp r]
  | enum w cs ih =>
    intro v b hw he
    obtain ⟨tag, p, rfl, ht, hp⟩ := WF_enum hw
    simp only [encode, ht, if_true] at he
    split at he
    · cases he
    · rename_i b1 h1
      injection he with he; subst he
      rw [encodeCases_eq] at h1
      rcases WFCases_inv hp with ⟨c1, rfl⟩ | ⟨s1, v1, c1, rfl, w1⟩
      · simp only [c1] at h1
        injection h1 with h1; subst h1
        refine ⟨by simp [size, sizeCases_eq, c1, toBE_length], fun _ r => ?_⟩
        simp [decode, decodeU_append w tag r ht, decodeCases_eq, c1]
      · simp only [c1] at h1
        obtain ⟨sz, d1⟩ := ih tag s1 (caseOf_mem c1) v1 b1 w1 h1
        refine ⟨by simp [size, sizeCases_eq, c1, toBE_length, sz], fun hpr r => ?_⟩
        have hps : Progress s1 = true := by
          simp only [Progress] at hpr
          have : ∀ (cs : List (Nat × Option Schema)), ProgressCases cs = true →
              (tag, some s1) ∈ cs → Progress s1 = true := by
            intro cs
            induction cs with
            | nil => intro _ h; cases h
            | cons c cs ihc =>
              intro hpc hm
              obtain ⟨t, o⟩ := c
              cases o with
              | none =>
                simp only [ProgressCases] at hpc
                rcases List.mem_cons.1 hm with h | h
                · cases h
                · exact ihc hpc h
              | some s' =>
                simp only [ProgressCases, Bool.and_eq_true] at hpc
                rcases List.mem_cons.1 hm with h | h
                · injection h with _ h; injection h with h; subst h; exact hpc.1
                · exact ihc hpc.2 h
          exact this cs hpr (caseOf_mem c1)
        simp [decode, List.append_assoc, decodeU_append w tag (b1 ++ r) ht, decodeCases_eq, c1,
          d1 hps r]
  | map k v ihk ihv =>
    intro x b hw he
    obtain ⟨kvs, rfl, hx, hs⟩ := WF_map hw
    simp only [encode, hs, if_true] at he
    split at he
    · cases he
    · rename_i buf hbuf
      have hsz : sumBy (fun kv => size k kv.1 + size v kv.2) kvs = buf.length := by
        apply encodeList_length kvs buf _ hbuf
        intro kv hm bx hb
        unfold encodePair at hb
        split at hb
        · cases hb
        · rename_i a ha
          split at hb
          · cases hb
          · rename_i c hc
            injection hb with hb; subst hb
            rw [(ihk kv.1 a (hx kv hm).1 ha).1, (ihv kv.2 c (hx kv hm).2 hc).1, List.length_append]
      refine ⟨by simp only [size, hsz]; exact encodeLenPrefixed_length he, fun hp r => ?_⟩
      obtain ⟨h1, rfl⟩ := encodeLenPrefixed_ok he
      simp only [Progress, Bool.and_eq_true, Bool.or_eq_true] at hp
      have hl : LoopRel (decodePair (decode k) (decode v)) buf kvs := by
        apply LoopRel_of_encodeList kvs buf _ hbuf
        intro kv hm bx hb
        unfold encodePair at hb
        split at hb
        · cases hb
        · rename_i a ha
          split at hb
          · cases hb
          · rename_i c hc
            injection hb with hb; subst hb
            refine ⟨fun r => ?_, ?_⟩
            · simp [decodePair, List.append_assoc, (ihk kv.1 a (hx kv hm).1 ha).2 hp.1.2 (c ++ r),
                (ihv kv.2 c (hx kv hm).2 hc).2 hp.2 r]
            · rw [List.length_append]
              rcases hp.1.1 with hne | hne
              · have := nonEmpty_pos k kv.1 a hne (hx kv hm).1 ha; omega
              · have := nonEmpty_pos v kv.2 c hne (hx kv hm).2 hc; omega
      have hkw : KeysWF k kvs := fun kv hm => (hx kv hm).1
      have hins : insertAll kvs [] = some kvs := by
        have := insertAll_append k kvs [] (by simpa using hkw)
          (by simpa using (sortedKeys_iff_pairwise k kvs hkw).1 hs)
        simpa using this
      simp [decode, decodeCollection, decodeSplit_append buf r h1,
        decodeMapLoop_of_rel hl [] kvs hins]

end MlsVerif.Codec
