import MlsVerif.Model.Hpke
/-
Lemmas about `Model/Hpke.lean` (the HPKE of `mls-rs-crypto-hpke`).  The statements of property C14
are collected in `Props/C14.lean`; this file holds the definitions used to state them (hypotheses on
primitives, message sequences, a toy instance for non-vacuity) and the proofs.
-/
namespace MlsVerif.Hpke

variable {B R R₁ R₂ : Type}

/-! ### Hypotheses on primitives -/

/-- `A₂.open` inverts `A₁.seal` -/
def AeadInverse (A₁ A₂ : Aead B) : Prop :=
  ∀ k n a p c, A₁.sealF k n a p = some c → A₂.openF k n a c = some p

/-- a ciphertext of `A₁` does not open under `A₂` with another nonce or another aad (same key) -/
def AeadBinding (A₁ A₂ : Aead B) : Prop :=
  ∀ k n a p c n' a', A₁.sealF k n a p = some c → (n' ≠ n ∨ a' ≠ a) → A₂.openF k n' a' c = none

/-- both are export-only, or both have an AEAD and the pair satisfies `P` -/
def AeadRel (P : Aead B → Aead B → Prop) (H₁ : Hpke B R₁) (H₂ : Hpke B R₂) : Prop :=
  match H₁.aead, H₂.aead with
  | none, none => True
  | some A₁, some A₂ => P A₁ A₂
  | _, _ => False

/-- the numbers of an AEAD that enter the key schedule -/
def Aead.params (A : Aead B) : Nat × Nat × Nat := (A.aeadId, A.keySize, A.nonceSize)

/-- `H₁` and `H₂` have the same byte operations, the same KDF (as functions), the same KEM id and
the same AEAD id/Nk/Nn (or are both export-only): everything `key_schedule`/`export` depend on.
Nothing is asked of the AEAD and KEM *functions*. -/
structure SameSchedule (H₁ : Hpke B R₁) (H₂ : Hpke B R₂) : Prop where
  ops : H₁.ops = H₂.ops
  kdf : H₁.kdf = H₂.kdf
  kemId : H₁.kem.kemId = H₂.kem.kemId
  aead : H₁.aead.map Aead.params = H₂.aead.map Aead.params

theorem SameSchedule.refl (H : Hpke B R) : SameSchedule H H := ⟨rfl, rfl, rfl, rfl⟩

/-- pointwise agreement of two KDF records -/
structure Kdf.Agree (K₁ K₂ : Kdf B) : Prop where
  kdfId : K₁.kdfId = K₂.kdfId
  extractSize : K₁.extractSize = K₂.extractSize
  extract : ∀ salt ikm, K₁.extract salt ikm = K₂.extract salt ikm
  expand : ∀ prk info len, K₁.expand prk info len = K₂.expand prk info len

theorem Kdf.Agree.eq {K₁ K₂ : Kdf B} (h : Kdf.Agree K₁ K₂) : K₁ = K₂ := by
  cases K₁; cases K₂
  obtain ⟨h1, h2, h3, h4⟩ := h
  simp only at h1 h2 h3 h4
  have e3 := funext fun s => funext fun i => h3 s i
  have e4 := funext fun p => funext fun i => funext fun l => h4 p i l
  subst h1 h2 e3 e4; rfl

/-- pointwise agreement of two AEAD records -/
structure Aead.Agree (A₁ A₂ : Aead B) : Prop where
  aeadId : A₁.aeadId = A₂.aeadId
  keySize : A₁.keySize = A₂.keySize
  nonceSize : A₁.nonceSize = A₂.nonceSize
  sealF : ∀ k n a p, A₁.sealF k n a p = A₂.sealF k n a p
  openF : ∀ k n a c, A₁.openF k n a c = A₂.openF k n a c

theorem Aead.Agree.eq {A₁ A₂ : Aead B} (h : Aead.Agree A₁ A₂) : A₁ = A₂ := by
  cases A₁; cases A₂
  obtain ⟨h1, h2, h3, h4, h5⟩ := h
  simp only at h1 h2 h3 h4 h5
  have e4 := funext fun k => funext fun n => funext fun a => funext fun p => h4 k n a p
  have e5 := funext fun k => funext fun n => funext fun a => funext fun p => h5 k n a p
  subst h1 h2 h3 e4 e5; rfl

/-- pointwise agreement of two KEM records -/
structure Kem.Agree (K₁ K₂ : Kem B R) : Prop where
  kemId : K₁.kemId = K₂.kemId
  encap : ∀ pk rnd, K₁.encap pk rnd = K₂.encap pk rnd
  decap : ∀ enc sk pk, K₁.decap enc sk pk = K₂.decap enc sk pk
  generateDeterministic : ∀ seed, K₁.generateDeterministic seed = K₂.generateDeterministic seed

theorem Kem.Agree.eq {K₁ K₂ : Kem B R} (h : Kem.Agree K₁ K₂) : K₁ = K₂ := by
  cases K₁; cases K₂
  obtain ⟨h1, h2, h3, h4⟩ := h
  simp only at h1 h2 h3 h4
  have e2 := funext fun p => funext fun r => h2 p r
  have e3 := funext fun e => funext fun s => funext fun p => h3 e s p
  have e4 := funext fun s => h4 s
  subst h1 e2 e3 e4; rfl

/-- pointwise agreement of the byte operations -/
structure ByteOps.Agree (O₁ O₂ : ByteOps B) : Prop where
  cat : ∀ a b, O₁.cat a b = O₂.cat a b
  size : ∀ b, O₁.size b = O₂.size b
  bytes : ∀ b, O₁.bytes b = O₂.bytes b
  ofBytes : ∀ l, O₁.ofBytes l = O₂.ofBytes l

theorem ByteOps.Agree.eq {O₁ O₂ : ByteOps B} (h : ByteOps.Agree O₁ O₂) : O₁ = O₂ := by
  cases O₁; cases O₂
  obtain ⟨h1, h2, h3, h4⟩ := h
  simp only at h1 h2 h3 h4
  have e1 := funext fun a => funext fun b => h1 a b
  have e2 := funext fun b => h2 b
  have e3 := funext fun b => h3 b
  have e4 := funext fun l => h4 l
  subst e1 e2 e3 e4; rfl

/-- two providers' HPKE records agree pointwise on every primitive and every parameter -/
structure Hpke.Agree (H₁ H₂ : Hpke B R) : Prop where
  ops : ByteOps.Agree H₁.ops H₂.ops
  kem : Kem.Agree H₁.kem H₂.kem
  kdf : Kdf.Agree H₁.kdf H₂.kdf
  aead : AeadRel Aead.Agree H₁ H₂

theorem Hpke.Agree.eq {H₁ H₂ : Hpke B R} (h : Hpke.Agree H₁ H₂) : H₁ = H₂ := by
  obtain ⟨h1, h2, h3, h4⟩ := h
  cases H₁ with | mk o₁ k₁ d₁ a₁ => cases H₂ with | mk o₂ k₂ d₂ a₂ =>
  simp only at h1 h2 h3
  have e1 := h1.eq; have e2 := h2.eq; have e3 := h3.eq
  subst e1 e2 e3
  cases a₁ <;> cases a₂ <;> simp only [AeadRel] at h4
  · rfl
  · rw [h4.eq]

/-- pointwise agreement of two DH records -/
structure Dh.Agree (D₁ D₂ : Dh B) : Prop where
  dh : ∀ sk pk, D₁.dh sk pk = D₂.dh sk pk
  toPublic : ∀ sk, D₁.toPublic sk = D₂.toPublic sk
  sampling : D₁.sampling = D₂.sampling
  secretKeySize : D₁.secretKeySize = D₂.secretKeySize
  publicKeySize : D₁.publicKeySize = D₂.publicKeySize

theorem Dh.Agree.eq {D₁ D₂ : Dh B} (h : Dh.Agree D₁ D₂) : D₁ = D₂ := by
  cases D₁; cases D₂
  obtain ⟨h1, h2, h3, h4, h5⟩ := h
  simp only at h1 h2 h3 h4 h5
  have e1 := funext fun s => funext fun p => h1 s p
  have e2 := funext fun s => h2 s
  subst e1 e2 h3 h4 h5; rfl

/-- two providers' DHKEM records agree pointwise -/
structure DhKem.Agree (D₁ D₂ : DhKem B) : Prop where
  ops : ByteOps.Agree D₁.ops D₂.ops
  dh : Dh.Agree D₁.dh D₂.dh
  kdf : Kdf.Agree D₁.kdf D₂.kdf
  kemId : D₁.kemId = D₂.kemId
  nSecret : D₁.nSecret = D₂.nSecret

theorem DhKem.Agree.eq {D₁ D₂ : DhKem B} (h : DhKem.Agree D₁ D₂) : D₁ = D₂ := by
  obtain ⟨h1, h2, h3, h4, h5⟩ := h
  cases D₁; cases D₂
  simp only at h1 h2 h3 h4 h5
  have e1 := h1.eq; have e2 := h2.eq; have e3 := h3.eq
  subst e1 e2 e3 h4 h5; rfl

/-! ### Nonces -/

theorem toUInt8_inj {x y : Nat} (hx : x < 256) (hy : y < 256) (h : x.toUInt8 = y.toUInt8) : x = y := by
  have := congrArg UInt8.toNat h
  simp [Nat.toUInt8, UInt8.toNat_ofNat'] at this
  omega

theorem xorLE_length (l : List UInt8) (s k : Nat) : (xorLE l s k).length = l.length := by
  induction l generalizing s k with
  | nil => simp [xorLE]
  | cons b t ih =>
    cases k with
    | zero => simp [xorLE]
    | succ k => simp [xorLE, ih]

theorem xorLE_inj (l : List UInt8) (k s s' : Nat)
    (hs : s < 256 ^ min l.length k) (hs' : s' < 256 ^ min l.length k)
    (h : xorLE l s k = xorLE l s' k) : s = s' := by
  induction l generalizing s s' k with
  | nil => simp at hs hs'; omega
  | cons b t ih =>
    cases k with
    | zero => simp at hs hs'; omega
    | succ k =>
      simp only [xorLE, List.cons.injEq] at h
      have hmin : min (b :: t).length (k + 1) = min t.length k + 1 := by simp
      rw [hmin, Nat.pow_succ] at hs hs'
      have h1 := toUInt8_inj (Nat.mod_lt _ (by omega)) (Nat.mod_lt _ (by omega))
        ((UInt8.xor_right_inj b).mp h.1)
      have h2 := ih k (s / 256) (s' / 256)
        (by apply Nat.div_lt_of_lt_mul; rw [Nat.mul_comm]; exact hs)
        (by apply Nat.div_lt_of_lt_mul; rw [Nat.mul_comm]; exact hs') h.2
      omega

theorem xorSeq_length (n : List UInt8) (s : Nat) : (xorSeq n s).length = n.length := by
  simp [xorSeq, xorLE_length]

/-- `compute_nonce` is injective in the sequence number below `256 ^ min(Nn, 8)` -/
theorem xorSeq_inj (n : List UInt8) (s s' : Nat)
    (hs : s < 256 ^ min n.length 8) (hs' : s' < 256 ^ min n.length 8)
    (h : xorSeq n s = xorSeq n s') : s = s' := by
  unfold xorSeq at h
  have h' := congrArg List.reverse h
  simp only [List.reverse_reverse] at h'
  exact xorLE_inj n.reverse 8 s s' (by simpa using hs) (by simpa using hs') h'

/-- for `Nn ≥ 8` every `u64` sequence number gives its own nonce -/
theorem xorSeq_inj_u64 (n : List UInt8) (s s' : Nat) (hn : 8 ≤ n.length)
    (hs : s < seqLimit) (hs' : s' < seqLimit) (h : xorSeq n s = xorSeq n s') : s = s' := by
  have h8 : min n.length 8 = 8 := by omega
  have e : (256 : Nat) ^ 8 = seqLimit := by decide
  exact xorSeq_inj n s s' (by rw [h8, e]; exact hs) (by rw [h8, e]; exact hs') h

theorem computeNonce_inj (O : ByteOps B) (hO : O.Lawful) (base : B) (s s' : Nat)
    (hn : 8 ≤ (O.bytes base).length) (hs : s < seqLimit) (hs' : s' < seqLimit)
    (h : computeNonce O base s = computeNonce O base s') : s = s' := by
  unfold computeNonce at h
  have h' := congrArg O.bytes h
  rw [hO.bytes_ofBytes, hO.bytes_ofBytes] at h'
  exact xorSeq_inj_u64 _ s s' hn hs hs' h'

/-! ### Key schedule -/

theorem suiteId_congr {H₁ : Hpke B R₁} {H₂ : Hpke B R₂} (h : SameSchedule H₁ H₂) :
    H₁.suiteId = H₂.suiteId := by
  obtain ⟨h1, h2, h3, h4⟩ := h
  cases H₁ with | mk o₁ k₁ d₁ a₁ => cases H₂ with | mk o₂ k₂ d₂ a₂ =>
  simp only at h1 h2 h3 h4
  subst h1 h2
  cases a₁ <;> cases a₂ <;> simp [Aead.params] at h4
  · simp [Hpke.suiteId, Hpke.aeadId, h3]
  · simp [Hpke.suiteId, Hpke.aeadId, h3, h4.1]

theorem keySchedule_congr {H₁ : Hpke B R₁} {H₂ : Hpke B R₂} (h : SameSchedule H₁ H₂)
    (mode : Nat) (ss info : B) (psk : Option (Psk B)) :
    H₁.keySchedule mode ss info psk = H₂.keySchedule mode ss info psk := by
  have hs := suiteId_congr h
  obtain ⟨h1, h2, _, h4⟩ := h
  have henc : ∀ secret ksc, H₁.encryptionContext secret ksc = H₂.encryptionContext secret ksc := by
    intro secret ksc
    unfold Hpke.encryptionContext
    rw [hs, h1, h2]
    cases e1 : H₁.aead <;> cases e2 : H₂.aead <;> simp [e1, e2, Aead.params] at h4
    · rfl
    · obtain ⟨_, hk, hn⟩ := h4
      simp only [hk, hn, EncCtx.new]
  unfold Hpke.keySchedule
  simp only [hs, h1, h2, henc]

theorem exportSecret_congr {H₁ : Hpke B R₁} {H₂ : Hpke B R₂} (h : SameSchedule H₁ H₂)
    (c : Context B) (ec : B) (len : Nat) :
    H₁.exportSecret c ec len = H₂.exportSecret c ec len := by
  have hs := suiteId_congr h
  unfold Hpke.exportSecret
  rw [hs, h.ops, h.kdf]

/-- (a), cross-provider form -/
theorem setupReceiver_eq_sender {H₁ : Hpke B R₁} {H₂ : Hpke B R₂} (h : SameSchedule H₁ H₂)
    {skR pkR : B} (rnd : R₁) (info : B) (psk : Option (Psk B))
    {ss enc : B} (he : H₁.kem.encap pkR rnd = some (ss, enc))
    (hd : H₂.kem.decap enc skR pkR = some ss) :
    H₂.setupReceiver enc skR pkR info psk = (H₁.setupSender pkR rnd info psk).map Prod.snd ∧
    ∀ e ctx, H₁.setupSender pkR rnd info psk = .ok (e, ctx) → e = enc := by
  unfold Hpke.setupReceiver Hpke.setupSender
  rw [hd, he]
  simp only
  rw [keySchedule_congr h]
  cases H₂.keySchedule (baseMode psk) ss info psk with
  | error e => exact ⟨rfl, by intro _ _ h; cases h⟩
  | ok c => exact ⟨rfl, by intro _ _ h; cases h; rfl⟩

theorem keySchedule_enc (H : Hpke B R) {mode : Nat} {ss info : B} {psk : Option (Psk B)}
    {c : Context B} (h : H.keySchedule mode ss info psk = .ok c) :
    ∃ secret ksc, H.encryptionContext secret ksc = .ok c.enc := by
  simp only [Hpke.keySchedule] at h
  split at h
  · cases h
  split at h
  · cases h
  split at h
  · cases h
  split at h
  · cases h
  split at h
  · cases h
  split at h
  · cases h
  cases h
  exact ⟨_, _, by assumption⟩

theorem EncCtx.new_ok (O : ByteOps B) (A : Aead B) {n k : B} {e : EncCtx B}
    (h : EncCtx.new O A n k = .ok e) :
    e = { baseNonce := n, seq := 0, key := k } ∧ O.size k = A.keySize ∧ O.size n = A.nonceSize := by
  unfold EncCtx.new at h
  by_cases h1 : O.size n = A.nonceSize
  · by_cases h2 : O.size k = A.keySize
    · simp only [h1, h2, ne_eq, not_true_eq_false, if_false, Except.ok.injEq] at h
      exact ⟨h.symm, h2, h1⟩
    · simp only [h1, ne_eq, not_true_eq_false, if_false, h2, not_false_eq_true, if_true] at h
      cases h
  · simp only [ne_eq, h1, not_false_eq_true, if_true] at h
    cases h

/-- a context made by `key_schedule` starts at sequence number 0, has key and nonce of the AEAD's
sizes, and has an encryption part iff the construction is not export-only -/
theorem keySchedule_ok (H : Hpke B R) {mode : Nat} {ss info : B} {psk : Option (Psk B)}
    {c : Context B} (h : H.keySchedule mode ss info psk = .ok c) :
    match H.aead, c.enc with
    | none, none => True
    | some A, some e => e.seq = 0 ∧ H.ops.size e.key = A.keySize ∧ H.ops.size e.baseNonce = A.nonceSize
    | _, _ => False := by
  obtain ⟨secret, ksc, henc⟩ := keySchedule_enc H h
  unfold Hpke.encryptionContext at henc
  cases ha : H.aead with
  | none =>
    simp only [ha, Except.ok.injEq] at henc
    rw [← henc]; trivial
  | some A =>
    simp only [ha] at henc
    split at henc
    · cases henc
    split at henc
    · cases henc
    split at henc
    · cases henc
    rename_i ec hec
    simp only [Except.ok.injEq] at henc
    rw [← henc]
    obtain ⟨rfl, h2, h3⟩ := EncCtx.new_ok _ _ hec
    exact ⟨rfl, h2, h3⟩

/-! ### PSK rules -/

theorem checkPsk_ok_iff (O : ByteOps B) (psk : Option (Psk B)) :
    checkPsk O psk = .ok () ↔ ∀ p, psk = some p → 32 ≤ O.size p.value := by
  cases psk with
  | none => simp [checkPsk]
  | some p =>
    simp only [checkPsk, Option.some.injEq, forall_eq']
    by_cases h : O.size p.value < 32
    · simp only [h, if_true]
      constructor
      · intro h'; cases h'
      · intro h'; omega
    · simp only [h, if_false, true_iff]; omega

theorem checkPsk_error (O : ByteOps B) (psk : Option (Psk B)) (e : Err)
    (h : checkPsk O psk = .error e) : e = .insufficientPskLength := by
  cases psk with
  | none => simp [checkPsk] at h
  | some p =>
    simp only [checkPsk] at h
    split at h
    · cases h; rfl
    · cases h

theorem keySchedule_short_psk (H : Hpke B R) (mode : Nat) (ss info : B) (p : Psk B)
    (h : H.ops.size p.value < 32) :
    H.keySchedule mode ss info (some p) = .error .insufficientPskLength := by
  simp [Hpke.keySchedule, checkPsk, h]

/-! ### Contexts: single steps -/

theorem incrementSeq_ok {e e' : EncCtx B} (h : incrementSeq e = .ok e') :
    e' = { e with seq := e.seq + 1 } ∧ e.seq + 1 < seqLimit := by
  unfold incrementSeq at h
  split at h
  · cases h; exact ⟨rfl, by assumption⟩
  · cases h

theorem incrementSeq_max {e : EncCtx B} (h : seqLimit ≤ e.seq + 1) :
    incrementSeq e = .error .sequenceNumberOverflow := by
  unfold incrementSeq
  rw [if_neg (by omega)]

theorem EncCtx.sealMsg_ok (O : ByteOps B) (A : Aead B) {e e' : EncCtx B} {aad : Option B} {pt ct : B}
    (h : e.sealMsg O A aad pt = .ok (ct, e')) :
    A.sealF e.key (computeNonce O e.baseNonce e.seq) aad pt = some ct ∧ e.seq + 1 < seqLimit ∧
      e' = { e with seq := e.seq + 1 } := by
  unfold EncCtx.sealMsg at h
  cases hs : A.sealF e.key (computeNonce O e.baseNonce e.seq) aad pt with
  | none => rw [hs] at h; cases h
  | some ct' =>
    rw [hs] at h
    by_cases hlt : e.seq + 1 < seqLimit
    · simp only [incrementSeq, if_pos hlt, Except.ok.injEq, Prod.mk.injEq] at h
      obtain ⟨rfl, rfl⟩ := h; exact ⟨rfl, hlt, rfl⟩
    · simp only [incrementSeq, if_neg hlt] at h; cases h

theorem EncCtx.openMsg_ok (O : ByteOps B) (A : Aead B) {e e' : EncCtx B} {aad : Option B} {pt ct : B}
    (h : e.openMsg O A aad ct = .ok (pt, e')) :
    A.openF e.key (computeNonce O e.baseNonce e.seq) aad ct = some pt ∧ e.seq + 1 < seqLimit ∧
      e' = { e with seq := e.seq + 1 } := by
  unfold EncCtx.openMsg at h
  cases hs : A.openF e.key (computeNonce O e.baseNonce e.seq) aad ct with
  | none => rw [hs] at h; cases h
  | some pt' =>
    rw [hs] at h
    by_cases hlt : e.seq + 1 < seqLimit
    · simp only [incrementSeq, if_pos hlt, Except.ok.injEq, Prod.mk.injEq] at h
      obtain ⟨rfl, rfl⟩ := h; exact ⟨rfl, hlt, rfl⟩
    · simp only [incrementSeq, if_neg hlt] at h; cases h

/-- what a successful `seal` did -/
theorem sealMsg_ok (H : Hpke B R) {c c' : Context B} {aad : Option B} {pt ct : B}
    (h : H.sealMsg c aad pt = .ok (ct, c')) :
    ∃ A e, H.aead = some A ∧ c.enc = some e ∧
      A.sealF e.key (computeNonce H.ops e.baseNonce e.seq) aad pt = some ct ∧
      e.seq + 1 < seqLimit ∧
      c' = { c with enc := some { e with seq := e.seq + 1 } } := by
  unfold Hpke.sealMsg at h
  cases he : c.enc with
  | none => simp only [he] at h; cases h
  | some e =>
    cases hA : H.aead with
    | none => simp only [he, hA] at h; cases h
    | some A =>
      simp only [he, hA] at h
      cases hr : e.sealMsg H.ops A aad pt with
      | error err => rw [hr] at h; cases h
      | ok r =>
        obtain ⟨ct', e'⟩ := r
        rw [hr] at h
        simp only [Except.ok.injEq, Prod.mk.injEq] at h
        obtain ⟨rfl, rfl⟩ := h
        obtain ⟨h1, h2, rfl⟩ := EncCtx.sealMsg_ok _ _ hr
        exact ⟨A, e, rfl, rfl, h1, h2, rfl⟩

/-- what a successful `open` did -/
theorem openMsg_ok (H : Hpke B R) {c c' : Context B} {aad : Option B} {pt ct : B}
    (h : H.openMsg c aad ct = .ok (pt, c')) :
    ∃ A e, H.aead = some A ∧ c.enc = some e ∧
      A.openF e.key (computeNonce H.ops e.baseNonce e.seq) aad ct = some pt ∧
      e.seq + 1 < seqLimit ∧
      c' = { c with enc := some { e with seq := e.seq + 1 } } := by
  unfold Hpke.openMsg at h
  cases he : c.enc with
  | none => simp only [he] at h; cases h
  | some e =>
    cases hA : H.aead with
    | none => simp only [he, hA] at h; cases h
    | some A =>
      simp only [he, hA] at h
      cases hr : e.openMsg H.ops A aad ct with
      | error err => rw [hr] at h; cases h
      | ok r =>
        obtain ⟨pt', e'⟩ := r
        rw [hr] at h
        simp only [Except.ok.injEq, Prod.mk.injEq] at h
        obtain ⟨rfl, rfl⟩ := h
        obtain ⟨h1, h2, rfl⟩ := EncCtx.openMsg_ok _ _ hr
        exact ⟨A, e, rfl, rfl, h1, h2, rfl⟩

/-- `open` from its ingredients -/
theorem openMsg_of (H : Hpke B R) {A : Aead B} {c : Context B} {e : EncCtx B} {aad : Option B}
    {pt ct : B} (hA : H.aead = some A) (he : c.enc = some e)
    (ho : A.openF e.key (computeNonce H.ops e.baseNonce e.seq) aad ct = some pt)
    (hlt : e.seq + 1 < seqLimit) :
    H.openMsg c aad ct = .ok (pt, { c with enc := some { e with seq := e.seq + 1 } }) := by
  unfold Hpke.openMsg
  rw [he, hA]
  simp only [EncCtx.openMsg, ho, incrementSeq, if_pos hlt]

theorem openMsg_aead_fail (H : Hpke B R) {A : Aead B} {c : Context B} {e : EncCtx B}
    {aad : Option B} {ct : B} (hA : H.aead = some A) (he : c.enc = some e)
    (ho : A.openF e.key (computeNonce H.ops e.baseNonce e.seq) aad ct = none) :
    H.openMsg c aad ct = .error .aeadError := by
  unfold Hpke.openMsg
  rw [he, hA]
  simp only [EncCtx.openMsg, ho]

/-- export-only: `seal`/`open` fail with `ExportOnlyMode` whatever the context -/
theorem sealMsg_exportOnly (H : Hpke B R) (h : H.aead = none) (c : Context B) (aad : Option B) (pt : B) :
    H.sealMsg c aad pt = .error .exportOnlyMode := by
  unfold Hpke.sealMsg; rw [h]; cases c.enc <;> rfl

theorem openMsg_exportOnly (H : Hpke B R) (h : H.aead = none) (c : Context B) (aad : Option B) (ct : B) :
    H.openMsg c aad ct = .error .exportOnlyMode := by
  unfold Hpke.openMsg; rw [h]; cases c.enc <;> rfl

/-- at the last sequence number `seal` never succeeds; when the AEAD itself succeeds the error is
`SequenceNumberOverflow` -/
theorem sealMsg_at_max (H : Hpke B R) {c : Context B} {e : EncCtx B} (he : c.enc = some e)
    (hmax : seqLimit ≤ e.seq + 1) (aad : Option B) (pt : B) :
    (∀ r, H.sealMsg c aad pt ≠ .ok r) ∧
    (∀ A ct, H.aead = some A →
      A.sealF e.key (computeNonce H.ops e.baseNonce e.seq) aad pt = some ct →
      H.sealMsg c aad pt = .error .sequenceNumberOverflow) := by
  constructor
  · intro ⟨ct, c'⟩ h
    obtain ⟨A, e', _, he', _, hlt, _⟩ := sealMsg_ok H h
    rw [he] at he'; cases he'; omega
  · intro A ct hA hs
    unfold Hpke.sealMsg
    rw [he, hA]
    simp only [EncCtx.sealMsg, hs, incrementSeq_max hmax]

theorem openMsg_at_max (H : Hpke B R) {c : Context B} {e : EncCtx B} (he : c.enc = some e)
    (hmax : seqLimit ≤ e.seq + 1) (aad : Option B) (ct : B) :
    (∀ r, H.openMsg c aad ct ≠ .ok r) ∧
    (∀ A pt, H.aead = some A →
      A.openF e.key (computeNonce H.ops e.baseNonce e.seq) aad ct = some pt →
      H.openMsg c aad ct = .error .sequenceNumberOverflow) := by
  constructor
  · intro ⟨pt, c'⟩ h
    obtain ⟨A, e', _, he', _, hlt, _⟩ := openMsg_ok H h
    rw [he] at he'; cases he'; omega
  · intro A pt hA hs
    unfold Hpke.openMsg
    rw [he, hA]
    simp only [EncCtx.openMsg, hs, incrementSeq_max hmax]

/-! ### Message sequences -/

/-- seal the messages `(aad, pt)` in order, threading the context -/
def sealMany (H : Hpke B R) (c : Context B) : List (Option B × B) → Except Err (List B × Context B)
  | [] => .ok ([], c)
  | (aad, pt) :: rest =>
    match H.sealMsg c aad pt with
    | .error e => .error e
    | .ok (ct, c') =>
      match sealMany H c' rest with
      | .error e => .error e
      | .ok (cts, c'') => .ok (ct :: cts, c'')

/-- open the messages `(aad, ct)` in order, threading the context -/
def openMany (H : Hpke B R) (c : Context B) : List (Option B × B) → Except Err (List B × Context B)
  | [] => .ok ([], c)
  | (aad, ct) :: rest =>
    match H.openMsg c aad ct with
    | .error e => .error e
    | .ok (pt, c') =>
      match openMany H c' rest with
      | .error e => .error e
      | .ok (pts, c'') => .ok (pt :: pts, c'')

/-- one step of (b): what `H₁` sealed `H₂` opens, and both contexts move to the same state -/
theorem open_of_seal {H₁ : Hpke B R₁} {H₂ : Hpke B R₂} (hops : H₁.ops = H₂.ops)
    (hinv : AeadRel AeadInverse H₁ H₂) {c c' : Context B} {aad : Option B} {pt ct : B}
    (h : H₁.sealMsg c aad pt = .ok (ct, c')) : H₂.openMsg c aad ct = .ok (pt, c') := by
  obtain ⟨A₁, e, hA, he, hs, hlt, rfl⟩ := sealMsg_ok H₁ h
  unfold AeadRel at hinv
  rw [hA] at hinv
  cases hA2 : H₂.aead with
  | none => simp [hA2] at hinv
  | some A₂ =>
    simp only [hA2] at hinv
    exact openMsg_of H₂ hA2 he (hops ▸ hinv _ _ _ _ _ hs) hlt

/-- (b) -/
theorem openMany_of_sealMany {H₁ : Hpke B R₁} {H₂ : Hpke B R₂} (hops : H₁.ops = H₂.ops)
    (hinv : AeadRel AeadInverse H₁ H₂) (msgs : List (Option B × B)) (c c' : Context B) (cts : List B)
    (h : sealMany H₁ c msgs = .ok (cts, c')) :
    openMany H₂ c ((msgs.map Prod.fst).zip cts) = .ok (msgs.map Prod.snd, c') ∧
    cts.length = msgs.length := by
  induction msgs generalizing c cts with
  | nil => simp only [sealMany, Except.ok.injEq, Prod.mk.injEq] at h; obtain ⟨rfl, rfl⟩ := h; exact ⟨rfl, rfl⟩
  | cons m rest ih =>
    obtain ⟨aad, pt⟩ := m
    simp only [sealMany] at h
    split at h
    · cases h
    · rename_i ct c₁ h1
      split at h
      · cases h
      · rename_i cts' c₂ h2
        simp only [Except.ok.injEq, Prod.mk.injEq] at h
        obtain ⟨rfl, rfl⟩ := h
        obtain ⟨ih1, ih2⟩ := ih c₁ cts' h2
        have ho := open_of_seal hops hinv h1
        simp only [List.map_cons, List.zip_cons_cons, openMany, ho, ih1, List.length_cons, ih2, and_self]

/-- the sequence number after `n` successful seals -/
theorem sealMany_seq (H : Hpke B R) (msgs : List (Option B × B)) (c c' : Context B) (cts : List B)
    (h : sealMany H c msgs = .ok (cts, c')) :
    c'.exporterSecret = c.exporterSecret ∧
    (msgs = [] → c' = c) ∧
    (msgs ≠ [] → ∃ e e', c.enc = some e ∧ c'.enc = some e' ∧ e'.seq = e.seq + msgs.length ∧
      e'.seq < seqLimit ∧ e'.key = e.key ∧ e'.baseNonce = e.baseNonce) := by
  induction msgs generalizing c cts with
  | nil =>
    simp only [sealMany, Except.ok.injEq, Prod.mk.injEq] at h
    obtain ⟨rfl, rfl⟩ := h
    exact ⟨rfl, fun _ => rfl, fun h => absurd rfl h⟩
  | cons m rest ih =>
    obtain ⟨aad, pt⟩ := m
    simp only [sealMany] at h
    split at h
    · cases h
    · rename_i ct c₁ h1
      split at h
      · cases h
      · rename_i cts' c₂ h2
        simp only [Except.ok.injEq, Prod.mk.injEq] at h
        obtain ⟨rfl, rfl⟩ := h
        obtain ⟨A, e, _, he, _, hlt, rfl⟩ := sealMsg_ok H h1
        obtain ⟨i1, i2, i3⟩ := ih _ cts' h2
        refine ⟨by rw [i1], (fun h => by cases h), fun _ => ?_⟩
        cases rest with
        | nil =>
          rw [i2 rfl]
          exact ⟨e, _, he, rfl, by simp, by simpa using hlt, rfl, rfl⟩
        | cons m' rest' =>
          obtain ⟨e₁, e', h3, h4, h5, h6, h7, h8⟩ := i3 (by simp)
          simp only [Option.some.injEq] at h3
          subst h3
          exact ⟨e, e', he, h4, by simp only [List.length_cons] at h5 ⊢; omega, h6, h7, h8⟩

/-- the ciphertexts of a successful run: message `i` is sealed under the nonce of `seq + i` -/
def expectedCts (O : ByteOps B) (A : Aead B) (key base : B) : Nat → List (Option B × B) → List (Option B)
  | _, [] => []
  | s, (aad, pt) :: rest =>
    A.sealF key (computeNonce O base s) aad pt :: expectedCts O A key base (s + 1) rest

theorem sealMany_cts (H : Hpke B R) (msgs : List (Option B × B)) (c c' : Context B) (cts : List B)
    {A : Aead B} {e : EncCtx B} (hA : H.aead = some A) (he : c.enc = some e)
    (h : sealMany H c msgs = .ok (cts, c')) :
    cts.map some = expectedCts H.ops A e.key e.baseNonce e.seq msgs := by
  induction msgs generalizing c cts e with
  | nil =>
    simp only [sealMany, Except.ok.injEq, Prod.mk.injEq] at h
    obtain ⟨rfl, rfl⟩ := h; rfl
  | cons m rest ih =>
    obtain ⟨aad, pt⟩ := m
    simp only [sealMany] at h
    split at h
    · cases h
    · rename_i ct c₁ h1
      split at h
      · cases h
      · rename_i cts' c₂ h2
        simp only [Except.ok.injEq, Prod.mk.injEq] at h
        obtain ⟨rfl, rfl⟩ := h
        obtain ⟨A', e₀, hA', he', hs, _, rfl⟩ := sealMsg_ok H h1
        rw [hA] at hA'; cases hA'
        rw [he] at he'; cases he'
        have := ih _ cts' (e := { e with seq := e.seq + 1 }) rfl h2
        simp only [List.map_cons, expectedCts, hs, this]

/-- a ciphertext does not open with another aad when the AEAD is binding -/
theorem open_wrong_aad {H₁ : Hpke B R₁} {H₂ : Hpke B R₂} (hops : H₁.ops = H₂.ops)
    (hb : AeadRel AeadBinding H₁ H₂) {c c' : Context B} {aad aad' : Option B} {pt ct : B}
    (h : H₁.sealMsg c aad pt = .ok (ct, c')) (hne : aad' ≠ aad) :
    H₂.openMsg c aad' ct = .error .aeadError := by
  obtain ⟨A₁, e, hA, he, hs, _, _⟩ := sealMsg_ok H₁ h
  unfold AeadRel at hb
  rw [hA] at hb
  cases hA2 : H₂.aead with
  | none => simp [hA2] at hb
  | some A₂ =>
    simp only [hA2] at hb
    exact openMsg_aead_fail H₂ hA2 he (hops ▸ hb _ _ _ _ _ _ aad' hs (Or.inr hne))

/-- a ciphertext sealed at sequence number `e.seq` does not open in a receiver context (same key and
base nonce) that stands at another sequence number, when the AEAD is binding and `Nn ≥ 8` -/
theorem open_out_of_order {H₁ : Hpke B R₁} {H₂ : Hpke B R₂} (hops : H₁.ops = H₂.ops)
    (hO : H₁.ops.Lawful) (hb : AeadRel AeadBinding H₁ H₂) {c c' : Context B} {aad aad' : Option B}
    {pt ct : B} (h : H₁.sealMsg c aad pt = .ok (ct, c')) {e eR : EncCtx B} (he : c.enc = some e)
    {cR : Context B} (heR : cR.enc = some eR) (hk : eR.key = e.key) (hn : eR.baseNonce = e.baseNonce)
    (hseq : eR.seq ≠ e.seq) (hlt : eR.seq < seqLimit) (h8 : 8 ≤ (H₁.ops.bytes e.baseNonce).length) :
    H₂.openMsg cR aad' ct = .error .aeadError := by
  obtain ⟨A₁, e₀, hA, he₀, hs, hlt₀, _⟩ := sealMsg_ok H₁ h
  rw [he] at he₀; cases he₀
  unfold AeadRel at hb
  rw [hA] at hb
  cases hA2 : H₂.aead with
  | none => simp [hA2] at hb
  | some A₂ =>
    simp only [hA2] at hb
    apply openMsg_aead_fail H₂ hA2 heR
    rw [hk, hn, ← hops]
    apply hb _ _ _ _ _ _ aad' hs
    left
    intro hc
    exact hseq (computeNonce_inj H₁.ops hO e.baseNonce eR.seq e.seq h8 hlt (by omega) hc)

/-- nonces of distinct sequence numbers differ (`Nn ≥ 8`) -/
theorem computeNonce_ne (O : ByteOps B) (hO : O.Lawful) (base : B) (s s' : Nat)
    (hn : 8 ≤ (O.bytes base).length) (hs : s < seqLimit) (hs' : s' < seqLimit) (hne : s ≠ s') :
    computeNonce O base s ≠ computeNonce O base s' :=
  fun h => hne (computeNonce_inj O hO base s s' hn hs hs' h)

/-! ### DHKEM -/

/-- (f): with a DH that commutes across the two providers for the key pairs involved, `decap` of the
receiver (`D₂`) is `encap` of the sender (`D₁`): same shared secret, same class of error -/
theorem DhKem.decap_eq_encap_cross (D₁ D₂ : DhKem B) (hops : D₁.ops = D₂.ops) (hkdf : D₁.kdf = D₂.kdf)
    (hid : D₁.kemId = D₂.kemId) (hns : D₁.nSecret = D₂.nSecret) {skE pkE skR pkR : B}
    (hdh : D₁.dh.dh skE pkR = D₂.dh.dh skR pkE) :
    D₂.decap pkE skR pkR = (D₁.encap pkR (some (skE, pkE))).map Prod.fst := by
  have hss : ∀ v e p, D₁.sharedSecret v e p = D₂.sharedSecret v e p := by
    intro v e p
    unfold DhKem.sharedSecret DhKem.suiteId DhKem.kemContext
    rw [hops, hkdf, hid, hns]
  unfold DhKem.decap DhKem.encap
  simp only [hdh, hss]
  cases D₂.dh.dh skR pkE with
  | none => rfl
  | some v =>
    simp only
    cases D₂.sharedSecret v pkE pkR <;> rfl

theorem DhKem.decap_eq_encap (D : DhKem B) {skE pkE skR pkR : B}
    (hdh : D.dh.dh skE pkR = D.dh.dh skR pkE) :
    D.decap pkE skR pkR = (D.encap pkR (some (skE, pkE))).map Prod.fst :=
  DhKem.decap_eq_encap_cross D D rfl rfl rfl rfl hdh

theorem DhKem.encap_enc (D : DhKem B) {skE pkE pkR ss enc : B}
    (h : D.encap pkR (some (skE, pkE)) = .ok (ss, enc)) : enc = pkE := by
  unfold DhKem.encap at h
  simp only at h
  split at h <;> try cases h
  split at h <;> try cases h
  rfl

/-- injectivity of `bytes` under the laws -/
theorem ByteOps.Lawful.bytes_inj {O : ByteOps B} (hO : O.Lawful) {a b : B}
    (h : O.bytes a = O.bytes b) : a = b := by
  rw [← hO.ofBytes_bytes a, ← hO.ofBytes_bytes b, h]

/-- `kem_context` determines `enc` and `pkR` (encapsulated keys have a fixed length) -/
theorem DhKem.kemContext_inj (D : DhKem B) (hO : D.ops.Lawful) {enc enc' pkR pkR' : B}
    (hl : D.ops.size enc = D.ops.size enc')
    (h : D.kemContext enc pkR = D.kemContext enc' pkR') : enc = enc' ∧ pkR = pkR' := by
  unfold DhKem.kemContext at h
  simp only [ByteOps.concat] at h
  have h' := congrArg D.ops.bytes h
  rw [hO.bytes_cat, hO.bytes_cat] at h'
  rw [hO.size_eq, hO.size_eq] at hl
  obtain ⟨h1, h2⟩ := List.append_inj h' hl
  exact ⟨hO.bytes_inj h1, hO.bytes_inj h2⟩

/-- the sampling loop returns the first candidate the provider accepts -/
theorem DhKem.sampleLoop_first (D : DhKem B) (prk : B) (mask : UInt8) (fuel i j : Nat) (sk pk : B)
    (hj : j < fuel)
    (hbad : ∀ k, k < j → ∃ c, D.candidate prk mask (i + k) = some c ∧ D.dh.toPublic c = none)
    (hc : D.candidate prk mask (i + j) = some sk) (hp : D.dh.toPublic sk = some pk) :
    D.sampleLoop prk mask fuel i = .ok (sk, pk) := by
  induction j generalizing fuel i with
  | zero =>
    cases fuel with
    | zero => omega
    | succ f => simp only [Nat.add_zero] at hc; simp only [DhKem.sampleLoop, hc, hp]
  | succ j ih =>
    cases fuel with
    | zero => omega
    | succ f =>
      obtain ⟨c, h1, h2⟩ := hbad 0 (by omega)
      simp only [Nat.add_zero] at h1
      simp only [DhKem.sampleLoop, h1, h2]
      apply ih f (i + 1) (by omega)
      · intro k hk
        have := hbad (k + 1) (by omega)
        rwa [show i + (k + 1) = i + 1 + k by omega] at this
      · rwa [show i + (j + 1) = i + 1 + j by omega] at hc

/-- all candidates refused: `KeyDerivationError` after exactly `fuel` attempts -/
theorem DhKem.sampleLoop_exhausted (D : DhKem B) (prk : B) (mask : UInt8) (fuel i : Nat)
    (hbad : ∀ k, k < fuel → ∃ c, D.candidate prk mask (i + k) = some c ∧ D.dh.toPublic c = none) :
    D.sampleLoop prk mask fuel i = .error .keyDerivationError := by
  induction fuel generalizing i with
  | zero => rfl
  | succ f ih =>
    obtain ⟨c, h1, h2⟩ := hbad 0 (by omega)
    simp only [Nat.add_zero] at h1
    simp only [DhKem.sampleLoop, h1, h2]
    apply ih (i + 1)
    intro k hk
    have := hbad (k + 1) (by omega)
    rwa [show i + (k + 1) = i + 1 + k by omega] at this

/-! ### A toy instance (non-vacuity of the hypotheses) -/

namespace Toy

/-- byte strings are byte lists -/
def ops : ByteOps (List UInt8) where
  cat := (· ++ ·)
  size := List.length
  bytes := id
  ofBytes := id

theorem ops_lawful : ops.Lawful := ⟨fun _ => rfl, fun _ => rfl, fun _ _ => rfl, fun _ => rfl⟩

/-- a "KDF" with outputs of the requested length -/
def kdf : Kdf (List UInt8) where
  kdfId := 1
  extractSize := 4
  extract salt ikm := some (salt ++ ikm)
  expand prk info len := some ((prk ++ info ++ List.replicate len 0).take len)

/-- encoding of the aad the toy AEAD accepts: none, or exactly one byte -/
def aadEnc : Option (List UInt8) → Option (List UInt8)
  | none => some [0, 0]
  | some [x] => some [1, x]
  | _ => none

/-- "AEAD" by tagging: ciphertext = nonce ‖ enc(aad) ‖ plaintext, for 12-byte nonces -/
def aead : Aead (List UInt8) where
  aeadId := 1
  keySize := 2
  nonceSize := 12
  sealF _ n a p :=
    match aadEnc a with
    | some ea => if n.length = 12 then some (n ++ ea ++ p) else none
    | none => none
  openF _ n a c :=
    match aadEnc a with
    | some ea => if n.length = 12 ∧ c.take 14 = n ++ ea then some (c.drop 14) else none
    | none => none

theorem aadEnc_length {a : Option (List UInt8)} {ea : List UInt8} (h : aadEnc a = some ea) :
    ea.length = 2 := by
  unfold aadEnc at h
  split at h <;> simp at h <;> subst h <;> rfl

theorem aadEnc_inj {a a' : Option (List UInt8)} {ea : List UInt8} (h : aadEnc a = some ea)
    (h' : aadEnc a' = some ea) : a = a' := by
  unfold aadEnc at h h'
  split at h <;> split at h' <;> simp at h h' <;> subst h <;> simp_all

theorem aead_inverse : AeadInverse aead aead := by
  intro k n a p c h
  simp only [aead] at h ⊢
  cases hea : aadEnc a with
  | none => simp [hea] at h
  | some ea =>
    simp only [hea] at h ⊢
    split at h
    · rename_i hn
      cases h
      have hl := aadEnc_length hea
      have : (n ++ ea).length = 14 := by simp [hn, hl]
      rw [if_pos ⟨hn, List.take_left' this⟩, List.drop_left' this]
    · cases h

theorem aead_binding : AeadBinding aead aead := by
  intro k n a p c n' a' h hne
  simp only [aead] at h ⊢
  cases hea : aadEnc a with
  | none => simp [hea] at h
  | some ea =>
    simp only [hea] at h
    split at h
    · rename_i hn
      cases h
      cases hea' : aadEnc a' with
      | none => rfl
      | some ea' =>
        simp only
        rw [if_neg]
        rintro ⟨hn', ht⟩
        have hl := aadEnc_length hea
        have : (n ++ ea).length = 14 := by simp [hn, hl]
        rw [List.take_left' this] at ht
        obtain ⟨h1, h2⟩ := List.append_inj ht (by rw [hn, hn'])
        subst h1 h2
        have := aadEnc_inj hea hea'
        rcases hne with h | h
        · exact h rfl
        · exact h this.symm
    · cases h

/-- a "DH" that is commutative for the key pairs `(sk, pk = sk)` : `dh(sk, pk) = sk xor pk` -/
def dh : Dh (List UInt8) where
  dh sk pk := some (List.zipWith (· ^^^ ·) sk pk)
  toPublic sk := some sk
  sampling := .hpkeWithoutBitmask
  secretKeySize := 2
  publicKeySize := 2

def dhKem : DhKem (List UInt8) where
  ops := ops
  dh := dh
  kdf := kdf
  kemId := 0x20
  nSecret := 4

theorem zipWith_xor_comm (a b : List UInt8) :
    List.zipWith (· ^^^ ·) a b = List.zipWith (· ^^^ ·) b a := by
  induction a generalizing b with
  | nil => cases b <;> rfl
  | cons x a ih =>
    cases b with
    | nil => rfl
    | cons y b => simp [ih b, UInt8.xor_comm]

/-- the toy HPKE -/
def hpke : Hpke (List UInt8) (Option (List UInt8 × List UInt8)) := ofDhKem dhKem (some aead)

/-- its export-only variant -/
def hpkeExportOnly : Hpke (List UInt8) (Option (List UInt8 × List UInt8)) := ofDhKem dhKem none

end Toy

end MlsVerif.Hpke
