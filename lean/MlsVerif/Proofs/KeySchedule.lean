import MlsVerif.Model.KeySchedule
import MlsVerif.Spec.KeySchedule
/-
Helper lemmas for `Props/C13.lean`, key-schedule part: the `for` loop of `PskSecret::calculate`
(model: `pskFoldAux`, a left fold with an index counter) computes the RFC 9420 §8.4 recursion
`specPskSecret`.  Core Lean only.
-/
namespace MlsVerif.KS
open MlsVerif.KSSpec

variable {B : Type}

/-- one iteration of the loop is one step of the RFC recursion -/
theorem pskStep_eq (P : Prim B) (count : Nat) (acc : B) (index : Nat) (i : PskInput B) :
    pskStep P count acc index i = P.extract (pskInput P i.id i.psk index count) acc := rfl

/-- loop invariant: after the first `pre.length` inputs the accumulator is `psk_secret_[pre.length]` -/
theorem pskFoldAux_eq (P : Prim B) (pre rest : List (PskInput B)) :
    pskFoldAux P (pre ++ rest).length rest pre.length (specPskSecret P (pre ++ rest) pre.length)
      = specPskSecret P (pre ++ rest) (pre ++ rest).length := by
  induction rest generalizing pre with
  | nil => simp [pskFoldAux]
  | cons i rest ih =>
    have h := ih (pre ++ [i])
    have e : pre ++ [i] ++ rest = pre ++ i :: rest := by simp
    have e2 : (pre ++ [i]).length = pre.length + 1 := by simp
    rw [e, e2] at h
    rw [pskFoldAux, pskStep_eq, ← h]
    congr 1
    rw [specPskSecret]
    have : (pre ++ i :: rest)[pre.length]? = some i := by simp
    rw [this]

theorem specPskSecret_nil (P : Prim B) (inputs : List (PskInput B)) :
    specPskSecret P inputs 0 = P.zeros P.nh := rfl

end MlsVerif.KS
