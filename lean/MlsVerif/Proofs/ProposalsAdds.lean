/-
Helper lemmas for `Props/C10.lean`, part 4: an Add whose leaf collides with a leaf that stays in the
tree is never applied (`out_add_noclash`, `out_add_noconflict`).
Core Lean only.
-/
import MlsVerif.Proofs.ProposalsSend
import MlsVerif.Proofs.TreeMath

namespace MlsVerif.Proposals
open MlsVerif.Tree MlsVerif.TreeMath

/-! ## direct-path nodes are parents (odd indices) -/

theorem directCopathAux_odd (n : Nat) : ∀ (fuel x : Nat) (cp : Nat × Nat),
    cp ∈ directCopathAux n fuel x → cp.1 % 2 = 1
  | 0, _, cp, h => by simp [directCopathAux] at h
  | fuel + 1, x, cp, h => by
    simp only [directCopathAux] at h
    split at h
    · cases h
    · rename_i p s hps
      rcases List.mem_cons.1 h with rfl | h
      · have h1 := level_parent x n p s hps
        have h0 := level_eq_zero_iff p
        simp only
        omega
      · exact directCopathAux_odd n fuel p cp h

theorem directCopath_odd {x n : Nat} {cp : Nat × Nat} (h : cp ∈ directCopath x n) : cp.1 % 2 = 1 := by
  unfold directCopath at h
  split at h
  · cases h
  · exact directCopathAux_odd _ _ _ _ h

theorem foldl_set_none_get (j : Nat) : ∀ (l : List (Nat × Nat)) (t : Tree), (∀ cp ∈ l, cp.1 ≠ j) →
    (l.foldl (fun t cp => Tree.set t cp.1 none) t)[j]? = t[j]?
  | [], _, _ => rfl
  | cp :: l, t, h => by
    rw [List.foldl_cons, foldl_set_none_get j l _ (fun c hc => h c (List.mem_cons_of_mem _ hc)),
      set_eq, List.getElem?_set_ne (h cp List.mem_cons_self)]

/-- blanking a direct path does not touch leaf positions -/
theorem blankDirectPath_even (t : Tree) (k : Nat) {j : Nat} (hj : j % 2 = 0) :
    (blankDirectPath t k)[j]? = t[j]? := by
  unfold blankDirectPath directCopathOf
  apply foldl_set_none_get
  intro cp hcp he
  have := directCopath_odd hcp
  omega

theorem foldl_blankDirectPath_even {j : Nat} (hj : j % 2 = 0) : ∀ (l : List Proposal) (t : Tree),
    (l.foldl (fun t p => blankDirectPath t (leafIdxOf p)) t)[j]? = t[j]?
  | [], _ => rfl
  | p :: l, t => by
    rw [List.foldl_cons, foldl_blankDirectPath_even hj l, blankDirectPath_even _ _ hj]

/-! ## `insertLeaf` keeps every other position -/

theorem insertLeaf_keep {t : Tree} {k j : Nat} {l : Leaf} {x : Option Node} (hne : 2 * k ≠ j)
    (h : t[j]? = some x) : (insertLeaf t k l)[j]? = some x := by
  have hlt := lt_of_getElem?_eq_some h
  unfold insertLeaf
  simp only
  rw [set_eq, List.getElem?_set_ne hne]
  split
  · rw [List.getElem?_append_left hlt]; exact h
  · split
    · rename_i he
      cases t with
      | nil => simp at hlt
      | cons => simp at he
    · exact h

theorem foldl_insertLeaf_keep {i : Nat} {x : Option Node} : ∀ (l : List (Proposal × Leaf)) (t : Tree),
    (∀ po ∈ l, leafIdxOf po.1 ≠ i) → t[2 * i]? = some x →
    (l.foldl (fun t po => insertLeaf t (leafIdxOf po.1) po.2) t)[2 * i]? = some x
  | [], _, _, h => h
  | po :: l, t, hl, h => by
    rw [List.foldl_cons]
    refine foldl_insertLeaf_keep l _ (fun q hq => hl q (List.mem_cons_of_mem _ hq)) ?_
    have := hl po List.mem_cons_self
    exact insertLeaf_keep (by omega) h

/-! ## removes -/

theorem applyRemovesF_keep {f : Bool} {i : Nat} {x : Option Node} :
    ∀ {rs kept : List Proposal} {t t1 : Tree},
    applyRemovesF f rs t = .ok (kept, t1) → (∀ r ∈ rs, r.target ≠ i) → t[2 * i]? = some x →
      t1[2 * i]? = some x
  | [], kept, t, t1, h, _, hx => by cases h; exact hx
  | p :: ps, kept, t, t1, h, hr, hx => by
    simp only [applyRemovesF] at h
    split at h
    · cases h
    · rename_i kept0 t0 hrec
      have ih := applyRemovesF_keep hrec (fun r hr' => hr r (List.mem_cons_of_mem _ hr')) hx
      split at h
      · rename_i old t2 hb
        obtain ⟨_, _, rfl⟩ := blankLeaf_ok hb
        cases h
        have := hr p List.mem_cons_self
        rw [blankDirectPath_even _ _ (by omega), List.getElem?_set_ne (by omega)]
        exact ih
      · split at h
        · cases h
        · cases h; exact ih

/-! ## updates -/

theorem insertNewLeaves_keep {f : Bool} {i : Nat} {x : Option Node} :
    ∀ {pairs : List (Proposal × Leaf)} {t tf : Tree} {done : List (Proposal × Leaf)}
      {r : Option (List Proposal)},
    insertNewLeaves f pairs t done = .ok (r, tf) → (∀ po ∈ pairs, leafIdxOf po.1 ≠ i) →
      (∀ po ∈ done, leafIdxOf po.1 ≠ i) → t[2 * i]? = some x → tf[2 * i]? = some x
  | [], t, tf, done, r, h, _, _, hx => by
    simp only [insertNewLeaves] at h
    cases h; exact hx
  | (p, old) :: rest, t, tf, done, r, h, hp, hd, hx => by
    rw [insertNewLeaves_cons] at h
    have hpi : leafIdxOf p ≠ i := hp (p, old) List.mem_cons_self
    have hrest : ∀ po ∈ rest, leafIdxOf po.1 ≠ i := fun po hpo => hp po (List.mem_cons_of_mem _ hpo)
    split at h
    · refine insertNewLeaves_keep h hrest ?_ (insertLeaf_keep (by omega) hx)
      intro po hpo
      rcases List.mem_cons.1 hpo with rfl | hpo
      · exact hpi
      · exact hd po hpo
    · split at h
      · cases h
      · split at h
        · exact insertNewLeaves_keep h hrest hd (insertLeaf_keep (by omega) hx)
        · cases h
          exact foldl_insertLeaf_keep _ _ (fun po hpo => by
            rcases List.mem_append.1 hpo with hpo | hpo
            · exact hd po (List.mem_reverse.1 hpo)
            · exact hp po hpo) hx

theorem applyUpdatesF_keep {f : Bool} {i : Nat} {x : Option Node} {us applied : List Proposal}
    {t t2 : Tree} (h : applyUpdatesF f us t = .ok (applied, t2)) (hu : ∀ u ∈ us, leafIdxOf u ≠ i)
    (hx : t[2 * i]? = some x) : t2[2 * i]? = some x := by
  unfold applyUpdatesF at h
  split at h
  · cases h
  · rename_i pairs ta htake
    obtain ⟨_, hta, _, _, hsub⟩ := takeOldLeaves_spec htake
    have hpairs : ∀ po ∈ pairs, leafIdxOf po.1 ≠ i := fun po hpo =>
      hu po.1 (hsub.subset (List.mem_map.2 ⟨po, hpo, rfl⟩))
    have hxa : ta[2 * i]? = some x := by
      rw [hta, if_neg]
      · exact hx
      · intro hm
        obtain ⟨po, hpo, he⟩ := List.mem_map.1 hm
        have := hpairs po hpo
        unfold pos at he
        omega
    split at h
    · cases h
    · rename_i ap tb hins
      cases h
      rw [foldl_blankDirectPath_even (by omega)]
      exact insertNewLeaves_keep hins hpairs (fun po hpo => by cases hpo) hxa
    · rename_i tb hins
      cases h
      exact insertNewLeaves_keep hins hpairs (fun po hpo => by cases hpo) hxa

/-! ## adds -/

theorem get_of_length_le {t : Tree} {n : Nat} (h : t.length ≤ n) : Tree.get t n = none := by
  unfold Tree.get
  rw [List.getElem?_eq_none h]; rfl

/-- `next_empty_leaf` returns a blank (or out-of-range) leaf position -/
theorem nextEmptyLeafAux_blank (t : Tree) : ∀ (fuel n : Nat), n % 2 = 0 → t.length ≤ n + 2 * fuel →
    Tree.get t (2 * nextEmptyLeafAux t fuel n) = none
  | 0, n, hn, hl => by
    simp only [nextEmptyLeafAux]
    exact get_of_length_le (by omega)
  | fuel + 1, n, hn, hl => by
    simp only [nextEmptyLeafAux]
    split
    · split
      · rename_i hb
        have : 2 * (n / 2) = n := by omega
        rw [this]
        exact Option.isNone_iff_eq_none.1 hb
      · exact nextEmptyLeafAux_blank t fuel (n + 2) (by omega) (by omega)
    · exact get_of_length_le (by omega)

theorem nextEmptyLeaf_blank (t : Tree) (start : Nat) : Tree.get t (2 * nextEmptyLeaf t start) = none := by
  unfold nextEmptyLeaf
  exact nextEmptyLeafAux_blank t _ _ (by omega) (by omega)

/-- the step of `update_unmerged` -/
def umStep (leaf : Nat) (t : Tree) (cp : Nat × Nat) : Except Tree.Err Tree :=
  match Tree.get t cp.1 with
  | some (.parent p) =>
    match insertSorted leaf p.unmerged with
    | some u => .ok (Tree.set t cp.1 (some (.parent { p with unmerged := u })))
    | none => .error .parentHashMismatch
  | _ => .ok t

theorem updateUnmerged_eq (t : Tree) (leaf : Nat) :
    updateUnmerged t leaf = (directCopathOf t leaf).foldlM (umStep leaf) t := rfl

theorem umStep_keep {leaf : Nat} {t t' : Tree} {cp : Nat × Nat} {j : Nat} {m : Leaf}
    (h : umStep leaf t cp = .ok t') (hj : t[j]? = some (some (Node.leaf m))) :
    t'[j]? = some (some (Node.leaf m)) := by
  unfold umStep at h
  split at h
  · rename_i p hg
    split at h
    · cases h
      have hne : cp.1 ≠ j := by
        intro he
        rw [he, get_eq_some.2 hj] at hg
        cases hg
      rw [set_eq, List.getElem?_set_ne hne]
      exact hj
    · cases h
  · cases h; exact hj

theorem foldlM_umStep_keep {leaf j : Nat} {m : Leaf} : ∀ (path : List (Nat × Nat)) {t t' : Tree},
    path.foldlM (umStep leaf) t = .ok t' → t[j]? = some (some (Node.leaf m)) →
      t'[j]? = some (some (Node.leaf m))
  | [], t, t', h, hj => by
    simp only [List.foldlM_nil, pure, Except.pure] at h
    cases h; exact hj
  | cp :: path, t, t', h, hj => by
    rw [List.foldlM_cons] at h
    cases h1 : umStep leaf t cp with
    | error e => rw [h1] at h; cases h
    | ok t1 =>
      rw [h1] at h
      exact foldlM_umStep_keep path h (umStep_keep h1 hj)

/-- a successful `add_leaf`: the new leaf conflicts with nothing, and every leaf stays where it is -/
theorem addLeaf_ok {t t' : Tree} {l : Leaf} {start idx : Nat} (h : addLeaf t l start = .ok (idx, t')) :
    conflicts t l = false ∧
      ∀ (j : Nat) (m : Leaf), t[j]? = some (some (Node.leaf m)) → t'[j]? = some (some (Node.leaf m)) := by
  unfold addLeaf at h
  simp only at h
  split at h
  · cases h
  · rename_i hc
    refine ⟨by simpa using hc, fun j m hj => ?_⟩
    split at h
    · rename_i t'' hu
      cases h
      rw [updateUnmerged_eq] at hu
      refine foldlM_umStep_keep _ hu (insertLeaf_keep ?_ hj)
      intro he
      have := nextEmptyLeaf_blank t start
      rw [he, get_eq_some.2 hj] at this
      cases this
    · cases h

/-- an add that is kept clashes with no leaf that was in the tree before the adds -/
theorem applyAddsF_noclash {f : Bool} {a : Proposal} {j : Nat} {m : Leaf} :
    ∀ {as kept : List Proposal} {idxs : List Nat} {t t1 : Tree} {s : Nat},
    applyAddsF f as t s = .ok (kept, idxs, t1) → a ∈ kept → t[j]? = some (some (Node.leaf m)) →
      clash m a.leaf = false
  | [], kept, idxs, t, t1, s, h, ha, _ => by cases h; cases ha
  | p :: ps, kept, idxs, t, t1, s, h, ha, hj => by
    simp only [applyAddsF] at h
    split at h
    · rename_i i t' hadd
      obtain ⟨hc, hkeep⟩ := addLeaf_ok hadd
      split at h
      · cases h
      · rename_i kept0 idxs0 t2 hr
        cases h
        rcases List.mem_cons.1 ha with rfl | ha
        · exact (conflicts_false_iff t _).1 hc j m hj
        · exact applyAddsF_noclash hr ha (hkeep j m hj)
    · split at h
      · cases h
      · exact applyAddsF_noclash h ha hj

/-! ## assembly -/

/-- both attempts of `apply_proposal_changes` are `apply_tree_changes` on the same removes, updates, adds -/
theorem applyProposalChanges_tree' {st : Strategy} {b : Bundle} {t : Tree} {out : EditOut}
    (h : applyProposalChanges st b t = .ok out) :
    ∃ b2 : Bundle, b2.removes = b.removes ∧ b2.updates = b.updates ∧ b2.adds = b.adds ∧
      applyTreeChanges st b2 t = .ok out := by
  cases hg : b.gces with
  | nil =>
    rw [applyProposalChanges_nil hg] at h
    exact ⟨b, rfl, rfl, rfl, h⟩
  | cons g gs =>
    rw [applyProposalChanges_cons hg] at h
    split at h
    · cases h
    · rename_i out1 h1
      split at h
      · cases h; exact ⟨b, rfl, rfl, rfl, h1⟩
      · split at h
        · exact ⟨{ b with gces := [] }, rfl, rfl, rfl, h⟩
        · cases h

/-- the tree passes of a successful run -/
theorem applyFromMember_passes {st : Strategy} {c : Nat} {b : Bundle} {t : Tree} {out : EditOut}
    (h : applyFromMember st c b t = .ok out) :
    ∃ (f : Bool) (rs us as removes updates : List Proposal) (idxs : List Nat) (t1 t2 t3 : Tree),
      rs.Sublist b.removes ∧ us.Sublist b.updates ∧ as.Sublist b.adds ∧
      applyRemovesF f rs t = .ok (removes, t1) ∧
      applyUpdatesF f us t1 = .ok (updates, t2) ∧
      applyAddsF f as t2 0 = .ok (out.bundle.adds, idxs, t3) := by
  obtain ⟨b', hp, hc⟩ := applyFromMember_ok h
  obtain ⟨b2, er, eu, ea, ht⟩ := applyProposalChanges_tree' hc
  obtain ⟨us, as, hus, has, hb⟩ := applyTreeChanges_ok ht
  obtain ⟨removes, t1, updates, t2, adds, added, t3, hr, hu, ha, rfl⟩ := batchEditF_ok hb
  obtain ⟨a, u1, u, r1, r, k1, k, g0, g1, g, ri0, ri, hpa, hu1, hu0, hr1, hr0, _, _, _, _, _,
    _, _, fa, fu, fr, _⟩ := prepare_fields hp
  refine ⟨_, b2.removes, us, as, removes, updates, added, t1, t2, t3, ?_, ?_, ?_, hr, hu, ha⟩
  · rw [er, fr]; exact (retain_sublist hr0).trans (retain_sublist hr1)
  · refine (retain_sublist hus).trans ?_
    rw [eu, fu]; exact (retain_sublist hu0).trans (retain_sublist hu1)
  · refine (retain_sublist has).trans ?_
    rw [ea, fa]; exact retain_sublist hpa

/-- RFC 9420: an Add whose leaf collides with a leaf that stays in the tree is never applied.
If leaf `m` sits at leaf index `i` of the original tree, no remove of the input bundle targets `i` and
no update of the input bundle is sent by member `i`, then no add in the output bundle clashes with `m`. -/
theorem out_add_noclash {st : Strategy} {c : Nat} {b : Bundle} {t : Tree} {out : EditOut}
    (h : applyFromMember st c b t = .ok out) {a : Proposal} (ha : a ∈ out.bundle.adds)
    {i : Nat} {m : Leaf} (hm : t[2 * i]? = some (some (Node.leaf m)))
    (hr : ∀ r ∈ b.removes, r.target ≠ i) (hu : ∀ u ∈ b.updates, leafIdxOf u ≠ i) :
    clash m a.leaf = false := by
  obtain ⟨f, rs, us, as, removes, updates, idxs, t1, t2, t3, srs, sus, _, hrs, hus, has⟩ :=
    applyFromMember_passes h
  have h1 := applyRemovesF_keep hrs (fun r hr' => hr r (srs.subset hr')) hm
  have h2 := applyUpdatesF_keep hus (fun u hu' => hu u (sus.subset hu')) h1
  exact applyAddsF_noclash has ha h2

/-- with no removes and no updates at all: an add that conflicts with the tree is never in the output -/
theorem out_add_noconflict {st : Strategy} {c : Nat} {b : Bundle} {t : Tree} {out : EditOut}
    (h : applyFromMember st c b t = .ok out) {a : Proposal}
    (ha : a ∈ out.bundle.adds) (hr : b.removes = []) (hu : b.updates = []) :
    conflicts t a.leaf = false := by
  obtain ⟨f, rs, us, as, removes, updates, idxs, t1, t2, t3, srs, sus, _, hrs, hus, has⟩ :=
    applyFromMember_passes h
  rw [hr] at srs
  rw [hu] at sus
  have e1 := List.eq_nil_of_sublist_nil srs
  have e2 := List.eq_nil_of_sublist_nil sus
  subst e1 e2
  simp only [applyRemovesF] at hrs
  cases hrs
  simp only [applyUpdatesF, takeOldLeaves, insertNewLeaves] at hus
  cases hus
  rw [conflicts_false_iff]
  intro j m hj
  exact applyAddsF_noclash has ha hj

/-! ## the added leaves are pairwise clash-free

Needs the vector length to be odd (a non-empty `NodeVec` always has odd length; on an even non-zero
length `insert_leaf` at the position after the end would index out of bounds in the source, and in the
model `Tree.set` out of range is a no-op). -/

theorem length_set' (t : Tree) (i : Nat) (n : Option Node) : (Tree.set t i n).length = t.length := by
  rw [set_eq, List.length_set]

theorem foldl_set_none_length : ∀ (l : List (Nat × Nat)) (t : Tree),
    (l.foldl (fun t cp => Tree.set t cp.1 none) t).length = t.length
  | [], _ => rfl
  | cp :: l, t => by rw [List.foldl_cons, foldl_set_none_length l, length_set']

theorem blankDirectPath_length (t : Tree) (k : Nat) : (blankDirectPath t k).length = t.length := by
  unfold blankDirectPath
  exact foldl_set_none_length _ _

theorem foldl_blankDirectPath_length : ∀ (l : List Proposal) (t : Tree),
    (l.foldl (fun t p => blankDirectPath t (leafIdxOf p)) t).length = t.length
  | [], _ => rfl
  | p :: l, t => by rw [List.foldl_cons, foldl_blankDirectPath_length l, blankDirectPath_length]

theorem insertLeaf_odd {t : Tree} (k : Nat) (l : Leaf) (h : t.length % 2 = 1) :
    (insertLeaf t k l).length % 2 = 1 := by
  unfold insertLeaf
  simp only
  rw [length_set']
  split
  · rw [List.length_append]; simp only [List.length_cons, List.length_nil]; omega
  · split
    · rename_i he
      cases t with
      | nil => simp at h
      | cons => simp at he
    · exact h

theorem foldl_insertLeaf_odd : ∀ (l : List (Proposal × Leaf)) (t : Tree), t.length % 2 = 1 →
    (l.foldl (fun t po => insertLeaf t (leafIdxOf po.1) po.2) t).length % 2 = 1
  | [], _, h => h
  | po :: l, t, h => by
    rw [List.foldl_cons]
    exact foldl_insertLeaf_odd l _ (insertLeaf_odd _ _ h)

theorem applyRemovesF_length {f : Bool} : ∀ {rs kept : List Proposal} {t t1 : Tree},
    applyRemovesF f rs t = .ok (kept, t1) → t1.length = t.length
  | [], kept, t, t1, h => by cases h; rfl
  | p :: ps, kept, t, t1, h => by
    simp only [applyRemovesF] at h
    split at h
    · cases h
    · rename_i kept0 t0 hrec
      have ih := applyRemovesF_length hrec
      split at h
      · rename_i old t2 hb
        obtain ⟨_, _, rfl⟩ := blankLeaf_ok hb
        cases h
        rw [blankDirectPath_length, List.length_set, ih]
      · split at h
        · cases h
        · cases h; exact ih

theorem insertNewLeaves_odd {f : Bool} :
    ∀ {pairs : List (Proposal × Leaf)} {t tf : Tree} {done : List (Proposal × Leaf)}
      {r : Option (List Proposal)},
    insertNewLeaves f pairs t done = .ok (r, tf) → t.length % 2 = 1 → tf.length % 2 = 1
  | [], t, tf, done, r, h, ho => by
    simp only [insertNewLeaves] at h
    cases h; exact ho
  | (p, old) :: rest, t, tf, done, r, h, ho => by
    rw [insertNewLeaves_cons] at h
    split at h
    · exact insertNewLeaves_odd h (insertLeaf_odd _ _ ho)
    · split at h
      · cases h
      · split at h
        · exact insertNewLeaves_odd h (insertLeaf_odd _ _ ho)
        · cases h
          exact foldl_insertLeaf_odd _ _ ho

theorem applyUpdatesF_odd {f : Bool} {us applied : List Proposal} {t t2 : Tree}
    (h : applyUpdatesF f us t = .ok (applied, t2)) (ho : t.length % 2 = 1) : t2.length % 2 = 1 := by
  unfold applyUpdatesF at h
  split at h
  · cases h
  · rename_i pairs ta htake
    obtain ⟨hlen, _⟩ := takeOldLeaves_spec htake
    split at h
    · cases h
    · rename_i ap tb hins
      cases h
      rw [foldl_blankDirectPath_length]
      exact insertNewLeaves_odd hins (hlen ▸ ho)
    · rename_i tb hins
      cases h
      exact insertNewLeaves_odd hins (hlen ▸ ho)

/-- `next_empty_leaf` returns at most the leaf after the end -/
theorem nextEmptyLeafAux_le (t : Tree) : ∀ (fuel n : Nat), n % 2 = 0 → (1 ≤ fuel ∨ n ≤ t.length + 1) →
    2 * nextEmptyLeafAux t fuel n ≤ t.length + 1
  | 0, n, hn, hl => by
    simp only [nextEmptyLeafAux]
    omega
  | fuel + 1, n, hn, hl => by
    simp only [nextEmptyLeafAux]
    split
    · split
      · omega
      · exact nextEmptyLeafAux_le t fuel (n + 2) (by omega) (by omega)
    · omega

theorem nextEmptyLeaf_le (t : Tree) (start : Nat) : 2 * nextEmptyLeaf t start ≤ t.length + 1 := by
  unfold nextEmptyLeaf
  exact nextEmptyLeafAux_le t _ _ (by omega) (by omega)

theorem insertLeaf_self {t : Tree} {k : Nat} (l : Leaf) (ho : t.length % 2 = 1)
    (hk : 2 * k ≤ t.length + 1) : (insertLeaf t k l)[2 * k]? = some (some (Node.leaf l)) := by
  unfold insertLeaf
  simp only
  rw [set_eq]
  split
  · rw [List.getElem?_set_self]
    rw [List.length_append]; simp only [List.length_cons, List.length_nil]; omega
  · split
    · rename_i he
      cases t with
      | nil => simp at ho
      | cons => simp at he
    · rw [List.getElem?_set_self]
      omega

theorem umStep_length {leaf : Nat} {t t' : Tree} {cp : Nat × Nat} (h : umStep leaf t cp = .ok t') :
    t'.length = t.length := by
  unfold umStep at h
  split at h
  · split at h
    · cases h; exact length_set' _ _ _
    · cases h
  · cases h; rfl

theorem foldlM_umStep_length {leaf : Nat} : ∀ (path : List (Nat × Nat)) {t t' : Tree},
    path.foldlM (umStep leaf) t = .ok t' → t'.length = t.length
  | [], t, t', h => by
    simp only [List.foldlM_nil, pure, Except.pure] at h
    cases h; rfl
  | cp :: path, t, t', h => by
    rw [List.foldlM_cons] at h
    cases h1 : umStep leaf t cp with
    | error e => rw [h1] at h; cases h
    | ok t1 =>
      rw [h1] at h
      rw [foldlM_umStep_length path h, umStep_length h1]

/-- a successful `add_leaf` on a vector of odd length: the leaf is at the returned index -/
theorem addLeaf_self {t t' : Tree} {l : Leaf} {start idx : Nat} (h : addLeaf t l start = .ok (idx, t'))
    (ho : t.length % 2 = 1) : t'.length % 2 = 1 ∧ t'[2 * idx]? = some (some (Node.leaf l)) := by
  unfold addLeaf at h
  simp only at h
  split at h
  · cases h
  · split at h
    · rename_i t'' hu
      cases h
      rw [updateUnmerged_eq] at hu
      refine ⟨?_, foldlM_umStep_keep _ hu (insertLeaf_self l ho (nextEmptyLeaf_le t start))⟩
      rw [foldlM_umStep_length _ hu]
      exact insertLeaf_odd _ _ ho
    · cases h

theorem applyAddsF_pairwise {f : Bool} :
    ∀ {as kept : List Proposal} {idxs : List Nat} {t t1 : Tree} {s : Nat},
    applyAddsF f as t s = .ok (kept, idxs, t1) → t.length % 2 = 1 →
      kept.Pairwise (fun a1 a2 => clash a1.leaf a2.leaf = false)
  | [], kept, idxs, t, t1, s, h, _ => by cases h; exact List.Pairwise.nil
  | p :: ps, kept, idxs, t, t1, s, h, ho => by
    simp only [applyAddsF] at h
    split at h
    · rename_i i t' hadd
      obtain ⟨ho', hself⟩ := addLeaf_self hadd ho
      split at h
      · cases h
      · rename_i kept0 idxs0 t2 hr
        cases h
        exact List.pairwise_cons.2
          ⟨fun a2 ha2 => applyAddsF_noclash hr ha2 hself, applyAddsF_pairwise hr ho'⟩
    · split at h
      · cases h
      · exact applyAddsF_pairwise h ho

/-- the added leaves are pairwise clash-free (the node vector of a non-empty tree has odd length) -/
theorem out_adds_pairwise {st : Strategy} {c : Nat} {b : Bundle} {t : Tree} {out : EditOut}
    (h : applyFromMember st c b t = .ok out) (hodd : t.length % 2 = 1) :
    out.bundle.adds.Pairwise (fun a1 a2 => clash a1.leaf a2.leaf = false) := by
  obtain ⟨f, rs, us, as, removes, updates, idxs, t1, t2, t3, _, _, _, hrs, hus, has⟩ :=
    applyFromMember_passes h
  have h1 : t1.length % 2 = 1 := by rw [applyRemovesF_length hrs]; exact hodd
  exact applyAddsF_pairwise has (applyUpdatesF_odd hus h1)

end MlsVerif.Proposals
