import MlsVerif.Model.GroupAdversary
import MlsVerif.Proofs.GroupProgress
/-
Secrecy in the composed group model: an upper bound of what a symbolic adversary can derive
(`derivable_bound`), the recipients of all ciphertexts of a commit, where key stamps of a new tree come from,
and the invariant `Shut` that keeps a party out for all later commits.
-/
namespace MlsVerif.Group
open MlsVerif.Tree MlsVerif.TreeMath

/-! ### the bound -/

theorem hidden_pathN (A : Sec → Bool) (i : Nat) (s : Sec) : hidden A (pathN i s) = hidden A s := by
  induction i with
  | zero => rfl
  | succ i ih => simp only [pathN, hidden, ih]

/-- If the initial secrets are not hidden, every ciphertext addressed to one of the party's keys carries a
secret that is not hidden, and every key generated from a secret that is not hidden is one of the party's
keys, then the party derives no key outside `K` and no hidden secret. -/
theorem derivable_bound (A : Sec → Bool) {K : List Key} {S : List Sec} {seals : List (Key × Sec)}
    {gens : List (Sec × Key)} (hS : ∀ s ∈ S, hidden A s = false)
    (hseal : ∀ k s, (k, s) ∈ seals → k ∈ K → hidden A s = false)
    (hgen : ∀ s k, (s, k) ∈ gens → hidden A s = false → k ∈ K)
    {f : Fact} (h : Derivable K S seals gens f) :
    match f with
    | .key k => k ∈ K
    | .sec s => hidden A s = false := by
  induction h with
  | key0 h => exact h
  | sec0 h => exact hS _ h
  | zero => rfl
  | path _ ih => exact ih
  | initOf _ ih => exact ih
  | epoch _ _ _ ih1 ih2 ih3 =>
    simp only at ih1 ih2 ih3
    simp only [hidden, ih1, ih2, ih3, Bool.or_self]
  | opens hm _ ih => exact hseal _ _ hm ih
  | gen hm _ ih => exact hgen _ _ hm ih

/-- the same with an upper bound `KB ⊇ K` of the keys the party may come to hold -/
theorem derivable_bound_pred (A : Sec → Bool) (KB : Key → Prop) {K : List Key} {S : List Sec}
    {seals : List (Key × Sec)} {gens : List (Sec × Key)} (hK : ∀ k ∈ K, KB k)
    (hS : ∀ s ∈ S, hidden A s = false)
    (hseal : ∀ k s, (k, s) ∈ seals → KB k → hidden A s = false)
    (hgen : ∀ s k, (s, k) ∈ gens → hidden A s = false → KB k)
    {f : Fact} (h : Derivable K S seals gens f) :
    match f with
    | .key k => KB k
    | .sec s => hidden A s = false := by
  induction h with
  | key0 h => exact hK _ h
  | sec0 h => exact hS _ h
  | zero => rfl
  | path _ ih => exact ih
  | initOf _ ih => exact ih
  | epoch _ _ _ ih1 ih2 ih3 =>
    simp only at ih1 ih2 ih3
    simp only [hidden, ih1, ih2, ih3, Bool.or_self]
  | opens hm _ ih => exact hseal _ _ hm ih
  | gen hm _ ih => exact hgen _ _ hm ih

/-- No ciphertext of `T` is addressed to a key of `K`; every node key pair of `T` is generated from a secret
that depends on a random value drawn at epoch `N` or later; what is sealed to an EXTERNAL key (the KEM shared
secret of an external commit) does not depend on such a value — it gives no forward secrecy, everybody who knew
the epoch secret opens it, and the bound treats every external key as known to the party. -/
def Closed (N : Nat) (K : List Key) (T : List Transcript) : Prop :=
  (∀ k s, (k, s) ∈ sealsOfAll T → k ∉ K) ∧
  (∀ s k, (s, k) ∈ gensOfAll T → hidden (freshFrom N) s = true ∨ ∃ e, k = .ext e) ∧
  (∀ e s, (Key.ext e, s) ∈ sealsOfAll T → hidden (freshFrom N) s = false)

theorem closed_secrecy {N : Nat} {K : List Key} {T : List Transcript} {S : List Sec}
    (hc : Closed N K T) (hS : ∀ s ∈ S, hidden (freshFrom N) s = false) (s : Sec)
    (hs : hidden (freshFrom N) s = true) :
    ¬ Derivable K S (sealsOfAll T) (gensOfAll T) (.sec s) := by
  intro hd
  have := derivable_bound_pred (freshFrom N) (fun k => k ∈ K ∨ ∃ e, k = .ext e) (fun k hk => Or.inl hk) hS
    (fun k s hm hk => by
      rcases hk with hk | ⟨e, rfl⟩
      · exact absurd hk (hc.1 k s hm)
      · exact hc.2.2 e s hm)
    (fun s k hm hh => by
      rcases hc.2.1 s k hm with h | h
      · rw [h] at hh; cases hh
      · exact Or.inr h) hd
  simp only at this
  rw [hs] at this; cases this

theorem closed_cons {N : Nat} {K : List Key} {T : List Transcript} {tr : Transcript}
    (h1 : Closed N K [tr]) (h2 : Closed N K T) : Closed N K (tr :: T) := by
  refine ⟨?_, ?_, ?_⟩
  · intro k s hm
    simp only [sealsOfAll, List.flatMap_cons, List.mem_append] at hm
    rcases hm with hm | hm
    · exact h1.1 k s (by simpa [sealsOfAll] using hm)
    · exact h2.1 k s hm
  · intro s k hm
    simp only [gensOfAll, List.flatMap_cons, List.mem_append] at hm
    rcases hm with hm | hm
    · exact h1.2.1 s k (by simpa [gensOfAll] using hm)
    · exact h2.2.1 s k hm
  · intro e s hm
    simp only [sealsOfAll, List.flatMap_cons, List.mem_append] at hm
    rcases hm with hm | hm
    · exact h1.2.2 e s (by simpa [sealsOfAll] using hm)
    · exact h2.2.2 e s hm

/-! ### where the key stamps of a new tree come from -/

/-- HPKE stamps of the leaf nodes brought by the proposals -/
def newLeafStamps (e : Edits) : List Nat := (e.adds ++ e.updates.map (·.2)).map (·.hpke)

theorem keyStamps_batchEdit {t t1 : Tree} {e : Edits} {added : List Nat} (hw : WF t)
    (hb : batchEdit t e = .ok (added, t1)) :
    ∀ k ∈ keyStamps t1, k ∈ keyStamps t ∨ k ∈ newLeafStamps e := by
  intro k hk
  obtain ⟨i, n, hg, rfl⟩ := mem_keyStamps.1 hk
  have hes := batchEdit_editSpec hw.1.1 hb
  cases n with
  | parent P' =>
    obtain ⟨P, hP, hkey, _⟩ := hes.parents _ _ hg
    exact Or.inl (mem_keyStamps.2 ⟨i, _, hP, by simp [Node.key, hkey]⟩)
  | leaf L =>
    rcases batchEdit_leaf_source hw.1.1 hw.2.2.2 hb hg with h | h
    · exact Or.inl (mem_keyStamps.2 ⟨i, _, h, rfl⟩)
    · exact Or.inr (List.mem_map.2 ⟨L, h, rfl⟩)

theorem keyStamps_encap {t1 : Tree} {sender fresh : Nat} {nl : Leaf} {excl : List Nat} {o : EncapOut}
    (hL : ∃ L, get t1 (2 * sender) = some (.leaf L)) (he : encap t1 sender nl excl fresh = .ok o) :
    ∀ k ∈ keyStamps o.tree, k ∈ keyStamps t1 ∨ k = nl.hpke ∨ fresh ≤ k := by
  intro k hk
  obtain ⟨i, n, hg, rfl⟩ := mem_keyStamps.1 hk
  have hself := self_lt_of_leaf hL
  obtain ⟨hpu, _, _, hkk, _⟩ := encap_spec he hself
  obtain ⟨kk, hk1, hs, _⟩ := Upd.ctx hL
  rcases Upd.key_class hpu hk1 hs hg with ⟨_, rfl⟩ | ⟨j, k', _, _, hq, rfl⟩ | ⟨_, h3, _⟩
  · exact Or.inr (Or.inl rfl)
  · exact Or.inr (Or.inr (hkk j k' hq).1)
  · exact Or.inl (mem_keyStamps.2 ⟨i, n, h3, rfl⟩)

/-- After the proposals, none of the stamps the owner of a removed leaf was entitled to occurs in the tree —
also when the leaf position is filled again by an Add of the same commit (`removed_keys_gone` of C02 assumes
it is not). -/
theorem removed_stamps_gone {t t1 : Tree} {e : Edits} {added : List Nat} {r : Nat} (hw : WF t)
    (hfr : e.FreshKeys t) (hb : batchEdit t e = .ok (added, t1)) (hr : r ∈ e.removes) :
    ∀ j k, slotAt (expectedSlots t r) j = some k → k ∉ keyStamps t1 := by
  intro j k hjk hmem
  obtain ⟨n, N, hn, hNk, hpos⟩ := Join.expected_stamp_node hjk
  have hkt : k ∈ keyStamps t := mem_keyStamps.2 ⟨n, N, hn, hNk⟩
  have hes := batchEdit_editSpec hw.1.1 hb
  obtain ⟨i, N', hi, hk'⟩ := mem_keyStamps.1 hmem
  have hi1 : i < t1.length := lt_of_get_some hi
  cases N' with
  | parent P' =>
    obtain ⟨P, hP, hkey, _⟩ := hes.parents _ _ hi
    have hin : i = n := Join.uniq_key hw.2.1 hP hn (by
      rw [hNk]; show P.key = k; rw [← hkey]; exact hk')
    subst hin
    have hodd : i % 2 = 1 := by
      apply Classical.byContradiction; intro hc
      have := (hw.1.1.1 i (lt_of_get_some hP)).1 (by omega)
      rw [hP] at this; cases this
    rcases hpos with rfl | ⟨_, hbel⟩
    · omega
    · have := hes.touched_path_blank r (List.mem_append_left _ hr) i hodd hbel
      rw [hi] at this; cases this
  | leaf L =>
    rcases batchEdit_leaf_source hw.1.1 hw.2.2.2 hb hi with h | h
    · have hin : i = n := Join.uniq_key hw.2.1 h hn (by rw [hk', hNk])
      subst hin
      have hev : i % 2 = 0 := by
        apply Classical.byContradiction; intro hc
        have := (hw.1.1.1 i (lt_of_get_some h)).2 (by omega)
        rw [h] at this; cases this
      rcases hpos with rfl | ⟨hodd, _⟩
      · by_cases hra : r ∈ added
        · obtain ⟨jj, hjj, _⟩ := List.getElem_of_mem hra
          obtain ⟨l, hl1, hl2⟩ := hes.added_leaf jj r (by rw [List.getElem?_eq_getElem hjj]; congr)
          rw [hi] at hl2
          simp only [Option.some.injEq, Node.leaf.injEq] at hl2
          subst hl2
          exact hfr L (List.mem_append_left _ (List.mem_of_getElem? hl1))
            (mem_keyStamps.2 ⟨_, _, h, rfl⟩)
        · have := hes.removed_leaf r hr hra
          rw [hi] at this; cases this
      · omega
    · have : L.hpke = k := hk'
      exact hfr L h (this ▸ hkt)

/-! ### recipients of the ciphertexts of a commit -/

theorem mem_sealChain {t : Tree} {seals : List (Nat × List Nat)} {keys : List Nat} {s : Sec} {ps : PathSeal}
    (h : ps ∈ sealChain t seals keys s) :
    ∃ i nrs k, seals[i]? = some nrs ∧ keys[i]? = some k ∧
      ps = { node := nrs.1, secret := pathN i s, key := k,
             recips := nrs.2.map fun r => (r, (get t r).map Node.key) } := by
  obtain ⟨i, hi⟩ := List.getElem?_of_mem h
  rw [sealChain_getElem?] at hi
  split at hi
  · rename_i nrs k h1 h2
    simp only [Option.some.injEq] at hi
    exact ⟨i, nrs, k, h1, h2, hi.symm⟩
  · cases hi

theorem mem_transcript_seals {tr : Transcript} {k : Key} {s : Sec} (h : (k, s) ∈ tr.seals) :
    (∃ ps ∈ tr.pathSeals, ∃ r st, (r, some st) ∈ ps.recips ∧ k = .node st ∧ s = ps.secret) ∨
    (∃ ws ∈ tr.welcome, k = .init ws.initKey ∧ (s = ws.joiner ∨ ws.pathSecret = some s)) ∨
    (∃ e, tr.ext = some (e, s) ∧ k = .ext e) := by
  unfold Transcript.seals at h
  rw [List.mem_append, List.mem_append] at h
  rcases h with h | h | h
  · left
    rw [List.mem_flatMap] at h
    obtain ⟨ps, hps, h⟩ := h
    rw [List.mem_filterMap] at h
    obtain ⟨⟨r, ko⟩, hr, h⟩ := h
    cases ko with
    | none => simp at h
    | some st =>
      simp only [Option.map_some, Option.some.injEq, Prod.mk.injEq] at h
      exact ⟨ps, hps, r, st, hr, h.1.symm, h.2.symm⟩
  · right; left
    rw [List.mem_flatMap] at h
    obtain ⟨ws, hws, h⟩ := h
    refine ⟨ws, hws, ?_⟩
    rcases List.mem_cons.1 h with h | h
    · simp only [Prod.mk.injEq] at h
      exact ⟨h.1, Or.inl h.2⟩
    · cases hp : ws.pathSecret with
      | none => rw [hp] at h; cases h
      | some s' =>
        rw [hp] at h
        simp only [List.mem_singleton, Prod.mk.injEq] at h
        exact ⟨h.1, Or.inr (by rw [h.2])⟩
  · right; right
    cases he : tr.ext with
    | none => rw [he] at h; cases h
    | some es =>
      obtain ⟨e, s'⟩ := es
      rw [he] at h
      simp only [List.mem_singleton, Prod.mk.injEq] at h
      exact ⟨e, by rw [h.2], h.1⟩

theorem mem_transcript_gens {tr : Transcript} {k : Key} {s : Sec} (h : (s, k) ∈ tr.gens) :
    (∃ ps ∈ tr.pathSeals, s = ps.secret ∧ k = .node ps.key) ∨ (∃ s', tr.ext = some (s, s') ∧ k = .ext s) := by
  unfold Transcript.gens at h
  rw [List.mem_append] at h
  rcases h with h | h
  · left
    obtain ⟨ps, hps, heq⟩ := List.mem_map.1 h
    simp only [Prod.mk.injEq] at heq
    exact ⟨ps, hps, heq.1.symm, heq.2.symm⟩
  · right
    cases he : tr.ext with
    | none => rw [he] at h; cases h
    | some es =>
      obtain ⟨e, s'⟩ := es
      rw [he] at h
      simp only [List.mem_singleton, Prod.mk.injEq] at h
      obtain ⟨h1, h2⟩ := h
      subst h1
      exact ⟨s', rfl, h2⟩

theorem mem_welcome {added : List Nat} {adds : List Leaf} {f : Nat → Leaf → WelcomeSeal} {ws : WelcomeSeal}
    (h : ws ∈ (added.zip adds).map fun x => f x.1 x.2) : ∃ self, ∃ L ∈ adds, ws = f self L := by
  obtain ⟨x, hx, rfl⟩ := List.mem_map.1 h
  exact ⟨x.1, x.2, (List.of_mem_zip hx).2, rfl⟩

/-- Every ciphertext of a commit is addressed either to the key of a node of the *new* tree or to the init
key of a key package added by this commit. -/
theorem seals_recipients {w w' : GroupWorld} {tr : Transcript} {sender : Nat} {e : Edits}
    {newLeaf : Option Leaf} {fresh : Nat} {psk : Sec} {ctx : Nat} {deliverTo : List Nat}
    (h : w.commit sender e newLeaf fresh psk ctx deliverTo = .ok (w', tr)) :
    ∀ k s, (k, s) ∈ tr.seals →
      (∃ st, k = .node st ∧ st ∈ keyStamps w'.tree) ∨ (∃ L ∈ e.adds, k = .init L.hpke) := by
  obtain ⟨cm, added, t1, hpre, h⟩ := commit_inv h
  intro k s hm
  cases newLeaf with
  | some nl =>
    obtain ⟨o, ms, js, hc⟩ := commitPath_inv h
    rcases mem_transcript_seals hm with ⟨ps, hps, r, st, hr, rfl, _⟩ | ⟨ws, hws, rfl, _⟩ | ⟨e', he', _⟩
    rotate_left 2
    · rw [hc.ext] at he'; cases he'
    · left
      rw [hc.seals] at hps
      obtain ⟨i, nrs, k', _, _, rfl⟩ := mem_sealChain hps
      simp only [List.mem_map, Prod.mk.injEq] at hr
      obtain ⟨r', _, rfl, hkey⟩ := hr
      refine ⟨st, rfl, ?_⟩
      rw [hc.world]
      cases hg : get o.tree r' with
      | none => rw [hg] at hkey; cases hkey
      | some n =>
        rw [hg] at hkey
        simp only [Option.map_some, Option.some.injEq] at hkey
        exact mem_keyStamps.2 ⟨r', n, hg, hkey⟩
    · right
      rw [hc.welcome] at hws
      obtain ⟨self, L, hL, rfl⟩ := mem_welcome hws
      exact ⟨L, hL, rfl⟩
  | none =>
    obtain ⟨js, hc⟩ := commitNoPath_inv h
    rcases mem_transcript_seals hm with ⟨ps, hps, _⟩ | ⟨ws, hws, rfl, _⟩ | ⟨e', he', _⟩
    · rw [hc.seals] at hps; cases hps
    · right
      rw [hc.welcome] at hws
      obtain ⟨self, L, hL, rfl⟩ := mem_welcome hws
      exact ⟨L, hL, rfl⟩
    · rw [hc.ext] at he'; cases he'

/-- a member's commit has no `ExternalInit` -/
theorem commit_ext_none {w w' : GroupWorld} {tr : Transcript} {sender : Nat} {e : Edits}
    {newLeaf : Option Leaf} {fresh : Nat} {psk : Sec} {ctx : Nat} {deliverTo : List Nat}
    (h : w.commit sender e newLeaf fresh psk ctx deliverTo = .ok (w', tr)) : tr.ext = none := by
  obtain ⟨cm, added, t1, hpre, h⟩ := commit_inv h
  cases newLeaf with
  | some nl => obtain ⟨o, ms, js, hc⟩ := commitPath_inv h; exact hc.ext
  | none => obtain ⟨js, hc⟩ := commitNoPath_inv h; exact hc.ext

/-- every path secret of a commit (and every secret a node key pair is generated from) is an element of the
chain that starts at the random value drawn by this commit -/
theorem pathSeals_secret {w w' : GroupWorld} {tr : Transcript} {sender : Nat} {e : Edits}
    {newLeaf : Option Leaf} {fresh : Nat} {psk : Sec} {ctx : Nat} {deliverTo : List Nat}
    (h : w.commit sender e newLeaf fresh psk ctx deliverTo = .ok (w', tr)) :
    ∀ ps ∈ tr.pathSeals, ∃ i, ps.secret = pathN i (.fresh w.epoch) := by
  obtain ⟨cm, added, t1, hpre, h⟩ := commit_inv h
  intro ps hps
  cases newLeaf with
  | some nl =>
    obtain ⟨o, ms, js, hc⟩ := commitPath_inv h
    rw [hc.seals] at hps
    obtain ⟨i, nrs, k', _, _, rfl⟩ := mem_sealChain hps
    exact ⟨i, rfl⟩
  | none =>
    obtain ⟨js, hc⟩ := commitNoPath_inv h
    rw [hc.seals] at hps; cases hps

theorem hidden_fresh {N n : Nat} (h : N ≤ n) (i : Nat) : hidden (freshFrom N) (pathN i (.fresh n)) = true := by
  rw [hidden_pathN]
  simp [hidden, freshFrom, h]

/-! ### keeping a party out -/

/-- none of the party's node keys is the key of a node of the tree -/
def Disj (K : List Key) (t : Tree) : Prop := ∀ st, Key.node st ∈ K → st ∉ keyStamps t

def noReintro1 (e : Edits) (newLeaf : Option Leaf) (fresh : Nat) : Key → Prop
  | .node st => st ∉ newLeafStamps e ∧
      match newLeaf with
      | some nl => st ≠ nl.hpke ∧ st < fresh
      | none => True
  | .init h => h ∉ e.adds.map (·.hpke)
  | .ext _ => True

instance (e : Edits) (newLeaf : Option Leaf) (fresh : Nat) (k : Key) :
    Decidable (noReintro1 e newLeaf fresh k) := by
  cases k with
  | node st =>
    cases newLeaf with
    | some nl => exact inferInstanceAs (Decidable (_ ∧ (_ ∧ _)))
    | none => exact inferInstanceAs (Decidable (_ ∧ True))
  | init h => exact inferInstanceAs (Decidable (_ ∉ _))
  | ext _ => exact inferInstanceAs (Decidable True)

/-- The commit introduces no private key that the party `K` holds: the key packages of the added members
and the leaf nodes of the Updates carry other HPKE / init keys, the committer's new leaf key and the new
node keys `fresh, fresh+1, …` are not among `K`.  (Fresh keys are new; in particular the party is not
re-added with a key package whose private keys it holds.) -/
def NoReintro (K : List Key) (e : Edits) (newLeaf : Option Leaf) (fresh : Nat) : Prop :=
  ∀ k ∈ K, noReintro1 e newLeaf fresh k

instance (K : List Key) (e : Edits) (newLeaf : Option Leaf) (fresh : Nat) :
    Decidable (NoReintro K e newLeaf fresh) := by
  unfold NoReintro; infer_instance

section Commit
variable {w w' : GroupWorld} {tr : Transcript} {sender : Nat} {e : Edits} {newLeaf : Option Leaf}
  {fresh : Nat} {psk : Sec} {ctx : Nat} {deliverTo : List Nat} {K : List Key}

/-- the tree after the commit carries no key of `K` if the tree after the proposals carries none -/
theorem disj_of_t1 (hnr : NoReintro K e newLeaf fresh)
    (h : w.commit sender e newLeaf fresh psk ctx deliverTo = .ok (w', tr))
    (ht1 : ∀ added t1, batchEdit w.tree e = .ok (added, t1) → Disj K t1) : Disj K w'.tree := by
  obtain ⟨cm, added, t1, hpre, h⟩ := commit_inv h
  have hd1 := ht1 added t1 hpre.edit
  cases newLeaf with
  | some nl =>
    obtain ⟨o, ms, js, hc⟩ := commitPath_inv h
    rw [hc.world]
    intro st hst hm
    have h1 := hnr _ hst
    simp only [noReintro1] at h1
    rcases keyStamps_encap hpre.leaf hc.enc st hm with h2 | h2 | h2
    · exact hd1 st hst h2
    · exact h1.2.1 h2
    · omega
  | none =>
    obtain ⟨js, hc⟩ := commitNoPath_inv h
    rw [hc.world]
    exact hd1

theorem disj_commit (hi : GInv w) (hd : Disj K w.tree) (hnr : NoReintro K e newLeaf fresh)
    (h : w.commit sender e newLeaf fresh psk ctx deliverTo = .ok (w', tr)) : Disj K w'.tree := by
  apply disj_of_t1 hnr h
  intro added t1 hb st hst hm
  have h1 := hnr _ hst
  simp only [noReintro1] at h1
  rcases keyStamps_batchEdit hi.good.1 hb st hm with h2 | h2
  · exact hd st hst h2
  · exact h1.1 h2

theorem mem_keysOf {p : Priv} {st : Nat} (h : Key.node st ∈ keysOf p) : ∃ j, slotAt p.keys j = some st := by
  unfold keysOf at h
  rw [List.mem_filterMap] at h
  obtain ⟨ko, hko, hk⟩ := h
  cases ko with
  | none => simp at hk
  | some st' =>
    simp only [Option.map_some, Option.some.injEq, Key.node.injEq] at hk
    subst hk
    obtain ⟨j, hj⟩ := List.getElem?_of_mem hko
    exact ⟨j, by simp [slotAt, hj]⟩

theorem init_not_mem_keysOf {p : Priv} {h : Nat} : Key.init h ∉ keysOf p := by
  unfold keysOf
  rw [List.mem_filterMap]
  rintro ⟨ko, _, hk⟩
  cases ko <;> simp at hk

/-- a member removed by the commit holds no key of the new tree -/
theorem disj_removed (hi : GInv w) (hok : CommitOk w sender e newLeaf fresh) {rm : Member}
    (hrm : rm ∈ w.members) (hcur : rm.epoch = w.epoch) (hrem : rm.priv.self ∈ e.removes)
    (hnr : NoReintro (keysOf rm.priv) e newLeaf fresh)
    (h : w.commit sender e newLeaf fresh psk ctx deliverTo = .ok (w', tr)) :
    Disj (keysOf rm.priv) w'.tree := by
  apply disj_of_t1 hnr h
  intro added t1 hb st hst
  obtain ⟨j, hj⟩ := mem_keysOf hst
  obtain ⟨_, hk⟩ := hi.good.2 _ (current_priv_mem hrm hcur)
  rw [(keyInv_iff _ _).1 hk j] at hj
  exact removed_stamps_gone hi.good.1 hok.1 hb hrem j st hj

/-- the ciphertexts and key generations of one commit from epoch `N` on are closed for a party that holds no
key of the new tree and no init key of the added key packages -/
theorem closed_commit {N : Nat} (hN : N ≤ w.epoch) (hd : Disj K w'.tree) (hnr : NoReintro K e newLeaf fresh)
    (h : w.commit sender e newLeaf fresh psk ctx deliverTo = .ok (w', tr)) : Closed N K [tr] := by
  refine ⟨?_, ?_, ?_⟩
  · intro k s hm hk
    have hm' : (k, s) ∈ tr.seals := by simpa [sealsOfAll] using hm
    rcases seals_recipients h k s hm' with ⟨st, rfl, hst⟩ | ⟨L, hL, rfl⟩
    · exact hd st hk hst
    · have := hnr _ hk
      simp only [noReintro1] at this
      exact this (List.mem_map.2 ⟨L, hL, rfl⟩)
  · intro s k hm
    have hm' : (s, k) ∈ tr.gens := by simpa [gensOfAll] using hm
    rcases mem_transcript_gens hm' with ⟨ps, hps, rfl, _⟩ | ⟨s', he', _⟩
    · obtain ⟨i, hi⟩ := pathSeals_secret h ps hps
      rw [hi]
      exact Or.inl (hidden_fresh hN i)
    · rw [commit_ext_none h] at he'; cases he'
  · intro e' s hm
    have hm' : (Key.ext e', s) ∈ tr.seals := by simpa [sealsOfAll] using hm
    rcases seals_recipients h _ s hm' with ⟨st, hst, _⟩ | ⟨L, _, hL⟩
    · cases hst
    · cases hL

end Commit

/-! ### external commits -/

section ExtCommit
variable {w w' : GroupWorld} {tr : Transcript} {gi : Nat} {remove : Option Nat} {L0 nl : Leaf}
  {fresh : Nat} {psk : Sec} {ctx : Nat} {deliverTo : List Nat} {K : List Key}

/-- how the secrets of the parties of the new world arise in an external commit: the init secret is the KEM
shared secret `ext w.epoch`, the commit secret the end of the joiner's chain — an external commit always has a
path -/
theorem ext_cases (hi : GInv w)
    (h : w.externalCommit gi remove L0 nl fresh psk ctx deliverTo = .ok (w', tr)) :
    w'.epoch = w.epoch + 1 ∧ psk.isPskInput = true ∧ ∃ u,
      ∀ m' ∈ w'.members, (m' ∈ w.members ∧ m'.epoch ≤ w.epoch) ∨
        (m'.epoch = w.epoch + 1 ∧
          m'.secret = .epoch (.ext w.epoch) (pathN u (.fresh w.epoch)) psk ctx) := by
  obtain ⟨gm, t1, self, t1x, o, ms, hc⟩ := externalCommit_inv h
  exact ⟨by rw [hc.world], hc.psk_ok, countSome o.pathKeys, fun m' hm' => ext_member_cases hi hc hm'⟩

/-- Every ciphertext of an external commit is addressed either to the key of a node of the *new* tree (a path
secret) or to the external key of the old epoch (the KEM output of the `ExternalInit`, carrying `ext w.epoch`). -/
theorem seals_recipients_ext
    (h : w.externalCommit gi remove L0 nl fresh psk ctx deliverTo = .ok (w', tr)) :
    ∀ k s, (k, s) ∈ tr.seals →
      (∃ st, k = .node st ∧ st ∈ keyStamps w'.tree) ∨
      (∃ gm ∈ w.members, gm.epoch = w.epoch ∧ k = .ext gm.secret ∧ s = .ext w.epoch) := by
  obtain ⟨gm, t1, self, t1x, o, ms, hc⟩ := externalCommit_inv h
  obtain ⟨hgm1, hgm2, _⟩ := sender?_spec hc.hgi
  intro k s hm
  rcases mem_transcript_seals hm with ⟨ps, hps, r, st, hr, rfl, _⟩ | ⟨ws, hws, _⟩ | ⟨e', he', rfl⟩
  · left
    rw [hc.seals] at hps
    obtain ⟨i, nrs, k', _, _, rfl⟩ := mem_sealChain hps
    simp only [List.mem_map, Prod.mk.injEq] at hr
    obtain ⟨r', _, rfl, hkey⟩ := hr
    refine ⟨st, rfl, ?_⟩
    rw [hc.world]
    cases hg : get o.tree r' with
    | none => rw [hg] at hkey; cases hkey
    | some n =>
      rw [hg] at hkey
      simp only [Option.map_some, Option.some.injEq] at hkey
      exact mem_keyStamps.2 ⟨r', n, hg, hkey⟩
  · rw [hc.welcome] at hws; cases hws
  · right
    rw [hc.ext] at he'
    simp only [Option.some.injEq, Prod.mk.injEq] at he'
    exact ⟨gm, hgm1, hgm2, by rw [he'.1], he'.2.symm⟩

theorem pathSeals_secret_ext
    (h : w.externalCommit gi remove L0 nl fresh psk ctx deliverTo = .ok (w', tr)) :
    ∀ ps ∈ tr.pathSeals, ∃ i, ps.secret = pathN i (.fresh w.epoch) := by
  obtain ⟨gm, t1, self, t1x, o, ms, hc⟩ := externalCommit_inv h
  intro ps hps
  rw [hc.seals] at hps
  obtain ⟨i, nrs, k', _, _, rfl⟩ := mem_sealChain hps
  exact ⟨i, rfl⟩

/-- the `ExternalInit` of an external commit: towards the external key of the epoch secret of a current member -/
theorem ext_init_seal
    (h : w.externalCommit gi remove L0 nl fresh psk ctx deliverTo = .ok (w', tr)) :
    ∃ gm ∈ w.members, gm.epoch = w.epoch ∧ tr.ext = some (gm.secret, .ext w.epoch) := by
  obtain ⟨gm, t1, self, t1x, o, ms, hc⟩ := externalCommit_inv h
  obtain ⟨hgm1, hgm2, _⟩ := sender?_spec hc.hgi
  exact ⟨gm, hgm1, hgm2, hc.ext⟩

def noReintroExt1 (L0 nl : Leaf) (fresh : Nat) : Key → Prop
  | .node st => st ≠ L0.hpke ∧ st ≠ nl.hpke ∧ st < fresh
  | .init _ => True
  | .ext _ => False

instance (L0 nl : Leaf) (fresh : Nat) (k : Key) : Decidable (noReintroExt1 L0 nl fresh k) := by
  cases k with
  | node st => exact inferInstanceAs (Decidable (_ ∧ (_ ∧ _)))
  | init h => exact inferInstanceAs (Decidable True)
  | ext _ => exact inferInstanceAs (Decidable False)

/-- The external commit introduces no private key that the party `K` holds: the joiner's leaf keys and the new
node keys `fresh, fresh+1, …` are not among `K`; and `K` holds no external key (they are derived, never stored). -/
def NoReintroExt (K : List Key) (L0 nl : Leaf) (fresh : Nat) : Prop :=
  ∀ k ∈ K, noReintroExt1 L0 nl fresh k

instance (K : List Key) (L0 nl : Leaf) (fresh : Nat) : Decidable (NoReintroExt K L0 nl fresh) := by
  unfold NoReintroExt; infer_instance

theorem freshKeys_extEdits (remove : Option Nat) (t : Tree) : (extEdits remove).FreshKeys t := by
  intro l hl
  simp [extEdits] at hl

/-- the tree after the external commit carries no key of `K` if the tree after its Remove carries none -/
theorem disj_ext_of_t1 (hi : GInv w) (hok : ExtOk w remove L0 nl fresh) (hnr : NoReintroExt K L0 nl fresh)
    (h : w.externalCommit gi remove L0 nl fresh psk ctx deliverTo = .ok (w', tr))
    (ht1 : ∀ a t1, batchEdit w.tree (extEdits remove) = .ok (a, t1) → Disj K t1) : Disj K w'.tree := by
  obtain ⟨gm, t1, self, t1x, o, ms, hc⟩ := externalCommit_inv h
  obtain ⟨a, hb⟩ := hc.edit
  have hd1 := ht1 a t1 hb
  have hx := ext_edit hi hok hc
  rw [hc.world]
  intro st hst hm
  have h1 := hnr _ hst
  simp only [noReintroExt1] at h1
  rcases keyStamps_encap ⟨L0, hx.leaf⟩ hc.enc st hm with h2 | h2 | h2
  · rcases hx.keyStamps st h2 with h3 | h3
    · exact hd1 st hst h3
    · exact h1.1 h3
  · exact h1.2.1 h2
  · omega

theorem disj_ext (hi : GInv w) (hok : ExtOk w remove L0 nl fresh) (hd : Disj K w.tree)
    (hnr : NoReintroExt K L0 nl fresh)
    (h : w.externalCommit gi remove L0 nl fresh psk ctx deliverTo = .ok (w', tr)) : Disj K w'.tree := by
  apply disj_ext_of_t1 hi hok hnr h
  intro a t1 hb st hst hm
  rcases keyStamps_batchEdit hi.good.1 hb st hm with h2 | h2
  · exact hd st hst h2
  · simp [newLeafStamps, extEdits] at h2

/-- the member whose leaf the external commit removes (in a re-sync: the joiner's own old leaf) holds, with its
old state, no key of the new tree -/
theorem disj_removed_ext (hi : GInv w) (hok : ExtOk w remove L0 nl fresh) {rm : Member}
    (hrm : rm ∈ w.members) (hcur : rm.epoch = w.epoch) (hrem : remove = some rm.priv.self)
    (hnr : NoReintroExt (keysOf rm.priv) L0 nl fresh)
    (h : w.externalCommit gi remove L0 nl fresh psk ctx deliverTo = .ok (w', tr)) :
    Disj (keysOf rm.priv) w'.tree := by
  apply disj_ext_of_t1 hi hok hnr h
  intro a t1 hb st hst
  obtain ⟨j, hj⟩ := mem_keysOf hst
  obtain ⟨_, hk⟩ := hi.good.2 _ (current_priv_mem hrm hcur)
  rw [(keyInv_iff _ _).1 hk j] at hj
  exact removed_stamps_gone hi.good.1 (freshKeys_extEdits _ _) hb (by simp [extEdits, hrem]) j st hj

/-- the ciphertexts and key generations of one external commit from epoch `N` on are closed for a party that
holds no key of the new tree and no external key -/
theorem closed_ext {N : Nat} (hN : N ≤ w.epoch) (hd : Disj K w'.tree) (hnr : NoReintroExt K L0 nl fresh)
    (h : w.externalCommit gi remove L0 nl fresh psk ctx deliverTo = .ok (w', tr)) : Closed N K [tr] := by
  refine ⟨?_, ?_, ?_⟩
  · intro k s hm hk
    have hm' : (k, s) ∈ tr.seals := by simpa [sealsOfAll] using hm
    rcases seals_recipients_ext h k s hm' with ⟨st, rfl, hst⟩ | ⟨gm, _, _, rfl, _⟩
    · exact hd st hk hst
    · have := hnr _ hk
      simp only [noReintroExt1] at this
  · intro s k hm
    have hm' : (s, k) ∈ tr.gens := by simpa [gensOfAll] using hm
    rcases mem_transcript_gens hm' with ⟨ps, hps, rfl, _⟩ | ⟨s', _, hk⟩
    · obtain ⟨i, hi⟩ := pathSeals_secret_ext h ps hps
      rw [hi]
      exact Or.inl (hidden_fresh hN i)
    · exact Or.inr ⟨s, hk⟩
  · intro e' s hm
    have hm' : (Key.ext e', s) ∈ tr.seals := by simpa [sealsOfAll] using hm
    rcases seals_recipients_ext h _ s hm' with ⟨st, hst, _⟩ | ⟨gm, _, _, _, rfl⟩
    · cases hst
    · rfl

end ExtCommit

/-! ### the secrets of the followed parties -/

/-- the secrets of a world depend only on random values drawn before its epoch -/
def SInv (w : GroupWorld) : Prop := ∀ m ∈ w.members, hidden (freshFrom w.epoch) m.secret = false

/-- parties that are past epoch `N` hold a secret that depends on a random value drawn at epoch `N` or later -/
def HInv (N : Nat) (w : GroupWorld) : Prop :=
  ∀ m ∈ w.members, N < m.epoch → hidden (freshFrom N) m.secret = true

theorem hidden_mono {N M : Nat} (h : N ≤ M) : ∀ s : Sec, hidden (freshFrom N) s = false →
    hidden (freshFrom M) s = false
  | .genesis, _ => rfl
  | .fresh n, hs => by
    simp only [hidden, freshFrom, decide_eq_false_iff_not] at hs ⊢; omega
  | .psk _, _ => rfl
  | .zero, _ => rfl
  | .path s, hs => hidden_mono h s hs
  | .initOf s, hs => hidden_mono h s hs
  | .ext _, _ => rfl
  | .epoch i c p _, hs => by
    simp only [hidden, Bool.or_eq_false_iff] at hs ⊢
    exact ⟨⟨hidden_mono h i hs.1.1, hidden_mono h c hs.1.2⟩, hidden_mono h p hs.2⟩

theorem hidden_pskInput {A : Sec → Bool} {psk : Sec} (h : psk.isPskInput = true)
    (hA : ∀ i, A (.psk i) = false) : hidden A psk = false := by
  cases psk <;> simp_all [Sec.isPskInput, hidden]

/-- how the secrets of the parties of the new world arise -/
theorem commit_member_cases {w w' : GroupWorld} {tr : Transcript} {sender : Nat} {e : Edits}
    {newLeaf : Option Leaf} {fresh : Nat} {psk : Sec} {ctx : Nat} {deliverTo : List Nat} (hi : GInv w)
    (h : w.commit sender e newLeaf fresh psk ctx deliverTo = .ok (w', tr)) :
    w'.epoch = w.epoch + 1 ∧ psk.isPskInput = true ∧
    ∃ cm ∈ w.members, cm.epoch = w.epoch ∧ ∃ cs,
      (newLeaf = none → cs = .zero) ∧ (newLeaf ≠ none → ∃ u, cs = pathN u (.fresh w.epoch)) ∧
      ∀ m' ∈ w'.members, (m' ∈ w.members ∧ m'.epoch ≤ w.epoch) ∨
        (m'.epoch = w.epoch + 1 ∧ m'.secret = .epoch (.initOf cm.secret) cs psk ctx) := by
  obtain ⟨cm, added, t1, hpre, h⟩ := commit_inv h
  obtain ⟨hcm1, hcm2, _⟩ := sender?_spec hpre.hsender
  cases newLeaf with
  | some nl =>
    obtain ⟨o, ms, js, hc⟩ := commitPath_inv h
    refine ⟨by rw [hc.world], hpre.psk_ok, cm, hcm1, hcm2, pathN (countSome o.pathKeys) (.fresh w.epoch),
      by simp, fun _ => ⟨_, rfl⟩, fun m' hm' => path_member_cases hi hpre hc hm'⟩
  | none =>
    obtain ⟨js, hc⟩ := commitNoPath_inv h
    refine ⟨by rw [hc.world], hpre.psk_ok, cm, hcm1, hcm2, .zero, fun _ => rfl, by simp,
      fun m' hm' => nopath_member_cases hi hpre hc hm'⟩

theorem freshFrom_psk (N i : Nat) : freshFrom N (.psk i) = false := rfl

theorem sinv_commit {w w' : GroupWorld} {tr : Transcript} {sender : Nat} {e : Edits}
    {newLeaf : Option Leaf} {fresh : Nat} {psk : Sec} {ctx : Nat} {deliverTo : List Nat} (hi : GInv w)
    (hs : SInv w) (h : w.commit sender e newLeaf fresh psk ctx deliverTo = .ok (w', tr)) : SInv w' := by
  obtain ⟨he, hpsk, cm, hcm, _, cs, h0, h1, hall⟩ := commit_member_cases hi h
  intro m' hm'
  rw [he]
  rcases hall m' hm' with ⟨hm, _⟩ | ⟨_, hsec⟩
  · exact hidden_mono (Nat.le_succ _) _ (hs m' hm)
  · rw [hsec]
    have hcs : hidden (freshFrom (w.epoch + 1)) cs = false := by
      cases newLeaf with
      | none => rw [h0 rfl]; rfl
      | some nl =>
        obtain ⟨u, rfl⟩ := h1 (by simp)
        rw [hidden_pathN]
        simp [hidden, freshFrom]
    simp only [hidden, hidden_mono (Nat.le_succ _) _ (hs cm hcm), hcs,
      hidden_pskInput hpsk (freshFrom_psk _), Bool.or_self]

theorem sinv_ext {w w' : GroupWorld} {tr : Transcript} {gi : Nat} {remove : Option Nat} {L0 nl : Leaf}
    {fresh : Nat} {psk : Sec} {ctx : Nat} {deliverTo : List Nat} (hi : GInv w)
    (hs : SInv w) (h : w.externalCommit gi remove L0 nl fresh psk ctx deliverTo = .ok (w', tr)) : SInv w' := by
  obtain ⟨he, hpsk, u, hall⟩ := ext_cases hi h
  intro m' hm'
  rw [he]
  rcases hall m' hm' with ⟨hm, _⟩ | ⟨_, hsec⟩
  · exact hidden_mono (Nat.le_succ _) _ (hs m' hm)
  · rw [hsec]
    have hcs : hidden (freshFrom (w.epoch + 1)) (pathN u (.fresh w.epoch)) = false := by
      rw [hidden_pathN]
      simp [hidden, freshFrom]
    simp only [hidden, hcs, hidden_pskInput hpsk (freshFrom_psk _), Bool.or_self, freshFrom]

theorem reachable_sinv {w : GroupWorld} (h : Reachable w) : SInv w := by
  induction h with
  | init l =>
    intro m hm
    have : m = _ := List.mem_singleton.1 hm
    subst this; rfl
  | commit hr _ hc ih => exact sinv_commit (reachable_ginv hr) ih hc
  | ext hr _ hc ih => exact sinv_ext (reachable_ginv hr) ih hc

/-- `HInv N` is preserved by every commit from epoch `N` on, provided the commit that ends epoch `N` itself
has a path -/
theorem hinv_commit {N : Nat} {w w' : GroupWorld} {tr : Transcript} {sender : Nat} {e : Edits}
    {newLeaf : Option Leaf} {fresh : Nat} {psk : Sec} {ctx : Nat} {deliverTo : List Nat} (hi : GInv w)
    (_hN : N ≤ w.epoch) (hh : HInv N w) (hpath : w.epoch = N → newLeaf ≠ none)
    (h : w.commit sender e newLeaf fresh psk ctx deliverTo = .ok (w', tr)) : HInv N w' := by
  obtain ⟨he, hpsk, cm, hcm, hcme, cs, h0, h1, hall⟩ := commit_member_cases hi h
  intro m' hm' hlt
  rcases hall m' hm' with ⟨hm, _⟩ | ⟨_, hsec⟩
  · exact hh m' hm hlt
  · rw [hsec]
    by_cases heq : w.epoch = N
    · obtain ⟨u, rfl⟩ := h1 (hpath heq)
      have := hidden_fresh (Nat.le_of_eq heq.symm) u
      simp only [hidden, this, Bool.or_true, Bool.true_or]
    · have := hh cm hcm (by omega)
      simp only [hidden, this, Bool.true_or]

/-- … and by every external commit from epoch `N` on (it always has a path) -/
theorem hinv_ext {N : Nat} {w w' : GroupWorld} {tr : Transcript} {gi : Nat} {remove : Option Nat}
    {L0 nl : Leaf} {fresh : Nat} {psk : Sec} {ctx : Nat} {deliverTo : List Nat} (hi : GInv w)
    (hN : N ≤ w.epoch) (hh : HInv N w)
    (h : w.externalCommit gi remove L0 nl fresh psk ctx deliverTo = .ok (w', tr)) : HInv N w' := by
  obtain ⟨he, hpsk, u, hall⟩ := ext_cases hi h
  intro m' hm' hlt
  rcases hall m' hm' with ⟨hm, _⟩ | ⟨_, hsec⟩
  · exact hh m' hm hlt
  · rw [hsec]
    have := hidden_fresh hN u
    simp only [hidden, this, Bool.or_true, Bool.true_or]

/-- the creator's initial randomness -/
def isGenesis : Sec → Bool
  | .genesis => true
  | _ => false

/-- the roots of the init-secret chains: the creator's initial randomness and the KEM randomness of the
external committers (an external commit starts a new chain) -/
def isRoot : Sec → Bool
  | .genesis => true
  | .ext _ => true
  | _ => false

/-- every epoch secret of the group depends on a root of an init-secret chain: the creator's initial randomness
or, after an external commit, the joiner's KEM randomness -/
def GenInv (w : GroupWorld) : Prop := ∀ m ∈ w.members, hidden isRoot m.secret = true

theorem geninv_commit {w w' : GroupWorld} {tr : Transcript} {sender : Nat} {e : Edits}
    {newLeaf : Option Leaf} {fresh : Nat} {psk : Sec} {ctx : Nat} {deliverTo : List Nat} (hi : GInv w)
    (hg : GenInv w) (h : w.commit sender e newLeaf fresh psk ctx deliverTo = .ok (w', tr)) : GenInv w' := by
  obtain ⟨_, _, cm, hcm, _, cs, _, _, hall⟩ := commit_member_cases hi h
  intro m' hm'
  rcases hall m' hm' with ⟨hm, _⟩ | ⟨_, hsec⟩
  · exact hg m' hm
  · rw [hsec]
    simp only [hidden, hg cm hcm, Bool.true_or]

theorem geninv_ext {w w' : GroupWorld} {tr : Transcript} {gi : Nat} {remove : Option Nat} {L0 nl : Leaf}
    {fresh : Nat} {psk : Sec} {ctx : Nat} {deliverTo : List Nat} (hi : GInv w)
    (hg : GenInv w) (h : w.externalCommit gi remove L0 nl fresh psk ctx deliverTo = .ok (w', tr)) :
    GenInv w' := by
  obtain ⟨_, _, u, hall⟩ := ext_cases hi h
  intro m' hm'
  rcases hall m' hm' with ⟨hm, _⟩ | ⟨_, hsec⟩
  · exact hg m' hm
  · rw [hsec]
    simp only [hidden, isRoot, Bool.true_or]

theorem reachable_geninv {w : GroupWorld} (h : Reachable w) : GenInv w := by
  induction h with
  | init l =>
    intro m hm
    have : m = _ := List.mem_singleton.1 hm
    subst this; rfl
  | commit hr _ hc ih => exact geninv_commit (reachable_ginv hr) ih hc
  | ext hr _ hc ih => exact geninv_ext (reachable_ginv hr) ih hc

/-! ### the invariant that keeps a party out -/

/-- `Shut N K w T`: the world `w` is past epoch `N`, its tree carries no key of `K`, the parties past epoch
`N` hold hidden secrets, and the transcripts `T` (of the commits since epoch `N`) are closed for `K` -/
structure Shut (N : Nat) (K : List Key) (w : GroupWorld) (T : List Transcript) : Prop where
  ginv : GInv w
  lt : N < w.epoch
  disj : Disj K w.tree
  hinv : HInv N w
  closed : Closed N K T

theorem shut_step {N : Nat} {K : List Key} {w w' : GroupWorld} {T : List Transcript} {tr : Transcript}
    {sender : Nat} {e : Edits} {newLeaf : Option Leaf} {fresh : Nat} {psk : Sec} {ctx : Nat}
    {deliverTo : List Nat} (hs : Shut N K w T) (hok : CommitOk w sender e newLeaf fresh)
    (hnr : NoReintro K e newLeaf fresh)
    (h : w.commit sender e newLeaf fresh psk ctx deliverTo = .ok (w', tr)) : Shut N K w' (tr :: T) := by
  have hd := disj_commit hs.ginv hs.disj hnr h
  have he := (commit_member_cases hs.ginv h).1
  have hlt := hs.lt
  exact ⟨ginv_commit hs.ginv hok h, by omega, hd,
    hinv_commit hs.ginv (Nat.le_of_lt hs.lt) hs.hinv (by omega) h,
    closed_cons (closed_commit (Nat.le_of_lt hs.lt) hd hnr h) hs.closed⟩

/-- the first commit (with a path) after which the party holds no key of the tree -/
theorem shut_first {K : List Key} {w w' : GroupWorld} {tr : Transcript}
    {sender : Nat} {e : Edits} {nl : Leaf} {fresh : Nat} {psk : Sec} {ctx : Nat}
    {deliverTo : List Nat} (hi : GInv w) (hok : CommitOk w sender e (some nl) fresh)
    (hnr : NoReintro K e (some nl) fresh)
    (h : w.commit sender e (some nl) fresh psk ctx deliverTo = .ok (w', tr))
    (hd : Disj K w'.tree) : Shut w.epoch K w' [tr] := by
  have he := (commit_member_cases hi h).1
  refine ⟨ginv_commit hi hok h, by omega, hd, ?_, closed_commit (Nat.le_refl _) hd hnr h⟩
  apply hinv_commit hi (Nat.le_refl _) _ (fun _ => by simp) h
  intro m hm hlt
  have := hi.epochs m hm
  omega

theorem shut_step_ext {N : Nat} {K : List Key} {w w' : GroupWorld} {T : List Transcript} {tr : Transcript}
    {gi : Nat} {remove : Option Nat} {L0 nl : Leaf} {fresh : Nat} {psk : Sec} {ctx : Nat}
    {deliverTo : List Nat} (hs : Shut N K w T) (hok : ExtOk w remove L0 nl fresh)
    (hnr : NoReintroExt K L0 nl fresh)
    (h : w.externalCommit gi remove L0 nl fresh psk ctx deliverTo = .ok (w', tr)) : Shut N K w' (tr :: T) := by
  have hd := disj_ext hs.ginv hok hs.disj hnr h
  have he := (ext_cases hs.ginv h).1
  have hlt := hs.lt
  exact ⟨ginv_ext hs.ginv hok h, by omega, hd,
    hinv_ext hs.ginv (Nat.le_of_lt hs.lt) hs.hinv h,
    closed_cons (closed_ext (Nat.le_of_lt hs.lt) hd hnr h) hs.closed⟩

/-- the first commit after which the party holds no key of the tree is an external commit (e.g. the re-sync
that removes the party's old leaf) -/
theorem shut_first_ext {K : List Key} {w w' : GroupWorld} {tr : Transcript}
    {gi : Nat} {remove : Option Nat} {L0 nl : Leaf} {fresh : Nat} {psk : Sec} {ctx : Nat}
    {deliverTo : List Nat} (hi : GInv w) (hok : ExtOk w remove L0 nl fresh)
    (hnr : NoReintroExt K L0 nl fresh)
    (h : w.externalCommit gi remove L0 nl fresh psk ctx deliverTo = .ok (w', tr))
    (hd : Disj K w'.tree) : Shut w.epoch K w' [tr] := by
  have he := (ext_cases hi h).1
  refine ⟨ginv_ext hi hok h, by omega, hd, ?_, closed_ext (Nat.le_refl _) hd hnr h⟩
  apply hinv_ext hi (Nat.le_refl _) _ h
  intro m hm hlt
  have := hi.epochs m hm
  omega

/-- later commits and external commits, none of which reintroduces a key of `K`; the transcripts are collected newest first -/
inductive Later (K : List Key) : GroupWorld → List Transcript → GroupWorld → Prop
  | refl (w : GroupWorld) : Later K w [] w
  | step {w w1 w2 : GroupWorld} {T : List Transcript} {tr : Transcript} {sender : Nat} {e : Edits}
      {newLeaf : Option Leaf} {fresh : Nat} {psk : Sec} {ctx : Nat} {deliverTo : List Nat} :
      Later K w T w1 → CommitOk w1 sender e newLeaf fresh → NoReintro K e newLeaf fresh →
      w1.commit sender e newLeaf fresh psk ctx deliverTo = .ok (w2, tr) → Later K w (tr :: T) w2
  | ext {w w1 w2 : GroupWorld} {T : List Transcript} {tr : Transcript} {gi : Nat} {remove : Option Nat}
      {L0 nl : Leaf} {fresh : Nat} {psk : Sec} {ctx : Nat} {deliverTo : List Nat} :
      Later K w T w1 → ExtOk w1 remove L0 nl fresh → NoReintroExt K L0 nl fresh →
      w1.externalCommit gi remove L0 nl fresh psk ctx deliverTo = .ok (w2, tr) → Later K w (tr :: T) w2

theorem shut_later {N : Nat} {K : List Key} {w w' : GroupWorld} {T0 T : List Transcript}
    (hs : Shut N K w T0) (hl : Later K w T w') : Shut N K w' (T ++ T0) := by
  induction hl with
  | refl => exact hs
  | step _ hok hnr hc ih => exact shut_step ih hok hnr hc
  | ext _ hok hnr hc ih => exact shut_step_ext ih hok hnr hc

/-- what `Shut` gives against a party whose own secrets are older than epoch `N` -/
theorem shut_conclusions {N : Nat} {K : List Key} {w : GroupWorld} {T : List Transcript} {S : List Sec}
    (hs : Shut N K w T) (hS : ∀ s ∈ S, hidden (freshFrom N) s = false) :
    (∀ n i, N ≤ n → ¬ Derivable K S (sealsOfAll T) (gensOfAll T) (.sec (pathN i (.fresh n)))) ∧
    (∀ tr ∈ T, ∀ ps ∈ tr.pathSeals, ¬ Derivable K S (sealsOfAll T) (gensOfAll T) (.sec ps.secret)) ∧
    (∀ m ∈ w.members, N < m.epoch →
      ¬ Derivable K S (sealsOfAll T) (gensOfAll T) (.sec m.secret) ∧
      ¬ Derivable K S (sealsOfAll T) (gensOfAll T) (.sec m.initSecret)) := by
  have key := closed_secrecy hs.closed hS
  refine ⟨fun n i hn => key _ (hidden_fresh hn i), ?_, ?_⟩
  · intro tr htr ps hps
    apply key
    have hg : (ps.secret, Key.node ps.key) ∈ gensOfAll T := by
      unfold gensOfAll
      rw [List.mem_flatMap]
      exact ⟨tr, htr, by
        unfold Transcript.gens
        exact List.mem_append_left _ (List.mem_map.2 ⟨ps, hps, rfl⟩)⟩
    rcases hs.closed.2.1 _ _ hg with h | ⟨e, h⟩
    · exact h
    · cases h
  · intro m hm hlt
    have := hs.hinv m hm hlt
    exact ⟨key _ this, key _ this⟩

theorem later_reachable {K : List Key} {w w' : GroupWorld} {T : List Transcript} (hr : Reachable w)
    (hl : Later K w T w') : Reachable w' := by
  induction hl with
  | refl => exact hr
  | step _ hok _ hc ih => exact .commit ih hok hc
  | ext _ hok _ hc ih => exact .ext ih hok hc

end MlsVerif.Group
