import MlsVerif.Proofs.GroupBasic
/-
The invariant of the composed group model over whole histories: the key invariant of the tree layer for
every current member (through `Step` / `step_good` of `Proofs/Tree/World.lean`), epoch numbers, and
agreement of the epoch secrets.
-/
namespace MlsVerif.Group
open MlsVerif.Tree MlsVerif.TreeMath

/-! ### side conditions of a commit (those of `Step.commit`, as decidable predicates) -/

def leafIdsOk (nl : Leaf) : Option Node → Bool
  | some (.leaf L) => L.ident != nl.ident && L.sig != nl.sig
  | _ => true

/-- no other leaf carries the identity or the signature key of the committer's new leaf node -/
def newLeafOkB (t1 : Tree) (sender : Nat) (nl : Leaf) : Bool :=
  (List.range t1.length).all fun x => x == 2 * sender || leafIdsOk nl (get t1 x)

theorem newLeafOkB_spec {t1 : Tree} {sender : Nat} {nl : Leaf} (h : newLeafOkB t1 sender nl = true) :
    ∀ x L, x ≠ 2 * sender → get t1 x = some (.leaf L) → L.ident ≠ nl.ident ∧ L.sig ≠ nl.sig := by
  intro x L hx hg
  unfold newLeafOkB at h
  rw [List.all_eq_true] at h
  have := h x (List.mem_range.2 (lt_of_get_some hg))
  simp only [Bool.or_eq_true, beq_iff_eq, hx, false_or, hg, leafIdsOk, Bool.and_eq_true, bne_iff_ne] at this
  exact this

/-- the stamps `fresh, fresh+1, …` and the committer's new leaf key are new, the new leaf node does not
clash with another member -/
def PathOk (t1 : Tree) (sender : Nat) (nl : Leaf) (fresh : Nat) : Prop :=
  StampsBelow t1 fresh ∧ nl.hpke ∉ keyStamps t1 ∧ nl.hpke < fresh ∧ newLeafOkB t1 sender nl = true

instance (t1 : Tree) (sender : Nat) (nl : Leaf) (fresh : Nat) : Decidable (PathOk t1 sender nl fresh) := by
  unfold PathOk; infer_instance

/-- The side conditions under which the tree-layer theorems hold (exactly those of `Step.commit`): the HPKE
stamps of the leaf nodes brought by the proposals are not key stamps of the old tree (`FreshKeys`), and for
a commit with a path `PathOk` on the tree after the proposals.  Modelling conditions on the stamps (fresh
keys are new), not conditions on the group. -/
def CommitOk (w : GroupWorld) (sender : Nat) (e : Edits) (newLeaf : Option Leaf) (fresh : Nat) : Prop :=
  e.FreshKeys w.tree ∧
    match batchEdit w.tree e, newLeaf with
    | .ok r, some nl => PathOk r.2 sender nl fresh
    | _, _ => True

instance (w : GroupWorld) (sender : Nat) (e : Edits) (newLeaf : Option Leaf) (fresh : Nat) :
    Decidable (CommitOk w sender e newLeaf fresh) := by
  unfold CommitOk
  cases batchEdit w.tree e with
  | error x => exact inferInstanceAs (Decidable (_ ∧ True))
  | ok r =>
    cases newLeaf with
    | none => exact inferInstanceAs (Decidable (_ ∧ True))
    | some nl => exact inferInstanceAs (Decidable (_ ∧ PathOk r.2 sender nl fresh))

theorem CommitOk.pathOk {w : GroupWorld} {sender : Nat} {e : Edits} {nl : Leaf} {fresh : Nat}
    {added : List Nat} {t1 : Tree} (h : CommitOk w sender e (some nl) fresh)
    (hb : batchEdit w.tree e = .ok (added, t1)) : PathOk t1 sender nl fresh := by
  have := h.2
  rw [hb] at this
  exact this

/-- The side conditions of an external commit (those of `Step.commit` for its two tree edits): the HPKE stamp
of the leaf node the joiner inserts is not a key stamp of the tree after the proposals, and `PathOk` for its update
path on the tree with that leaf inserted. -/
def ExtOk (w : GroupWorld) (remove : Option Nat) (L0 nl : Leaf) (fresh : Nat) : Prop :=
  match batchEdit w.tree (extEdits remove) with
  | .ok r => L0.hpke ∉ keyStamps r.2 ∧
      match addLeaf r.2 L0 0 with
      | .ok r' => PathOk r'.2 r'.1 nl fresh
      | _ => True
  | _ => True

instance (w : GroupWorld) (remove : Option Nat) (L0 nl : Leaf) (fresh : Nat) :
    Decidable (ExtOk w remove L0 nl fresh) := by
  unfold ExtOk
  cases batchEdit w.tree (extEdits remove) with
  | error x => exact inferInstanceAs (Decidable True)
  | ok r =>
    have : Decidable (match addLeaf r.2 L0 0 with
        | .ok r' => PathOk r'.2 r'.1 nl fresh
        | _ => True) := by
      cases addLeaf r.2 L0 0 with
      | error x => exact inferInstanceAs (Decidable True)
      | ok r' => exact inferInstanceAs (Decidable (PathOk r'.2 r'.1 nl fresh))
    exact inferInstanceAs (Decidable (_ ∧ _))

theorem ExtOk.fresh0 {w : GroupWorld} {remove : Option Nat} {L0 nl : Leaf} {fresh : Nat} {a : List Nat}
    {t1 : Tree} (h : ExtOk w remove L0 nl fresh) (hb : batchEdit w.tree (extEdits remove) = .ok (a, t1)) :
    L0.hpke ∉ keyStamps t1 := by
  unfold ExtOk at h
  rw [hb] at h
  exact h.1

theorem ExtOk.pathOk {w : GroupWorld} {remove : Option Nat} {L0 nl : Leaf} {fresh : Nat} {a : List Nat}
    {t1 t1x : Tree} {self : Nat} (h : ExtOk w remove L0 nl fresh)
    (hb : batchEdit w.tree (extEdits remove) = .ok (a, t1)) (hadd : addLeaf t1 L0 0 = .ok (self, t1x)) :
    PathOk t1x self nl fresh := by
  unfold ExtOk at h
  rw [hb] at h
  have := h.2
  simp only [hadd] at this
  exact this

/-- group worlds reachable from a one-member group by commits (any committer, any proposals, with and without
path, any set of members that receive the commit) and external commits (any GroupInfo provider, with and
without the Remove of a leaf, any set of members that receive it) -/
inductive Reachable : GroupWorld → Prop
  | init (l : Leaf) : Reachable (GroupWorld.init l)
  | commit {w w' : GroupWorld} {tr : Transcript} {sender : Nat} {e : Edits} {newLeaf : Option Leaf}
      {fresh : Nat} {psk : Sec} {ctx : Nat} {deliverTo : List Nat} :
      Reachable w → CommitOk w sender e newLeaf fresh →
      w.commit sender e newLeaf fresh psk ctx deliverTo = .ok (w', tr) → Reachable w'
  | ext {w w' : GroupWorld} {tr : Transcript} {gi : Nat} {remove : Option Nat} {L0 nl : Leaf}
      {fresh : Nat} {psk : Sec} {ctx : Nat} {deliverTo : List Nat} :
      Reachable w → ExtOk w remove L0 nl fresh →
      w.externalCommit gi remove L0 nl fresh psk ctx deliverTo = .ok (w', tr) → Reachable w'

/-! ### the invariant -/

/-- the tree-layer world: the public tree and the key slots of the current members -/
def toWorld (w : GroupWorld) : World :=
  ⟨w.tree, (w.members.filter (·.current w)).map (·.priv)⟩

/-- all followed parties of the same epoch hold the same epoch secret -/
def Agree (w : GroupWorld) : Prop :=
  ∀ m1 ∈ w.members, ∀ m2 ∈ w.members, m1.epoch = m2.epoch → m1.secret = m2.secret

structure GInv (w : GroupWorld) : Prop where
  good : (toWorld w).Good
  epochs : ∀ m ∈ w.members, m.epoch ≤ w.epoch
  agree : Agree w

theorem mem_toWorld {w : GroupWorld} {p : Priv} :
    p ∈ (toWorld w).members ↔ ∃ m ∈ w.members, m.epoch = w.epoch ∧ m.priv = p := by
  unfold toWorld
  simp only [List.mem_map, List.mem_filter, Member.current, beq_iff_eq]
  constructor
  · rintro ⟨m, ⟨h1, h2⟩, h3⟩; exact ⟨m, h1, h2, h3⟩
  · rintro ⟨m, h1, h2, h3⟩; exact ⟨m, ⟨h1, h2⟩, h3⟩

/-! ### how a followed party moves -/

theorem processes_iff {w : GroupWorld} {sender : Nat} {e : Edits} {deliverTo : List Nat} {m : Member} :
    processes w sender e deliverTo m = true ↔
      m.epoch = w.epoch ∧ (m.priv.self = sender ∨ (m.priv.self ∉ e.removes ∧ m.priv.self ∈ deliverTo)) := by
  simp [processes, Member.current]

/-- what a successful receiver did -/
theorem recvPathI_ok {init : Sec} {t1 : Tree} {o : EncapOut} {seals : List PathSeal} {sender : Nat} {e : Edits}
    {added : List Nat} {psk : Sec} {ctx : Nat} {m m' : Member}
    (h : recvPathI init t1 o seals sender e added psk ctx m = .ok m') :
    ∃ d ps r k,
      decap o.tree (provisionalPriv t1 m.priv (ownUpdate e m.priv.self)) sender o.pathKeys added = .ok d ∧
      seals[countSome (o.pathKeys.take (lcaIndex m.priv.self sender))]? = some ps ∧
      ps.recips[d.ctPos]? = some (r, some k) ∧
      (provisionalPriv t1 m.priv (ownUpdate e m.priv.self)).keys[d.slot]? = some (some k) ∧
      chainMatches seals (countSome (o.pathKeys.take (lcaIndex m.priv.self sender))) ps.secret = true ∧
      m' = { m with priv := d.priv, epoch := m.epoch + 1,
                    secret := .epoch init
                      (pathN (countSome (o.pathKeys.drop (lcaIndex m.priv.self sender))) ps.secret) psk ctx } := by
  unfold recvPathI at h
  simp only at h
  split at h
  · cases h
  rename_i d hd
  split at h
  · cases h
  rename_i ps hps
  split at h
  · rename_i r k k' hr hk
    split at h
    · rename_i hkk
      subst hkk
      split at h
      · rename_i hcm
        simp only [Except.ok.injEq] at h
        exact ⟨d, ps, r, k, hd, hps, hr, hk, hcm, h.symm⟩
      · cases h
    · cases h
  · cases h

theorem recvPath_ok {t1 : Tree} {o : EncapOut} {seals : List PathSeal} {sender : Nat} {e : Edits}
    {added : List Nat} {psk : Sec} {ctx : Nat} {m m' : Member}
    (h : recvPath t1 o seals sender e added psk ctx m = .ok m') :
    ∃ d ps r k,
      decap o.tree (provisionalPriv t1 m.priv (ownUpdate e m.priv.self)) sender o.pathKeys added = .ok d ∧
      seals[countSome (o.pathKeys.take (lcaIndex m.priv.self sender))]? = some ps ∧
      ps.recips[d.ctPos]? = some (r, some k) ∧
      (provisionalPriv t1 m.priv (ownUpdate e m.priv.self)).keys[d.slot]? = some (some k) ∧
      chainMatches seals (countSome (o.pathKeys.take (lcaIndex m.priv.self sender))) ps.secret = true ∧
      m' = { m with priv := d.priv, epoch := m.epoch + 1,
                    secret := .epoch (.initOf m.secret)
                      (pathN (countSome (o.pathKeys.drop (lcaIndex m.priv.self sender))) ps.secret) psk ctx } :=
  recvPathI_ok h

theorem advPath_cases {w : GroupWorld} {sender : Nat} {e : Edits} {deliverTo : List Nat} {t1 : Tree}
    {o : EncapOut} {seals : List PathSeal} {added : List Nat} {psk : Sec} {ctx : Nat} {E : Sec}
    {m m' : Member} (h : advPath w sender e deliverTo t1 o seals added psk ctx E m = .ok m') :
    (processes w sender e deliverTo m = false ∧ m' = m) ∨
    (m.epoch = w.epoch ∧ m.priv.self = sender ∧
      m' = { m with priv := ⟨sender, o.slots⟩, epoch := m.epoch + 1, secret := E }) ∨
    (m.epoch = w.epoch ∧ m.priv.self ≠ sender ∧ m.priv.self ∉ e.removes ∧ m.priv.self ∈ deliverTo ∧
      recvPath t1 o seals sender e added psk ctx m = .ok m') := by
  unfold advPath at h
  cases hp : processes w sender e deliverTo m with
  | false =>
    simp only [hp, Bool.not_false, if_true, Except.ok.injEq] at h
    exact Or.inl ⟨rfl, h.symm⟩
  | true =>
    simp only [hp, Bool.not_true, Bool.false_eq_true, if_false] at h
    obtain ⟨h1, h2⟩ := processes_iff.1 hp
    by_cases hs : m.priv.self = sender
    · simp only [hs, beq_self_eq_true, if_true, Except.ok.injEq] at h
      exact Or.inr (Or.inl ⟨h1, hs, h.symm⟩)
    · have : (m.priv.self == sender) = false := by simpa using hs
      simp only [this, Bool.false_eq_true, if_false] at h
      rcases h2 with h2 | h2
      · exact absurd h2 hs
      · exact Or.inr (Or.inr ⟨h1, hs, h2.1, h2.2, h⟩)

theorem joinWith_ok {t' : Tree} {hasPath : Bool} {sender newEpoch : Nat} {ws : Option WelcomeSeal} {self : Nat}
    {L : Leaf} {m' : Member} (h : joinWith t' hasPath sender newEpoch ws self L = .ok m') :
    ∃ w0 p, ws = some w0 ∧ w0.initKey = L.hpke ∧ (hasPath = true → w0.pathSecret.isSome) ∧
      joinerPriv t' self L.hpke sender hasPath = .ok p ∧
      m' = { id := L.ident, priv := p, epoch := newEpoch, secret := w0.joiner } := by
  unfold joinWith at h
  split at h
  · cases h
  rename_i w0
  split at h
  · cases h
  rename_i hk
  split at h
  · cases h
  rename_i hp
  split at h
  · cases h
  rename_i p hjp
  simp only [Except.ok.injEq] at h
  refine ⟨w0, p, rfl, by simpa using hk, ?_, hjp, h.symm⟩
  intro hh
  subst hh
  cases hps : w0.pathSecret with
  | none => simp [hps] at hp
  | some _ => rfl

/-- the joiners that processed the Welcome -/
theorem joinAll_ok {t' : Tree} {hasPath : Bool} {sender newEpoch : Nat} {welcome : List WelcomeSeal}
    {e : Edits} {added deliverTo : List Nat} {js : List Member}
    (h : joinAll t' hasPath sender newEpoch welcome e added deliverTo = .ok js) {m' : Member} (hm : m' ∈ js) :
    ∃ (j self : Nat) (L : Leaf) (w0 : WelcomeSeal) (p : Priv), added[j]? = some self ∧ e.adds[j]? = some L ∧ self ∈ deliverTo ∧
      welcome[j]? = some w0 ∧ w0.initKey = L.hpke ∧ (hasPath = true → w0.pathSecret.isSome) ∧
      joinerPriv t' self L.hpke sender hasPath = .ok p ∧
      m' = { id := L.ident, priv := p, epoch := newEpoch, secret := w0.joiner } := by
  unfold joinAll at h
  obtain ⟨⟨j, self, L⟩, hx, hf⟩ := (mapE_ok h).1 m' hm
  obtain ⟨h1, h2, h3⟩ := mem_joinersOf.1 hx
  obtain ⟨w0, p, e1, e2, e3, e4, e5⟩ := joinWith_ok hf
  exact ⟨j, self, L, w0, p, h1, h2, h3, e1, e2, e3, e4, e5⟩

theorem welcome_getElem? {added : List Nat} {adds : List Leaf} {f : Nat → Leaf → WelcomeSeal} {j : Nat}
    {w0 : WelcomeSeal} (h : ((added.zip adds).map fun x => f x.1 x.2)[j]? = some w0) :
    ∃ self L, added[j]? = some self ∧ adds[j]? = some L ∧ w0 = f self L := by
  rw [List.getElem?_map] at h
  cases hz : (added.zip adds)[j]? with
  | none => rw [hz] at h; cases h
  | some x =>
    rw [hz] at h
    simp only [Option.map_some, Option.some.injEq] at h
    rw [List.getElem?_zip_eq_some] at hz
    exact ⟨x.1, x.2, hz.1, hz.2, h.symm⟩

/-! ### the commit secret is the end of the chain -/

/-- whatever position a receiver decrypts at, what it computes from the opened path secret is the
committer's commit secret: `pathN (countSome pathKeys) s0` -/
theorem recv_commit_secret {o : EncapOut} {s0 : Sec} {c : Nat} {ps : PathSeal}
    (h : (pathSealsOf o s0)[countSome (o.pathKeys.take c)]? = some ps) :
    pathN (countSome (o.pathKeys.drop c)) ps.secret = pathN (countSome o.pathKeys) s0 := by
  rw [sealChain_secret h, ← pathN_add, Nat.add_comm, countSome_take_drop]

/-! ### preservation -/

section Path
variable {w w' : GroupWorld} {sender : Nat} {e : Edits} {nl : Leaf} {fresh : Nat} {psk : Sec} {ctx : Nat}
  {deliverTo : List Nat} {tr : Transcript} {cm : Member} {added : List Nat} {t1 : Tree} {o : EncapOut}
  {ms js : List Member}

/-- the new epoch secret computed by the committer -/
def newSecret (w : GroupWorld) (cm : Member) (o : EncapOut) (psk : Sec) (ctx : Nat) : Sec :=
  .epoch (.initOf cm.secret) (pathN (countSome o.pathKeys) (.fresh w.epoch)) psk ctx

/-- every party after a commit with a path is either an unchanged party of the old world, or is in the new
epoch with the committer's new epoch secret -/
theorem path_member_cases (hi : GInv w) (hpre : CommitPre w sender e psk cm added t1)
    (hc : PathCommit w sender e nl fresh psk ctx deliverTo w' tr cm added t1 o ms js)
    {m' : Member} (hm : m' ∈ w'.members) :
    (m' ∈ w.members ∧ m'.epoch ≤ w.epoch) ∨
    (m'.epoch = w.epoch + 1 ∧ m'.secret = newSecret w cm o psk ctx) := by
  obtain ⟨hcm1, hcm2, hcm3⟩ := sender?_spec hpre.hsender
  rw [hc.world] at hm
  simp only [List.mem_append] at hm
  rcases hm with hm | hm
  · obtain ⟨m, hmw, hadv⟩ := (mapE_ok hc.members).1 m' hm
    rcases advPath_cases hadv with ⟨_, rfl⟩ | ⟨h1, _, rfl⟩ | ⟨h1, _, _, _, hr⟩
    · exact Or.inl ⟨hmw, hi.epochs _ hmw⟩
    · exact Or.inr ⟨by simp [h1], rfl⟩
    · obtain ⟨d, ps, r, k, _, hps, _, _, _, rfl⟩ := recvPath_ok hr
      refine Or.inr ⟨by simp [h1], ?_⟩
      simp only [newSecret]
      rw [recv_commit_secret hps, hi.agree m hmw cm hcm1 (by rw [h1, hcm2])]
  · obtain ⟨j, self, L, w0, p, _, _, _, hw0, _, _, _, rfl⟩ := joinAll_ok hc.joiners hm
    rw [hc.welcome] at hw0
    obtain ⟨_, _, _, _, rfl⟩ := welcome_getElem? hw0
    exact Or.inr ⟨rfl, rfl⟩

end Path

section NoPath
variable {w w' : GroupWorld} {sender : Nat} {e : Edits} {psk : Sec} {ctx : Nat}
  {deliverTo : List Nat} {tr : Transcript} {cm : Member} {added : List Nat} {t1 : Tree}
  {js : List Member}

theorem advNoPath_cases (w : GroupWorld) (sender : Nat) (e : Edits) (deliverTo : List Nat) (t1 : Tree)
    (psk : Sec) (ctx : Nat) (m : Member) :
    (processes w sender e deliverTo m = false ∧ advNoPath w sender e deliverTo t1 psk ctx m = m) ∨
    (m.epoch = w.epoch ∧ (m.priv.self = sender ∨ (m.priv.self ∉ e.removes ∧ m.priv.self ∈ deliverTo)) ∧
      advNoPath w sender e deliverTo t1 psk ctx m =
        { m with priv := provisionalPriv t1 m.priv (ownUpdate e m.priv.self), epoch := m.epoch + 1,
                 secret := .epoch (.initOf m.secret) .zero psk ctx }) := by
  unfold advNoPath
  cases hp : processes w sender e deliverTo m with
  | false => exact Or.inl ⟨rfl, by simp⟩
  | true =>
    obtain ⟨h1, h2⟩ := processes_iff.1 hp
    exact Or.inr ⟨h1, h2, by simp⟩

theorem nopath_member_cases (hi : GInv w) (hpre : CommitPre w sender e psk cm added t1)
    (hc : NoPathCommit w sender e psk ctx deliverTo w' tr cm added t1 js)
    {m' : Member} (hm : m' ∈ w'.members) :
    (m' ∈ w.members ∧ m'.epoch ≤ w.epoch) ∨
    (m'.epoch = w.epoch + 1 ∧ m'.secret = .epoch (.initOf cm.secret) .zero psk ctx) := by
  obtain ⟨hcm1, hcm2, hcm3⟩ := sender?_spec hpre.hsender
  rw [hc.world] at hm
  simp only [List.mem_append, List.mem_map] at hm
  rcases hm with ⟨m, hmw, rfl⟩ | hm
  · rcases advNoPath_cases w sender e deliverTo t1 psk ctx m with ⟨_, h⟩ | ⟨h1, _, h⟩
    · rw [h]; exact Or.inl ⟨hmw, hi.epochs _ hmw⟩
    · rw [h]
      refine Or.inr ⟨by simp [h1], ?_⟩
      simp only
      rw [hi.agree m hmw cm hcm1 (by rw [h1, hcm2])]
  · obtain ⟨j, self, L, w0, p, _, _, _, hw0, _, _, _, rfl⟩ := joinAll_ok hc.joiners hm
    rw [hc.welcome] at hw0
    obtain ⟨_, _, _, _, rfl⟩ := welcome_getElem? hw0
    exact Or.inr ⟨rfl, rfl⟩

end NoPath

/-- agreement and the epoch bound survive a commit, given how each party moved -/
theorem agree_of_cases {w w' : GroupWorld} {E : Sec} (hi : GInv w) (he : w'.epoch = w.epoch + 1)
    (h : ∀ m' ∈ w'.members, (m' ∈ w.members ∧ m'.epoch ≤ w.epoch) ∨ (m'.epoch = w.epoch + 1 ∧ m'.secret = E)) :
    (∀ m ∈ w'.members, m.epoch ≤ w'.epoch) ∧ Agree w' := by
  constructor
  · intro m hm
    rcases h m hm with ⟨_, h1⟩ | ⟨h1, _⟩ <;> omega
  · intro m1 h1 m2 h2 heq
    rcases h m1 h1 with ⟨a1, a2⟩ | ⟨a1, a2⟩ <;> rcases h m2 h2 with ⟨b1, b2⟩ | ⟨b1, b2⟩
    · exact hi.agree m1 a1 m2 b1 heq
    · omega
    · omega
    · rw [a2, b2]

/-! ### external commits -/

theorem processesExt_iff {w : GroupWorld} {remove : Option Nat} {deliverTo : List Nat} {m : Member} :
    processesExt w remove deliverTo m = true ↔
      m.epoch = w.epoch ∧ remove ≠ some m.priv.self ∧ m.priv.self ∈ deliverTo := by
  simp [processesExt, Member.current, and_assoc]

theorem advExt_cases {w : GroupWorld} {remove : Option Nat} {deliverTo : List Nat} {t1x : Tree}
    {o : EncapOut} {seals : List PathSeal} {self : Nat} {psk : Sec} {ctx : Nat} {eOld : Sec}
    {m m' : Member} (h : advExt w remove deliverTo t1x o seals self psk ctx eOld m = .ok m') :
    (processesExt w remove deliverTo m = false ∧ m' = m) ∨
    (m.epoch = w.epoch ∧ remove ≠ some m.priv.self ∧ m.priv.self ∈ deliverTo ∧ m.secret = eOld ∧
      recvPathI (.ext w.epoch) t1x o seals self noEdits [] psk ctx m = .ok m') := by
  unfold advExt at h
  cases hp : processesExt w remove deliverTo m with
  | false =>
    simp only [hp, Bool.not_false, if_true, Except.ok.injEq] at h
    exact Or.inl ⟨rfl, h.symm⟩
  | true =>
    simp only [hp, Bool.not_true, Bool.false_eq_true, if_false] at h
    obtain ⟨h1, h2, h3⟩ := processesExt_iff.1 hp
    by_cases hs : m.secret = eOld
    · simp only [hs, ne_eq, not_true_eq_false, if_false] at h
      exact Or.inr ⟨h1, h2, h3, hs, h⟩
    · simp only [ne_eq, hs, not_false_eq_true, if_true] at h
      cases h

section Ext
variable {w w' : GroupWorld} {gi : Nat} {remove : Option Nat} {L0 nl : Leaf} {fresh : Nat} {psk : Sec}
  {ctx : Nat} {deliverTo : List Nat} {tr : Transcript} {gm : Member} {t1 : Tree} {self : Nat} {t1x : Tree}
  {o : EncapOut} {ms : List Member}

/-- every party after an external commit is either an unchanged party of the old world, or is in the new epoch
with the joiner's new epoch secret -/
theorem ext_member_cases (hi : GInv w)
    (hc : ExtCommit w gi remove L0 nl fresh psk ctx deliverTo w' tr gm t1 self t1x o ms)
    {m' : Member} (hm : m' ∈ w'.members) :
    (m' ∈ w.members ∧ m'.epoch ≤ w.epoch) ∨
    (m'.epoch = w.epoch + 1 ∧ m'.secret = extSecret w o psk ctx) := by
  rw [hc.world] at hm
  simp only [List.mem_append, List.mem_singleton] at hm
  rcases hm with hm | rfl
  · obtain ⟨m, hmw, hadv⟩ := (mapE_ok hc.members).1 m' hm
    rcases advExt_cases hadv with ⟨_, rfl⟩ | ⟨h1, _, _, _, hr⟩
    · exact Or.inl ⟨hmw, hi.epochs _ hmw⟩
    · obtain ⟨d, ps, r, k, _, hps, _, _, _, rfl⟩ := recvPathI_ok hr
      refine Or.inr ⟨by simp [h1], ?_⟩
      simp only [extSecret]
      rw [recv_commit_secret hps]
  · exact Or.inr ⟨rfl, rfl⟩

end Ext

end MlsVerif.Group
