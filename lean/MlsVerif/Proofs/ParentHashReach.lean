import MlsVerif.Proofs.ParentHashEdit
import MlsVerif.Proofs.ParentHashPath
import MlsVerif.Proofs.ParentHashValid
import MlsVerif.Proofs.ParentHashAccept
/-
Histories of trees with their parent-hash layer, mirroring `Reachable` of `Proofs/Tree/Commit.lean`.
-/
namespace MlsVerif.ParentHash
open MlsVerif.TreeMath MlsVerif.Tree MlsVerif.TreeHash

/-- Trees with parent hashes reachable from a one-member group (whose leaf comes from a key package:
no parent hash) by proposals (`batch_edit`) and committers' path updates (`encap`).  The side
conditions are those of `Reachable` plus: the fresh key stamps of a path update are also new with
respect to the keys hashed at the top level of the stored parent hashes (a blanked node's key may
survive there; real keys are random, so this is the same modelling side condition as
`StampsBelow`). -/
inductive PReachable : PTree → Prop
  | init (l : Leaf) : PReachable ⟨[some (.leaf l)], [none]⟩
  | edit {p p' : PTree} {e : Edits} {added : List Nat} : PReachable p → e.FreshKeys p.t →
      p.batchEdit e = .ok (added, p') → PReachable p'
  | path {p p' : PTree} {self fresh : Nat} {nl : Leaf} {excl : List Nat} {o : EncapOut} :
      PReachable p → (∃ L, get p.t (2 * self) = some (.leaf L)) →
      StampsBelow p.t fresh → PhKeysBelow p.ph fresh → nl.hpke ∉ keyStamps p.t → nl.hpke < fresh →
      (∀ x L, x ≠ 2 * self → get p.t x = some (.leaf L) → L.ident ≠ nl.ident ∧ L.sig ≠ nl.sig) →
      p.encap self nl excl fresh = .ok (o, p') → PReachable p'

theorem phinv_init (l : Leaf) : PHInv ⟨[some (.leaf l)], [none]⟩ := by
  constructor
  · intro x hx P hP
    have : x = 0 := by simpa using hx
    subst this
    cases hP
  · intro d hd d' _ k hk _
    have : d = 0 := by simpa using hd
    subst this
    cases hk

/-- along every history: the tree is a reachable tree of `Props/C08` (hence well-formed) and the
parent-hash invariant holds -/
theorem preachable_inv {p : PTree} (h : PReachable p) : Reachable p.t ∧ PHInv p := by
  induction h with
  | init l => exact ⟨.init l, phinv_init l⟩
  | edit _ hf hb ih =>
    have ht := (batchEdit_tree hb).1
    have hw := reachable_wf ih.1
    exact ⟨.edit ih.1 hf ht, batchEdit_phinv hw (wf_batchEdit hw hf ht) ih.2 hb⟩
  | path _ hL hsb hpb hnl hnl2 hid he ih =>
    obtain ⟨hi', ht, hte, _⟩ := encap_phinv (reachable_wf ih.1) ih.2 hL hsb hpb hnl hnl2 hid he
    refine ⟨?_, hi'⟩
    rw [ht]
    exact .path ih.1 hL hsb hnl hnl2 hid hte

/-- a receiver's `apply_update_path` with any announced path whose keys sit on the unfiltered
positions and are new (for the tree and for the parent-hash layer): if the leaf's parent hash
verifies, the invariant holds for the resulting tree -/
theorem applyUpdatePath_phinv {p p' : PTree} {sender : Nat} {nl : Leaf} {lph : Option PH}
    {pk : List (Option Nat)} (hw : WF p.t) (hi : PHInv p) (hf : FilterOk p.t sender pk)
    (hk1 : ∀ (j k : Nat), pk[j]? = some (some k) → k ∉ keyStamps p.t ∧ k ≠ nl.hpke)
    (hk1' : ∀ (j k : Nat), pk[j]? = some (some k) → ∀ i, topKey p.ph i ≠ some k)
    (hk2 : ∀ (j j' k : Nat), pk[j]? = some (some k) → pk[j']? = some (some k) → j = j')
    (hnl : nl.hpke ∉ keyStamps p.t)
    (hid : ∀ x L, x ≠ 2 * sender → get p.t x = some (.leaf L) → L.ident ≠ nl.ident ∧ L.sig ≠ nl.sig)
    (h : p.applyUpdatePath sender nl lph pk = .ok p') :
    PHInv p' ∧ WF p'.t ∧ Tree.applyUpdatePath p.t sender nl pk = .ok p'.t := by
  cases ht : Tree.applyUpdatePath p.t sender nl pk with
  | error e =>
    unfold PTree.applyUpdatePath at h
    rw [ht] at h
    cases h
  | ok t' =>
    rw [applyUpdatePath_of_tree lph ht] at h
    obtain ⟨hpu, hL⟩ := applyUpdatePath_spec ht
    have hlen := applyUpdatePath_length hw.1.1 hf ht
    have hw' := wf_applyUpdatePath hw hf hk1 hk2 hnl hid ht
    obtain ⟨p0, h0⟩ := sender_ok hw hw' hpu hlen hL hf
    obtain ⟨_, rfl⟩ := (receiver_iff hw hw' hpu hlen hL hf (h0 none) lph p').1 h
    obtain ⟨hi', ht'⟩ := pathUpdate_phinv hw hw' hi hpu hlen hL hf hk1' hk2 (h0 none)
    exact ⟨hi', ht' ▸ hw', by rw [ht']⟩

theorem preachable_wf {p : PTree} (h : PReachable p) : WF p.t := reachable_wf (preachable_inv h).1

theorem preachable_valid {p : PTree} (h : PReachable p) : PHValid p :=
  phinv_valid (preachable_wf h).2.2.1 (preachable_inv h).2

theorem preachable_accepted {p : PTree} (h : PReachable p) : validateParentHashes p = true :=
  valid_accepts_of_preShape (preachable_wf h).1.1 (preachable_valid h)

end MlsVerif.ParentHash
