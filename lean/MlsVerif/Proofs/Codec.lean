/-
Helper lemmas for `Props/C12.lean`: integers, VarInt, splitting, the schema induction principle,
loop characterisations, the order on values.
-/
import MlsVerif.Model.Codec

namespace MlsVerif.Codec

/-! ## Integers -/

theorem toBE_length (k v : Nat) : (toBE k v).length = k := by
  induction k generalizing v with
  | zero => rfl
  | succ k ih => simp [toBE, ih]

theorem fromBE_lt (l : Bytes) : fromBE l < 256 ^ l.length := by
  induction l with
  | nil => simp [fromBE]
  | cons x xs ih =>
    simp only [fromBE, List.length_cons, Nat.pow_succ]
    have hx := x.toNat_lt
    have : x.toNat * 256 ^ xs.length + 256 ^ xs.length ≤ 256 * 256 ^ xs.length := by
      have : (x.toNat + 1) * 256 ^ xs.length ≤ 256 * 256 ^ xs.length :=
        Nat.mul_le_mul_right _ (by omega)
      rw [Nat.add_mul] at this; omega
    rw [Nat.mul_comm (256 ^ xs.length) 256]; omega

theorem fromBE_toBE (k v : Nat) (h : v < 256 ^ k) : fromBE (toBE k v) = v := by
  induction k generalizing v with
  | zero => simp [toBE, fromBE] at *; omega
  | succ k ih =>
    have hp : 0 < 256 ^ k := Nat.pow_pos (by omega)
    have hd : v / 256 ^ k < 256 := by
      rw [Nat.div_lt_iff_lt_mul hp]; rw [Nat.pow_succ, Nat.mul_comm] at h; exact h
    simp only [toBE, fromBE, toBE_length, UInt8.toNat_ofNat']
    rw [ih _ (Nat.mod_lt _ hp), Nat.mod_eq_of_lt (by simpa using hd), Nat.mul_comm]
    exact Nat.div_add_mod v (256 ^ k)

theorem toBE_fromBE (l : Bytes) : toBE l.length (fromBE l) = l := by
  induction l with
  | nil => rfl
  | cons x xs ih =>
    have hp : 0 < 256 ^ xs.length := Nat.pow_pos (by omega)
    have hlt := fromBE_lt xs
    simp only [List.length_cons, toBE, fromBE]
    rw [Nat.mul_comm, Nat.mul_add_div hp, Nat.mul_add_mod, Nat.div_eq_of_lt hlt,
      Nat.mod_eq_of_lt hlt, ih]
    simp

/-! ## Splitting -/

theorem splitN_append (a r : Bytes) : splitN a.length (a ++ r) = .ok (a, r) := by
  simp [splitN, List.take_left', List.drop_left']

theorem splitN_ok {n : Nat} {b h r : Bytes} (hs : splitN n b = .ok (h, r)) :
    b = h ++ r ∧ h.length = n := by
  unfold splitN at hs
  split at hs
  · injection hs with hs; injection hs with h1 h2
    subst h1 h2
    exact ⟨(List.take_append_drop n b).symm, by simp [List.length_take]; omega⟩
  · cases hs

theorem splitN_err {n : Nat} {b : Bytes} {e : CodecErr} (hs : splitN n b = .error e) :
    e = .unexpectedEOF ∧ b.length < n := by
  unfold splitN at hs
  split at hs
  · cases hs
  · injection hs with hs; exact ⟨hs.symm, by omega⟩

theorem decodeU_append (n v : Nat) (r : Bytes) (h : v < 256 ^ n) :
    decodeU n (toBE n v ++ r) = .ok (v, r) := by
  have := splitN_append (toBE n v) r
  rw [toBE_length] at this
  simp [decodeU, this, fromBE_toBE n v h]

theorem decodeU_ok {n v : Nat} {b r : Bytes} (hd : decodeU n b = .ok (v, r)) :
    v < 256 ^ n ∧ b = toBE n v ++ r := by
  unfold decodeU at hd
  split at hd
  · cases hd
  · rename_i h' r' hs
    injection hd with hd; injection hd with h1 h2
    subst h1 h2
    obtain ⟨hb, hl⟩ := splitN_ok hs
    subst hl
    exact ⟨fromBE_lt h', by rw [toBE_fromBE]; exact hb⟩

/-! ## VarInt -/

theorem countBytes?_isSome {n : Nat} (h : n ≤ varintMax) : (countBytes? n).isSome = true := by
  unfold countBytes? varintMax at *
  have : n < 1073741824 := by omega
  repeat' split
  all_goals simp_all

theorem readVarint_le {b r : Bytes} {c n : Nat} (h : readVarint b = .ok (c, n, r)) :
    n ≤ varintMax := by
  unfold readVarint at h
  unfold varintMax
  split at h
  · cases h
  · rename_i first rest
    have hf := first.toNat_lt
    split at h
    · injection h with h; injection h with _ h; injection h with h _; omega
    · split at h
      · split at h
        · rename_i b1 _
          have := b1.toNat_lt
          injection h with h; injection h with _ h; injection h with h _; omega
        · cases h
      · split at h
        · split at h
          · rename_i b1 b2 b3 _
            have := b1.toNat_lt; have := b2.toNat_lt; have := b3.toNat_lt
            injection h with h; injection h with _ h; injection h with h _; omega
          · cases h
        · cases h

theorem ofNat_toNat_of_lt {n : Nat} (h : n < 256) : (UInt8.ofNat n).toNat = n := by
  rw [UInt8.toNat_ofNat']; exact Nat.mod_eq_of_lt h

theorem decodeVarint_encodeVarint (n : Nat) (r : Bytes) (h : n ≤ varintMax) :
    decodeVarint (encodeVarint n ++ r) = .ok (n, r) := by
  unfold varintMax at h
  unfold encodeVarint
  split
  · rename_i h1
    have e : (UInt8.ofNat n).toNat = n := ofNat_toNat_of_lt (by omega)
    simp only [decodeVarint, readVarint, List.cons_append, List.nil_append, e]
    have : n / 64 = 0 := by omega
    simp [this, countBytes?, h1, Nat.mod_eq_of_lt h1]
  · split
    · rename_i h1 h2
      have e0 : (UInt8.ofNat (64 + n / 256)).toNat = 64 + n / 256 := ofNat_toNat_of_lt (by omega)
      have e1 : (UInt8.ofNat (n % 256)).toNat = n % 256 := ofNat_toNat_of_lt (by omega)
      simp only [decodeVarint, readVarint, List.cons_append, List.nil_append, e0, e1]
      have a : (64 + n / 256) / 64 = 1 := by omega
      have b : (64 + n / 256) % 64 * 256 + n % 256 = n := by omega
      simp only [a, b]
      simp [countBytes?, h1, h2]
    · rename_i h1 h2
      have e0 : (UInt8.ofNat (128 + n / 16777216)).toNat = 128 + n / 16777216 :=
        ofNat_toNat_of_lt (by omega)
      have e1 : (UInt8.ofNat (n / 65536 % 256)).toNat = n / 65536 % 256 :=
        ofNat_toNat_of_lt (by omega)
      have e2 : (UInt8.ofNat (n / 256 % 256)).toNat = n / 256 % 256 := ofNat_toNat_of_lt (by omega)
      have e3 : (UInt8.ofNat (n % 256)).toNat = n % 256 := ofNat_toNat_of_lt (by omega)
      simp only [decodeVarint, readVarint, List.cons_append, List.nil_append, e0, e1, e2, e3]
      have a : (128 + n / 16777216) / 64 = 2 := by omega
      have b : (((128 + n / 16777216) % 64 * 256 + n / 65536 % 256) * 256 + n / 256 % 256) * 256
          + n % 256 = n := by omega
      have c : n < 1073741824 := by omega
      simp only [a, b]
      simp [countBytes?, h1, h2, c]

theorem decodeVarint_ok {b r : Bytes} {n : Nat} (h : decodeVarint b = .ok (n, r)) :
    n ≤ varintMax ∧ b = encodeVarint n ++ r := by
  unfold decodeVarint at h
  split at h
  · cases h
  · rename_i c n' r' hr
    have hle := readVarint_le hr
    split at h
    · rename_i hc
      injection h with h; injection h with h1 h2
      subst h1 h2
      refine ⟨hle, ?_⟩
      unfold readVarint at hr
      unfold countBytes? at hc
      unfold encodeVarint
      split at hr
      · cases hr
      · rename_i first rest
        have hf := first.toNat_lt
        split at hr
        · injection hr with hr; injection hr with hc' hr; injection hr with hn hr'
          subst hc' hn hr'
          have : first.toNat % 64 = first.toNat := by omega
          simp [this, show first.toNat < 64 by omega]
        · split at hr
          · split at hr
            · rename_i b1 rest'
              have := b1.toNat_lt
              injection hr with hr; injection hr with hc' hr; injection hr with hn hr'
              subst hc' hn hr'
              have g1 : ¬ (first.toNat % 64 * 256 + b1.toNat < 64) := by
                intro hlt; simp [hlt] at hc
              have g2 : first.toNat % 64 * 256 + b1.toNat < 16384 := by omega
              simp only [g1, g2, if_false, if_true, List.cons_append, List.nil_append]
              have a : 64 + (first.toNat % 64 * 256 + b1.toNat) / 256 = first.toNat := by omega
              have b : (first.toNat % 64 * 256 + b1.toNat) % 256 = b1.toNat := by omega
              simp [a, b]
            · cases hr
          · split at hr
            · split at hr
              · rename_i b1 b2 b3 rest'
                have := b1.toNat_lt; have := b2.toNat_lt; have := b3.toNat_lt
                injection hr with hr; injection hr with hc' hr; injection hr with hn hr'
                subst hc' hn hr'
                generalize hN : ((first.toNat % 64 * 256 + b1.toNat) * 256 + b2.toNat) * 256
                  + b3.toNat = N at hc ⊢
                have g1 : ¬ (N < 64) := by intro hlt; simp [hlt] at hc
                have g2 : ¬ (N < 16384) := by intro hlt; simp [hlt, g1] at hc
                simp only [g1, g2, if_false, List.cons_append, List.nil_append]
                have a : 128 + N / 16777216 = first.toNat := by omega
                have b : N / 65536 % 256 = b1.toNat := by omega
                have c : N / 256 % 256 = b2.toNat := by omega
                have d : N % 256 = b3.toNat := by omega
                simp [a, b, c, d]
              · cases hr
            · cases hr
    · cases h

theorem encodeVarint_length {n : Nat} (h : n ≤ varintMax) :
    (encodeVarint n).length = hdrLen n := by
  unfold varintMax at h
  unfold encodeVarint hdrLen countBytes? varintMax
  simp only [h, if_true]
  split
  · rfl
  · split
    · rfl
    · have : n < 1073741824 := by omega
      simp [this]

theorem encodeVarint_length_pos (n : Nat) : 0 < (encodeVarint n).length := by
  unfold encodeVarint; repeat' split
  all_goals simp

theorem hdrLen_pos (n : Nat) : 0 < hdrLen n := by
  unfold hdrLen countBytes? varintMax
  repeat' split
  all_goals first | omega | simp

/-! ## Induction over schemas -/

theorem Schema.ind {P : Schema → Prop}
    (u : ∀ n, P (.u n)) (bool : P .bool) (fixed : ∀ n, P (.fixed n)) (bytes : P .bytes)
    (varint : P .varint) (str : P .str)
    (vec : ∀ e, P e → P (.vec e)) (opt : ∀ e, P e → P (.opt e))
    (struct : ∀ fs, (∀ f, f ∈ fs → P f) → P (.struct fs))
    (enum : ∀ w cs, (∀ t s, (t, some s) ∈ cs → P s) → P (.enum w cs))
    (map : ∀ k v, P k → P v → P (.map k v)) : ∀ s, P s := by
  intro s
  refine Schema.rec (motive_1 := P) (motive_2 := fun fs => ∀ f, f ∈ fs → P f)
    (motive_3 := fun cs => ∀ t s, (t, some s) ∈ cs → P s)
    (motive_4 := fun p => ∀ s, p.2 = some s → P s)
    (motive_5 := fun o => ∀ s, o = some s → P s)
    u bool fixed bytes varint str vec opt struct enum map ?_ ?_ ?_ ?_ ?_ ?_ ?_ s
  · intro f hf; cases hf
  · intro h t ih iht f hf
    cases hf with
    | head => exact ih
    | tail _ hm => exact iht f hm
  · intro t s hm; cases hm
  · intro h t ih iht t' s hm
    cases hm with
    | head => exact ih s rfl
    | tail _ hm => exact iht t' s hm
  · intro a o ih s hs; exact ih s hs
  · intro s hs; cases hs
  · intro v ih s hs; cases hs; exact ih

/-! ## Loops -/

inductive LoopRel {α} (f : Dec α) : Bytes → List α → Prop
  | nil : LoopRel f [] []
  | cons {data v rest vs} : data ≠ [] → f data = .ok (v, rest) → rest.length < data.length →
      LoopRel f rest vs → LoopRel f data (v :: vs)

theorem decodeLoop_of_rel {α} {f : Dec α} {data : Bytes} {vs : List α} (h : LoopRel f data vs) :
    decodeLoop f data = .ok vs := by
  induction h with
  | nil => rw [decodeLoop]; rfl
  | @cons data v rest vs hne hf hlt _ ih =>
    rw [decodeLoop]
    have : data.isEmpty = false := by cases data <;> simp_all
    simp [this, hf, hlt, ih]

theorem rel_of_decodeLoop {α} {f : Dec α} : ∀ (n : Nat) (data : Bytes) (vs : List α),
    data.length ≤ n → decodeLoop f data = .ok vs → LoopRel f data vs := by
  intro n
  induction n with
  | zero =>
    intro data vs hn h
    have : data = [] := List.eq_nil_of_length_eq_zero (by omega)
    subst this
    rw [decodeLoop] at h
    simp at h; subst h; exact .nil
  | succ n ih =>
    intro data vs hn h
    rw [decodeLoop] at h
    split at h
    · rename_i he
      have : data = [] := by cases data <;> simp_all
      subst this
      injection h with h; subst h; exact .nil
    · rename_i he
      split at h
      · cases h
      · rename_i v rest hf
        split at h
        · rename_i hlt
          split at h
          · cases h
          · rename_i vs' hl
            injection h with h; subst h
            exact .cons (by intro hd; subst hd; simp at he) hf hlt (ih rest vs' (by omega) hl)
        · cases h

theorem decodeLoop_ok_iff {α} {f : Dec α} {data : Bytes} {vs : List α} :
    decodeLoop f data = .ok vs ↔ LoopRel f data vs :=
  ⟨rel_of_decodeLoop data.length data vs (Nat.le_refl _), decodeLoop_of_rel⟩

theorem decodeMapLoop_of_rel {f : Dec (Value × Value)} {data : Bytes}
    {kvs : List (Value × Value)} (h : LoopRel f data kvs) :
    ∀ acc m, insertAll kvs acc = some m → decodeMapLoop f acc data = .ok m := by
  induction h with
  | nil => intro acc m hm; rw [decodeMapLoop]; simp [insertAll] at hm; simp [hm]
  | @cons data kv rest kvs hne hf hlt _ ih =>
    intro acc m hm
    rw [decodeMapLoop]
    have : data.isEmpty = false := by cases data <;> simp_all
    simp only [insertAll] at hm
    split at hm
    · cases hm
    · rename_i acc' hi
      simp [this, hf, hlt, hi, ih acc' m hm]

theorem rel_of_decodeMapLoop {f : Dec (Value × Value)} : ∀ (n : Nat) (data : Bytes)
    (acc m : List (Value × Value)), data.length ≤ n → decodeMapLoop f acc data = .ok m →
    ∃ kvs, LoopRel f data kvs ∧ insertAll kvs acc = some m := by
  intro n
  induction n with
  | zero =>
    intro data acc m hn h
    have : data = [] := List.eq_nil_of_length_eq_zero (by omega)
    subst this
    rw [decodeMapLoop] at h
    simp at h; subst h; exact ⟨[], .nil, rfl⟩
  | succ n ih =>
    intro data acc m hn h
    rw [decodeMapLoop] at h
    split at h
    · rename_i he
      have : data = [] := by cases data <;> simp_all
      subst this
      injection h with h; subst h; exact ⟨[], .nil, rfl⟩
    · rename_i he
      split at h
      · cases h
      · rename_i kv rest hf
        split at h
        · rename_i hlt
          split at h
          · cases h
          · rename_i acc' hi
            obtain ⟨kvs, hr, ha⟩ := ih rest acc' m (by omega) h
            refine ⟨kv :: kvs, .cons (by intro hd; subst hd; simp at he) hf hlt hr, ?_⟩
            simp [insertAll, hi, ha]
        · cases h

theorem decodeMapLoop_ok_iff {f : Dec (Value × Value)} {data : Bytes}
    {acc m : List (Value × Value)} :
    decodeMapLoop f acc data = .ok m ↔ ∃ kvs, LoopRel f data kvs ∧ insertAll kvs acc = some m :=
  ⟨rel_of_decodeMapLoop data.length data acc m (Nat.le_refl _),
   fun ⟨_, hr, ha⟩ => decodeMapLoop_of_rel hr acc m ha⟩

/-- encoding a list with an element encoder that round-trips and never produces the empty string,
then running the loop, gives the list back -/
theorem LoopRel_of_encodeList {α} {enc : α → Except CodecErr Bytes} {dec : Dec α} :
    ∀ (xs : List α) (buf : Bytes),
    (∀ x, x ∈ xs → ∀ bx, enc x = .ok bx → (∀ r, dec (bx ++ r) = .ok (x, r)) ∧ 0 < bx.length) →
    encodeList enc xs = .ok buf → LoopRel dec buf xs := by
  intro xs
  induction xs with
  | nil => intro buf _ h; simp [encodeList] at h; subst h; exact .nil
  | cons x xs ih =>
    intro buf hx h
    simp only [encodeList] at h
    split at h
    · cases h
    · rename_i bx hbx
      split at h
      · cases h
      · rename_i bs hbs
        injection h with h; subst h
        obtain ⟨hd, hpos⟩ := hx x (List.mem_cons_self) bx hbx
        refine .cons ?_ (hd bs) ?_ (ih bs (fun y hy => hx y (List.mem_cons_of_mem _ hy)) hbs)
        · intro he; rw [List.append_eq_nil_iff] at he; rw [he.1] at hpos; simp at hpos
        · simp; omega

/-- re-encoding the result of a loop whose element decoder is canonical gives the input back -/
theorem encodeList_of_LoopRel {α} {enc : α → Except CodecErr Bytes} {dec : Dec α}
    {data : Bytes} {xs : List α} (h : LoopRel dec data xs)
    (hx : ∀ d x r, dec d = .ok (x, r) → x ∈ xs → ∃ c, d = c ++ r ∧ enc x = .ok c) :
    encodeList enc xs = .ok data := by
  induction h with
  | nil => rfl
  | @cons data v rest vs hne hf hlt _ ih =>
    obtain ⟨c, hc, he⟩ := hx data v rest hf List.mem_cons_self
    have := ih (fun d x r hd hm => hx d x r hd (List.mem_cons_of_mem _ hm))
    simp [encodeList, he, this, hc]

theorem encodeList_length {α} {enc : α → Except CodecErr Bytes} {sz : α → Nat} :
    ∀ (xs : List α) (buf : Bytes),
    (∀ x, x ∈ xs → ∀ bx, enc x = .ok bx → sz x = bx.length) →
    encodeList enc xs = .ok buf → sumBy sz xs = buf.length := by
  intro xs
  induction xs with
  | nil => intro buf _ h; simp [encodeList] at h; subst h; rfl
  | cons x xs ih =>
    intro buf hx h
    simp only [encodeList] at h
    split at h
    · cases h
    · rename_i bx hbx
      split at h
      · cases h
      · rename_i bs hbs
        injection h with h; subst h
        simp [sumBy, hx x List.mem_cons_self bx hbx,
          ih bs (fun y hy => hx y (List.mem_cons_of_mem _ hy)) hbs]

end MlsVerif.Codec
