import MlsVerif.Model.Framing
import MlsVerif.Gen.Framing
/-
Helper definitions and lemmas for `Props/C03.lean`.  Core Lean only.

§1 field assignments · §2 what a free signature / MAC / AEAD binds · §3 `verifyPublic` for an
arbitrary `Layout` · §4 the layout generated from the Rust source · §5 Dolev–Yao: signatures, MACs
and keys an attacker can derive occur in what the attacker has seen · §6 a free signature over `Nat` ·
§7 the un-filtering loop of `validate_update_path`
-/
namespace MlsVerif.Framing

/-! ### §1 field assignments -/

theorem tbsVal_eq_iff (fs : List Nat) (m m' : Msg) :
    tbsVal fs m = tbsVal fs m' ↔ ∀ f ∈ fs, m f = m' f :=
  List.map_inj_left

theorem tbsVal_length (fs : List Nat) (m : Msg) : (tbsVal fs m).length = fs.length := by
  simp [tbsVal]

theorem set_same (m : Msg) (f v : Nat) : (m.set f v) f = v := by simp [Msg.set]

theorem set_other (m : Msg) (f v g : Nat) (h : g ≠ f) : (m.set f v) g = m g := by simp [Msg.set, h]

/-- setting a field outside `fs` does not change the encoding of `fs` -/
theorem tbsVal_set_of_not_mem (fs : List Nat) (m : Msg) (f v : Nat) (h : f ∉ fs) :
    tbsVal fs (m.set f v) = tbsVal fs m := by
  rw [tbsVal_eq_iff]
  intro g hg
  exact set_other m f v g (fun e => h (e ▸ hg))

theorem mem_expandField (f : Nat) (sub fields : List Nat) (g : Nat) :
    g ∈ expandField f sub fields ↔ (f ∈ fields ∧ g ∈ sub) ∨ (g ∈ fields ∧ g ≠ f) := by
  unfold expandField
  rw [List.mem_flatMap]
  constructor
  · rintro ⟨a, ha, hg⟩
    by_cases e : a = f
    · rw [if_pos e] at hg; exact .inl ⟨e ▸ ha, hg⟩
    · rw [if_neg e] at hg
      have : g = a := by simpa using hg
      exact .inr ⟨this ▸ ha, this ▸ e⟩
  · rintro (⟨hf, hg⟩ | ⟨hg, hne⟩)
    · exact ⟨f, hf, by rw [if_pos rfl]; exact hg⟩
    · exact ⟨g, hg, by rw [if_neg hne]; simp⟩

/-! ### §2 what a free signature / MAC / AEAD binds -/

/-- equal signatures under a free scheme: same key, same value of every signed field -/
theorem signed_fields_bound (s : Sig) (hs : s.Free) (fs : List Nat) (k k' : Nat) (m m' : Msg)
    (h : s.sign k (tbsVal fs m) = s.sign k' (tbsVal fs m')) : k = k' ∧ ∀ f ∈ fs, m f = m' f :=
  ⟨(hs _ _ _ _ h).1, (tbsVal_eq_iff fs m m').1 (hs _ _ _ _ h).2⟩

theorem maced_fields_bound (h : Mac) (hh : h.Free) (fs gs : List Nat) (k k' : Nat)
    (m1 m2 m1' m2' : Msg)
    (e : h.mac k (tbsVal fs m1 ++ tbsVal gs m2) = h.mac k' (tbsVal fs m1' ++ tbsVal gs m2')) :
    k = k' ∧ (∀ f ∈ fs, m1 f = m1' f) ∧ ∀ f ∈ gs, m2 f = m2' f := by
  have e1 := hh _ _ _ _ e
  have e2 := List.append_inj e1.2 (by rw [tbsVal_length, tbsVal_length])
  exact ⟨e1.1, (tbsVal_eq_iff _ _ _).1 e2.1, (tbsVal_eq_iff _ _ _).1 e2.2⟩

/-- one ciphertext opened by two receivers (or twice): same key, nonce, plaintext, and the same value
of every associated-data field of the messages it arrived in -/
theorem aead_fields_bound (a : Aead) (ha : a.Free) (aad : List Nat) (k k' n n' : Nat) (m m' : Msg)
    (c p p' : Nat) (h : opensTo a aad k n m c p) (h' : opensTo a aad k' n' m' c p') :
    k = k' ∧ n = n' ∧ p = p' ∧ ∀ f ∈ aad, m f = m' f := by
  unfold opensTo at h h'
  have e := ha _ _ _ _ _ _ _ _ (h.symm.trans h')
  exact ⟨e.1, e.2.1, e.2.2.2, (tbsVal_eq_iff _ _ _).1 e.2.2.1⟩

/-! ### §3 `verifyPublic` -/

variable (L : Layout) (s : Sig) (h : Mac)

theorem verifyPublic_iff (key mkey ctx : Nat) (m : Msg) :
    verifyPublic L s h key mkey ctx m = true ↔
      m L.fSignature = s.sign key (tbsVal L.signed (m.set L.fContext ctx)) ∧
      m L.fMembershipTag =
        h.mac mkey (tbsVal L.signed (m.set L.fContext ctx) ++ tbsVal L.auth m) := by
  simp [verifyPublic]

/-- side conditions on a layout under which `signPublic` produces what `verifyPublic` checks: the
authenticators are not part of what they authenticate -/
structure Layout.WF (L : Layout) : Prop where
  ctx_signed : L.fContext ∈ L.signed
  sig_not_signed : L.fSignature ∉ L.signed
  tag_not_signed : L.fMembershipTag ∉ L.signed
  tag_not_auth : L.fMembershipTag ∉ L.auth
  ctx_not_auth : L.fContext ∉ L.auth
  sig_ne_tag : L.fSignature ≠ L.fMembershipTag
  sig_ne_ctx : L.fSignature ≠ L.fContext

instance (L : Layout) : Decidable L.WF :=
  decidable_of_iff (L.fContext ∈ L.signed ∧ L.fSignature ∉ L.signed ∧ L.fMembershipTag ∉ L.signed ∧
      L.fMembershipTag ∉ L.auth ∧ L.fContext ∉ L.auth ∧ L.fSignature ≠ L.fMembershipTag ∧
      L.fSignature ≠ L.fContext)
    ⟨fun ⟨a, b, c, d, e, f, g⟩ => ⟨a, b, c, d, e, f, g⟩, fun ⟨a, b, c, d, e, f, g⟩ => ⟨a, b, c, d, e, f, g⟩⟩

/-- an honestly produced message is accepted by a receiver in the same state -/
theorem verify_signPublic (hL : L.WF) (key mkey ctx : Nat) (m : Msg) :
    verifyPublic L s h key mkey ctx (signPublic L s h key mkey ctx m) = true := by
  rw [verifyPublic_iff]
  have hsc : L.fSignature ≠ L.fContext := hL.sig_ne_ctx
  have htc : L.fMembershipTag ≠ L.fContext := fun e => hL.tag_not_signed (e ▸ hL.ctx_signed)
  -- the three stages of `signPublic`
  let m1 := m.set L.fContext ctx
  let m2 := m1.set L.fSignature (s.sign key (tbsVal L.signed m1))
  let m3 := m2.set L.fMembershipTag (h.mac mkey (tbsVal L.signed m2 ++ tbsVal L.auth m2))
  show m3 L.fSignature = s.sign key (tbsVal L.signed (m3.set L.fContext ctx)) ∧
    m3 L.fMembershipTag = h.mac mkey (tbsVal L.signed (m3.set L.fContext ctx) ++ tbsVal L.auth m3)
  have f3 : ∀ g, g ≠ L.fMembershipTag → m3 g = m2 g := fun g hg => set_other _ _ _ g hg
  have f2 : ∀ g, g ≠ L.fSignature → m2 g = m1 g := fun g hg => set_other _ _ _ g hg
  have c1 : m1 L.fContext = ctx := set_same _ _ _
  have g2 : m2 L.fSignature = s.sign key (tbsVal L.signed m1) := set_same _ _ _
  have g3 : m3 L.fMembershipTag = h.mac mkey (tbsVal L.signed m2 ++ tbsVal L.auth m2) :=
    set_same _ _ _
  have e3 : m3.set L.fContext ctx = m3 := by
    funext g
    by_cases e : g = L.fContext
    · subst e
      rw [set_same, f3 _ (Ne.symm htc), f2 _ (Ne.symm hsc), c1]
    · rw [set_other _ _ _ _ e]
  have s3 : tbsVal L.signed m3 = tbsVal L.signed m2 :=
    tbsVal_set_of_not_mem _ _ _ _ hL.tag_not_signed
  have s2 : tbsVal L.signed m2 = tbsVal L.signed m1 :=
    tbsVal_set_of_not_mem _ _ _ _ hL.sig_not_signed
  have a3 : tbsVal L.auth m3 = tbsVal L.auth m2 := tbsVal_set_of_not_mem _ _ _ _ hL.tag_not_auth
  rw [e3, s3, a3]
  exact ⟨by rw [f3 _ hL.sig_ne_tag, g2, s2], g3⟩

/-- the signature an honest sender attaches is over the TBS with the sender's context value -/
theorem signPublic_signature (hL : L.WF) (key mkey ctx : Nat) (m : Msg) :
    (signPublic L s h key mkey ctx m) L.fSignature =
      s.sign key (tbsVal L.signed (m.set L.fContext ctx)) :=
  (set_other _ _ _ _ hL.sig_ne_tag).trans (set_same _ _ _)

/-- `signPublic` leaves every field other than context slot, signature and membership tag alone -/
theorem signPublic_other (key mkey ctx : Nat) (m : Msg) (g : Nat) (h1 : g ≠ L.fContext)
    (h2 : g ≠ L.fSignature) (h3 : g ≠ L.fMembershipTag) : (signPublic L s h key mkey ctx m) g = m g :=
  (set_other _ _ _ _ h3).trans ((set_other _ _ _ _ h2).trans (set_other _ _ _ _ h1))

/-- Two accepted messages (possibly at different receivers: keys, membership keys and context values
may differ) carrying the same signature value: the receivers used the same signature key and the
messages — each completed with its receiver's context value — agree on every signed field. -/
theorem sig_binding (hs : s.Free) (k1 k2 mk1 mk2 c1 c2 : Nat) (m1 m2 : Msg)
    (h1 : verifyPublic L s h k1 mk1 c1 m1 = true) (h2 : verifyPublic L s h k2 mk2 c2 m2 = true)
    (e : m1 L.fSignature = m2 L.fSignature) :
    k1 = k2 ∧ ∀ f ∈ L.signed, (m1.set L.fContext c1) f = (m2.set L.fContext c2) f := by
  rw [verifyPublic_iff] at h1 h2
  exact signed_fields_bound s hs _ _ _ _ _ (h1.1.symm.trans (e.trans h2.1))

/-- the same for equal membership tags; these also bind the fields of `FramedContentAuthData` -/
theorem tag_binding (hh : h.Free) (k1 k2 mk1 mk2 c1 c2 : Nat) (m1 m2 : Msg)
    (h1 : verifyPublic L s h k1 mk1 c1 m1 = true) (h2 : verifyPublic L s h k2 mk2 c2 m2 = true)
    (e : m1 L.fMembershipTag = m2 L.fMembershipTag) :
    mk1 = mk2 ∧ (∀ f ∈ L.signed, (m1.set L.fContext c1) f = (m2.set L.fContext c2) f) ∧
      ∀ f ∈ L.auth, m1 f = m2 f := by
  rw [verifyPublic_iff] at h1 h2
  exact maced_fields_bound h hh _ _ _ _ _ _ _ _ (h1.2.symm.trans (e.trans h2.2))

/-- A signature made over a TBS with context value `c` (by anyone, under any key, around any
content) does not verify at a receiver whose context value is `c' ≠ c`. -/
theorem other_context_rejected (hs : s.Free) (hc : L.fContext ∈ L.signed) (k key mkey c c' : Nat)
    (m0 m : Msg) (hm : m L.fSignature = s.sign k (tbsVal L.signed (m0.set L.fContext c)))
    (hne : c' ≠ c) : verifyPublic L s h key mkey c' m = false := by
  cases hv : verifyPublic L s h key mkey c' m with
  | false => rfl
  | true =>
    rw [verifyPublic_iff] at hv
    have := (signed_fields_bound s hs _ _ _ _ _ (hv.1.symm.trans hm)).2 _ hc
    rw [set_same, set_same] at this
    exact absurd this hne

/-- Changing the value of any signed field other than the context slot (e.g. the sender, the epoch,
the content) while keeping the signature makes verification fail — under every key. -/
theorem modified_field_rejected (hs : s.Free) (k mk c k' mk' : Nat) (m : Msg) (f v : Nat)
    (hf : f ∈ L.signed) (hfc : f ≠ L.fContext) (hfs : f ≠ L.fSignature)
    (h1 : verifyPublic L s h k mk c m = true) (hv : v ≠ m f) :
    verifyPublic L s h k' mk' c (m.set f v) = false := by
  cases h2 : verifyPublic L s h k' mk' c (m.set f v) with
  | false => rfl
  | true =>
    have e : m L.fSignature = (m.set f v) L.fSignature := (set_other m f v _ (Ne.symm hfs)).symm
    have := (sig_binding L s h hs _ _ _ _ _ _ _ _ h1 h2 e).2 f hf
    rw [set_other _ _ _ _ hfc, set_other _ _ _ _ hfc, set_same] at this
    exact absurd this.symm hv

/-! ### §4 the layout generated from the Rust source -/

open MlsVerif.Gen.Framing in
/-- the fields under the signature: `AuthenticatedContentTBS` with `content : FramedContent`
expanded into its fields -/
def signedFields : List Nat := expandField f_content framedContent tbs

open MlsVerif.Gen.Framing in
def genLayout : Layout :=
  { signed := signedFields
    auth := authData
    fContext := f_context
    fSignature := f_signature
    fMembershipTag := f_membership_tag }

/-- the sender field: third field of `FramedContent` (group_id, epoch, sender, authenticated_data,
content) — the generator does not emit a code for it -/
def senderField : Nat := MlsVerif.Gen.Framing.framedContent.getD 2 0

/-! ### §5 Dolev–Yao -/

theorem subterm_refl (x : T) : Subterm x x := by
  unfold Subterm; cases x <;> simp [T.subterms]

theorem subterm_pair {x a b : T} : Subterm x (.pair a b) ↔ x = .pair a b ∨ Subterm x a ∨ Subterm x b := by
  simp [Subterm, T.subterms]

theorem subterm_sig {x : T} {k : Nat} {t : T} : Subterm x (.sig k t) ↔ x = .sig k t ∨ Subterm x t := by
  simp [Subterm, T.subterms]

theorem subterm_mac {x : T} {k : Nat} {t : T} : Subterm x (.mac k t) ↔ x = .mac k t ∨ Subterm x t := by
  simp [Subterm, T.subterms]

theorem subterm_atom {x : T} {n : Nat} : Subterm x (.atom n) ↔ x = .atom n := by
  simp [Subterm, T.subterms]

theorem subterm_key {x : T} {k : Nat} : Subterm x (.key k) ↔ x = .key k := by
  simp [Subterm, T.subterms]

/-- `x` occurs in what the attacker has seen -/
def Seen (K : List T) (x : T) : Prop := ∃ u ∈ K, Subterm x u

instance (K : List T) (x : T) : Decidable (Seen K x) := by unfold Seen; infer_instance

/-- Closure lemma: let `good` be a class of terms that the attacker cannot build at top level
(`hsign`, `hmac`, `hpair`, `hatom`).  Then every `good` subterm of a derivable term was seen. -/
theorem derivable_good_seen (K : List T) (good : T → Prop)
    (hatom : ∀ n, ¬ good (.atom n))
    (hpair : ∀ a b, ¬ good (.pair a b))
    (hsign : ∀ k t, Derivable K (.key k) → ¬ good (.sig k t))
    (hmac : ∀ k t, Derivable K (.key k) → ¬ good (.mac k t))
    {x : T} (hx : Derivable K x) : ∀ y, good y → Subterm y x → Seen K y := by
  induction hx with
  | known hk => intro y _ hy; exact ⟨_, hk, hy⟩
  | atom n =>
    intro y hg hy
    rw [subterm_atom] at hy
    exact absurd (hy ▸ hg) (hatom n)
  | pair _ _ iha ihb =>
    intro y hg hy
    rcases subterm_pair.1 hy with e | e | e
    · exact absurd (e ▸ hg) (hpair _ _)
    · exact iha y hg e
    · exact ihb y hg e
  | fst _ ih => intro y hg hy; exact ih y hg (subterm_pair.2 (.inr (.inl hy)))
  | snd _ ih => intro y hg hy; exact ih y hg (subterm_pair.2 (.inr (.inr hy)))
  | sigMsg _ ih => intro y hg hy; exact ih y hg (subterm_sig.2 (.inr hy))
  | macMsg _ ih => intro y hg hy; exact ih y hg (subterm_mac.2 (.inr hy))
  | sign hk _ _ iht =>
    intro y hg hy
    rcases subterm_sig.1 hy with e | e
    · exact absurd (e ▸ hg) (hsign _ _ hk)
    · exact iht y hg e
  | mac hk _ _ iht =>
    intro y hg hy
    rcases subterm_mac.1 hy with e | e
    · exact absurd (e ▸ hg) (hmac _ _ hk)
    · exact iht y hg e

/-- keys cannot be computed: a derivable key was seen -/
theorem key_seen (K : List T) (k : Nat) (h : Derivable K (.key k)) : Seen K (.key k) :=
  derivable_good_seen K (fun y => y = .key k) (fun _ e => by cases e) (fun _ _ e => by cases e)
    (fun _ _ _ e => by cases e) (fun _ _ _ e => by cases e) h _ rfl (subterm_refl _)

/-- a derivable signature under an underivable key was seen -/
theorem sig_seen (K : List T) (k : Nat) (hk : ¬ Derivable K (.key k)) (t : T)
    (h : Derivable K (.sig k t)) : Seen K (.sig k t) :=
  derivable_good_seen K (fun y => ∃ t', y = .sig k t') (fun _ ⟨_, e⟩ => by cases e)
    (fun _ _ ⟨_, e⟩ => by cases e)
    (fun k' _ hk' ⟨_, e⟩ => by cases e; exact hk hk')
    (fun _ _ _ ⟨_, e⟩ => by cases e) h _ ⟨t, rfl⟩ (subterm_refl _)

/-- a derivable MAC under an underivable key was seen -/
theorem mac_seen (K : List T) (k : Nat) (hk : ¬ Derivable K (.key k)) (t : T)
    (h : Derivable K (.mac k t)) : Seen K (.mac k t) :=
  derivable_good_seen K (fun y => ∃ t', y = .mac k t') (fun _ ⟨_, e⟩ => by cases e)
    (fun _ _ ⟨_, e⟩ => by cases e)
    (fun _ _ _ ⟨_, e⟩ => by cases e)
    (fun k' _ hk' ⟨_, e⟩ => by cases e; exact hk hk') h _ ⟨t, rfl⟩ (subterm_refl _)

/-- a key that was not seen is not derivable (decidable criterion for the examples) -/
theorem key_not_derivable (K : List T) (k : Nat) (h : ¬ Seen K (.key k)) : ¬ Derivable K (.key k) :=
  fun hd => h (key_seen K k hd)

/-! ### §6 a free signature over `Nat` exists (for the non-vacuity examples) -/

/-- `2^a · (2b+1)`: an injective pairing -/
def natPair (a b : Nat) : Nat := 2 ^ a * (2 * b + 1)

theorem natPair_inj : ∀ a b a' b', natPair a b = natPair a' b' → a = a' ∧ b = b' := by
  unfold natPair
  have e : ∀ a c : Nat, 2 ^ (a + 1) * c = 2 * (2 ^ a * c) := by
    intro a c; rw [Nat.pow_succ, Nat.mul_comm (2 ^ a) 2, Nat.mul_assoc]
  intro a
  induction a with
  | zero =>
    intro b a' b' h
    cases a' with
    | zero => rw [Nat.pow_zero, Nat.one_mul, Nat.one_mul] at h; exact ⟨rfl, by omega⟩
    | succ a' =>
      rw [e, Nat.pow_zero, Nat.one_mul] at h
      generalize 2 ^ a' * (2 * b' + 1) = z at h
      omega
  | succ a ih =>
    intro b a' b' h
    cases a' with
    | zero =>
      rw [e, Nat.pow_zero, Nat.one_mul] at h
      generalize 2 ^ a * (2 * b + 1) = z at h
      omega
    | succ a' =>
      rw [e, e] at h
      have := ih b a' b' (Nat.eq_of_mul_eq_mul_left (by decide : 0 < 2) h)
      exact ⟨by rw [this.1], this.2⟩

def encList : List Nat → Nat
  | [] => 0
  | x :: xs => natPair x (encList xs)

theorem natPair_pos (a b : Nat) : 0 < natPair a b :=
  Nat.mul_pos (Nat.two_pow_pos a) (by omega)

theorem encList_inj : ∀ a b, encList a = encList b → a = b
  | [], [], _ => rfl
  | [], y :: ys, h => by
    have := natPair_pos y (encList ys)
    simp only [encList] at h
    omega
  | x :: xs, [], h => by
    have := natPair_pos x (encList xs)
    simp only [encList] at h
    omega
  | x :: xs, y :: ys, h => by
    simp only [encList] at h
    have := natPair_inj _ _ _ _ h
    rw [this.1, encList_inj xs ys this.2]

/-! ### §7 the un-filtering loop of `validate_update_path` -/

theorem all_id_filter_not (fs : List Bool) (h : fs.all id = true) : fs.filter (!·) = [] := by
  rw [List.filter_eq_nil_iff]
  intro b hb
  have := List.all_eq_true.1 h b hb
  simp at this
  simp [this]

theorem all_id_eq_replicate (fs : List Bool) (h : fs.all id = true) :
    fs = List.replicate fs.length true := by
  rw [List.eq_replicate_iff]
  refine ⟨rfl, fun b hb => ?_⟩
  simpa using List.all_eq_true.1 h b hb

/-- what validation establishes: the result agrees with the filter as far as it goes, is not longer
than the filter, carries the announced nodes in order, every position of the filter beyond the result
is filtered out, and there are exactly as many nodes as unfiltered positions -/
theorem unfilter_prefix : ∀ (fs : List Bool) (ns : List Nat) (pk : List (Option Nat)),
    unfilter fs ns = some pk →
    pk.map Option.isNone = fs.take pk.length ∧ pk.length ≤ fs.length ∧ pk.filterMap id = ns ∧
    (fs.drop pk.length).all id = true ∧ ns.length = (fs.filter (!·)).length := by
  intro fs ns
  induction fs, ns using unfilter.induct with
  | case1 fs hall =>
    intro pk h
    simp only [unfilter, if_pos hall] at h
    cases h
    simp [all_id_filter_not fs hall]
    simpa using hall
  | case2 fs hall => intro pk h; simp only [unfilter, if_neg hall] at h; cases h
  | case3 n ns => intro pk h; simp [unfilter] at h
  | case4 fs n ns ih =>
    intro pk h
    simp only [unfilter, Option.map_eq_some_iff] at h
    obtain ⟨pk', h', rfl⟩ := h
    have := ih pk' h'
    simp only [List.length_cons] at this
    simp [this.1, this.2.1, this.2.2.1, this.2.2.2.1, this.2.2.2.2]
  | case5 fs n ns ih =>
    intro pk h
    simp only [unfilter, Option.map_eq_some_iff] at h
    obtain ⟨pk', h', rfl⟩ := h
    have := ih pk' h'
    simp [this.1, this.2.1, this.2.2.1, this.2.2.2.1, this.2.2.2.2]

/-- a path whose number of nodes differs from the number of unfiltered positions — in particular a
shorter one — is rejected -/
theorem unfilter_wrong_count (fs : List Bool) (ns : List Nat)
    (h : ns.length ≠ (fs.filter (!·)).length) : unfilter fs ns = none := by
  cases hu : unfilter fs ns with
  | none => rfl
  | some pk => exact absurd (unfilter_prefix fs ns pk hu).2.2.2.2 h

/-- the validated list, padded with blanks for the trailing filtered positions, matches the filter
exactly -/
theorem unfilter_full (fs : List Bool) (ns : List Nat) (pk : List (Option Nat))
    (h : unfilter fs ns = some pk) :
    (pk ++ List.replicate (fs.length - pk.length) none).map Option.isNone = fs := by
  obtain ⟨h1, h2, -, h4, -⟩ := unfilter_prefix fs ns pk h
  have h5 := all_id_eq_replicate _ h4
  rw [List.length_drop] at h5
  rw [List.map_append, h1, List.map_replicate, Option.isNone_none]
  conv => rhs; rw [← List.take_append_drop pk.length fs, h5]

end MlsVerif.Framing
