import MlsVerif.Proofs.GroupSecrecy
/-
Secrecy through the init-secret chain, over whole histories with external commits.

Every epoch secret depends on a ROOT of an init-secret chain: the creator's randomness `genesis`, or the KEM
randomness `ext n` of the external commit that ended epoch `n` (an external commit cuts the chain: its init
secret is the KEM shared secret, not `initOf` of the old epoch secret).  `rootBefore N` selects the roots of the
chains started before epoch `N`; the secret of epoch `e` depends on a root before `e` (`RootInv`).

A party that holds only node keys (ANY node keys) and whose own secrets depend on no root before `N` derives, from
all transcripts of the history, no secret that does: the Welcome secrets go to init keys, the KEM output of an
external commit at an epoch `< N` goes to an external key derived from a secret that depends on such a root.
Instances: a party that never was a member and never made an external commit learns no epoch secret; the
external committer of epoch `n` learns no epoch secret of the epochs up to `n`.
-/
namespace MlsVerif.Group
open MlsVerif.Tree MlsVerif.TreeMath

/-- the roots of the init-secret chains started before epoch `N` -/
def rootBefore (N : Nat) : Sec → Bool
  | .genesis => true
  | .ext n => decide (n < N)
  | _ => false

theorem rootBefore_mono {N M : Nat} (h : N ≤ M) : ∀ s : Sec, hidden (rootBefore N) s = true →
    hidden (rootBefore M) s = true
  | .genesis, _ => rfl
  | .fresh _, hs => by simp [hidden, rootBefore] at hs
  | .psk _, hs => by simp [hidden, rootBefore] at hs
  | .zero, hs => by simp [hidden] at hs
  | .path s, hs => rootBefore_mono h s hs
  | .initOf s, hs => rootBefore_mono h s hs
  | .ext n, hs => by
    simp only [hidden, rootBefore, decide_eq_true_eq] at hs ⊢; omega
  | .epoch i c p _, hs => by
    simp only [hidden, Bool.or_eq_true] at hs ⊢
    rcases hs with (hs | hs) | hs
    · exact Or.inl (Or.inl (rootBefore_mono h i hs))
    · exact Or.inl (Or.inr (rootBefore_mono h c hs))
    · exact Or.inr (rootBefore_mono h p hs)

theorem rootBefore_fresh (N i n : Nat) : hidden (rootBefore N) (pathN i (.fresh n)) = false := by
  rw [hidden_pathN]; rfl

/-- the secret a followed party holds for epoch `e` depends on a root of a chain started before `e` (for
`e = 0`: on `genesis`) -/
def RootInv (w : GroupWorld) : Prop := ∀ m ∈ w.members, hidden (rootBefore m.epoch) m.secret = true

theorem rootinv_commit {w w' : GroupWorld} {tr : Transcript} {sender : Nat} {e : Edits}
    {newLeaf : Option Leaf} {fresh : Nat} {psk : Sec} {ctx : Nat} {deliverTo : List Nat} (hi : GInv w)
    (hg : RootInv w) (h : w.commit sender e newLeaf fresh psk ctx deliverTo = .ok (w', tr)) : RootInv w' := by
  obtain ⟨_, _, cm, hcm, hcme, cs, _, _, hall⟩ := commit_member_cases hi h
  intro m' hm'
  rcases hall m' hm' with ⟨hm, _⟩ | ⟨he, hsec⟩
  · exact hg m' hm
  · rw [hsec, he]
    have := rootBefore_mono (Nat.le_succ w.epoch) _ (hcme ▸ hg cm hcm)
    simp only [hidden, this, Bool.true_or]

theorem rootinv_ext {w w' : GroupWorld} {tr : Transcript} {gi : Nat} {remove : Option Nat} {L0 nl : Leaf}
    {fresh : Nat} {psk : Sec} {ctx : Nat} {deliverTo : List Nat} (hi : GInv w)
    (hg : RootInv w) (h : w.externalCommit gi remove L0 nl fresh psk ctx deliverTo = .ok (w', tr)) :
    RootInv w' := by
  obtain ⟨_, _, u, hall⟩ := ext_cases hi h
  intro m' hm'
  rcases hall m' hm' with ⟨hm, _⟩ | ⟨he, hsec⟩
  · exact hg m' hm
  · rw [hsec, he]
    simp [hidden, rootBefore]

theorem reachable_rootinv {w : GroupWorld} (h : Reachable w) : RootInv w := by
  induction h with
  | init l =>
    intro m hm
    have : m = _ := List.mem_singleton.1 hm
    subst this; rfl
  | commit hr _ hc ih => exact rootinv_commit (reachable_ginv hr) ih hc
  | ext hr _ hc ih => exact rootinv_ext (reachable_ginv hr) ih hc

/-- a reachable world together with the transcripts of ALL its commits and external commits, newest first -/
inductive History : GroupWorld → List Transcript → Prop
  | init (l : Leaf) : History (GroupWorld.init l) []
  | commit {w w' : GroupWorld} {T : List Transcript} {tr : Transcript} {sender : Nat} {e : Edits}
      {newLeaf : Option Leaf} {fresh : Nat} {psk : Sec} {ctx : Nat} {deliverTo : List Nat} :
      History w T → CommitOk w sender e newLeaf fresh →
      w.commit sender e newLeaf fresh psk ctx deliverTo = .ok (w', tr) → History w' (tr :: T)
  | ext {w w' : GroupWorld} {T : List Transcript} {tr : Transcript} {gi : Nat} {remove : Option Nat}
      {L0 nl : Leaf} {fresh : Nat} {psk : Sec} {ctx : Nat} {deliverTo : List Nat} :
      History w T → ExtOk w remove L0 nl fresh →
      w.externalCommit gi remove L0 nl fresh psk ctx deliverTo = .ok (w', tr) → History w' (tr :: T)

theorem History.reachable {w : GroupWorld} {T : List Transcript} (h : History w T) : Reachable w := by
  induction h with
  | init l => exact .init l
  | commit _ hok hc ih => exact .commit ih hok hc
  | ext _ hok hc ih => exact .ext ih hok hc

theorem Reachable.history {w : GroupWorld} (h : Reachable w) : ∃ T, History w T := by
  induction h with
  | init l => exact ⟨[], .init l⟩
  | commit _ hok hc ih => obtain ⟨T, hT⟩ := ih; exact ⟨_, .commit hT hok hc⟩
  | ext _ hok hc ih => obtain ⟨T, hT⟩ := ih; exact ⟨_, .ext hT hok hc⟩

/-- what a transcript must satisfy: no path secret depends on a root; the KEM output of an `ExternalInit` whose
shared secret is a root before `N` goes to the external key of an epoch secret that depends on such a root -/
def TrOk (N : Nat) (tr : Transcript) : Prop :=
  (∀ ps ∈ tr.pathSeals, hidden (rootBefore N) ps.secret = false) ∧
  (∀ e s, tr.ext = some (e, s) → hidden (rootBefore N) s = true → hidden (rootBefore N) e = true)

theorem history_trOk {w : GroupWorld} {T : List Transcript} (h : History w T) (N : Nat) :
    ∀ tr ∈ T, TrOk N tr := by
  induction h with
  | init l => intro tr htr; cases htr
  | commit _ _ hc ih =>
    intro tr htr
    rcases List.mem_cons.1 htr with rfl | htr
    · refine ⟨fun ps hps => ?_, fun e s he => ?_⟩
      · obtain ⟨i, hi⟩ := pathSeals_secret hc ps hps
        rw [hi]; exact rootBefore_fresh _ _ _
      · rw [commit_ext_none hc] at he; cases he
    · exact ih tr htr
  | @ext w _ _ _ _ _ _ _ _ _ _ _ hh _ hc ih =>
    intro tr htr
    rcases List.mem_cons.1 htr with rfl | htr
    · refine ⟨fun ps hps => ?_, fun e s he hs => ?_⟩
      · obtain ⟨i, hi⟩ := pathSeals_secret_ext hc ps hps
        rw [hi]; exact rootBefore_fresh _ _ _
      · obtain ⟨gm, hgm, hgme, hx⟩ := ext_init_seal hc
        rw [hx] at he
        simp only [Option.some.injEq, Prod.mk.injEq] at he
        obtain ⟨rfl, rfl⟩ := he
        have hlt : w.epoch < N := by simpa [hidden, rootBefore] using hs
        exact rootBefore_mono (by omega) _ (reachable_rootinv hh.reachable gm hgm)
    · exact ih tr htr

/-- **Secrecy through the init-secret chain.**  From all transcripts of a history, a party that holds only node
keys — whichever — and whose own secrets depend on no root of a chain started before epoch `N`, derives no secret
that does. -/
theorem initchain_secrecy {w : GroupWorld} {T : List Transcript} (h : History w T) (N : Nat)
    {K : List Key} {S : List Sec} (hK : ∀ k ∈ K, ∃ st, k = .node st)
    (hS : ∀ s ∈ S, hidden (rootBefore N) s = false) :
    ∀ s, hidden (rootBefore N) s = true → ¬ Derivable K S (sealsOfAll T) (gensOfAll T) (.sec s) := by
  intro s hs hd
  have hok := history_trOk h N
  have := derivable_bound_pred (rootBefore N)
    (fun k => (∃ st, k = .node st) ∨ ∃ e, k = .ext e ∧ hidden (rootBefore N) e = false)
    (fun k hk => Or.inl (hK k hk)) hS
    (by
      intro k s' hm hkb
      unfold sealsOfAll at hm
      rw [List.mem_flatMap] at hm
      obtain ⟨tr, htr, hm⟩ := hm
      rcases mem_transcript_seals hm with ⟨ps, hps, _, _, _, _, rfl⟩ | ⟨ws, _, rfl, _⟩ | ⟨e, he, rfl⟩
      · exact (hok tr htr).1 ps hps
      · rcases hkb with ⟨st, h1⟩ | ⟨e, h1, _⟩ <;> cases h1
      · rcases hkb with ⟨st, h1⟩ | ⟨e', h1, h2⟩
        · cases h1
        · cases h1
          cases hh : hidden (rootBefore N) s' with
          | false => rfl
          | true =>
            have := (hok tr htr).2 e s' he hh
            rw [h2] at this; cases this)
    (by
      intro s' k hm hh
      unfold gensOfAll at hm
      rw [List.mem_flatMap] at hm
      obtain ⟨tr, _, hm⟩ := hm
      rcases mem_transcript_gens hm with ⟨ps, _, _, rfl⟩ | ⟨_, _, rfl⟩
      · exact Or.inl ⟨_, rfl⟩
      · exact Or.inr ⟨s', rfl, hh⟩) hd
  simp only at this
  rw [hs] at this; cases this

theorem keysOf_node (p : Priv) : ∀ k ∈ keysOf p, ∃ st, k = .node st := by
  intro k hk
  unfold keysOf at hk
  rw [List.mem_filterMap] at hk
  obtain ⟨ko, _, h⟩ := hk
  cases ko with
  | none => simp at h
  | some st => exact ⟨st, by simpa using h.symm⟩

end MlsVerif.Group
