import MlsVerif.Proofs.Tree.Commit
/-
The committer's `encap` never fails on a tree in which leaves sit at even indices only and the committer's
leaf exists: every unfiltered direct-path node lies inside the node vector and is not a leaf.
-/
namespace MlsVerif.Tree
open MlsVerif.TreeMath

namespace Enc

theorem updateNode_total {ta : Tree} {i k : Nat} (hi : i < ta.length) (hnl : leafOf? (get ta i) = none) :
    updateNode ta i k = .ok (set ta i (some (.parent { key := k, unmerged := [] }))) := by
  unfold updateNode
  have hv : validIndex ta.length i = true := by
    have := (nextPow2_spec ta.length).2.1
    simp only [validIndex, decide_eq_true_eq]
    omega
  have hle : ¬ ta.length ≤ i := by omega
  simp only [hv, not_true_eq_false, if_false, hle]
  cases hg : get ta i with
  | none => rfl
  | some n =>
    cases n with
    | leaf L => rw [hg] at hnl; cases hnl
    | parent P => rfl

theorem mem_zip_map {α β : Type} (g : α → β) : ∀ (l : List α) (x : α × β), x ∈ l.zip (l.map g) →
    x.1 ∈ l ∧ x.2 = g x.1
  | [], x, h => by simp at h
  | a :: l, x, h => by
    simp only [List.map_cons, List.zip_cons_cons, List.mem_cons] at h
    rcases h with rfl | h
    · exact ⟨List.mem_cons_self .., rfl⟩
    · obtain ⟨h1, h2⟩ := mem_zip_map g l x h
      exact ⟨List.mem_cons_of_mem _ h1, h2⟩

theorem encFold_total {t : Tree} {self : Nat} (hself : 2 * self < t.length) :
    ∀ (l : List ((Nat × Nat) × Bool)),
      (∀ x ∈ l, x.1 ∈ directCopathOf t self ∧ x.2 = isResolutionEmpty t x.1.2) →
    ∀ (ta : Tree) (k : Nat) (keys : List (Option Nat)), ta.length = t.length →
      (∀ x < ta.length, x % 2 = 1 → leafOf? (get ta x) = none) →
      ∃ r, l.foldlM step (ta, k, keys) = .ok r
  | [], _, ta, k, keys, _, _ => ⟨_, rfl⟩
  | (cp, f) :: l, hl, ta, k, keys, hlen, hodd => by
    obtain ⟨hcp, hf⟩ := hl (cp, f) (List.mem_cons_self ..)
    have hl' : ∀ x ∈ l, x.1 ∈ directCopathOf t self ∧ x.2 = isResolutionEmpty t x.1.2 :=
      fun x hx => hl x (List.mem_cons_of_mem _ hx)
    cases f with
    | true =>
      obtain ⟨r, hr⟩ := encFold_total hself l hl' ta k (keys ++ [none]) hlen hodd
      refine ⟨r, ?_⟩
      rw [List.foldlM_cons, step_true]
      exact hr
    | false =>
      obtain ⟨k0, hk0, _, _⟩ := leafCount_spec t
      obtain ⟨_, j, _, rfl⟩ := mem_directCopathOf hk0 hcp
      have hne : resolution t (pathEntry self j).2 ≠ [] := by
        intro h
        simp only [isResolutionEmpty, h, List.isEmpty_nil] at hf
        cases hf
      have hlt := unfiltered_lt hself hne
      have hoddj := pathEntry_fst_odd self j
      have hu := updateNode_total (k := k) (ta := ta) (i := (pathEntry self j).1) (by omega)
        (hodd _ (by omega) hoddj)
      obtain ⟨r, hr⟩ := encFold_total hself l hl'
        (set ta (pathEntry self j).1 (some (.parent { key := k, unmerged := [] }))) (k + 1) (keys ++ [some k])
        (by rw [length_set]; exact hlen) (by
          intro x hx hxo
          rw [length_set] at hx
          rw [get_set]
          split
          · rfl
          · exact hodd x hx hxo)
      refine ⟨r, ?_⟩
      rw [List.foldlM_cons]
      have : step (ta, k, keys) (pathEntry self j, false) =
          .ok (set ta (pathEntry self j).1 (some (.parent { key := k, unmerged := [] })), k + 1, keys ++ [some k]) := by
        simp only [step, Bool.false_eq_true, if_false, hu]
      rw [this]
      exact hr

end Enc

/-- `encap` is total on a tree of the right shape in which the committer's leaf exists -/
theorem encap_total {t : Tree} {self : Nat} (hs : PreShape t) (hself : 2 * self < t.length)
    (nl : Leaf) (excl : List Nat) (fresh : Nat) : ∃ o, encap t self nl excl fresh = .ok o := by
  obtain ⟨r, hr⟩ := Enc.encFold_total hself ((directCopathOf t self).zip (filtered t self))
    (fun x hx => Enc.mem_zip_map _ _ x hx) t fresh [] rfl (fun x hx hxo => (hs.1 x hx).2 hxo)
  cases he : encap t self nl excl fresh with
  | ok o => exact ⟨o, rfl⟩
  | error err =>
    exfalso
    unfold encap at he
    simp only [bind, Except.bind, pure, Except.pure] at he
    split at he
    · rename_i hfold
      have := hfold.symm.trans hr
      cases this
    · cases he

end MlsVerif.Tree
