import MlsVerif.Proofs.GroupSecrecy
import MlsVerif.Proofs.GroupClosure
import MlsVerif.Proofs.GroupGhost
import MlsVerif.Proofs.GroupInitChain
/-
A concrete history of the group model, evaluated by the kernel: create, add two members (with path), add a
third (without path), an update-path commit, remove member 1 (with path; alternatively without), a further
commit; then two EXTERNAL commits: a new party joins, and a member that lost its state re-syncs (external commit
with the Remove of its own old leaf).  Used by the non-vacuity examples of `Props/C01Group.lean` and `Props/C02Group.lean`.
-/
namespace MlsVerif.Group.Ex
open MlsVerif.Tree MlsVerif.Group

def lf (i : Nat) : Leaf := ⟨i, 100 + i, 200 + i⟩

def run (x : Except GErr (GroupWorld × Transcript)) : GroupWorld × Transcript :=
  match x with
  | .ok r => r
  | .error _ => (⟨[], 0, []⟩, { pathSeals := [], welcome := [] })

/-- epoch 0: member 0 alone -/
def w0 : GroupWorld := GroupWorld.init (lf 0)

/-- commit 0 → 1: member 0 adds members 1 and 2, with a path; both join -/
def e1 : Edits := ⟨[], [], [lf 1, lf 2]⟩
def nl1 : Leaf := ⟨0, 300, 200⟩
def r1 := run (w0.commit 0 e1 (some nl1) 1000 .zero 11 [1, 2])
def w1 := r1.1
theorem c1 : w0.commit 0 e1 (some nl1) 1000 .zero 11 [1, 2] = .ok (w1, r1.2) := by decide +kernel
theorem ok1 : CommitOk w0 0 e1 (some nl1) 1000 := by decide +kernel

/-- commit 1 → 2: member 1 adds member 3 without a path (with an external PSK) -/
def e2 : Edits := ⟨[], [], [lf 3]⟩
def r2 := run (w1.commit 1 e2 none 2000 (.psk 7) 12 [0, 2, 3])
def w2 := r2.1
theorem c2 : w1.commit 1 e2 none 2000 (.psk 7) 12 [0, 2, 3] = .ok (w2, r2.2) := by decide +kernel
theorem ok2 : CommitOk w1 1 e2 none 2000 := by decide +kernel

/-- commit 2 → 3: member 2 commits an empty proposal list with a path; member 3 misses it -/
def e3 : Edits := ⟨[], [], []⟩
def nl3 : Leaf := ⟨2, 302, 202⟩
def r3 := run (w2.commit 2 e3 (some nl3) 2000 .zero 13 [0, 1])
def w3 := r3.1
theorem c3 : w2.commit 2 e3 (some nl3) 2000 .zero 13 [0, 1] = .ok (w3, r3.2) := by decide +kernel
theorem ok3 : CommitOk w2 2 e3 (some nl3) 2000 := by decide +kernel

/-- commit 3 → 4: member 0 removes member 1, with a path -/
def e4 : Edits := ⟨[1], [], []⟩
def nl4 : Leaf := ⟨0, 400, 200⟩
def r4 := run (w3.commit 0 e4 (some nl4) 3000 .zero 14 [2])
def w4 := r4.1
def tr4 := r4.2
theorem c4 : w3.commit 0 e4 (some nl4) 3000 .zero 14 [2] = .ok (w4, tr4) := by decide +kernel
theorem ok4 : CommitOk w3 0 e4 (some nl4) 3000 := by decide +kernel

/-- commit 4 → 5: member 2 commits with a path -/
def nl5 : Leaf := ⟨2, 502, 202⟩
def r5 := run (w4.commit 2 e3 (some nl5) 4000 .zero 15 [0])
def w5 := r5.1
def tr5 := r5.2
theorem c5 : w4.commit 2 e3 (some nl5) 4000 .zero 15 [0] = .ok (w5, tr5) := by decide +kernel
theorem ok5 : CommitOk w4 2 e3 (some nl5) 4000 := by decide +kernel

/-- the alternative commit 3 → 4': member 0 removes member 1 *without* a path (the library refuses to build
this commit, see `Props/C10`: `path_required`) -/
def r4' := run (w3.commit 0 e4 none 3000 .zero 14 [2])
def w4' := r4'.1
def tr4' := r4'.2
theorem c4' : w3.commit 0 e4 none 3000 .zero 14 [2] = .ok (w4', tr4') := by decide +kernel

theorem reach3 : Reachable w3 :=
  .commit (.commit (.commit (.init (lf 0)) ok1 c1) ok2 c2) ok3 c3

/-- commit 5 → 6: member 0 removes member 3, which has been in epoch 2 since it missed commit 2 → 3 -/
def e6 : Edits := ⟨[3], [], []⟩
def nl6 : Leaf := ⟨0, 600, 200⟩
def r6 := run (w5.commit 0 e6 (some nl6) 5000 .zero 16 [2])
def w6 := r6.1
def tr6 := r6.2
theorem c6 : w5.commit 0 e6 (some nl6) 5000 .zero 16 [2] = .ok (w6, tr6) := by decide +kernel
theorem ok6 : CommitOk w5 0 e6 (some nl6) 5000 := by decide +kernel

/-- every commit of the history introduces only keys that no followed party holds -/
theorem reachF5 : ReachableF w5 :=
  .commit (.commit (.commit (.commit (.commit (.init (lf 0))
    ok1 (by decide +kernel) c1) ok2 (by decide +kernel) c2) ok3 (by decide +kernel) c3)
    ok4 (by decide +kernel) c4) ok5 (by decide +kernel) c5

/-- the followed party with identity `i` -/
def party (w : GroupWorld) (i : Nat) : Option Member := w.members.find? (·.id == i)

/-- member 1 as it is in epoch 3, just before it is removed -/
def m1 : Member := (party w3 1).getD ⟨0, ⟨0, []⟩, 0, .zero⟩
/-- member 2 in epoch 3 -/
def m2 : Member := (party w3 2).getD ⟨0, ⟨0, []⟩, 0, .zero⟩

/-- member 3 as it is in the world of epoch 5: still in epoch 2 -/
def m3 : Member := (party w5 3).getD ⟨0, ⟨0, []⟩, 0, .zero⟩

/-- the epoch secrets of the main line -/
def E (w : GroupWorld) : Sec := ((party w 0).map (·.secret)).getD .zero

/-! ### external commits -/

theorem reach5 : Reachable w5 := .commit (.commit reach3 ok4 c4) ok5 c5

/-- epoch 5 → 6: party 4 joins by an EXTERNAL commit built from member 0's GroupInfo; no Remove.  `L0x`: the leaf
node it inserts, `nlx`: the leaf node of its update path.  Members 0 and 2 process it; its leaf is the leftmost
blank one, leaf 1 (where the removed member 1 was) -/
def L0x : Leaf := ⟨4, 704, 204⟩
def nlx : Leaf := ⟨4, 714, 204⟩
def rx6 := run (w5.externalCommit 0 none L0x nlx 7000 .zero 17 [0, 2])
def wx6 := rx6.1
def trx6 := rx6.2
theorem cx6 : w5.externalCommit 0 none L0x nlx 7000 .zero 17 [0, 2] = .ok (wx6, trx6) := by decide +kernel
theorem okx6 : ExtOk w5 none L0x nlx 7000 := by decide +kernel

/-- epoch 6 → 7: member 2 has lost its state and RE-SYNCS: an external commit (GroupInfo of member 0) with the
Remove of its own old leaf 2, same identity and signature key; members 0 and 4 (leaves 0, 1) process it; the new
leaf is again leaf 2 -/
def L0y : Leaf := ⟨2, 802, 202⟩
def nly : Leaf := ⟨2, 812, 202⟩
def rx7 := run (wx6.externalCommit 0 (some 2) L0y nly 8000 .zero 18 [0, 1])
def wx7 := rx7.1
def trx7 := rx7.2
theorem cx7 : wx6.externalCommit 0 (some 2) L0y nly 8000 .zero 18 [0, 1] = .ok (wx7, trx7) := by decide +kernel
theorem okx7 : ExtOk wx6 (some 2) L0y nly 8000 := by decide +kernel

theorem reachx6 : Reachable wx6 := .ext reach5 okx6 cx6
theorem reachx7 : Reachable wx7 := .ext reachx6 okx7 cx7

/-- … with all transcripts since the creation of the group -/
theorem hist5 : History w5 [tr5, tr4, r3.2, r2.2, r1.2] :=
  .commit (.commit (.commit (.commit (.commit (.init (lf 0)) ok1 c1) ok2 c2) ok3 c3) ok4 c4) ok5 c5
theorem histx6 : History wx6 [trx6, tr5, tr4, r3.2, r2.2, r1.2] := .ext hist5 okx6 cx6

/-- global freshness also for the two external commits -/
theorem reachFx6 : ReachableF wx6 := .ext reachF5 okx6 (by decide +kernel) cx6

/-- the external committer (party 4) as it is in epoch 6 -/
def j4 : Member := (party wx6 4).getD ⟨0, ⟨0, []⟩, 0, .zero⟩
/-- member 2's OLD state in epoch 6 — what it "lost"; the re-sync removes the leaf it belongs to -/
def m2x : Member := (party wx6 2).getD ⟨0, ⟨0, []⟩, 0, .zero⟩
/-- member 2 after the re-sync: the last party with identity 2 -/
def m2y : Member := (wx7.members.reverse.find? (·.id == 2)).getD ⟨0, ⟨0, []⟩, 0, .zero⟩

end MlsVerif.Group.Ex
