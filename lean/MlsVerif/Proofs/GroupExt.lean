import MlsVerif.Proofs.GroupInv
import MlsVerif.Proofs.Tree.ExtAdd
/-
The external commit preserves the invariant `GInv` of the composed group model: the tree stays well-formed, every
member that processes it and the external committer hold exactly the keys they are entitled to in the new tree,
and all parties of the new epoch hold the same epoch secret.  Tree layer: `Proofs/Tree/ExtAdd.lean`.
-/
namespace MlsVerif.Group
open MlsVerif.Tree MlsVerif.TreeMath

theorem ownUpdate_noEdits (self : Nat) : ownUpdate noEdits self = none := rfl

theorem not_mem_toList {remove : Option Nat} {x : Nat} (h : remove ≠ some x) : x ∉ remove.toList := by
  cases remove with
  | none => simp
  | some r =>
    simp only [Option.toList_some, List.mem_singleton]
    rintro rfl
    exact h rfl

section Ext
variable {w w' : GroupWorld} {gi : Nat} {remove : Option Nat} {L0 nl : Leaf} {fresh : Nat} {psk : Sec}
  {ctx : Nat} {deliverTo : List Nat} {tr : Transcript} {gm : Member} {t1 : Tree} {self : Nat} {t1x : Tree}
  {o : EncapOut} {ms : List Member}

/-- the tree-layer facts of the edit of a successful external commit -/
theorem ext_edit (hi : GInv w) (hok : ExtOk w remove L0 nl fresh)
    (hc : ExtCommit w gi remove L0 nl fresh psk ctx deliverTo w' tr gm t1 self t1x o ms) :
    ExtEdit w.tree remove.toList L0 t1 self t1x := by
  obtain ⟨a, hb⟩ := hc.edit
  exact (extEdit_of hi.good.1 (hb : batchEdit w.tree ⟨remove.toList, [], []⟩ = _) hc.add (hok.fresh0 hb)).2

theorem ext_pathOk (hok : ExtOk w remove L0 nl fresh)
    (hc : ExtCommit w gi remove L0 nl fresh psk ctx deliverTo w' tr gm t1 self t1x o ms) :
    PathOk t1x self nl fresh := by
  obtain ⟨a, hb⟩ := hc.edit
  exact hok.pathOk hb hc.add

/-- a member that processed the external commit: what the tree layer says about its `decap` -/
theorem ext_recv_facts (hi : GInv w) (hok : ExtOk w remove L0 nl fresh)
    (hc : ExtCommit w gi remove L0 nl fresh psk ctx deliverTo w' tr gm t1 self t1x o ms)
    {m : Member} (hmw : m ∈ w.members) (hcur : m.epoch = w.epoch) (hnr : remove ≠ some m.priv.self) :
    m.priv.self ≠ self ∧ (∃ L, get o.tree (2 * m.priv.self) = some (.leaf L)) ∧
    ∃ d, decap o.tree (provisionalPriv t1x m.priv none) self o.pathKeys [] = .ok d ∧
      KeyInv o.tree d.priv ∧ d.priv.self = m.priv.self ∧
      ∃ cp resNode key k0,
        (directCopathOf t1x self)[lcaIndex m.priv.self self]? = some cp ∧
        o.pathKeys[lcaIndex m.priv.self self]? = some (some k0) ∧
        ((resolution o.tree cp.2).filter (fun j => !(([] : List Nat).map (2 * ·)).contains j))[d.ctPos]?
          = some resNode ∧
        (provisionalPriv t1x m.priv none).keys[d.slot]? = some (some key) ∧
        (get o.tree resNode).map Node.key = some key := by
  obtain ⟨hLm, hkm⟩ := hi.good.2 _ (mem_toWorld.2 ⟨m, hmw, hcur, rfl⟩)
  exact ext_receiver (ext_edit hi hok hc) hc.enc hkm hLm (not_mem_toList hnr)

theorem ext_good (hi : GInv w) (hok : ExtOk w remove L0 nl fresh)
    (hc : ExtCommit w gi remove L0 nl fresh psk ctx deliverTo w' tr gm t1 self t1x o ms) :
    (toWorld w').Good := by
  have hx := ext_edit hi hok hc
  obtain ⟨h1, h2, h3, h4⟩ := ext_pathOk hok hc
  have hL : ∃ L, get t1x (2 * self) = some (.leaf L) := ⟨L0, hx.leaf⟩
  have hself := self_lt_of_leaf hL
  have hpu := (encap_spec hc.enc hself).1
  have htree : (toWorld w').tree = o.tree := by
    unfold toWorld; rw [hc.world]
  refine ⟨?_, ?_⟩
  · rw [htree]
    exact wf_encap hx.wfx hL h1 h2 h3 (newLeafOkB_spec h4) hc.enc
  · intro p hp
    rw [htree]
    obtain ⟨m', hm', he', rfl⟩ := mem_toWorld.1 hp
    rw [hc.world] at hm' he'
    simp only [List.mem_append, List.mem_singleton] at hm'
    simp only at he'
    rcases hm' with hm | rfl
    · obtain ⟨m, hmw, hadv⟩ := (mapE_ok hc.members).1 m' hm
      rcases advExt_cases hadv with ⟨_, rfl⟩ | ⟨hcur, hnr, _, _, hr⟩
      · have := hi.epochs _ hmw; omega
      · obtain ⟨d, ps, r, k, hd, _, _, _, _, rfl⟩ := recvPathI_ok hr
        rw [ownUpdate_noEdits] at hd
        obtain ⟨_, hleaf, d', hd', hk', hs', _⟩ := ext_recv_facts hi hok hc hmw hcur hnr
        rw [hd] at hd'
        injection hd' with hd'
        subst hd'
        exact ⟨by simp only; rw [hs']; exact hleaf, hk'⟩
    · exact ⟨⟨nl, hpu.leaf⟩, encap_keyinv' hx.wfx.1 hx.wfx.2.2.2 hL hc.enc⟩

end Ext

/-- the invariant is preserved by every external commit -/
theorem ginv_ext {w w' : GroupWorld} {tr : Transcript} {gi : Nat} {remove : Option Nat} {L0 nl : Leaf}
    {fresh : Nat} {psk : Sec} {ctx : Nat} {deliverTo : List Nat}
    (hi : GInv w) (hok : ExtOk w remove L0 nl fresh)
    (h : w.externalCommit gi remove L0 nl fresh psk ctx deliverTo = .ok (w', tr)) : GInv w' := by
  obtain ⟨gm, t1, self, t1x, o, ms, hc⟩ := externalCommit_inv h
  have he : w'.epoch = w.epoch + 1 := by rw [hc.world]
  obtain ⟨h1, h2⟩ := agree_of_cases hi he (fun m' hm' => ext_member_cases hi hc hm')
  exact ⟨ext_good hi hok hc, h1, h2⟩

end MlsVerif.Group
