import MlsVerif.Proofs.GroupInv
import MlsVerif.Proofs.GroupExt
/-
Every commit of the group model is a `Step` of the tree-layer world (`Proofs/Tree/World.lean`); hence the
invariant `GInv` holds in every reachable group world.
-/
namespace MlsVerif.Group
open MlsVerif.Tree MlsVerif.TreeMath

theorem current_priv_mem {w : GroupWorld} {m : Member} (hm : m ∈ w.members) (he : m.epoch = w.epoch) :
    m.priv ∈ (toWorld w).members :=
  mem_toWorld.2 ⟨m, hm, he, rfl⟩

/-- the committer's leaf is not among the added positions -/
theorem sender_not_added {w : GroupWorld} {sender : Nat} {e : Edits} {psk : Sec} {cm : Member}
    {added : List Nat} {t1 : Tree} (hi : GInv w) (hpre : CommitPre w sender e psk cm added t1) :
    sender ∉ added := by
  obtain ⟨hcm1, hcm2, hcm3⟩ := sender?_spec hpre.hsender
  obtain ⟨hw, hm⟩ := hi.good
  have hes := batchEdit_editSpec hw.1.1 hpre.edit
  obtain ⟨⟨L, hL⟩, _⟩ := hm _ (current_priv_mem hcm1 hcm2)
  intro ha
  rcases hes.added_fresh sender ha with h | h
  · exact hpre.not_removed h
  · rw [hcm3] at hL
    change get w.tree (2 * sender) = _ at hL
    change get w.tree (2 * sender) = _ at h
    rw [hL] at h; cases h

theorem not_touched {e : Edits} {self : Nat} (h1 : self ∉ e.removes) (h2 : ownUpdate e self = none) :
    self ∉ e.touched := by
  unfold Edits.touched
  rw [List.mem_append]
  rintro (h | h)
  · exact h1 h
  · exact ownUpdate_none h2 h

section Path
variable {w w' : GroupWorld} {sender : Nat} {e : Edits} {nl : Leaf} {fresh : Nat} {psk : Sec} {ctx : Nat}
  {deliverTo : List Nat} {tr : Transcript} {cm : Member} {added : List Nat} {t1 : Tree} {o : EncapOut}
  {ms js : List Member}

theorem path_newState (hi : GInv w) (hpre : CommitPre w sender e psk cm added t1)
    (hc : PathCommit w sender e nl fresh psk ctx deliverTo w' tr cm added t1 o ms js)
    {p : Priv} (hp : p ∈ (toWorld w').members) : NewState (toWorld w) e added t1 sender o p := by
  obtain ⟨m', hm', he', rfl⟩ := mem_toWorld.1 hp
  rw [hc.world] at hm' he'
  simp only [List.mem_append] at hm'
  simp only at he'
  rcases hm' with hm | hm
  · obtain ⟨m, hmw, hadv⟩ := (mapE_ok hc.members).1 m' hm
    rcases advPath_cases hadv with ⟨_, rfl⟩ | ⟨h1, _, rfl⟩ | ⟨h1, hne, hnr, _, hr⟩
    · have := hi.epochs _ hmw; omega
    · exact .committer
    · obtain ⟨d, ps, r, k, hd, _, _, _, _, rfl⟩ := recvPath_ok hr
      cases hou : ownUpdate e m.priv.self with
      | none =>
        rw [hou] at hd
        exact .receiver (current_priv_mem hmw h1) (not_touched hnr hou) hne hd
      | some k' =>
        rw [hou] at hd
        obtain ⟨l, hl, rfl⟩ := ownUpdate_some hou
        exact .updated hl hne hd
  · obtain ⟨j, self, L, w0, p, hj, hL, _, _, _, _, hjp, rfl⟩ := joinAll_ok hc.joiners hm
    refine .joiner hj ?_ hL hjp
    rintro rfl
    exact sender_not_added hi hpre (List.mem_of_getElem? hj)

theorem path_step (hi : GInv w) (hok : CommitOk w sender e (some nl) fresh)
    (hpre : CommitPre w sender e psk cm added t1)
    (hc : PathCommit w sender e nl fresh psk ctx deliverTo w' tr cm added t1 o ms js) :
    Step (toWorld w) (toWorld w') := by
  obtain ⟨h1, h2, h3, h4⟩ := hok.pathOk hpre.edit
  have hst : Step (toWorld w) ⟨o.tree, (toWorld w').members⟩ :=
    Step.commit (w := toWorld w) hok.1 hpre.edit hpre.leaf h1 h2 h3 (newLeafOkB_spec h4) hc.enc
      (fun p hp => path_newState hi hpre hc hp)
  have : toWorld w' = ⟨o.tree, (toWorld w').members⟩ := by
    conv => lhs; unfold toWorld
    rw [hc.world]
    rfl
  rw [this]
  exact hst

end Path

section NoPath
variable {w w' : GroupWorld} {sender : Nat} {e : Edits} {psk : Sec} {ctx : Nat}
  {deliverTo : List Nat} {tr : Transcript} {cm : Member} {added : List Nat} {t1 : Tree}
  {js : List Member}

theorem nopath_newState (hi : GInv w) (hpre : CommitPre w sender e psk cm added t1)
    (hc : NoPathCommit w sender e psk ctx deliverTo w' tr cm added t1 js)
    {p : Priv} (hp : p ∈ (toWorld w').members) : NewStateNoPath (toWorld w) e added t1 p := by
  obtain ⟨m', hm', he', rfl⟩ := mem_toWorld.1 hp
  rw [hc.world] at hm' he'
  simp only [List.mem_append, List.mem_map] at hm'
  simp only at he'
  rcases hm' with ⟨m, hmw, rfl⟩ | hm
  · rcases advNoPath_cases w sender e deliverTo t1 psk ctx m with ⟨_, h⟩ | ⟨h1, h2, h⟩
    · rw [h] at he'
      have := hi.epochs _ hmw; omega
    · rw [h]
      simp only
      have hnr : m.priv.self ∉ e.removes := by
        rcases h2 with h2 | h2
        · rw [h2]; exact hpre.not_removed
        · exact h2.1
      cases hou : ownUpdate e m.priv.self with
      | none => exact .member (current_priv_mem hmw h1) (not_touched hnr hou)
      | some k' =>
        obtain ⟨l, hl, rfl⟩ := ownUpdate_some hou
        exact .updated hl
  · obtain ⟨j, self, L, w0, p, hj, hL, _, _, _, _, hjp, rfl⟩ := joinAll_ok hc.joiners hm
    exact .joiner hj hL hjp

theorem nopath_step (hi : GInv w) (hok : CommitOk w sender e none fresh)
    (hpre : CommitPre w sender e psk cm added t1)
    (hc : NoPathCommit w sender e psk ctx deliverTo w' tr cm added t1 js) :
    Step (toWorld w) (toWorld w') := by
  have hst : Step (toWorld w) ⟨t1, (toWorld w').members⟩ :=
    Step.commitNoPath (w := toWorld w) hok.1 hpre.edit (fun p hp => nopath_newState hi hpre hc hp)
  have : toWorld w' = ⟨t1, (toWorld w').members⟩ := by
    conv => lhs; unfold toWorld
    rw [hc.world]
    rfl
  rw [this]
  exact hst

end NoPath

/-- the invariant is preserved by every commit -/
theorem ginv_commit {w w' : GroupWorld} {tr : Transcript} {sender : Nat} {e : Edits}
    {newLeaf : Option Leaf} {fresh : Nat} {psk : Sec} {ctx : Nat} {deliverTo : List Nat}
    (hi : GInv w) (hok : CommitOk w sender e newLeaf fresh)
    (h : w.commit sender e newLeaf fresh psk ctx deliverTo = .ok (w', tr)) : GInv w' := by
  obtain ⟨cm, added, t1, hpre, h⟩ := commit_inv h
  cases newLeaf with
  | some nl =>
    obtain ⟨o, ms, js, hc⟩ := commitPath_inv h
    have he : w'.epoch = w.epoch + 1 := by rw [hc.world]
    obtain ⟨h1, h2⟩ := agree_of_cases hi he (fun m' hm' => path_member_cases hi hpre hc hm')
    exact ⟨step_good hi.good (path_step hi hok hpre hc), h1, h2⟩
  | none =>
    obtain ⟨js, hc⟩ := commitNoPath_inv h
    have he : w'.epoch = w.epoch + 1 := by rw [hc.world]
    obtain ⟨h1, h2⟩ := agree_of_cases hi he (fun m' hm' => nopath_member_cases hi hpre hc hm')
    exact ⟨step_good hi.good (nopath_step hi hok hpre hc), h1, h2⟩

theorem ginv_init (l : Leaf) : GInv (GroupWorld.init l) := by
  refine ⟨init_good l, ?_, ?_⟩
  · intro m hm
    have : m = _ := List.mem_singleton.1 hm
    subst this; exact Nat.le_refl _
  · intro m1 h1 m2 h2 _
    have e1 : m1 = _ := List.mem_singleton.1 h1
    have e2 : m2 = _ := List.mem_singleton.1 h2
    rw [e1, e2]

/-- the invariant holds in every reachable group world -/
theorem reachable_ginv {w : GroupWorld} (h : Reachable w) : GInv w := by
  induction h with
  | init l => exact ginv_init l
  | commit _ hok hc ih => exact ginv_commit ih hok hc
  | ext _ hok hc ih => exact ginv_ext ih hok hc

end MlsVerif.Group
