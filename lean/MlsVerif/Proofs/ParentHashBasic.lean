import MlsVerif.Proofs.ParentHashDefs
/-
Basic calculus of the parent-hash layer: `phGet` / `phSet` / `phOf`, `topKey`.
-/
namespace MlsVerif.ParentHash
open MlsVerif.TreeMath MlsVerif.Tree MlsVerif.TreeHash

theorem phGet_of_le {ph : PhLayer} {i : Nat} (h : ph.length ≤ i) : phGet ph i = none := by
  simp [phGet, h]

theorem lt_of_phGet_some {ph : PhLayer} {i : Nat} {v : PH} (h : phGet ph i = some v) :
    i < ph.length := by
  apply Classical.byContradiction; intro hc
  rw [phGet_of_le (by omega)] at h; cases h

@[simp] theorem length_phSet (ph : PhLayer) (i : Nat) (v : Option PH) :
    (phSet ph i v).length = ph.length := by
  unfold phSet; split <;> simp

theorem phGet_phSet (ph : PhLayer) (i j : Nat) (v : Option PH) :
    phGet (phSet ph i v) j = if i = j ∧ i < ph.length then v else phGet ph j := by
  unfold phSet
  by_cases h : i < ph.length
  · simp only [h, if_true, and_true]
    unfold phGet
    rw [List.getElem?_set]
    split
    · simp [*]
    · rfl
  · simp [h]

theorem phGet_phSet_ne (ph : PhLayer) (i j : Nat) (v : Option PH) (h : i ≠ j) :
    phGet (phSet ph i v) j = phGet ph j := by rw [phGet_phSet]; simp [h]

theorem phGet_phSet_self (ph : PhLayer) (i : Nat) (v : Option PH) (h : i < ph.length) :
    phGet (phSet ph i v) i = v := by rw [phGet_phSet]; simp [h]

@[simp] theorem length_phOf (n : Nat) (f : Nat → Option PH) : (phOf n f).length = n := by
  simp [phOf]

theorem phGet_phOf (n : Nat) (f : Nat → Option PH) (i : Nat) :
    phGet (phOf n f) i = if i < n then f i else none := by
  unfold phGet phOf
  by_cases h : i < n
  · simp [h]
  · simp [h]

theorem topKey_of_le {ph : PhLayer} {i : Nat} (h : ph.length ≤ i) : topKey ph i = none := by
  simp [topKey, phGet_of_le h]

theorem topKey_eq_some {ph : PhLayer} {i k : Nat} :
    topKey ph i = some k ↔ ∃ a b, phGet ph i = some (.node k a b) := by
  unfold topKey
  cases h : phGet ph i with
  | none => simp
  | some v =>
    cases v with
    | empty => simp [PH.key?]
    | node k' a b => simp [PH.key?]

/-- `keys` of `PHInv` without the length bounds -/
theorem PHInv.keys' {p : PTree} (h : PHInv p) {d d' k : Nat} (h1 : topKey p.ph d = some k)
    (h2 : topKey p.ph d' = some k) : d = d' := by
  have hd : d < p.ph.length := by
    apply Classical.byContradiction; intro hc
    rw [topKey_of_le (by omega)] at h1; cases h1
  have hd' : d' < p.ph.length := by
    apply Classical.byContradiction; intro hc
    rw [topKey_of_le (by omega)] at h2; cases h2
  exact h.keys d hd d' hd' k h1 h2

theorem PhKeysBelow.lt {ph : PhLayer} {b i k : Nat} (h : PhKeysBelow ph b)
    (hk : topKey ph i = some k) : k < b := by
  have hi : i < ph.length := by
    apply Classical.byContradiction; intro hc
    rw [topKey_of_le (by omega)] at hk; cases hk
  exact h i hi k hk

theorem parentAt_eq (t : Tree) (x : Nat) : parentAt t x = parentOf? (get t x) := by
  unfold parentAt
  cases get t x with
  | none => rfl
  | some n => cases n <;> rfl

end MlsVerif.ParentHash
