import MlsVerif.Model.HpkeBytes
import MlsVerif.Proofs.Hpke
/-
The `ByteArray` instance used by the driver satisfies the byte-string laws, and every shipped
cipher suite has `Nn = 12 ≥ 8`, so the nonce theorems of C14 apply to them.
-/
namespace MlsVerif.Hpke.Bytes

theorem ops_lawful : Bytes.ops.Lawful where
  bytes_ofBytes l := by
    show (ByteArray.mk l.toArray).data.toList = l
    simp
  ofBytes_bytes b := by
    show ByteArray.mk b.data.toList.toArray = b
    cases b; simp
  bytes_cat a b := by
    show (a ++ b).data.toList = a.data.toList ++ b.data.toList
    rw [ByteArray.data_append, Array.toList_append]
  size_eq b := by
    show b.size = b.data.toList.length
    rw [Array.length_toList]; rfl

theorem suite_nn (n : Nat) (p : SuiteParams) (h : suite? n = some p) : p.nn = 12 := by
  unfold suite? at h
  split at h <;> first | (cases h; rfl) | cases h

/-- a context made by the key schedule of a shipped suite has a base nonce of 12 bytes -/
theorem shipped_nonce_len (n : Nat) (p : SuiteParams) (h : suite? n = some p) {mode : Nat}
    {ss info : ByteArray} {psk : Option (Psk ByteArray)} {c : Context ByteArray} {e : EncCtx ByteArray}
    (hk : (hpke p).keySchedule mode ss info psk = .ok c) (he : c.enc = some e) :
    (Bytes.ops.bytes e.baseNonce).length = 12 := by
  have := keySchedule_ok (hpke p) hk
  have ha : (hpke p).aead = some (aeadStub p) := rfl
  rw [ha, he] at this
  obtain ⟨_, _, h3⟩ := this
  have hops : (hpke p).ops = Bytes.ops := rfl
  rw [hops, ops_lawful.size_eq] at h3
  rw [h3]
  exact suite_nn n p h

end MlsVerif.Hpke.Bytes
