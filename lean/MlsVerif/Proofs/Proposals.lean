/-
Helper lemmas for `Props/C10.lean`, part 1: the passes of `apply_proposals_from_member` that do not look
at the tree (`retain`, `filterProposers`, `filterPsks`, `filterExtraGce`, `filterReinitIfOther`), the
decomposition `applyFromMember = prepare >>= applyProposalChanges`.  Core Lean only.
-/
import MlsVerif.Model.Proposals

namespace MlsVerif.Proposals
open MlsVerif.Tree

/-! ## `retain` -/

/-- closed form of `retain` -/
theorem retain_eq (st : Strategy) (e : Err) (good : Proposal → Bool) (l : List Proposal) :
    retain st e good l =
      if l.all (fun p => good p || ignore st p.byRef) then .ok (l.filter good) else .error e := by
  induction l with
  | nil => rfl
  | cons p ps ih =>
    simp only [retain, applyStrategy, ih, List.all_cons, List.filter_cons]
    cases hg : good p <;> cases hi : ignore st p.byRef <;> cases ha : ps.all (fun p => good p || ignore st p.byRef) <;> simp

theorem retain_ok {st : Strategy} {e : Err} {good : Proposal → Bool} {l l' : List Proposal}
    (h : retain st e good l = .ok l') :
    l' = l.filter good ∧ ∀ p ∈ l, good p = false → ignore st p.byRef = true := by
  rw [retain_eq] at h
  split at h
  · rename_i ha
    refine ⟨(Except.ok.inj h).symm, fun p hp hg => ?_⟩
    have := List.all_eq_true.1 ha p hp
    simpa [hg] using this
  · cases h

theorem retain_error {st : Strategy} {e x : Err} {good : Proposal → Bool} {l : List Proposal}
    (h : retain st e good l = .error x) : x = e := by
  rw [retain_eq] at h
  split at h
  · cases h
  · exact (Except.error.inj h).symm

theorem retain_of_all {st : Strategy} {e : Err} {good : Proposal → Bool} {l : List Proposal}
    (h : ∀ p ∈ l, good p = true) : retain st e good l = .ok l := by
  rw [retain_eq, if_pos, List.filter_eq_self.2 h]
  exact List.all_eq_true.2 fun p hp => by simp [h p hp]

/-- an element of the output satisfies the predicate and was in the input -/
theorem retain_mem {st : Strategy} {e : Err} {good : Proposal → Bool} {l l' : List Proposal}
    (h : retain st e good l = .ok l') {p : Proposal} (hp : p ∈ l') : p ∈ l ∧ good p = true := by
  rw [(retain_ok h).1] at hp
  exact List.mem_filter.1 hp

/-- an element that the strategy does not allow to drop survives, and is good -/
theorem retain_keeps {st : Strategy} {e : Err} {good : Proposal → Bool} {l l' : List Proposal}
    (h : retain st e good l = .ok l') {p : Proposal} (hp : p ∈ l) (hi : ignore st p.byRef = false) :
    p ∈ l' ∧ good p = true := by
  obtain ⟨rfl, hbad⟩ := retain_ok h
  have hg : good p = true := by
    cases hg : good p
    · have := hbad p hp hg; rw [hi] at this; cases this
    · rfl
  exact ⟨List.mem_filter.2 ⟨hp, hg⟩, hg⟩

theorem retain_sublist {st : Strategy} {e : Err} {good : Proposal → Bool} {l l' : List Proposal}
    (h : retain st e good l = .ok l') : l'.Sublist l := by
  rw [(retain_ok h).1]; exact List.filter_sublist

theorem ignore_receive (b : Bool) : ignore .receive b = false := rfl
theorem ignore_send (b : Bool) : ignore .send b = b := rfl

theorem retain_receive {e : Err} {good : Proposal → Bool} {l l' : List Proposal}
    (h : retain .receive e good l = .ok l') : l' = l ∧ ∀ p ∈ l, good p = true := by
  have hall : ∀ p ∈ l, good p = true := fun p hp => (retain_keeps h hp rfl).2
  exact ⟨by rw [(retain_ok h).1, List.filter_eq_self.2 hall], hall⟩

/-! ## `filterPsks` -/

theorem filterPsks_sublist {st : Strategy} : ∀ {l l' : List Proposal} {seen : List Nat},
    filterPsks st l seen = .ok l' → l'.Sublist l
  | [], l', seen, h => by cases h; exact List.Sublist.refl _
  | p :: ps, l', seen, h => by
    simp only [filterPsks] at h
    split at h
    · cases h
    · rename_i keep _
      split at h
      · cases h
      · rename_i rest hr
        cases h
        have ih := filterPsks_sublist hr
        cases keep
        · exact List.Sublist.cons _ ih
        · exact List.Sublist.cons_cons _ ih

/-- every kept proposal is valid, its id is not in `seen`, and the kept ids are pairwise distinct -/
theorem filterPsks_out {st : Strategy} : ∀ {l l' : List Proposal} {seen : List Nat},
    filterPsks st l seen = .ok l' →
      (∀ p ∈ l', p.ok = true ∧ p.pskId ∉ seen) ∧ (l'.map (·.pskId)).Nodup
  | [], l', seen, h => by cases h; simp
  | p :: ps, l', seen, h => by
    simp only [filterPsks] at h
    split at h
    · cases h
    · rename_i keep hk
      split at h
      · cases h
      · rename_i rest hr
        cases h
        obtain ⟨ih1, ih2⟩ := filterPsks_out hr
        have ih1' : ∀ q ∈ rest, q.ok = true ∧ q.pskId ∉ seen ∧ q.pskId ≠ p.pskId := fun q hq => by
          have := ih1 q hq
          simp only [List.mem_cons, not_or] at this
          exact ⟨this.1, this.2.2, this.2.1⟩
        cases keep
        · exact ⟨fun q hq => ⟨(ih1' q hq).1, (ih1' q hq).2.1⟩, ih2⟩
        · simp only [applyStrategy] at hk
          have hg : (p.ok && !seen.contains p.pskId) = true := by
            split at hk
            · assumption
            · split at hk <;> cases hk
          simp only [Bool.and_eq_true, Bool.not_eq_true', List.contains_eq_mem,
            decide_eq_false_iff_not] at hg
          refine ⟨fun q hq => ?_, ?_⟩
          · rcases List.mem_cons.1 hq with rfl | hq
            · exact hg
            · exact ⟨(ih1' q hq).1, (ih1' q hq).2.1⟩
          · simp only [ite_true, List.map_cons, List.nodup_cons]
            refine ⟨fun hm => ?_, ih2⟩
            obtain ⟨q, hq, he⟩ := List.mem_map.1 hm
            exact (ih1' q hq).2.2 he

/-- what the committer keeps, the strict mode accepts — with any `seen'` that is no larger -/
theorem filterPsks_send_receive : ∀ {l l' : List Proposal} {seen : List Nat},
    filterPsks .send l seen = .ok l' → ∀ seen' : List Nat, (∀ x ∈ seen', x ∈ seen) →
      filterPsks .receive l' seen' = .ok l'
  | [], l', seen, h, seen', _ => by cases h; rfl
  | p :: ps, l', seen, h, seen', hs => by
    simp only [filterPsks] at h
    split at h
    · cases h
    · rename_i keep hk
      split at h
      · cases h
      · rename_i rest hr
        cases h
        cases keep
        · exact filterPsks_send_receive hr seen' fun x hx => List.mem_cons_of_mem _ (hs x hx)
        · have ih := filterPsks_send_receive hr (p.pskId :: seen') fun x hx => by
            rcases List.mem_cons.1 hx with rfl | hx
            · exact List.mem_cons_self
            · exact List.mem_cons_of_mem _ (hs x hx)
          simp only [applyStrategy] at hk
          have hg : (p.ok && !seen.contains p.pskId) = true := by
            split at hk
            · assumption
            · split at hk <;> cases hk
          simp only [Bool.and_eq_true, Bool.not_eq_true', List.contains_eq_mem,
            decide_eq_false_iff_not] at hg
          have hg' : (p.ok && !seen'.contains p.pskId) = true := by
            simp only [Bool.and_eq_true, Bool.not_eq_true', List.contains_eq_mem,
              decide_eq_false_iff_not]
            exact ⟨hg.1, fun hm => hg.2 (hs _ hm)⟩
          simp only [ite_true, filterPsks, applyStrategy, hg', ih]

/-- characterisation of the strict mode -/
theorem filterPsks_receive : ∀ {l l' : List Proposal} {seen : List Nat},
    filterPsks .receive l seen = .ok l' → l' = l
  | [], l', seen, h => by cases h; rfl
  | p :: ps, l', seen, h => by
    simp only [filterPsks, applyStrategy, ignore] at h
    split at h
    · cases h
    · rename_i keep hk
      split at h
      · cases h
      · rename_i rest hr
        cases h
        have := filterPsks_receive hr
        subst this
        split at hk
        · cases hk; rfl
        · simp at hk

theorem filterPsks_receive_of {l : List Proposal} : ∀ {seen : List Nat},
    (∀ p ∈ l, p.ok = true ∧ p.pskId ∉ seen) → (l.map (·.pskId)).Nodup →
      filterPsks .receive l seen = .ok l := by
  induction l with
  | nil => intros; rfl
  | cons p ps ih =>
    intro seen h1 h2
    simp only [List.map_cons, List.nodup_cons] at h2
    have hp := h1 p List.mem_cons_self
    have hg : (p.ok && !seen.contains p.pskId) = true := by
      simp only [Bool.and_eq_true, Bool.not_eq_true', List.contains_eq_mem,
        decide_eq_false_iff_not]
      exact hp
    have := ih (seen := p.pskId :: seen) (fun q hq => by
      refine ⟨(h1 q (List.mem_cons_of_mem _ hq)).1, fun hm => ?_⟩
      rcases List.mem_cons.1 hm with he | hm
      · exact h2.1 (List.mem_map.2 ⟨q, hq, he⟩)
      · exact (h1 q (List.mem_cons_of_mem _ hq)).2 hm) h2.2
    simp only [filterPsks, applyStrategy, hg, this, ite_true]

/-- an element that may not be dropped survives -/
theorem filterPsks_keeps {st : Strategy} : ∀ {l l' : List Proposal} {seen : List Nat},
    filterPsks st l seen = .ok l' → ∀ {p : Proposal}, p ∈ l → ignore st p.byRef = false → p ∈ l'
  | [], _, _, _, p, hp, _ => by cases hp
  | q :: ps, l', seen, h, p, hp, hi => by
    simp only [filterPsks] at h
    split at h
    · cases h
    · rename_i keep hk
      split at h
      · cases h
      · rename_i rest hr
        cases h
        rcases List.mem_cons.1 hp with rfl | hp
        · simp only [applyStrategy, hi] at hk
          split at hk
          · cases hk; exact List.mem_cons_self
          · simp at hk
        · have := filterPsks_keeps hr hp hi
          cases keep
          · exact this
          · exact List.mem_cons_of_mem _ this

/-- a duplicate that may not be dropped is an error: if `q` precedes `p` with the same id -/
theorem filterPsks_dup_error {st : Strategy} : ∀ {l l' : List Proposal} {seen : List Nat},
    filterPsks st l seen = .ok l' → ∀ {p : Proposal}, p ∈ l → ignore st p.byRef = false →
      p.pskId ∉ seen
  | [], _, _, _, p, hp, _ => by cases hp
  | q :: ps, l', seen, h, p, hp, hi => by
    simp only [filterPsks] at h
    split at h
    · cases h
    · rename_i keep hk
      split at h
      · cases h
      · rename_i rest hr
        cases h
        rcases List.mem_cons.1 hp with rfl | hp
        · simp only [applyStrategy, hi] at hk
          split at hk
          · rename_i hg
            simp only [Bool.and_eq_true, Bool.not_eq_true', List.contains_eq_mem,
              decide_eq_false_iff_not] at hg
            exact hg.2
          · simp at hk
        · have := filterPsks_dup_error hr hp hi
          exact fun hm => this (List.mem_cons_of_mem _ hm)

/-- positional form: in `l1 ++ q :: l2 ++ p :: l3` with equal ids, `p` cannot be kept by force -/
theorem filterPsks_dup_error' {st : Strategy} : ∀ {l1 l2 l3 l' : List Proposal} {q p : Proposal} {seen : List Nat},
    filterPsks st (l1 ++ q :: (l2 ++ p :: l3)) seen = .ok l' → q.pskId = p.pskId →
      ignore st p.byRef = true
  | [], l2, l3, l', q, p, seen, h, he => by
    simp only [List.nil_append, filterPsks] at h
    split at h
    · cases h
    · split at h
      · cases h
      · rename_i rest hr
        cases hi : ignore st p.byRef
        · exact absurd (he ▸ List.mem_cons_self) (filterPsks_dup_error hr (p := p) (by simp) hi)
        · rfl
  | x :: l1, l2, l3, l', q, p, seen, h, he => by
    simp only [List.cons_append, filterPsks] at h
    split at h
    · cases h
    · split at h
      · cases h
      · rename_i rest hr
        exact filterPsks_dup_error' hr he

/-! ## `filterExtraGce` -/

theorem filterExtraGce_true {st : Strategy} : ∀ {l l' : List Proposal},
    filterExtraGce st l true = .ok l' → l' = [] ∧ ∀ p ∈ l, ignore st p.byRef = true
  | [], l', h => by cases h; simp
  | p :: ps, l', h => by
    simp only [filterExtraGce, applyStrategy, Bool.not_true] at h
    split at h
    · cases h
    · rename_i keep hk
      split at h
      · cases h
      · rename_i rest hr
        cases h
        obtain ⟨rfl, ih⟩ := filterExtraGce_true hr
        simp only [Bool.false_eq_true, ite_false] at hk
        split at hk
        · rename_i hi
          cases hk
          exact ⟨rfl, fun q hq => by
            rcases List.mem_cons.1 hq with rfl | hq
            · exact hi
            · exact ih q hq⟩
        · cases hk

/-- with `found = false` the head is kept and everything else must be droppable -/
theorem filterExtraGce_false {st : Strategy} {l l' : List Proposal}
    (h : filterExtraGce st l false = .ok l') :
    l' = l.take 1 ∧ ∀ p ∈ l.drop 1, ignore st p.byRef = true := by
  cases l with
  | nil => cases h; simp
  | cons p ps =>
    simp only [filterExtraGce, applyStrategy, Bool.not_false, ite_true] at h
    split at h
    · cases h
    · rename_i rest hr
      cases h
      obtain ⟨rfl, ih⟩ := filterExtraGce_true hr
      exact ⟨by simp, by simpa using ih⟩

theorem filterExtraGce_of_le_one {st : Strategy} {l : List Proposal} (h : l.length ≤ 1) :
    filterExtraGce st l false = .ok l := by
  match l, h with
  | [], _ => rfl
  | [p], _ => rfl

/-! ## `filterReinitIfOther` -/

theorem filterReinit_ok {st : Strategy} {b b' : Bundle} (h : filterReinitIfOther st b = .ok b') :
    b' = { b with reinits := b'.reinits } ∧ b'.reinits.Sublist b.reinits ∧
      (b'.reinits = [] ∨ b'.length = 1) ∧
      (∀ p ∈ b.reinits, ignore st p.byRef = false → p ∈ b'.reinits) := by
  unfold filterReinitIfOther at h
  simp only at h
  split at h
  · rename_i hc
    split at h
    · cases h
    · rename_i hv
      simp only [Bool.or_eq_true, not_or, List.any_eq_true, Bool.not_eq_true', not_exists,
        not_and, Bool.not_eq_false, beq_iff_eq] at hv
      have hst : st = .send := by cases st <;> simp_all
      subst hst
      split at h
      · cases h
        exact ⟨rfl, List.nil_sublist _, Or.inl rfl, fun p hp hi => by
          have := hv.1 p hp; rw [ignore_send] at hi; rw [hi] at this; cases this⟩
      · rename_i hgt
        cases h
        refine ⟨rfl, List.take_sublist _ _, Or.inr ?_, fun p hp hi => by
          have := hv.1 p hp; rw [ignore_send] at hi; rw [hi] at this; cases this⟩
        -- all proposals are re-inits; keeping one of them leaves exactly one proposal
        simp only [Bundle.length, Bundle.all, List.length_append, Bool.and_eq_true,
          Bool.not_eq_true', bne_iff_ne, ne_eq, List.isEmpty_eq_false_iff] at hgt hc ⊢
        have hne : b.reinits.length ≠ 0 := fun h0 => hc.1 (List.eq_nil_of_length_eq_zero h0)
        simp only [List.length_take]
        omega
  · rename_i hc
    cases h
    refine ⟨rfl, List.Sublist.refl _, ?_, fun p hp _ => hp⟩
    simp only [Bool.and_eq_true, Bool.not_eq_true', bne_iff_ne, ne_eq, not_and, Decidable.not_not,
      List.isEmpty_eq_false_iff] at hc
    by_cases he : b.reinits = []
    · exact Or.inl he
    · exact Or.inr (hc he)

theorem filterReinit_of_ok {st : Strategy} {b : Bundle} (h : b.reinits = [] ∨ b.length = 1) :
    filterReinitIfOther st b = .ok b := by
  unfold filterReinitIfOther
  simp only
  rw [if_neg]
  rcases h with h | h
  · simp [h]
  · simp [h]

theorem filterReinit_receive {b b' : Bundle} (h : filterReinitIfOther .receive b = .ok b') : b' = b := by
  obtain ⟨h1, _, _, h4⟩ := filterReinit_ok h
  unfold filterReinitIfOther at h
  simp only at h
  split at h
  · split at h
    · cases h
    · rename_i hv; simp at hv
  · cases h; rfl

/-! ## the pipeline: `applyFromMember = prepare >>= applyProposalChanges` -/

/-- the passes of `apply_proposals_from_member` before `apply_proposal_changes` -/
def prepare (st : Strategy) (committer : Nat) (b : Bundle) : Except Err Bundle := do
  let b ← filterProposers st b
  let updates ← retain st .invalidCommitSelfUpdate (fun p => p.sender != .member committer) b.updates
  let removes ← retain st .committerSelfRemoval (fun p => p.target != committer) b.removes
  let psks ← filterPsks st b.psks []
  let gces ← retain st .gce (·.ok) b.gces
  let gces ← filterExtraGce st gces false
  let reinits ← retain st .reinitVersion (·.ok) b.reinits
  let b ← filterReinitIfOther st { b with updates := updates, removes := removes, psks := psks, gces := gces, reinits := reinits }
  let extInits ← retain st .invalidProposalTypeForSender (fun _ => false) b.extInits
  pure { b with extInits := extInits }

theorem applyFromMember_eq (st : Strategy) (c : Nat) (b : Bundle) (t : Tree) :
    applyFromMember st c b t = (prepare st c b >>= fun b' => applyProposalChanges st b' t) := by
  simp only [applyFromMember, prepare, bind_assoc, pure_bind]

theorem applyFromMember_ok {st : Strategy} {c : Nat} {b : Bundle} {t : Tree} {out : EditOut}
    (h : applyFromMember st c b t = .ok out) :
    ∃ b', prepare st c b = .ok b' ∧ applyProposalChanges st b' t = .ok out := by
  rw [applyFromMember_eq] at h
  cases hp : prepare st c b with
  | error e => rw [hp] at h; cases h
  | ok b' => rw [hp] at h; exact ⟨b', rfl, h⟩

theorem applyFromMember_of {st : Strategy} {c : Nat} {b b' : Bundle} {t : Tree}
    (hp : prepare st c b = .ok b') :
    applyFromMember st c b t = applyProposalChanges st b' t := by
  rw [applyFromMember_eq, hp]; rfl

/-- `Except` bind inversion -/
theorem bind_ok {α β : Type} {x : Except Err α} {f : α → Except Err β} {y : β}
    (h : (x >>= f) = .ok y) : ∃ a, x = .ok a ∧ f a = .ok y := by
  cases x with
  | error e => cases h
  | ok a => exact ⟨a, rfl, h⟩

/-- the per-kind predicate of `filter_out_invalid_proposers` -/
abbrev senderOk (k : Kind) (p : Proposal) : Bool := canPropose p.sender k p.src

theorem filterProposers_ok {st : Strategy} {b b' : Bundle} (h : filterProposers st b = .ok b') :
    retain st .invalidProposalTypeForSender (senderOk .add) b.adds = .ok b'.adds ∧
    retain st .invalidProposalTypeForSender (senderOk .update) b.updates = .ok b'.updates ∧
    retain st .invalidProposalTypeForSender (senderOk .remove) b.removes = .ok b'.removes ∧
    retain st .invalidProposalTypeForSender (senderOk .psk) b.psks = .ok b'.psks ∧
    retain st .invalidProposalTypeForSender (senderOk .reinit) b.reinits = .ok b'.reinits ∧
    retain st .invalidProposalTypeForSender (senderOk .extInit) b.extInits = .ok b'.extInits ∧
    retain st .invalidProposalTypeForSender (senderOk .gce) b.gces = .ok b'.gces := by
  unfold filterProposers at h
  obtain ⟨a, ha, h⟩ := bind_ok h
  obtain ⟨u, hu, h⟩ := bind_ok h
  obtain ⟨r, hr, h⟩ := bind_ok h
  obtain ⟨k, hk, h⟩ := bind_ok h
  obtain ⟨ri, hri, h⟩ := bind_ok h
  obtain ⟨ei, hei, h⟩ := bind_ok h
  obtain ⟨g, hg, h⟩ := bind_ok h
  cases h
  exact ⟨ha, hu, hr, hk, hri, hei, hg⟩

theorem filterProposers_of {st : Strategy} {b : Bundle} {a u r k ri ei g : List Proposal}
    (ha : retain st .invalidProposalTypeForSender (senderOk .add) b.adds = .ok a)
    (hu : retain st .invalidProposalTypeForSender (senderOk .update) b.updates = .ok u)
    (hr : retain st .invalidProposalTypeForSender (senderOk .remove) b.removes = .ok r)
    (hk : retain st .invalidProposalTypeForSender (senderOk .psk) b.psks = .ok k)
    (hri : retain st .invalidProposalTypeForSender (senderOk .reinit) b.reinits = .ok ri)
    (hei : retain st .invalidProposalTypeForSender (senderOk .extInit) b.extInits = .ok ei)
    (hg : retain st .invalidProposalTypeForSender (senderOk .gce) b.gces = .ok g) :
    filterProposers st b = .ok { adds := a, updates := u, removes := r, psks := k, reinits := ri, extInits := ei, gces := g } := by
  unfold filterProposers
  unfold senderOk at ha hu hr hk hri hei hg
  simp only [ha, hu, hr, hk, hri, hei, hg]
  rfl

/-- inversion of `prepare`: the intermediate lists -/
theorem prepare_ok {st : Strategy} {c : Nat} {b b' : Bundle} (h : prepare st c b = .ok b') :
    ∃ (b1 : Bundle) (u r k g1 g ri : List Proposal) (b2 : Bundle) (ei : List Proposal),
      filterProposers st b = .ok b1 ∧
      retain st .invalidCommitSelfUpdate (fun p => p.sender != .member c) b1.updates = .ok u ∧
      retain st .committerSelfRemoval (fun p => p.target != c) b1.removes = .ok r ∧
      filterPsks st b1.psks [] = .ok k ∧
      retain st .gce (·.ok) b1.gces = .ok g1 ∧
      filterExtraGce st g1 false = .ok g ∧
      retain st .reinitVersion (·.ok) b1.reinits = .ok ri ∧
      filterReinitIfOther st { b1 with updates := u, removes := r, psks := k, gces := g, reinits := ri } = .ok b2 ∧
      retain st .invalidProposalTypeForSender (fun _ => false) b2.extInits = .ok ei ∧
      b' = { b2 with extInits := ei } := by
  unfold prepare at h
  obtain ⟨b1, h1, h⟩ := bind_ok h
  obtain ⟨u, hu, h⟩ := bind_ok h
  obtain ⟨r, hr, h⟩ := bind_ok h
  obtain ⟨k, hk, h⟩ := bind_ok h
  obtain ⟨g1, hg1, h⟩ := bind_ok h
  obtain ⟨g, hg, h⟩ := bind_ok h
  obtain ⟨ri, hri, h⟩ := bind_ok h
  obtain ⟨b2, hb2, h⟩ := bind_ok h
  obtain ⟨ei, hei, h⟩ := bind_ok h
  cases h
  exact ⟨b1, u, r, k, g1, g, ri, b2, ei, h1, hu, hr, hk, hg1, hg, hri, hb2, hei, rfl⟩

end MlsVerif.Proposals
