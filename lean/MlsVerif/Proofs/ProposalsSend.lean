/-
Helper lemmas for `Props/C10.lean`, part 3: `apply_tree_changes`, `apply_proposal_changes`, the predicate
`Clean` (what the passes before the tree let through), `NoRevert`, and the assembly: what the committer
keeps the strict mode accepts; the strict mode drops nothing; what the committer may not drop it keeps.
Core Lean only.
-/
import MlsVerif.Proofs.ProposalsTree

namespace MlsVerif.Proposals
open MlsVerif.Tree MlsVerif.TreeMath

theorem not_ok_error {ε α : Type} {x : Except ε α} (h : ∀ a, x ≠ .ok a) : ∃ e, x = .error e := by
  cases x with
  | error e => exact ⟨e, rfl⟩
  | ok a => exact absurd rfl (h a)

/-! ## `applyTreeChanges` -/

theorem applyTreeChanges_ok {st : Strategy} {b : Bundle} {t : Tree} {out : EditOut}
    (h : applyTreeChanges st b t = .ok out) :
    ∃ us as, retain st .newNode (·.ok) b.updates = .ok us ∧ retain st .newNode (·.ok) b.adds = .ok as ∧
      batchEditF (st == .send) { b with updates := us, adds := as } t = .ok out := by
  unfold applyTreeChanges at h
  obtain ⟨us, hu, h⟩ := bind_ok h
  obtain ⟨as, ha, h⟩ := bind_ok h
  exact ⟨us, as, hu, ha, h⟩

theorem applyTreeChanges_of {st : Strategy} {b : Bundle} {t : Tree} {us as : List Proposal}
    (hu : retain st .newNode (·.ok) b.updates = .ok us) (ha : retain st .newNode (·.ok) b.adds = .ok as) :
    applyTreeChanges st b t = batchEditF (st == .send) { b with updates := us, adds := as } t := by
  unfold applyTreeChanges
  simp only [hu, ha, bind, Except.bind]

/-- the revert-all branch is taken when `apply_tree_changes` runs in filtering mode -/
def treeChangesRevert (b : Bundle) (t : Tree) : Bool :=
  match retain .send .newNode (·.ok) b.updates with
  | .ok us => editReverts { b with updates := us } t
  | .error _ => false

/-- shape of the output bundle of `apply_tree_changes` -/
theorem applyTreeChanges_bundle {st : Strategy} {b : Bundle} {t : Tree} {out : EditOut}
    (h : applyTreeChanges st b t = .ok out) :
    out.bundle.psks = b.psks ∧ out.bundle.reinits = b.reinits ∧ out.bundle.extInits = b.extInits ∧
      out.bundle.gces = b.gces ∧ out.bundle.removes.Sublist b.removes ∧
      out.bundle.updates.Sublist b.updates ∧ out.bundle.adds.Sublist b.adds ∧
      (∀ p ∈ out.bundle.updates, p.ok = true) ∧ (∀ p ∈ out.bundle.adds, p.ok = true) := by
  obtain ⟨us, as, hu, ha, hb⟩ := applyTreeChanges_ok h
  obtain ⟨removes, t1, updates, t2, adds, added, t3, hr, hu', ha', rfl⟩ := batchEditF_ok hb
  refine ⟨rfl, rfl, rfl, rfl, applyRemovesF_sublist hr,
    (applyUpdatesF_sublist hu').trans (retain_sublist hu),
    (applyAddsF_sublist ha').trans (retain_sublist ha), fun p hp => ?_, fun p hp => ?_⟩
  · exact (retain_mem hu ((applyUpdatesF_sublist hu').subset hp)).2
  · exact (retain_mem ha ((applyAddsF_sublist ha').subset hp)).2

theorem applyTreeChanges_stable {b : Bundle} {t : Tree} {out : EditOut}
    (h : applyTreeChanges .send b t = .ok out) :
    applyTreeChanges .receive out.bundle t = .ok out := by
  obtain ⟨_, _, _, _, _, _, _, hou, hoa⟩ := applyTreeChanges_bundle h
  obtain ⟨us, as, hu, ha, hb⟩ := applyTreeChanges_ok h
  have hb' : batchEditF true { b with updates := us, adds := as } t = .ok out := hb
  have := batchEditF_stable hb'
  rw [applyTreeChanges_of (retain_of_all hou) (retain_of_all hoa)]
  exact this

/-- the strict mode drops nothing -/
theorem applyTreeChanges_receive {b : Bundle} {t : Tree} {out : EditOut}
    (h : applyTreeChanges .receive b t = .ok out) : out.bundle = b := by
  obtain ⟨us, as, hu, ha, hb⟩ := applyTreeChanges_ok h
  obtain ⟨removes, t1, updates, t2, adds, added, t3, hr, hu', ha', rfl⟩ := batchEditF_ok hb
  have e1 : removes = b.removes := applyRemovesF_false hr
  have e2 : updates = us := applyUpdatesF_false hu'
  have e3 : adds = as := applyAddsF_false ha'
  have e4 := (retain_receive hu).1
  have e5 := (retain_receive ha).1
  subst e1 e2 e3 e4 e5
  rfl

/-! ## `applyProposalChanges` -/

theorem applyProposalChanges_nil {st : Strategy} {b : Bundle} {t : Tree} (hg : b.gces = []) :
    applyProposalChanges st b t = applyTreeChanges st b t := by
  unfold applyProposalChanges
  rw [hg]

theorem applyProposalChanges_cons {st : Strategy} {b : Bundle} {t : Tree} {g : Proposal}
    {gs : List Proposal} (hg : b.gces = g :: gs) :
    applyProposalChanges st b t =
      match applyTreeChanges st b t with
      | .error e => .error e
      | .ok out =>
        if g.capsOk then .ok out
        else if ignore st g.byRef then applyTreeChanges st { b with gces := [] } t
        else .error .capabilities := by
  unfold applyProposalChanges
  rw [hg]
  rfl

/-- shape of the output bundle of `apply_proposal_changes` -/
theorem applyProposalChanges_bundle {st : Strategy} {b : Bundle} {t : Tree} {out : EditOut}
    (h : applyProposalChanges st b t = .ok out) :
    out.bundle.psks = b.psks ∧ out.bundle.reinits = b.reinits ∧ out.bundle.extInits = b.extInits ∧
      ((out.bundle.gces = b.gces ∧ ∀ g ∈ b.gces.head?, g.capsOk = true) ∨
        (out.bundle.gces = [] ∧ ∃ g ∈ b.gces.head?, g.capsOk = false ∧ ignore st g.byRef = true)) ∧
      out.bundle.removes.Sublist b.removes ∧
      out.bundle.updates.Sublist b.updates ∧ out.bundle.adds.Sublist b.adds ∧
      (∀ p ∈ out.bundle.updates, p.ok = true) ∧ (∀ p ∈ out.bundle.adds, p.ok = true) := by
  cases hg : b.gces with
  | nil =>
    rw [applyProposalChanges_nil hg] at h
    obtain ⟨h1, h2, h3, h4, h5, h6, h7, h8, h9⟩ := applyTreeChanges_bundle h
    exact ⟨h1, h2, h3, Or.inl ⟨by rw [h4, hg], by simp⟩, h5, h6, h7, h8, h9⟩
  | cons g gs =>
    rw [applyProposalChanges_cons hg] at h
    split at h
    · cases h
    · rename_i out1 h1
      split at h
      · rename_i hc
        cases h
        obtain ⟨h1, h2, h3, h4, h5, h6, h7, h8, h9⟩ := applyTreeChanges_bundle h1
        exact ⟨h1, h2, h3, Or.inl ⟨by rw [h4, hg], by simpa using hc⟩, h5, h6, h7, h8, h9⟩
      · rename_i hc
        split at h
        · rename_i hi
          obtain ⟨h1, h2, h3, h4, h5, h6, h7, h8, h9⟩ := applyTreeChanges_bundle h
          exact ⟨h1, h2, h3, Or.inr ⟨h4, g, by simp, by simpa using hc, hi⟩, h5, h6, h7, h8, h9⟩
        · cases h

theorem applyProposalChanges_stable {b : Bundle} {t : Tree} {out : EditOut}
    (h : applyProposalChanges .send b t = .ok out) :
    applyProposalChanges .receive out.bundle t = .ok out := by
  cases hg : b.gces with
  | nil =>
    rw [applyProposalChanges_nil hg] at h
    have hg' : out.bundle.gces = [] := by rw [(applyTreeChanges_bundle h).2.2.2.1, hg]
    rw [applyProposalChanges_nil hg']
    exact applyTreeChanges_stable h
  | cons g gs =>
    rw [applyProposalChanges_cons hg] at h
    split at h
    · cases h
    · rename_i out1 h1
      split at h
      · rename_i hc
        cases h
        have hg' : out.bundle.gces = g :: gs := by rw [(applyTreeChanges_bundle h1).2.2.2.1, hg]
        rw [applyProposalChanges_cons hg', applyTreeChanges_stable h1]
        simp only [hc, ite_true]
      · split at h
        · have hg' : out.bundle.gces = [] := (applyTreeChanges_bundle h).2.2.2.1
          rw [applyProposalChanges_nil hg']
          exact applyTreeChanges_stable h
        · cases h

theorem applyProposalChanges_receive {b : Bundle} {t : Tree} {out : EditOut}
    (h : applyProposalChanges .receive b t = .ok out) : out.bundle = b := by
  cases hg : b.gces with
  | nil =>
    rw [applyProposalChanges_nil hg] at h
    exact applyTreeChanges_receive h
  | cons g gs =>
    rw [applyProposalChanges_cons hg] at h
    split at h
    · cases h
    · rename_i out1 h1
      split at h
      · cases h; exact applyTreeChanges_receive h1
      · simp [ignore] at h

/-! ## `Clean`: what the passes before the tree let through -/

/-- the bundles that `prepare` returns (in either mode), and that the strict mode returns unchanged -/
structure Clean (c : Nat) (B : Bundle) : Prop where
  adds : ∀ p ∈ B.adds, senderOk .add p = true
  updates : ∀ p ∈ B.updates, senderOk .update p = true ∧ (p.sender != .member c) = true
  removes : ∀ p ∈ B.removes, senderOk .remove p = true ∧ (p.target != c) = true
  psks : ∀ p ∈ B.psks, senderOk .psk p = true ∧ p.ok = true
  psksNodup : (B.psks.map (·.pskId)).Nodup
  gces : ∀ p ∈ B.gces, senderOk .gce p = true ∧ p.ok = true
  gcesOne : B.gces.length ≤ 1
  reinits : ∀ p ∈ B.reinits, senderOk .reinit p = true ∧ p.ok = true
  reinitAlone : B.reinits = [] ∨ B.length = 1
  extInits : B.extInits = []

theorem prepare_of {st : Strategy} {c : Nat} {b b1 b2 : Bundle} {u r k g1 g ri ei : List Proposal}
    (h1 : filterProposers st b = .ok b1)
    (hu : retain st .invalidCommitSelfUpdate (fun p => p.sender != .member c) b1.updates = .ok u)
    (hr : retain st .committerSelfRemoval (fun p => p.target != c) b1.removes = .ok r)
    (hk : filterPsks st b1.psks [] = .ok k)
    (hg1 : retain st .gce (·.ok) b1.gces = .ok g1)
    (hg : filterExtraGce st g1 false = .ok g)
    (hri : retain st .reinitVersion (·.ok) b1.reinits = .ok ri)
    (hb2 : filterReinitIfOther st { b1 with updates := u, removes := r, psks := k, gces := g, reinits := ri } = .ok b2)
    (hei : retain st .invalidProposalTypeForSender (fun _ => false) b2.extInits = .ok ei) :
    prepare st c b = .ok { b2 with extInits := ei } := by
  unfold prepare
  simp only [h1, hu, hr, hk, hg1, hg, hri, hb2, hei, bind, Except.bind, pure, Except.pure]

theorem Clean.prepare {c : Nat} {B : Bundle} (h : Clean c B) : prepare .receive c B = .ok B := by
  have h1 : filterProposers .receive B = .ok B :=
    filterProposers_of (retain_of_all h.adds) (retain_of_all fun p hp => (h.updates p hp).1)
      (retain_of_all fun p hp => (h.removes p hp).1) (retain_of_all fun p hp => (h.psks p hp).1)
      (retain_of_all fun p hp => (h.reinits p hp).1)
      (retain_of_all fun p hp => by rw [h.extInits] at hp; cases hp)
      (retain_of_all fun p hp => (h.gces p hp).1)
  have hei : retain .receive .invalidProposalTypeForSender (fun _ => false) B.extInits = .ok B.extInits :=
    retain_of_all fun p hp => by rw [h.extInits] at hp; cases hp
  exact prepare_of h1 (retain_of_all fun p hp => (h.updates p hp).2)
    (retain_of_all fun p hp => (h.removes p hp).2)
    (filterPsks_receive_of (fun p hp => ⟨(h.psks p hp).2, by simp⟩) h.psksNodup)
    (retain_of_all fun p hp => (h.gces p hp).2) (filterExtraGce_of_le_one h.gcesOne)
    (retain_of_all fun p hp => (h.reinits p hp).2) (filterReinit_of_ok h.reinitAlone) hei

theorem retain_false_nil {st : Strategy} {e : Err} {l l' : List Proposal}
    (h : retain st e (fun _ => false) l = .ok l') : l' = [] := by
  rw [(retain_ok h).1]; simp

/-- field-wise description of what `prepare` returns -/
theorem prepare_fields {st : Strategy} {c : Nat} {b b' : Bundle} (h : prepare st c b = .ok b') :
    ∃ (a u1 u r1 r k1 k g0 g1 g ri0 ri : List Proposal),
      retain st .invalidProposalTypeForSender (senderOk .add) b.adds = .ok a ∧
      retain st .invalidProposalTypeForSender (senderOk .update) b.updates = .ok u1 ∧
      retain st .invalidCommitSelfUpdate (fun p => p.sender != .member c) u1 = .ok u ∧
      retain st .invalidProposalTypeForSender (senderOk .remove) b.removes = .ok r1 ∧
      retain st .committerSelfRemoval (fun p => p.target != c) r1 = .ok r ∧
      retain st .invalidProposalTypeForSender (senderOk .psk) b.psks = .ok k1 ∧
      filterPsks st k1 [] = .ok k ∧
      retain st .invalidProposalTypeForSender (senderOk .gce) b.gces = .ok g0 ∧
      retain st .gce (·.ok) g0 = .ok g1 ∧
      filterExtraGce st g1 false = .ok g ∧
      retain st .invalidProposalTypeForSender (senderOk .reinit) b.reinits = .ok ri0 ∧
      retain st .reinitVersion (·.ok) ri0 = .ok ri ∧
      b'.adds = a ∧ b'.updates = u ∧ b'.removes = r ∧ b'.psks = k ∧ b'.gces = g ∧
      b'.reinits.Sublist ri ∧ (b'.reinits = [] ∨ b'.length = 1) ∧
      (∀ p ∈ ri, ignore st p.byRef = false → p ∈ b'.reinits) ∧
      b'.extInits = [] ∧ (∀ p ∈ b.extInits, ignore st p.byRef = true) ∧
      (st = .receive → b'.reinits = ri) := by
  obtain ⟨b1, u, r, k, g1, g, ri, b2, ei, h1, hu, hr, hk, hg1, hg, hri, hb2, hei, rfl⟩ := prepare_ok h
  obtain ⟨ha, hu1, hr1, hk1, hri1, hei1, hg0⟩ := filterProposers_ok h1
  obtain ⟨e2, hsub, halone, hkeep⟩ := filterReinit_ok hb2
  have hei0 := retain_false_nil hei
  subst hei0
  have f1 : b2.adds = b1.adds := by rw [e2]
  have f2 : b2.updates = u := by rw [e2]
  have f3 : b2.removes = r := by rw [e2]
  have f4 : b2.psks = k := by rw [e2]
  have f5 : b2.gces = g := by rw [e2]
  have f6 : b2.extInits = b1.extInits := by rw [e2]
  refine ⟨b1.adds, b1.updates, u, b1.removes, r, b1.psks, k, b1.gces, g1, g, b1.reinits, ri,
    ha, hu1, hu, hr1, hr, hk1, hk, hg0, hg1, hg, hri1, hri, f1, f2, f3, f4, f5, hsub, ?_, hkeep,
    rfl, ?_, ?_⟩
  · -- dropping the external inits does not disturb "re-init alone"
    rcases halone with h0 | h1'
    · exact Or.inl h0
    · by_cases hre : b2.reinits = []
      · exact Or.inl hre
      · refine Or.inr ?_
        have hpos : b2.reinits.length ≠ 0 := fun h0 => hre (List.eq_nil_of_length_eq_zero h0)
        simp only [Bundle.length, Bundle.all, List.length_append, List.length_nil] at h1' ⊢
        omega
  · intro p hp
    cases hi : ignore st p.byRef
    · have hp1 := (retain_keeps hei1 hp hi).1
      rw [← f6] at hp1
      have := (retain_keeps hei hp1 hi).2
      cases this
    · rfl
  · rintro rfl
    exact congrArg Bundle.reinits (filterReinit_receive hb2)

theorem prepare_clean {st : Strategy} {c : Nat} {b b' : Bundle} (h : prepare st c b = .ok b') :
    Clean c b' := by
  obtain ⟨a, u1, u, r1, r, k1, k, g0, g1, g, ri0, ri, ha, hu1, hu, hr1, hr, hk1, hk, hg0, hg1, hg,
    hri0, hri, fa, fu, fr, fk, fg, fri, halone, _, fei, _, _⟩ := prepare_fields h
  refine ⟨fun p hp => ?_, fun p hp => ?_, fun p hp => ?_, fun p hp => ?_, ?_, fun p hp => ?_, ?_,
    fun p hp => ?_, halone, fei⟩
  · rw [fa] at hp; exact (retain_mem ha hp).2
  · rw [fu] at hp
    have := retain_mem hu hp
    exact ⟨(retain_mem hu1 this.1).2, this.2⟩
  · rw [fr] at hp
    have := retain_mem hr hp
    exact ⟨(retain_mem hr1 this.1).2, this.2⟩
  · rw [fk] at hp
    exact ⟨(retain_mem hk1 ((filterPsks_sublist hk).subset hp)).2, ((filterPsks_out hk).1 p hp).1⟩
  · rw [fk]; exact (filterPsks_out hk).2
  · rw [fg] at hp
    have hp1 : p ∈ g1 := by
      rw [(filterExtraGce_false hg).1] at hp; exact (List.take_sublist _ _).subset hp
    have := retain_mem hg1 hp1
    exact ⟨(retain_mem hg0 this.1).2, this.2⟩
  · rw [fg, (filterExtraGce_false hg).1, List.length_take]; omega
  · have := retain_mem hri (fri.subset hp)
    exact ⟨(retain_mem hri0 this.1).2, this.2⟩

/-- `Clean` survives what `apply_proposal_changes` does to the bundle -/
theorem Clean.mono {c : Nat} {b' B : Bundle} (h : Clean c b')
    (ha : B.adds.Sublist b'.adds) (hu : B.updates.Sublist b'.updates) (hr : B.removes.Sublist b'.removes)
    (hk : B.psks = b'.psks) (hg : B.gces = b'.gces ∨ B.gces = []) (hri : B.reinits = b'.reinits)
    (hei : B.extInits = b'.extInits) : Clean c B := by
  have hgsub : B.gces.Sublist b'.gces := by
    rcases hg with hg | hg <;> rw [hg]
    · exact List.Sublist.refl _
    · exact List.nil_sublist _
  refine ⟨fun p hp => h.adds p (ha.subset hp), fun p hp => h.updates p (hu.subset hp),
    fun p hp => h.removes p (hr.subset hp), fun p hp => h.psks p (hk ▸ hp), hk ▸ h.psksNodup,
    fun p hp => h.gces p (hgsub.subset hp), Nat.le_trans hgsub.length_le h.gcesOne,
    fun p hp => h.reinits p (hri ▸ hp), ?_, hei ▸ h.extInits⟩
  rcases h.reinitAlone with h0 | h1
  · exact Or.inl (hri ▸ h0)
  · by_cases hre : b'.reinits = []
    · exact Or.inl (hri ▸ hre)
    · refine Or.inr ?_
      have hpos : b'.reinits.length ≠ 0 := fun h0 => hre (List.eq_nil_of_length_eq_zero h0)
      have l1 := ha.length_le
      have l2 := hu.length_le
      have l3 := hr.length_le
      have l4 := hgsub.length_le
      simp only [Bundle.length, Bundle.all, List.length_append, hk, hri, hei] at h1 ⊢
      omega

/-! ## `NoRevert` and the assembly -/

/-- the committer's run on `(c, b, t)` does not take the revert-all branch of `batch_edit`
(no longer a hypothesis of anything since repair F16; kept to describe runs, see `Props/C10`) -/
def noRevert (c : Nat) (b : Bundle) (t : Tree) : Bool :=
  match prepare .send c b with
  | .ok b' => !treeChangesRevert b' t
  | .error _ => true

def NoRevert (c : Nat) (b : Bundle) (t : Tree) : Prop := noRevert c b t = true

instance (c : Nat) (b : Bundle) (t : Tree) : Decidable (NoRevert c b t) :=
  inferInstanceAs (Decidable (noRevert c b t = true))

/-- the output bundle of a successful run (either mode) is `Clean` -/
theorem out_clean {st : Strategy} {c : Nat} {b : Bundle} {t : Tree} {out : EditOut}
    (h : applyFromMember st c b t = .ok out) : Clean c out.bundle := by
  obtain ⟨b', hp, hc⟩ := applyFromMember_ok h
  obtain ⟨h1, h2, h3, h4, h5, h6, h7, _, _⟩ := applyProposalChanges_bundle hc
  refine (prepare_clean hp).mono h7 h6 h5 h1 ?_ h2 h3
  rcases h4 with h4 | h4
  · exact Or.inl h4.1
  · exact Or.inr h4.1

theorem send_accepted_core {c : Nat} {b : Bundle} {t : Tree} {out : EditOut}
    (h : applyFromMember .send c b t = .ok out) :
    applyFromMember .receive c out.bundle t = .ok out := by
  obtain ⟨b', hp, hc⟩ := applyFromMember_ok h
  rw [applyFromMember_of (out_clean h).prepare]
  exact applyProposalChanges_stable hc

/-- the strict mode changes nothing in the bundle -/
theorem prepare_receive {c : Nat} {b b' : Bundle} (h : prepare .receive c b = .ok b') : b' = b := by
  obtain ⟨a, u1, u, r1, r, k1, k, g0, g1, g, ri0, ri, ha, hu1, hu, hr1, hr, hk1, hk, hg0, hg1, hg,
    hri0, hri, fa, fu, fr, fk, fg, _, _, _, fei, hei, fri⟩ := prepare_fields h
  have e1 := (retain_receive ha).1
  have e2 := (retain_receive hu1).1
  have e3 := (retain_receive hu).1
  have e4 := (retain_receive hr1).1
  have e5 := (retain_receive hr).1
  have e6 := (retain_receive hk1).1
  have e7 := filterPsks_receive hk
  have e8 := (retain_receive hg0).1
  have e9 := (retain_receive hg1).1
  have e10 := (retain_receive hri0).1
  have e11 := (retain_receive hri).1
  have e12 : g = g1 := by
    obtain ⟨e, hd⟩ := filterExtraGce_false hg
    have hd' : g1.drop 1 = [] := by
      cases hd1 : g1.drop 1 with
      | nil => rfl
      | cons x xs =>
        have := hd x (by rw [hd1]; exact List.mem_cons_self)
        cases this
    rw [e]
    conv => rhs; rw [← List.take_append_drop 1 g1, hd', List.append_nil]
  have e13 : b.extInits = [] := by
    cases he : b.extInits with
    | nil => rfl
    | cons x xs =>
      have := hei x (by rw [he]; exact List.mem_cons_self)
      cases this
  have fri' := fri rfl
  subst e1 e2 e3 e4 e5 e6 e7 e8 e9 e10 e11 e12
  cases b
  cases b'
  simp_all

theorem receive_bundle {c : Nat} {b : Bundle} {t : Tree} {out : EditOut}
    (h : applyFromMember .receive c b t = .ok out) : out.bundle = b := by
  obtain ⟨b', hp, hc⟩ := applyFromMember_ok h
  rw [applyProposalChanges_receive hc, prepare_receive hp]

/-! ## per-type sublists -/

theorem out_sublists {st : Strategy} {c : Nat} {b : Bundle} {t : Tree} {out : EditOut}
    (h : applyFromMember st c b t = .ok out) :
    out.bundle.adds.Sublist b.adds ∧ out.bundle.updates.Sublist b.updates ∧
      out.bundle.removes.Sublist b.removes ∧ out.bundle.psks.Sublist b.psks ∧
      out.bundle.reinits.Sublist b.reinits ∧ out.bundle.extInits.Sublist b.extInits ∧
      out.bundle.gces.Sublist b.gces := by
  obtain ⟨b', hp, hc⟩ := applyFromMember_ok h
  obtain ⟨h1, h2, h3, h4, h5, h6, h7, _, _⟩ := applyProposalChanges_bundle hc
  obtain ⟨a, u1, u, r1, r, k1, k, g0, g1, g, ri0, ri, ha, hu1, hu, hr1, hr, hk1, hk, hg0, hg1, hg,
    hri0, hri, fa, fu, fr, fk, fg, fri, _, _, fei, _, _⟩ := prepare_fields hp
  refine ⟨?_, ?_, ?_, ?_, ?_, ?_, ?_⟩
  · exact h7.trans (fa ▸ retain_sublist ha)
  · exact h6.trans (fu ▸ (retain_sublist hu).trans (retain_sublist hu1))
  · exact h5.trans (fr ▸ (retain_sublist hr).trans (retain_sublist hr1))
  · rw [h1, fk]; exact (filterPsks_sublist hk).trans (retain_sublist hk1)
  · rw [h2]; exact fri.trans ((retain_sublist hri).trans (retain_sublist hri0))
  · rw [h3, fei]; exact List.nil_sublist _
  · have : g.Sublist b.gces := by
      rw [(filterExtraGce_false hg).1]
      exact (List.take_sublist _ _).trans ((retain_sublist hg1).trans (retain_sublist hg0))
    rcases h4 with h4 | h4
    · rw [h4.1, fg]; exact this
    · rw [h4.1]; exact List.nil_sublist _

end MlsVerif.Proposals
