import MlsVerif.Proofs.GroupSecrecy
/-
Removed members that were *behind* when they were removed (ghosts).  Under global freshness of new stamps
(`FreshAll`: a key introduced by a commit is none of the keys any followed party holds), every stamp a followed
party holds occurs in the current tree at most on that party's own path (`OnPath`); hence removing its leaf
takes all its keys out of the tree, whatever epoch the party is in.
-/
namespace MlsVerif.Group
open MlsVerif.Tree MlsVerif.TreeMath

/-! ### where a node of the new tree comes from, position-preserving -/

theorem node_source_batchEdit {t t1 : Tree} {e : Edits} {added : List Nat} (hw : WF t)
    (hb : batchEdit t e = .ok (added, t1)) {i : Nat} {N : Node} (hg : get t1 i = some N) :
    (∃ N0, get t i = some N0 ∧ N0.key = N.key) ∨ N.key ∈ newLeafStamps e := by
  have hes := batchEdit_editSpec hw.1.1 hb
  cases N with
  | parent P' =>
    obtain ⟨P, hP, hkey, _⟩ := hes.parents _ _ hg
    exact Or.inl ⟨_, hP, hkey.symm⟩
  | leaf L =>
    rcases batchEdit_leaf_source hw.1.1 hw.2.2.2 hb hg with h | h
    · exact Or.inl ⟨_, h, rfl⟩
    · exact Or.inr (List.mem_map.2 ⟨L, h, rfl⟩)

theorem node_source_encap {t1 : Tree} {sender fresh : Nat} {nl : Leaf} {excl : List Nat} {o : EncapOut}
    (hL : ∃ L, get t1 (2 * sender) = some (.leaf L)) (he : encap t1 sender nl excl fresh = .ok o)
    {i : Nat} {N : Node} (hg : get o.tree i = some N) :
    get t1 i = some N ∨ N.key = nl.hpke ∨ fresh ≤ N.key := by
  have hself := self_lt_of_leaf hL
  obtain ⟨hpu, _, _, hkk, _⟩ := encap_spec he hself
  obtain ⟨kk, hk1, hs, _⟩ := Upd.ctx hL
  rcases Upd.key_class hpu hk1 hs hg with ⟨_, rfl⟩ | ⟨j, k', _, _, hq, rfl⟩ | ⟨_, h3, _⟩
  · exact Or.inr (Or.inl rfl)
  · exact Or.inr (Or.inr (hkk j k' hq).1)
  · exact Or.inl h3

/-! ### a party's stamps sit on its own path -/

/-- node `i` is the leaf of `r` or a parent above it -/
def onPathOf (r i : Nat) : Prop := i = 2 * r ∨ (i % 2 = 1 ∧ below r i)

/-- every stamp in the slots of `p` occurs in `t` only on the path of `p.self` -/
def HoldsOnPath (t : Tree) (p : Priv) : Prop :=
  ∀ st, Key.node st ∈ keysOf p → ∀ i N, get t i = some N → N.key = st → onPathOf p.self i

def OnPath (w : GroupWorld) : Prop := ∀ m ∈ w.members, HoldsOnPath w.tree m.priv

theorem holdsOnPath_of_keyInv {t : Tree} {p : Priv} (hu : UniqInv t) (hk : KeyInv t p) : HoldsOnPath t p := by
  intro st hst i N hg hN
  obtain ⟨j, hj⟩ := mem_keysOf hst
  rw [(keyInv_iff _ _).1 hk j] at hj
  obtain ⟨n, N0, hn, hN0, hpos⟩ := Join.expected_stamp_node hj
  have : i = n := Join.uniq_key hu hg hn (by rw [hN, hN0])
  subst this
  exact hpos

/-- global freshness: the commit introduces no key that any followed party (current or ghost) holds -/
def FreshAll (w : GroupWorld) (e : Edits) (newLeaf : Option Leaf) (fresh : Nat) : Prop :=
  ∀ m ∈ w.members, NoReintro (keysOf m.priv) e newLeaf fresh

instance (w : GroupWorld) (e : Edits) (newLeaf : Option Leaf) (fresh : Nat) :
    Decidable (FreshAll w e newLeaf fresh) := by
  unfold FreshAll; infer_instance

section Commit
variable {w w' : GroupWorld} {tr : Transcript} {sender : Nat} {e : Edits} {newLeaf : Option Leaf}
  {fresh : Nat} {psk : Sec} {ctx : Nat} {deliverTo : List Nat}

/-- a node of the new tree whose key is a stamp of `K` was there before, with the same key -/
theorem node_source_commit (hi : GInv w) {K : List Key} (hnr : NoReintro K e newLeaf fresh)
    (h : w.commit sender e newLeaf fresh psk ctx deliverTo = .ok (w', tr))
    {i : Nat} {N : Node} (hg : get w'.tree i = some N) (hk : Key.node N.key ∈ K) :
    ∃ added t1 N0, batchEdit w.tree e = .ok (added, t1) ∧ get t1 i = some N ∧
      get w.tree i = some N0 ∧ N0.key = N.key := by
  obtain ⟨cm, added, t1, hpre, h⟩ := commit_inv h
  have h1 := hnr _ hk
  simp only [noReintro1] at h1
  have key : get t1 i = some N → ∃ N0, get w.tree i = some N0 ∧ N0.key = N.key := by
    intro hg1
    rcases node_source_batchEdit hi.good.1 hpre.edit hg1 with h2 | h2
    · exact h2
    · exact absurd h2 h1.1
  cases newLeaf with
  | some nl =>
    obtain ⟨o, ms, js, hc⟩ := commitPath_inv h
    rw [hc.world] at hg
    rcases node_source_encap hpre.leaf hc.enc hg with h2 | h2 | h2
    · obtain ⟨N0, h3, h4⟩ := key h2
      exact ⟨added, t1, N0, hpre.edit, h2, h3, h4⟩
    · exact absurd h2 h1.2.1
    · have := h1.2.2; omega
  | none =>
    obtain ⟨js, hc⟩ := commitNoPath_inv h
    rw [hc.world] at hg
    obtain ⟨N0, h3, h4⟩ := key hg
    exact ⟨added, t1, N0, hpre.edit, hg, h3, h4⟩

theorem holdsOnPath_commit (hi : GInv w) {p : Priv} (hp : HoldsOnPath w.tree p)
    (hnr : NoReintro (keysOf p) e newLeaf fresh)
    (h : w.commit sender e newLeaf fresh psk ctx deliverTo = .ok (w', tr)) : HoldsOnPath w'.tree p := by
  intro st hst i N hg hN
  subst hN
  obtain ⟨_, _, N0, _, _, h3, h4⟩ := node_source_commit hi hnr h hg hst
  exact hp _ hst i N0 h3 h4

theorem onPath_commit (hi : GInv w) (hok : CommitOk w sender e newLeaf fresh) (ho : OnPath w)
    (hf : FreshAll w e newLeaf fresh)
    (h : w.commit sender e newLeaf fresh psk ctx deliverTo = .ok (w', tr)) : OnPath w' := by
  have hi' := ginv_commit hi hok h
  obtain ⟨he, _, _, _, _, _, _, _, hall⟩ := commit_member_cases hi h
  intro m' hm'
  rcases hall m' hm' with ⟨hm, _⟩ | ⟨hcur, _⟩
  · exact holdsOnPath_commit hi (ho m' hm) (hf m' hm) h
  · obtain ⟨_, hk⟩ := hi'.good.2 _ (current_priv_mem hm' (by rw [hcur, he]))
    exact holdsOnPath_of_keyInv hi'.good.1.2.1 hk

/-- removing the leaf of a party takes all its stamps out of the tree — whatever epoch the party is in -/
theorem disj_removed_any (hi : GInv w) {rm : Member}
    (hp : HoldsOnPath w.tree rm.priv) (hrem : rm.priv.self ∈ e.removes)
    (hnr : NoReintro (keysOf rm.priv) e newLeaf fresh)
    (h : w.commit sender e newLeaf fresh psk ctx deliverTo = .ok (w', tr)) :
    Disj (keysOf rm.priv) w'.tree := by
  intro st hst hm
  obtain ⟨i, N, hg, rfl⟩ := mem_keyStamps.1 hm
  obtain ⟨added, t1, N0, hb, hg1, h3, h4⟩ := node_source_commit hi hnr h hg hst
  have hpos := hp _ hst i N0 h3 h4
  have hw := hi.good.1
  have hes := batchEdit_editSpec hw.1.1 hb
  have h1 := hnr _ hst
  simp only [noReintro1] at h1
  rcases hpos with rfl | ⟨hodd, hbel⟩
  · by_cases hra : rm.priv.self ∈ added
    · obtain ⟨jj, hjj, heq⟩ := List.getElem_of_mem hra
      obtain ⟨l, hl1, hl2⟩ := hes.added_leaf jj rm.priv.self (by rw [List.getElem?_eq_getElem hjj, heq])
      rw [hg1] at hl2
      simp only [Option.some.injEq] at hl2
      subst hl2
      exact h1.1 (List.mem_map.2 ⟨l, List.mem_append_left _ (List.mem_of_getElem? hl1), rfl⟩)
    · have := hes.removed_leaf _ hrem hra
      rw [hg1] at this; cases this
  · have := hes.touched_path_blank _ (List.mem_append_left _ hrem) i hodd hbel
    rw [hg1] at this; cases this

end Commit

/-! ### external commits -/

/-- global freshness for an external commit -/
def FreshAllExt (w : GroupWorld) (L0 nl : Leaf) (fresh : Nat) : Prop :=
  ∀ m ∈ w.members, NoReintroExt (keysOf m.priv) L0 nl fresh

instance (w : GroupWorld) (L0 nl : Leaf) (fresh : Nat) : Decidable (FreshAllExt w L0 nl fresh) := by
  unfold FreshAllExt; infer_instance

section ExtCommit
variable {w w' : GroupWorld} {tr : Transcript} {gi : Nat} {remove : Option Nat} {L0 nl : Leaf}
  {fresh : Nat} {psk : Sec} {ctx : Nat} {deliverTo : List Nat}

/-- a node of the tree after an external commit whose key is a stamp of `K` was there before (and after the
Remove), with the same key -/
theorem node_source_ext (hi : GInv w) (hok : ExtOk w remove L0 nl fresh) {K : List Key}
    (hnr : NoReintroExt K L0 nl fresh)
    (h : w.externalCommit gi remove L0 nl fresh psk ctx deliverTo = .ok (w', tr))
    {i : Nat} {N : Node} (hg : get w'.tree i = some N) (hk : Key.node N.key ∈ K) :
    ∃ a t1 N1 N0, batchEdit w.tree (extEdits remove) = .ok (a, t1) ∧ get t1 i = some N1 ∧ N1.key = N.key ∧
      get w.tree i = some N0 ∧ N0.key = N.key := by
  obtain ⟨gm, t1, self, t1x, o, ms, hc⟩ := externalCommit_inv h
  obtain ⟨a, hb⟩ := hc.edit
  have hx := ext_edit hi hok hc
  have h1 := hnr _ hk
  simp only [noReintroExt1] at h1
  rw [hc.world] at hg
  rcases node_source_encap ⟨L0, hx.leaf⟩ hc.enc hg with h2 | h2 | h2
  · rcases node_source_batchEdit hx.wf1 hx.second h2 with ⟨N1, h3, h4⟩ | h3
    · rcases node_source_batchEdit hi.good.1 hb h3 with ⟨N0, h5, h6⟩ | h5
      · exact ⟨a, t1, N1, N0, hb, h3, h4, h5, by rw [h6, h4]⟩
      · simp [newLeafStamps, extEdits] at h5
    · simp only [newLeafStamps, List.map_nil, List.append_nil, List.map_cons, List.mem_singleton] at h3
      exact absurd h3 h1.1
  · exact absurd h2 h1.2.1
  · have := h1.2.2; omega

theorem holdsOnPath_ext (hi : GInv w) (hok : ExtOk w remove L0 nl fresh) {p : Priv}
    (hp : HoldsOnPath w.tree p) (hnr : NoReintroExt (keysOf p) L0 nl fresh)
    (h : w.externalCommit gi remove L0 nl fresh psk ctx deliverTo = .ok (w', tr)) :
    HoldsOnPath w'.tree p := by
  intro st hst i N hg hN
  subst hN
  obtain ⟨_, _, _, N0, _, _, _, h3, h4⟩ := node_source_ext hi hok hnr h hg hst
  exact hp _ hst i N0 h3 h4

theorem onPath_ext (hi : GInv w) (hok : ExtOk w remove L0 nl fresh) (ho : OnPath w)
    (hf : FreshAllExt w L0 nl fresh)
    (h : w.externalCommit gi remove L0 nl fresh psk ctx deliverTo = .ok (w', tr)) : OnPath w' := by
  have hi' := ginv_ext hi hok h
  obtain ⟨he, _, _, hall⟩ := ext_cases hi h
  intro m' hm'
  rcases hall m' hm' with ⟨hm, _⟩ | ⟨hcur, _⟩
  · exact holdsOnPath_ext hi hok (ho m' hm) (hf m' hm) h
  · obtain ⟨_, hk⟩ := hi'.good.2 _ (current_priv_mem hm' (by rw [hcur, he]))
    exact holdsOnPath_of_keyInv hi'.good.1.2.1 hk

/-- the Remove of an external commit takes all stamps of the party at that leaf out of the tree — whatever
epoch that party is in -/
theorem disj_removed_any_ext (hi : GInv w) (hok : ExtOk w remove L0 nl fresh) {rm : Member}
    (hp : HoldsOnPath w.tree rm.priv) (hrem : remove = some rm.priv.self)
    (hnr : NoReintroExt (keysOf rm.priv) L0 nl fresh)
    (h : w.externalCommit gi remove L0 nl fresh psk ctx deliverTo = .ok (w', tr)) :
    Disj (keysOf rm.priv) w'.tree := by
  intro st hst hm
  obtain ⟨i, N, hg, rfl⟩ := mem_keyStamps.1 hm
  obtain ⟨a, t1, N1, N0, hb, hg1, _, h3, h4⟩ := node_source_ext hi hok hnr h hg hst
  have hpos := hp _ hst i N0 h3 h4
  have hes := batchEdit_editSpec hi.good.1.1.1 hb
  have ha : a = [] := List.eq_nil_of_length_eq_zero (by simpa [extEdits] using hes.added_length)
  have hr : rm.priv.self ∈ (extEdits remove).removes := by simp [extEdits, hrem]
  rcases hpos with rfl | ⟨hodd, hbel⟩
  · have := hes.removed_leaf _ hr (by rw [ha]; simp)
    rw [hg1] at this; cases this
  · have := hes.touched_path_blank _ (List.mem_append_left _ hr) i hodd hbel
    rw [hg1] at this; cases this

end ExtCommit

/-- histories in which every new key is new for every followed party -/
inductive ReachableF : GroupWorld → Prop
  | init (l : Leaf) : ReachableF (GroupWorld.init l)
  | commit {w w' : GroupWorld} {tr : Transcript} {sender : Nat} {e : Edits} {newLeaf : Option Leaf}
      {fresh : Nat} {psk : Sec} {ctx : Nat} {deliverTo : List Nat} :
      ReachableF w → CommitOk w sender e newLeaf fresh → FreshAll w e newLeaf fresh →
      w.commit sender e newLeaf fresh psk ctx deliverTo = .ok (w', tr) → ReachableF w'
  | ext {w w' : GroupWorld} {tr : Transcript} {gi : Nat} {remove : Option Nat} {L0 nl : Leaf}
      {fresh : Nat} {psk : Sec} {ctx : Nat} {deliverTo : List Nat} :
      ReachableF w → ExtOk w remove L0 nl fresh → FreshAllExt w L0 nl fresh →
      w.externalCommit gi remove L0 nl fresh psk ctx deliverTo = .ok (w', tr) → ReachableF w'

theorem ReachableF.reachable {w : GroupWorld} (h : ReachableF w) : Reachable w := by
  induction h with
  | init l => exact .init l
  | commit _ hok _ hc ih => exact .commit ih hok hc
  | ext _ hok _ hc ih => exact .ext ih hok hc

theorem reachableF_onPath {w : GroupWorld} (h : ReachableF w) : OnPath w := by
  induction h with
  | init l =>
    intro m hm
    have : m = _ := List.mem_singleton.1 hm
    subst this
    exact holdsOnPath_of_keyInv (wf_single l).2.1 ((init_good l).2 _ (List.mem_singleton.2 rfl)).2
  | commit hr hok hf hc ih => exact onPath_commit (reachable_ginv hr.reachable) hok ih hf hc
  | ext hr hok hf hc ih => exact onPath_ext (reachable_ginv hr.reachable) hok ih hf hc

end MlsVerif.Group
