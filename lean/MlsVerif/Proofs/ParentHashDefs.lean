import MlsVerif.Model.ParentHash
import MlsVerif.Proofs.Tree
import MlsVerif.Proofs.TreeHashOps
/-
Shared definitions for the parent-hash ("TreeSync") proofs: the set-level form of the resolution
side condition, the inductive invariant `PHInv` (stronger than `PHValid`: the top-level keys of the
stored parent hashes are pairwise distinct), freshness of path keys with respect to the layer.
-/
namespace MlsVerif.ParentHash
open MlsVerif.TreeMath MlsVerif.Tree MlsVerif.TreeHash

/-- top-level key of the parent hash stored at node `i` -/
def topKey (ph : PhLayer) (i : Nat) : Option Nat := (phGet ph i).bind PH.key?

/-- every key hashed at the top level of a stored parent hash is below `b` -/
def PhKeysBelow (ph : PhLayer) (b : Nat) : Prop := ∀ i < ph.length, ∀ k ∈ topKey ph i, k < b

instance (ph : PhLayer) (b : Nat) : Decidable (PhKeysBelow ph b) := by
  unfold PhKeysBelow; infer_instance

/-- set-level form of `sideOk`: `d` is in the resolution of `c` and the other members of that
resolution are exactly the unmerged leaves of `P` below `c` -/
def SideCond (t : Tree) (P : Parent) (c d : Nat) : Prop :=
  d ∈ resolution t c ∧
  (∀ a ∈ resolution t c, a ≠ d → ∃ u ∈ P.unmerged, below u c ∧ a = 2 * u) ∧
  (∀ u ∈ P.unmerged, below u c → 2 * u ∈ resolution t c ∧ 2 * u ≠ d)

instance (t : Tree) (P : Parent) (c d : Nat) : Decidable (SideCond t P c d) := by
  unfold SideCond; infer_instance

/-- `d` is the witness of the parent `P` at `x` on the side of the child `c` (other child `s`) -/
def Wit (p : PTree) (x : Nat) (P : Parent) (c s d : Nat) : Prop :=
  phGet p.ph d = some (linkHash p x s P) ∧ SideCond p.t P c d

instance (p : PTree) (x : Nat) (P : Parent) (c s d : Nat) : Decidable (Wit p x P c s d) := by
  unfold Wit; infer_instance

/-- the invariant of honest histories -/
structure PHInv (p : PTree) : Prop where
  /-- every non-blank parent has a witness in the resolution of one of its children -/
  linked : ∀ x < p.t.length, ∀ P ∈ parentOf? (get p.t x), ∀ l ∈ left? x, ∀ r ∈ right? x,
    (∃ d ∈ resolution p.t l, Wit p x P l r d) ∨ (∃ d ∈ resolution p.t r, Wit p x P r l d)
  /-- no two nodes store parent hashes with the same top-level key -/
  keys : ∀ d < p.ph.length, ∀ d' < p.ph.length, ∀ k ∈ topKey p.ph d, k ∈ topKey p.ph d' → d = d'

instance (p : PTree) : Decidable (PHInv p) :=
  decidable_of_iff
    ((∀ x < p.t.length, ∀ P ∈ parentOf? (get p.t x), ∀ l ∈ left? x, ∀ r ∈ right? x,
      (∃ d ∈ resolution p.t l, Wit p x P l r d) ∨ (∃ d ∈ resolution p.t r, Wit p x P r l d)) ∧
     (∀ d < p.ph.length, ∀ d' < p.ph.length, ∀ k ∈ topKey p.ph d, k ∈ topKey p.ph d' → d = d'))
    ⟨fun h => ⟨h.1, h.2⟩, fun h => ⟨h.1, h.2⟩⟩

end MlsVerif.ParentHash
